"""Abstract dependency lists for the 7 manifest formats (C04 / C05), rendered by tools/render.py.
Every declared entry is (name, spec, hash|None, token) — token = the value text as written in the file (without quotes);
versions are unique within a document so that a token can be located in the text."""
import render

HEX = "0123456789abcdef"


class Uniq:
    def __init__(self, rng):
        self.rng, self.n = rng, 0

    def ver(self):
        self.n += 1
        return f"{1 + self.rng.below(9)}.{self.n}.{self.rng.below(30)}"

    def sha(self):
        self.n += 1
        return "".join(self.rng.choice(HEX) for _ in range(34)) + f"{self.n:06x}"


def npm_spec(rng, u):
    v = u.ver()
    return rng.choice([v, "^" + v, "~" + v, ">=" + v, f">={v} <{int(v[0]) + 1}.0.0", f"{v} - {int(v[0]) + 1}.0.0", f"^{v} || ^{int(v[0]) + 2}.0.0", "v" + v, v + "-beta.1"])


NAMES = ["lodash", "react", "left-pad", "@types/node", "@scope/pkg", "chalk", "a", "é-pkg", "under_score", "dot.js", "😀-pkg", "日本😀é"]   # incl. characters outside the BMP (two UTF-16 units each)


def gen_package_json(rng):
    u = Uniq(rng)
    deps, used = [], set()
    for _ in range(1 + rng.below(6)):
        sec = rng.choice(render.NPM_SECTIONS[:4] if rng.chance(5, 6) else ["overrides"])
        key = rng.choice(NAMES)
        if (sec, key) in used:
            continue
        used.add((sec, key))
        k = rng.below(12)
        if k < 7:
            s = npm_spec(rng, u); deps.append((sec, key, s, (key, s, None, s)))
        elif k < 9:
            real = rng.choice(["@scope/real", "real-pkg"]); s = npm_spec(rng, u).split(" ")[0]
            if rng.chance(1, 4):      # an alias without a version means "latest"
                tok = f"npm:{real}"; deps.append((sec, key, tok, (real, "latest", None, tok)))
            elif rng.chance(1, 3):    # the target's NAME contains the spec text (es6-promise@6, vue2@2): the spec is the last occurrence
                s = rng.choice([s.lstrip("^~>=v").split("-")[0], s.lstrip("^~>=v")[0]])
                real = rng.choice([f"es{s}-promise", f"vue{s}", f"@scope/{s}"])
                tok = f"npm:{real}@{s}"; deps.append((sec, key, tok, (real, s, None, tok)))
            else:
                tok = f"npm:{real}@{s}"; deps.append((sec, key, tok, (real, s, None, tok)))
        elif k < 10:
            deps.append((sec, key, rng.choice(["latest", "next"]), None))      # a tag: the declared spec is the tag itself
            deps[-1] = (sec, key, deps[-1][2], (key, deps[-1][2], None, deps[-1][2]))
        else:
            deps.append((sec, key, rng.choice(render.NPM_NONREG), None))      # not a registry dependency
    extras = []
    if rng.chance(1, 3):
        extras.append((rng.choice(["scripts", "engines", "resolutions", "config"]), {"node": ">=18." + str(rng.below(9)), "lodash": "9.9.9"}))
    return deps, extras


def cargo_spec(rng, u):
    v = u.ver()
    return rng.choice([v, "^" + v, "~" + v, "=" + v, ">=" + v, f">={v}, <{int(v[0]) + 1}", v.rsplit(".", 1)[0], v.rsplit(".", 1)[0] + ".*"])


CRATES = ["serde", "tokio", "rand", "anyhow", "serde_json", "tree-sitter", "x"]


def gen_cargo(rng):
    u = Uniq(rng)
    deps, used = [], set()
    for _ in range(1 + rng.below(6)):
        t = rng.choice(render.CARGO_TABLES)
        name = rng.choice(CRATES)
        if (t, name) in used:
            continue
        used.add((t, name))
        form = rng.choice(["simple", "simple", "simple", "inline", "inline2", "dotted", "path", "workspace", "dotted_ws", "registry", "git", "renamed", "subtable"])
        if rng.chance(1, 12):
            t = "target.'cfg(unix)'." + rng.choice(["dependencies", "dev-dependencies"])
        s = cargo_spec(rng, u)
        decl = (name, s, None, s) if form in ("simple", "inline", "inline2", "dotted", "renamed", "subtable") else None
        if rng.chance(1, 10) and form in ("simple", "inline", "dotted"):
            # tables that merely END in a dependency-table name (tool metadata, features): their keys are not dependencies
            t = rng.choice(NOT_DEP_TABLES)
            decl = None
        deps.append((t, name, form, s, decl))
    return deps


NOT_DEP_TABLES = ["package.metadata.bundle.dependencies", "workspace.metadata.tool.dev-dependencies", "package.metadata.deb.build-dependencies",
                  "features", "package.metadata.docs.rs", "patch.crates-io", "x.dependencies", "dependencies-extra", "target.dependencies"]


GOPATHS = ["golang.org/x/text", "github.com/a/b", "github.com/c/d/v2", "example.com/e", "gopkg.in/yaml.v3", "github.com/é/x", "example.com/😀/y"]


def gen_go(rng):
    u = Uniq(rng)
    deps, used = [], set()
    for _ in range(1 + rng.below(6)):
        form = rng.choice(["single", "block", "block", "indirect", "replace", "exclude", "retract"])
        p = rng.choice(GOPATHS)
        if p in used:
            continue
        used.add(p)
        v = "v" + u.ver()
        if rng.chance(1, 6):
            v = f"v0.0.0-2021010100{u.n:04d}-abcdef123456"
        elif rng.chance(1, 8):
            v += "+incompatible"
        decl = (p, v, None, v) if form in ("single", "block", "indirect") else None
        deps.append((form, p, v, decl))
    return deps


ACTIONS = ["actions/checkout", "actions/setup-node", "owner/repo", "docker/build-push-action", "a/b"]


def gen_workflow(rng):
    u = Uniq(rng)
    steps = []
    for _ in range(1 + rng.below(6)):
        k = rng.below(10)
        a = rng.choice(ACTIONS)
        if k < 4:
            ref = "v" + u.ver() if rng.chance(2, 3) else rng.choice(["v4", "main", "v3"]) + str(u.ver()).replace(".", "")
            steps.append(("uses", f"{a}@{ref}", None, (a, ref, None, ref)))
        elif k < 5:
            ref = "v" + u.ver()
            steps.append(("uses", f"{a}/sub/dir@{ref}", None, (a, ref, None, ref)))
        elif k < 7:
            sha, cv = u.sha(), "v" + u.ver()
            steps.append(("uses", f"{a}@{sha}", cv, (a, cv, sha, sha)))
        elif k < 8:
            sha = u.sha()
            steps.append(("uses", f"{a}@{sha}", None, (a, sha, sha, sha)))
        elif k < 9:
            # local actions and container images are not repositories - also when an '@' occurs in them (a directory name, an image digest)
            steps.append((rng.choice(["local", "docker"]), rng.choice(["./.github/actions/x", "docker://alpine:3." + str(rng.below(9)),
                                                                       "docker://alpine@sha256:" + u.sha() + u.sha()[:24], "docker://ghcr.io/owner/img@sha256:" + u.sha() + u.sha()[:24],
                                                                       "./.github/actions/x@v1", "./local/" + a + "@v2"]), None, None))
        else:
            steps.append(("run", "", None, None))
    return steps


PYPK = ["requests", "numpy", "Django", "typing-extensions", "zope.interface", "a"]


def gen_pyproject(rng):
    u = Uniq(rng)
    deps = []
    for _ in range(1 + rng.below(6)):
        sec = rng.choice(["project", "project", "build", "optional:dev", "optional:test"])
        n = rng.choice(PYPK)
        v = u.ver()
        k = rng.below(10)
        if k < 5:
            s = rng.choice([">=" + v, "==" + v, "~=" + v, f">={v},<{int(v[0]) + 1}", "!=" + v, "<=" + v,
                            f">=0.0.1,!={v},!={int(v[0]) + 1}0.0.0", f">=0.0.1,>={v}"])      # (the same operator twice: the spec starts at its FIRST operator)
            req = n + s
            deps.append((sec, req, (n, s, None, s)))
        elif k < 6:
            s = ">=" + v; req = f"{n}[extra1,extra2]{s}"; deps.append((sec, req, (n, s, None, s)))
        elif k < 7:
            s = ">=" + v
            deps.append((sec, f"{n}{s}; sys_platform != 'win32'", (n, s, None, s)))
        elif k < 8:
            deps.append((sec, n, (n, "", None, n)))
        else:
            deps.append((sec, f"{n} @ https://example.com/{n}-{v}.whl", None))
    return deps


def gen_pnpm(rng):
    u = Uniq(rng)
    deps, used = [], set()
    for _ in range(1 + rng.below(6)):
        cat = rng.choice([None, None, "legacy", "next"])
        p = rng.choice(NAMES)
        if (cat, p) in used:
            continue
        used.add((cat, p))
        s = npm_spec(rng, u).split(" ")[0]
        deps.append((cat, p, s, (p, s, None, s)))      # (the renderer quotes specs that YAML would not read as plain strings)
    return deps


def gen_deno(rng):
    u = Uniq(rng)
    deps = []
    for i in range(1 + rng.below(6)):
        k = rng.below(10)
        alias = rng.choice(["@std/path", "x", "lib/", "é"]) + str(i)
        v = u.ver()
        if k < 1:       # the package NAME contains the spec text: the spec is the last occurrence
            s = rng.choice([v, v[0]]); tok = f"jsr:@luca/flag{s}@{s}"
            deps.append((alias, tok, (f"@luca/flag{s}", s, None, tok)))
        elif k < 5:
            s = rng.choice([v, "^" + v, "~" + v]); tok = f"jsr:@std/path@{s}"
            deps.append((alias, tok, ("@std/path", s, None, tok)))
        elif k < 6:
            s = "^" + v; tok = f"jsr:@luca/flag@{s}/sub/mod.ts"
            deps.append((alias, tok, ("@luca/flag", s, None, tok)))
        elif k < 7:
            tok = "jsr:@std/fs"; deps.append((alias, tok, ("@std/fs", "latest", None, tok)))     # no version: declared as "latest"
        else:
            deps.append((alias, rng.choice([f"npm:chalk@{v}", f"https://deno.land/x/a@v{v}/mod.ts", "./local.ts"]), None))
    return deps


FORMATS = {
    "npm": (gen_package_json, lambda d, L: render.package_json(d[0], L, d[1])),
    "crates": (gen_cargo, render.cargo_toml),
    "go": (gen_go, render.go_mod),
    "gha": (gen_workflow, render.workflow),
    "pypi": (gen_pyproject, render.pyproject),
    "pnpm": (gen_pnpm, render.pnpm_workspace),
    "jsr": (gen_deno, render.deno_json),
}


def manifest(rng, eco, **force):
    gen, rend = FORMATS[eco]
    deps = gen(rng)
    L = render.lay(rng, **force)
    text, declared = rend(deps, L)
    return deps, L, text, declared


def rerender(rng, eco, deps, **force):
    L = render.lay(rng, **force)
    text, declared = FORMATS[eco][1](deps, L)
    return L, text, declared
