#!/usr/bin/env python3
"""Run every seeded change of every round against the check of its property, in parallel scratch workers
(clone of /repo + copy of /verif under /tmp/sw<i>; nothing in /repo or /verif is touched).

  seeds_parallel.py <workers>             -> /tmp/seeds_parallel.jsonl   one line per seed: dir, id, outcome
  seeds_parallel.py <workers> <dir>       -> the same file; every patch of /verif/<dir> is run against ALL 18 checks (harmless refactors)
outcome: concrete | no-failing-input | NOT-DETECTED | stale (the patch no longer applies) """
import json, os, queue, re, shutil, subprocess, sys, threading, glob

sys.path.insert(0, os.path.dirname(os.path.abspath(__file__)))
import mutate

OUT = "/tmp/seeds_parallel.jsonl"


def setup(w):
    W = f"/tmp/sw{w}"
    shutil.rmtree(W, ignore_errors=True)
    os.makedirs(W)
    mutate.sh(f"git clone -q /repo {W}/repo", "/", 300)
    mutate.sh(f"rsync -a --exclude .build --exclude .git --exclude replays /verif/ {W}/verif/ && mkdir -p {W}/verif/replays", "/", 600)
    for p, a, b in [(f"{W}/verif/harness/Cargo.toml", 'path = "/repo"', f'path = "{W}/repo"'),
                    (f"{W}/verif/harness/.cargo/config.toml", '/verif/.build/harness', f'{W}/verif/.build/harness')]:
        s = open(p).read(); assert a in s; open(p, "w").write(s.replace(a, b))
    mutate.sh("cargo build --offline", f"{W}/verif/harness", 3000)
    return W


def run_one(W, d, id_):
    repo = f"{W}/repo"
    patch = f"/verif/{d}/{id_}/patch.diff"
    rc, out = mutate.sh(f"git apply --check {patch}", repo, 60)
    if rc != 0:
        return "stale"
    mutate.sh(f"git apply {patch}", repo, 60)
    try:
        rc, out = mutate.sh(f"./check {id_} 2>&1 | grep -E '^VIOLATION|done rc' | head -6", f"{W}/verif", 2400, {"VLSP_REPO": repo})
        if "rc=0" in out or "VIOLATION" not in out:
            return "NOT-DETECTED" if "rc=" in out else "check-failed: " + out[:200]
        return "concrete" if re.search(r"^VIOLATION(?!.*no-failing-input-found)", out, re.M) else "no-failing-input"
    finally:
        mutate.sh("git checkout -q -- . ", repo, 60)
        mutate.sh("git checkout -q -- lean/Vlsp/Generated.lean lean/Vlsp/GeneratedSites.lean 2>/dev/null; rm -rf replays/*", f"{W}/verif", 60)


def run_harmless(W, d, id_):
    """a behaviour-preserving patch: ALL checks must stay silent; returns the list of checks that did not"""
    repo = f"{W}/repo"
    patch = f"/verif/{d}/{id_}/patch.diff"
    rc, out = mutate.sh(f"git apply --check {patch}", repo, 60)
    if rc != 0:
        return "stale"
    mutate.sh(f"git apply {patch}", repo, 60)
    loud = {}
    try:
        for chk in mutate.CHECKS:
            rc, out = mutate.sh(f"./check {chk} 2>&1 | grep -E '^VIOLATION|PROOF PROBLEM|extract: degraded|done rc' | head -6", f"{W}/verif", 2400, {"VLSP_REPO": repo})
            if "rc=0" not in out:
                loud[chk] = out[:300]
            elif "degraded" in out:
                loud[chk] = "rc=0, extraction degraded"
        return "silent" if not loud else loud
    finally:
        mutate.sh("git checkout -q -- . ", repo, 60)
        mutate.sh("git checkout -q -- lean/Vlsp/Generated.lean lean/Vlsp/GeneratedSites.lean 2>/dev/null; rm -rf replays/*", f"{W}/verif", 60)


def main():
    workers = int(sys.argv[1])
    harmless_dir = sys.argv[2] if len(sys.argv) > 2 else None        # e.g. harmless2: run ALL checks on each patch of /verif/<dir>
    jobs = queue.Queue()
    if harmless_dir:
        global run_one
        run_one = run_harmless
        for p in sorted(glob.glob(f"/verif/{harmless_dir}/*/patch.diff")):
            jobs.put((harmless_dir, os.path.basename(os.path.dirname(p))))
    for d in sorted(x for x in os.listdir("/verif") if x.startswith("seeded") and not harmless_dir):
        for p in sorted(glob.glob(f"/verif/{d}/C*/patch.diff")):
            jobs.put((d, os.path.basename(os.path.dirname(p))))
    open(OUT, "w").close()
    Ws = [setup(w) for w in range(workers)]
    lock = threading.Lock()

    def work(W):
        while True:
            try: d, id_ = jobs.get_nowait()
            except queue.Empty: return
            r = run_one(W, d, id_)
            with lock:
                open(OUT, "a").write(json.dumps({"dir": d, "id": id_, "outcome": r}) + "\n")
    ts = [threading.Thread(target=work, args=(W,)) for W in Ws]
    for t in ts: t.start()
    for t in ts: t.join()
    for W in Ws: shutil.rmtree(W, ignore_errors=True)


if __name__ == "__main__":
    main()
