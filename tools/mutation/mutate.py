#!/usr/bin/env python3
"""Mechanical mutation run (a development aid, not a registered check).

  mutate.py list                      enumerate candidate mutants of /repo/src (non-test code), one per line
  mutate.py run <N> <workers> <seed>  sample N candidates, and for each, in a scratch worker (clone of /repo + copy of /verif
                                      under /tmp/mw<i>): apply it, build, run the repository's own 582 tests; a mutant the tests
                                      do NOT kill is handed to all 18 quick checks; results -> /tmp/mutation/results.jsonl

A mutant that survives the tests AND the checks is either equivalent or a gap of the checks: those are the ones to look at.
Scratch directories are removed at the end."""
import json, os, random, re, shutil, subprocess, sys, time
from concurrent.futures import ThreadPoolExecutor

REPO = "/repo"
VERIF = "/verif"
OUT = "/tmp/mutation"
CHECKS = [f"C{i:02d}" for i in range(1, 19)]

OPS = [
    ("rel", r" < ", " <= "), ("rel", r" <= ", " < "), ("rel", r" > ", " >= "), ("rel", r" >= ", " > "),
    ("eq", r" == ", " != "), ("eq", r" != ", " == "),
    ("bool", r" && ", " || "), ("bool", r" \|\| ", " && "),
    ("off1", r" \+ 1\b", " + 0"), ("off1", r" - 1\b", " - 0"), ("off1", r" \+ 1\b", " + 2"),
    ("find", r"\.find\(", ".rfind("), ("find", r"\.rfind\(", ".find("),
    ("const", r"\btrue\b", "false"), ("const", r"\bfalse\b", "true"),
    ("minmax", r"\.max\(", ".min("), ("minmax", r"\.min\(", ".max("),
    ("affix", r"starts_with", "ends_with"), ("affix", r"ends_with", "starts_with"),
    ("trim", r"\.trim\(\)", ""), ("trim", r"\.trim_start\(\)", ""), ("trim", r"\.trim_end\(\)", ""),
    ("neg", r"\bif !", "if "), ("neg", r"&& !", "&& "),
    ("opt", r"\.is_some\(\)", ".is_none()"), ("opt", r"\.is_none\(\)", ".is_some()"), ("opt", r"\.is_ok\(\)", ".is_err()"),
    ("opt", r"\.is_empty\(\)", ".is_empty() == false"),
    ("ends", r"\.first\(\)", ".last()"), ("ends", r"\.last\(\)", ".first()"), ("ends", r"\.rev\(\)", ""),
    ("order", r"a\.cmp\(b\)", "b.cmp(a)"),
    ("num", r"\b30_000\b", "3_000"), ("num", r"\b14\b", "13"), ("num", r"\b40\b", "39"), ("num", r"\b20\b", "2"), ("num", r"(?<![\w.])0\b(?!\.)", "1"), ("num", r"(?<![\w.])1\b(?!\.)", "2"),
    ("ret", r"return None;", "{}"), ("ret", r"\bcontinue;", "{}"),
    ("q", r"\)\?;", ").ok();"),
]


def non_test_lines(path):
    src = open(path).read().split("\n")
    out, depth_test = [], None
    for i, l in enumerate(src):
        if re.match(r"\s*#\[cfg\(test\)\]", l):
            break          # test modules are at the end of each file in this repository
        out.append((i, l))
    return src, out


def candidates():
    import glob
    cands = []
    for fn in sorted(glob.glob(os.path.join(REPO, "src/**/*.rs"), recursive=True)):
        rel = os.path.relpath(fn, REPO)
        if rel in ("src/verif.rs", "src/main.rs", "src/log.rs"):
            continue
        src, lines = non_test_lines(fn)
        for i, l in lines:
            st = l.strip()
            if not st or st.startswith(("//", "#[", "use ", "pub use", "mod ", "pub mod")) or "vlsp_verif" in l or "crate::verif::" in l:
                continue
            if re.search(r"\b(debug|info|warn|error|trace)!\(", l) or st.startswith(('"', "r#")):
                continue
            code = re.sub(r'"(?:[^"\\]|\\.)*"', lambda m: '"' + "\x00" * (len(m.group(0)) - 2) + '"', l)       # keep string literals out
            code = code.split("//")[0]
            for kind, pat, rep in OPS:
                for m in re.finditer(pat, code):
                    new = l[:m.start()] + rep + l[m.end():]
                    if new != l:
                        cands.append({"file": rel, "line": i + 1, "kind": kind, "old": l.strip(), "new": new.strip(), "col": m.start(), "rep": rep, "len": m.end() - m.start()})
    return cands


def sh(cmd, cwd, timeout, env=None):
    e = dict(os.environ); e["CARGO_NET_OFFLINE"] = "true"
    if env: e.update(env)
    try:
        p = subprocess.run(cmd, cwd=cwd, shell=True, capture_output=True, text=True, timeout=timeout, env=e)
        return p.returncode, p.stdout + p.stderr
    except subprocess.TimeoutExpired:
        return 124, "TIMEOUT"


def setup_worker(w):
    W = f"/tmp/mw{w}"
    shutil.rmtree(W, ignore_errors=True)
    os.makedirs(W)
    sh(f"git clone -q {REPO} {W}/repo", "/", 300)
    sh(f"rsync -a --exclude .build --exclude .git --exclude 'seeded*' --exclude harmless --exclude replays {VERIF}/ {W}/verif/ && mkdir -p {W}/verif/replays", "/", 600)
    for p, a, b in [(f"{W}/verif/harness/Cargo.toml", 'path = "/repo"', f'path = "{W}/repo"'),
                    (f"{W}/verif/harness/.cargo/config.toml", '/verif/.build/harness', f'{W}/verif/.build/harness')]:
        s = open(p).read(); assert a in s; open(p, "w").write(s.replace(a, b))
    # warm both builds
    sh("cargo test --workspace --no-run --offline", f"{W}/repo", 3000, {"CARGO_TARGET_DIR": f"{W}/target"})
    sh("cargo build --offline", f"{W}/verif/harness", 3000)
    return W


def run_one(W, c):
    repo = f"{W}/repo"
    path = os.path.join(repo, c["file"])
    src = open(path).read().split("\n")
    l = src[c["line"] - 1]
    src[c["line"] - 1] = l[:c["col"]] + c["rep"] + l[c["col"] + c["len"]:]
    open(path, "w").write("\n".join(src))
    res = dict(c)
    try:
        rc, out = sh("cargo build --offline 2>&1 | tail -5", repo, 1200, {"CARGO_TARGET_DIR": f"{W}/target"})
        if "error" in out and "Finished" not in out:
            res["outcome"] = "stillborn"; return res
        rc, out = sh("cargo test --workspace --no-fail-fast --offline 2>&1 | grep -E '^test result|^error|panicked' | head -40", repo, 1500, {"CARGO_TARGET_DIR": f"{W}/target"})
        failed = sum(int(x) for x in re.findall(r"(\d+) failed", out))
        passed = sum(int(x) for x in re.findall(r"(\d+) passed", out))
        if rc == 124 or failed > 0 or passed < 582:
            res["outcome"] = "killed-by-tests"; res["tests"] = [passed, failed]; return res
        killers = {}
        for chk in CHECKS:
            rc, out = sh(f"./check {chk} 2>&1 | grep -E '^VIOLATION|PROOF PROBLEM|done rc' | head -4", f"{W}/verif", 1800, {"VLSP_REPO": repo})
            if "rc=0" not in out:
                killers[chk] = "concrete" if re.search(r"^VIOLATION(?!.*no-failing-input-found)", out, re.M) else "no-failing-input"
        res["outcome"] = "killed-by-checks" if killers else "SURVIVED"
        res["killers"] = killers
        return res
    finally:
        sh("git checkout -q -- . ", repo, 60)
        sh("git checkout -q -- lean/Vlsp/Generated.lean lean/Vlsp/GeneratedSites.lean 2>/dev/null; rm -rf replays/*; git checkout -q -- replays 2>/dev/null", f"{W}/verif", 60)


def main():
    if sys.argv[1] == "list":
        for c in candidates():
            print(json.dumps(c))
        return
    n, workers, seed = int(sys.argv[2]), int(sys.argv[3]), int(sys.argv[4])
    cands = candidates()
    rnd = random.Random(seed)
    # stratify by file: round-robin over shuffled per-file lists
    byf = {}
    for c in cands:
        byf.setdefault(c["file"], []).append(c)
    for f in byf: rnd.shuffle(byf[f])
    files = sorted(byf); rnd.shuffle(files)
    pick = []
    while len(pick) < n and any(byf.values()):
        for f in files:
            if byf[f] and len(pick) < n:
                pick.append(byf[f].pop())
    os.makedirs(OUT, exist_ok=True)
    Ws = [setup_worker(w) for w in range(workers)]
    import queue, threading
    q = queue.Queue()
    for c in pick: q.put(c)
    lock = threading.Lock()

    def work(W):
        while True:
            try: c = q.get_nowait()
            except queue.Empty: return
            t0 = time.time()
            r = run_one(W, c); r["secs"] = round(time.time() - t0)
            with lock:
                open(os.path.join(OUT, "results.jsonl"), "a").write(json.dumps(r) + "\n")
    ts = [threading.Thread(target=work, args=(W,)) for W in Ws]
    for t in ts: t.start()
    for t in ts: t.join()
    for W in Ws: shutil.rmtree(W, ignore_errors=True)


if __name__ == "__main__":
    main()
