#!/usr/bin/env python3
"""Regenerates /verif/MANIFEST.json from the table below (keeps it valid at all times)."""
import json, os
V = os.path.dirname(os.path.dirname(os.path.abspath(__file__)))
TECH = "Lean 4 proof over a model with tables regenerated from source + differential correspondence (real code vs compiled Lean driver) + search against executable Lean spec"
CLAIMED = {
 "C16": ("4.16",
  "Theorem c16_iff (Lean 4, all strings, both directions): the model of detect_parser_type classifies a URI as ecosystem k iff the URI names a supported manifest of k (declarative spec); corollaries: none iff unsupported, functional (never another ecosystem's rules), workflow priority, executable spec = model; at the server level (Props/C16Server.lean, over the backend model of C13/C14/C18): c16_unsupported_silent (for a URI that names no supported manifest an edit publishes nothing, starts no fetch, changes no cache row, remembers no package, and no code action is offered - whatever the text and the server state), c16_own_rules (a supported document of ecosystem k is published once per edit with the diagnosis of k's registry rows), c16_publishes_only_own_uri; c16_tables_consistent (kernel-evaluated over the tables regenerated from the source: RegistryType::as_str and from_str are inverse, every detectable kind is a known registry type with exactly one documented registries.<key>.enabled switch, no switch names an unknown kind) and c16_detected_has_switch. Tables regenerated from src/parser/types.rs on every run; model run against the real detect_parser_type on 7k-60k generated URIs (full product of prefixes x look-alike names).",
  "Trusted: Lean kernel; tools/extract.py pattern extraction of the suffix/dir tables; Text.lean model of str::ends_with/contains/match_indices (validated by the correspondence stream). The resolver-table consistency (parser/matcher/registry of one ecosystem) is tied by correspondence only; the backend model used by the server-level corollaries is tied to the real Backend by the C13, C14 and C18 streams (supported documents of every ecosystem; the C18 stream also opens and edits an unsupported readme.md)."),
 "C03": ("4.3",
  "Theorems over all version lists (Lean 4): tag wins; result is a member; never a prerelease when ignored; SemVer-highest among kept (c03_is_max); none iff nothing kept; c03_set_invariant: any two fill histories leaving the same SET of version strings (any order, batching, repetition) give cmp-equal latest — proved from the total-preorder instance of the semver Ord model (core TransCmp combinators); monotonicity: c03_grow_mono / c03_append_mono (a superset of version strings never yields a SemVer-lower latest), c03_ignore_le (ignoring prereleases never raises the answer), c03_setting_irrelevant_on_stable; over whole cache HISTORIES (Props/C03History.lean, corollaries of the C08 refinement): c03_history (two arbitrary operation histories - any order, batching, claims, marks, re-opens, other packages and registries interleaved - that stored the same set of versions and the same last non-empty tag map under a key give the same latest: same string when it is the tag, cmp-equal otherwise), c03_isolation (operations on other packages or on the same name under another registry never change it), c03_history_mono. Executable acceptance predicate proved to accept the model (c03_acceptable) and used to judge the real get_latest_version on real SQLite rows for random fill histories, plus metamorphic order pairs.",
  "Trusted: Lean kernel; semver crate parse/Ord re-modelled in Model/Semver.lean (tied by the semver correspondence stream, 166k cases); SQLite row order treated as arbitrary (model applied to rows actually read). History-level statements (c03_history, c03_isolation) rest on the relational cache model of C08, tied to the real SQLite cache by the C08 and C03 correspondence streams."),
}
PENDING_REASON = "check under construction in this session (model/theorems not yet committed); will be claimed once its theorem file, correspondence stream and evidence exist"

def chk(pid, ref, text, note):
    return {"property_id": pid, "quick_cmd": f"./check {pid} --tier quick", "thorough_cmd": f"./check {pid} --tier thorough",
            "evidence_file": f"/verif/evidence/{pid}.json", "replay_cmd_template": f"./check {pid} --replay {{path}}",
            "engine": "lean-proof+correspondence",
            "level_claimed": {"category": "proof", "text": text, "design_ref": ref}, "level_note": note, "technique": TECH}

def main():
    extra = {}
    p = os.path.join(V, "tools", "manifest_entries.json")
    if os.path.exists(p):
        extra = json.load(open(p))
    claimed = dict(CLAIMED)
    for k, v in extra.items():
        claimed[k] = tuple(v)
    ids = [json.loads(l)["id"] for l in open(os.path.join(V, "properties.jsonl"))]
    hooks_commits = json.load(open(os.path.join(V, "tools", "hook_commits.json"))) if os.path.exists(os.path.join(V, "tools", "hook_commits.json")) else []
    m = {
        "version": 1, "setup_cmd": "./setup.sh",
        "hooks": {"guard": "vlsp_verif",
                  "enable": "RUSTFLAGS='--cfg vlsp_verif' (set for the harness in /verif/harness/.cargo/config.toml; /repo is built as a path dependency of the harness)",
                  "baseline_off_cmd": "cd /repo && cargo test --workspace --no-fail-fast --offline",
                  "source_commits": hooks_commits, "add_only": True},
        "engines": [{"name": "lean-proof+correspondence", "path": "/verif/check", "serves_properties": sorted(claimed),
                     "kind_free_text": "Lean 4 theorems about a hand-written model (lean/Vlsp) whose tables are regenerated from /repo on every run; differential correspondence between the real Rust code (harness/) and the compiled Lean driver; search against the executable Lean spec when either breaks"}],
        "checks": [chk(pid, *claimed[pid]) for pid in ids if pid in claimed],
        "notes": "See DESIGN.md. Each check: extract tables -> lake build theorems + #print axioms audit -> cargo build harness against /repo working tree (--cfg vlsp_verif) -> correspondence streams (impl vs model) and impl vs executable spec -> evidence. Known defects: KNOWN_FINDINGS.json.",
        "not_applicable": [{"property_id": p, "reason": PENDING_REASON} for p in ids if p not in claimed],
    }
    json.dump(m, open(os.path.join(V, "MANIFEST.json"), "w"), indent=1)

if __name__ == "__main__":
    main()
