"""Shared machinery for /verif/check: build steps, line-protocol runners, diffing,
evidence writing.  Python 3 standard library only."""
import hashlib, json, os, re, subprocess, sys, time

VERIF = os.path.dirname(os.path.dirname(os.path.abspath(__file__)))
REPO = os.environ.get("VLSP_REPO", "/repo")
LEAN = os.path.join(VERIF, "lean")
HARNESS = os.path.join(VERIF, "harness")
BUILD = os.path.join(VERIF, ".build")
VH = os.path.join(BUILD, "harness", "debug", "vh")
DRIVER = os.path.join(LEAN, ".lake", "build", "bin", "driver")
ALLOWED_AXIOMS = {"propext", "Classical.choice", "Quot.sound"}
FORBIDDEN = re.compile(
    r"\bsorry\b|\badmit\b|^\s*axiom\s|native_decide|bv_decide|implemented_by|\bunsafe\s|maxHeartbeats\s+0\b|^\s*partial\s",
    re.M)

ENV = dict(os.environ)
ENV["CARGO_NET_OFFLINE"] = "true"


def hx(s):
    return s.encode("utf-8").hex()


def unhx(h):
    return bytes.fromhex(h).decode("utf-8")


def line(op, *fields):
    return "\t".join([op] + [hx(f) for f in fields])


class SplitMix64:
    """The single PRNG every generator draws from (seeded by VERIF_SEED)."""

    def __init__(self, seed):
        self.s = seed & 0xFFFFFFFFFFFFFFFF

    def next(self):
        self.s = (self.s + 0x9E3779B97F4A7C15) & 0xFFFFFFFFFFFFFFFF
        z = self.s
        z = ((z ^ (z >> 30)) * 0xBF58476D1CE4E5B9) & 0xFFFFFFFFFFFFFFFF
        z = ((z ^ (z >> 27)) * 0x94D049BB133111EB) & 0xFFFFFFFFFFFFFFFF
        return z ^ (z >> 31)

    def below(self, n):
        return self.next() % n

    def choice(self, xs):
        return xs[self.below(len(xs))]

    def chance(self, num, den):
        return self.below(den) < num

    def shuffle(self, xs):
        xs = list(xs)
        for i in range(len(xs) - 1, 0, -1):
            j = self.below(i + 1)
            xs[i], xs[j] = xs[j], xs[i]
        return xs

    def sample(self, xs, k):
        return self.shuffle(xs)[:k]


def run(cmd, cwd=None, timeout=None, inp=None):
    t = time.time()
    p = subprocess.run(cmd, cwd=cwd, env=ENV, input=inp, stdout=subprocess.PIPE,
                       stderr=subprocess.STDOUT, timeout=timeout)
    return p.returncode, p.stdout.decode("utf-8", "replace"), time.time() - t


# ---------------------------------------------------------------- build steps

def extract():
    """Regenerate Vlsp/Generated.lean from /repo's working tree."""
    sys.path.insert(0, os.path.join(VERIF, "tools"))
    import extract as ex
    return ex.main(REPO, os.path.join(LEAN, "Vlsp", "Generated.lean"))


def lake_build(targets):
    rc, out, dt = run(["lake", "build"] + targets, cwd=LEAN, timeout=3000)
    return rc == 0, out, dt


def cargo_build():
    rc, out, dt = run(["cargo", "build", "--offline"], cwd=HARNESS, timeout=3000)
    return rc == 0, out, dt


def strip_comments(src):
    # remove /- ... -/ (nested) and -- line comments
    out, depth, i = [], 0, 0
    while i < len(src):
        if src.startswith("/-", i):
            depth += 1; i += 2; continue
        if depth and src.startswith("-/", i):
            depth -= 1; i += 2; continue
        if depth:
            i += 1; continue
        if src.startswith("--", i):
            while i < len(src) and src[i] != "\n":
                i += 1
            continue
        out.append(src[i]); i += 1
    return "".join(out)


def forbidden_scan(files):
    hits = []
    for f in files:
        src = strip_comments(open(f).read())
        for m in FORBIDDEN.finditer(src):
            ln = src.count("\n", 0, m.start()) + 1
            hits.append(f"{os.path.relpath(f, VERIF)}:{ln}: {m.group(0).strip()}")
    return hits


THM_RE = re.compile(r"^\s*(?:@\[[^\]]*\]\s*)?(?:private\s+|protected\s+)?theorem\s+([A-Za-z_][A-Za-z0-9_'.]*)", re.M)
NS_RE = re.compile(r"^\s*namespace\s+([A-Za-z0-9_.]+)", re.M)


def theorems_in(path):
    """Theorem names (fully qualified, assuming one top-level namespace chain) in a Props file."""
    src = strip_comments(open(path).read())
    names = []
    ns = []
    for ln in src.splitlines():
        m = re.match(r"\s*namespace\s+([A-Za-z0-9_.]+)", ln)
        if m:
            ns.append(m.group(1)); continue
        m = re.match(r"\s*end\s+([A-Za-z0-9_.]+)\s*$", ln)
        if m and ns and ns[-1] == m.group(1):
            ns.pop(); continue
        m = THM_RE.match(ln)
        if m:
            names.append(".".join(ns + [m.group(1)]))
    return names


def audit(prop, modules):
    """#print axioms on every theorem of the given Props modules.
    Returns (obligations, discharged, details, log)."""
    os.makedirs(os.path.join(LEAN, ".audit"), exist_ok=True)
    thms = []
    for mod in modules:
        path = os.path.join(LEAN, mod.replace(".", "/") + ".lean")
        thms += theorems_in(path)
    src = "".join(f"import {m}\n" for m in modules) + "".join(f"#print axioms {t}\n" for t in thms)
    f = os.path.join(LEAN, ".audit", f"{prop}.lean")
    open(f, "w").write(src)
    rc, out, dt = run(["lake", "env", "lean", f], cwd=LEAN, timeout=3000)
    details = {}
    for m in re.finditer(r"'([^']+)' depends on axioms: \[([^\]]*)\]", out):
        details[m.group(1)] = [a.strip() for a in m.group(2).replace("\n", " ").split(",") if a.strip()]
    for m in re.finditer(r"'([^']+)' does not depend on any axioms", out):
        details[m.group(1)] = []
    discharged = [t for t in thms if t in details and set(details[t]) <= ALLOWED_AXIOMS]
    return thms, discharged, details, out


# ------------------------------------------------------------ line protocols

def run_lines(exe, lines, timeout=3000):
    inp = ("\n".join(lines) + "\n").encode()
    p = subprocess.run([exe, "serve"], input=inp, stdout=subprocess.PIPE, stderr=subprocess.PIPE,
                       env=ENV, timeout=timeout)
    out = p.stdout.decode("utf-8", "replace").split("\n")
    if out and out[-1] == "":
        out.pop()
    return p.returncode, out, p.stderr.decode("utf-8", "replace")


ABORT_SIGS = {}      # request line -> last stderr line of the process that died on it


def run_impl(lines, timeout=3000):
    """Run the real code.  A hard crash (abort) is located by bisection."""
    rc, out, err = run_lines(VH, lines, timeout)
    if len(out) == len(lines):
        return out
    # the process died at line len(out): record, continue after it
    res = out + ["HANG" if "HANG" in err[-200:] else "ABORT"]
    tail = [l for l in err.strip().split("\n") if l.strip()]
    ABORT_SIGS[lines[len(out)]] = tail[-1][:300] if tail else ""
    rest = lines[len(out) + 1:]
    if rest:
        res += run_impl(rest, timeout)
    return res


def run_model(lines, timeout=3000):
    rc, out, err = run_lines(DRIVER, lines, timeout)
    if len(out) != len(lines):
        raise RuntimeError(f"driver produced {len(out)} lines for {len(lines)} requests: {err[:500]}")
    return out


def decode_line(l):
    parts = l.split("\t")
    try:
        return [parts[0]] + [unhx(p) for p in parts[1:]]
    except Exception:
        return parts


# ------------------------------------------------------------------ evidence

def write_evidence(prop, tier, seed, coverage, assumptions, wall_s, violations):
    ev = {
        "property_id": prop, "tier": tier, "seed": seed, "level": "proof",
        "coverage": coverage, "assumptions": assumptions,
        "wall_s": round(wall_s, 2), "violations": violations,
    }
    os.makedirs(os.path.join(VERIF, "evidence"), exist_ok=True)
    with open(os.path.join(VERIF, "evidence", f"{prop}.json"), "w") as f:
        json.dump(ev, f, indent=1, ensure_ascii=False, sort_keys=True)
        f.write("\n")


def write_replay(prop, payload):
    d = os.path.join(VERIF, "replays", prop)
    os.makedirs(d, exist_ok=True)
    blob = json.dumps(payload, indent=1, ensure_ascii=False, sort_keys=True)
    h = hashlib.sha1(blob.encode()).hexdigest()[:12]
    p = os.path.join(d, f"{h}.json")
    open(p, "w").write(blob + "\n")
    return p


def load_known_findings(prop):
    p = os.path.join(VERIF, "KNOWN_FINDINGS.json")
    if not os.path.exists(p):
        return []
    return [f for f in json.load(open(p))["findings"] if f["property"] == prop]
