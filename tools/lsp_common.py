"""helpers for the LSP-level streams (C13, C14, C18, C06)"""
import vlib


def pkgs_fields(parse_out):
    """convert the harness's l.parse output into ml.edit fields"""
    items = [x for x in parse_out.split(";") if x]
    f = [str(len(items))]
    for it in items:
        name, ver, hsh, so, eo, line, col, extra = it.split("|")
        f += [vlib.unhx(name), vlib.unhx(ver), ("S" + vlib.unhx(hsh[1:])) if hsh != "-" else "-", so, eo, line, col]
        if extra == "-":
            f += ["-", "0", "0"]
        else:
            t, cs, ce = extra[1:].split(":")
            f += ["S" + vlib.unhx(t), cs, ce]
    return f


def canon_msgs(out):
    """server->client traffic of one step, with configuration parse errors cut to their fixed prefix"""
    parts = [p.strip() for p in out.split(" ; ")]
    res = []
    for p in parts:
        if p.startswith("show error "):
            msg = vlib.unhx(p.split(" ")[2])
            if msg.startswith("Failed to parse configuration"):
                p = "show error " + vlib.hx("Failed to parse configuration")
        res.append(p)
    # publications made by one step for SEVERAL documents come out in hash-map order: canonical order = sorted
    pubs = sorted(x for x in res if x.startswith("pub "))
    it = iter(pubs)
    res = [next(it) if x.startswith("pub ") else x for x in res]
    return " ; ".join(res)


def to_model_lines(impl_lines, impl_out, prod_store=None):
    """build the ml.* scenario for the Lean server model from an l.* scenario and the real parser's outputs.
    prod_store(path) -> bool: whether, by construction of the scenario, the production constructor must find a usable cache there"""
    ml, exp, idx = [], [], []
    last_parse = None
    fresh = True
    for i, (l, o) in enumerate(zip(impl_lines, impl_out)):
        f = vlib.decode_line(l)
        op = f[0]
        if op == "l.parse":
            last_parse = o; continue
        if op == "l.startprod":
            st = "T" if prod_store(f[1]) else "F"
            ml.append(vlib.line("ml.start", "T", st, "") if fresh else vlib.line("ml.restart", st))
            exp.append(o); idx.append(i); fresh = False
            continue
        if op == "l.startfaulty":
            ml.append(vlib.line("ml.start", f[1], "T", f[2])); exp.append(o); idx.append(i); fresh = False
            continue
        if op == "l.startfile":
            ml.append(vlib.line("ml.start", "T", "T", "") if fresh else vlib.line("ml.restart", "T")); exp.append(o); idx.append(i); fresh = False
            continue
        if op in ("l.open", "l.change"):
            ml.append(vlib.line("ml.edit", f[1], *pkgs_fields(last_parse), f[2]))      # last field: the document text (code actions)
        elif op == "l.init":
            ml.append(vlib.line("ml.init", *f[1:]))
        elif op == "l.initlate":
            ml.append(vlib.line("ml.init", *f[2:]))       # a slow client changes nothing: the refresh waits for the answer
        elif op in ("l.start", "l.config", "l.cache", "l.tags", "l.now", "l.close", "l.action", "l.reply", "l.settle", "l.dump"):
            ml.append(vlib.line("m" + op, *f[1:]))
        else:
            continue
        exp.append(o); idx.append(i)
    return ml, exp, idx
