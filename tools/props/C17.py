"""C17 — a hash-pinned action is bumped to the commit its new tag really points to."""
from runner import Stream
import vlib, render

PROP_MODULES = ["Vlsp.Props.C17"]
RULE = ("(a) synthetic hash-pinned PackageInfo (with comment / without / comment with extra text) x cached release sets x "
        "tag->commit maps (tags that are prefixes of each other, missing tags, an error injected at each individual lookup) -> real "
        "generate_bump_code_actions_with_sha with a scripted TagShaFetcher vs the Lean model, incl. the lookups issued; "
        "(b) workflow documents with hash-pinned steps (several steps, sub-path actions, extra comment text) parsed by the real parser, "
        "every edit applied and re-parsed: hash must be the commit scripted for exactly the advertised tag, comment must be that tag, "
        "nothing offered when its lookup fails; (c) GitHubRegistry::fetch_tag_sha against a local scripted HTTP server. "
        "non-trivial = at least one lookup issued; distinct by (pin shape, releases, tag map)")
ASSUMPTIONS = ["the commit -> tag lookup is a parameter of the model (scripted in the harness)", "the first page of /tags is all that fetch_tag_sha reads (C15 records pagination)"]

H1 = "8e5e7e5ab8b370d6c329ec480221332ada57f0ab"
RELEASES = [["v4.1.6", "v4.2.0", "v4.2.1", "v5.0.0"], ["v4.1.6"], ["v4.1.6", "v4.1.7"], ["v4", "v4.1.6", "v5"], []]
TAGMAPS = [
    ["v4.2.0", "a" * 40, "v4.2.0-rc.1", "b" * 40, "v4.2.1", "c" * 40, "v5.0.0", "d" * 40, "v4.1.7", "e" * 40, "v5", "f" * 40],
    ["v4.2.1", "c" * 40, "v5.0.0", "ERR", "v4.1.7", "e" * 40],
    ["v4.2.10", "9" * 40, "v5.0.0-beta", "8" * 40],
    [],
    ["v4.2.1", "ERR", "v5.0.0", "d" * 40, "v4.1.7", "ERR"],
    # comments written without the "v": the advertised tag is the unprefixed one, and only ITS commit may be used
    ["4.2.1", "7" * 40, "v4.2.1", "c" * 40, "v5.0.0", "d" * 40, "v4.1.7", "e" * 40, "5.0.0", "ERR"],
    ["v4.2.1", "c" * 40, "v5.0.0", "d" * 40, "v4.1.7", "e" * 40, "v5", "f" * 40],
]


def streams(ctx):
    rng, tier = ctx["rng"], ctx["tier"]
    cases = []
    shapes = [("v4.1.6", ("v4.1.6", 71, 77)), (H1, None), ("v4.1.6 pinned", ("v4.1.6 pinned", 71, 84)), ("4.1.6", ("4.1.6", 71, 76)),
              ("v4", ("v4", 71, 73))]
    for ver, extra in shapes:
        for rel in RELEASES:
            for tm in TAGMAPS:
                for ltag in ["-"]:
                    # (the cursor sits on the second character of the value: inside it however short the version text is)
                    f = ["gha", "3", "21", ltag, str(len(rel))] + rel + ["1", "actions/checkout", ver, "S" + H1, "30", "70", "3", "20"]
                    f += (["S" + extra[0], str(extra[1]), str(extra[2])] if extra else ["-", "0", "0"])
                    f += [str(len(tm) // 2)] + tm
                    cases.append({"req": vlib.line("ca.run", *f), "tag": (ver, tuple(rel), tuple(tm))})
    st_a = Stream("hash-actions-synthetic", cases, nontrivial=lambda c, o: "calls=[]" not in o)

    # (b) documents
    dcases = []
    docs = []
    for comment in ("v4.1.6", None, "v4.1.6 pinned", "v4", "4.1.6"):
        for rel in RELEASES[:4]:
            for tm in TAGMAPS:
                L = render.lay(rng, nonascii=False, crlf=False, quote=rng.choice(["", "", '"', "'"]), blank=rng.chance(1, 2), comment=False,
                               cgap=[" # ", "  # ", "\t# ", " #", "   #  "][len(docs) % 5])      # every spelling of the gap around '#', in turn
                docs.append(1)
                steps = [("uses", "actions/setup-node@v3", None, ("actions/setup-node", "v3", None)),
                         ("uses", f"actions/checkout@{H1}", comment, ("actions/checkout", comment or H1, H1)),
                         ("uses", f"actions/aws/ec2@{'1' * 40}", "v4.1.6", ("actions/aws", "v4.1.6", "1" * 40))]
                text, declared = render.workflow(steps, L)
                lines = text.split("\n")
                for li, ln in enumerate(lines):
                    if H1 in ln:
                        for ch in (ln.find(H1) + 3, ln.find("#") + 3 if "#" in ln else 5):
                            f = ["gha", text, str(li), str(ch), "-", str(len(rel))] + rel + [str(len(tm) // 2)] + tm
                            dcases.append({"req": vlib.line("ca.doc", *f), "tag": (comment, tuple(rel), tuple(tm), ch), "tm": tm, "rel": rel, "comment": comment})

    def derive(cs, impl):
        der = []
        for i, (c, o) in enumerate(zip(cs, impl)):
            parts = [x.strip() for x in o.split("#")]
            if len(parts) < 3:
                der.append({"req": vlib.line("bump.due", "patch", "1.0.0"), "index": i,
                            "check": (lambda out, o=o: ("violation", "request failed: " + o[:200]))})
                continue
            plist = [tuple(x.split("=")) for x in parts[0].split(";")] if parts[0] else []
            if parts[1] == "-":
                continue
            idx = int(parts[1])
            tmap = {c["tm"][k]: c["tm"][k + 1] for k in range(0, len(c["tm"]), 2)}
            for a in [x for x in parts[2:] if x]:
                head, re_ = [x.strip() for x in a.split("=>")]
                title, l1, c1, l2, c2, newtext = head.split("|")[:6]
                title, newtext = vlib.unhx(title), vlib.unhx(newtext)
                tag = title.split(": ", 1)[1] if ": " in title else "?"
                sha = newtext.split(" # ")[0]
                prob = None
                if tmap.get(tag) in (None, "ERR"):
                    prob = f"a bump to {tag!r} was offered although the commit of that tag could not be obtained"
                elif sha != tmap[tag]:
                    prob = f"the bump to {tag!r} inserts commit {sha[:8]}…, but the registry reports {tmap[tag][:8]}… for that tag"
                elif c["comment"] is not None and newtext != f"{tmap[tag]} # {tag}":
                    prob = f"hash and comment are not rewritten together: {newtext!r}"
                else:
                    got = [tuple(x.split("=")) for x in re_.split(";")] if "=" in re_ else re_
                    exp = list(plist)
                    newver = tag if c["comment"] is not None else sha
                    exp[idx] = (plist[idx][0], vlib.hx(newver), "S" + vlib.hx(sha))
                    if got != exp:
                        prob = f"after the edit the step reads {got!r}, expected hash {sha[:8]}… with comment {tag!r}"
                if prob:
                    der.append({"req": vlib.line("bump.due", "patch", "1.0.0"), "index": i, "history": [c["req"]],
                                "check": (lambda out, prob=prob: ("violation", prob))})
        return der
    st_b = Stream("hash-actions-doc", dcases, nontrivial=lambda c, o: "=>" in o, derive=derive, model_eq=lambda i, m: True,
                  shrinkable=False, nt_on_impl=True)
    # (c) the real GitHubRegistry::fetch_tag_sha against the scripted HTTP server
    import json as _json
    hc = []
    TAGLISTS = [[("v4.2.0-rc.1", "a" * 40), ("v4.2.0", "b" * 40), ("v4.1.6", "c" * 40)], [("v4.2.0", "b" * 40)], [("v4.2.0-rc.1", "a" * 40)], [],
                [("v4", "1" * 40), ("v4.2", "2" * 40), ("v4.2.0", "3" * 40)], [("V4.2.0", "9" * 40)],
                # tag names that differ only by a leading 'v' (both published, different commits; only the twin published)
                [("4.2.0", "7" * 40), ("v4.2.0", "b" * 40)], [("4.2.0", "7" * 40)], [("vv4.2.0", "6" * 40), ("v4.2", "2" * 40)], [("v4.2.0", "b" * 40), ("4.2.0", "7" * 40)]]
    for tl in TAGLISTS:
        for tag in ("v4.2.0", "v4.2", "v4", "v4.2.0-rc.1", "v9", "", "4.2.0"):
            for status in (200, 404, 429, 500, 403):
                body = _json.dumps([{"name": n, "commit": {"sha": s, "url": "u"}, "zipball_url": "z"} for n, s in tl])
                if rng.chance(1, 10):
                    body = body[: len(body) // 2]
                hc.append({"req": vlib.line("http.tagsha", "github", "actions/checkout", tag, "1", str(status), "", body),
                           "tag": (tuple(tl), tag, status), "tl": tl, "want": tag, "status": status, "body_ok": body.endswith("]")})

    def derive_c(cs, impl):
        der = []
        for i, (c, o) in enumerate(zip(cs, impl)):
            exp = dict(c["tl"]).get(c["want"])
            prob = None
            if o.startswith("ok "):
                sha = vlib.unhx(o.split(" ")[1])
                if c["status"] != 200 or not c["body_ok"]:
                    prob = f"a commit was returned for an unusable reply (status {c['status']})"
                elif exp is None:
                    prob = f"tag {c['want']!r} is not in the tag list, yet commit {sha[:8]}… was returned"
                elif sha != exp:
                    prob = f"tag {c['want']!r} points to {exp[:8]}…, but {sha[:8]}… was returned"
            elif c["status"] == 200 and c["body_ok"] and exp is not None:
                prob = f"tag {c['want']!r} exists but the lookup failed: {o}"
            if prob:
                der.append({"req": vlib.line("bump.due", "patch", "1.0.0"), "index": i, "history": [c["req"]],
                            "check": (lambda out, prob=prob: ("violation", prob))})
        return der
    st_c = Stream("fetch-tag-sha-http", hc, nontrivial=lambda c, o: True, derive=derive_c, shrinkable=False,
                  model_eq=lambda i, m: i.split(" paths=")[0] == m.split(" paths=")[0])
    return [st_a, st_b, st_c]
