"""C08 — the cache returns exactly what was stored, per package, across any history."""
from runner import Stream
import vlib, gen_cache

PROP_MODULES = ["Vlsp.Props.C08"]
EXTRA_SCAN = []
RULE = ("random operation histories (store versions / store tags / mark / claim / release / reopen / extra handles / clock "
        "moves across the refresh threshold +-1 ms) over 4-5 keys incl. hostile names and one name shared by two registries; "
        "after EVERY step every read is issued and compared with the Lean Db model and with an in-memory map oracle "
        "(union of version lists, last non-empty tag map, mark, staleness). non-trivial = history has a write that changes "
        "the abstract state and a read of the same key; distinct by op-kind 3-grams")
ASSUMPTIONS = ["SQLite statement semantics as modelled in Model/Db.lean (DESIGN.md §3)",
               "row order of unordered SELECTs is arbitrary: list results are compared as sorted lists, except filter_packages_not_in_cache whose order is specified"]


class Oracle:
    """the simplest possible spec: a map from (registry, name) to a record"""
    def __init__(self, interval):
        self.m, self.now, self.interval = {}, 0, interval

    def rec(self, k, create=False):
        if k not in self.m and create:
            self.m[k] = {"versions": [], "tags": {}, "nf": False, "upd": self.now, "fs": None}
        return self.m.get(k)

    def step(self, f):
        op = f[0]
        if op == "c.now":
            self.now = int(f[1]); return None
        if op == "c.replace":
            r = self.rec((f[2], f[3]), True); r["upd"] = self.now
            for v in f[4:]:
                if v not in r["versions"]:
                    r["versions"].append(v)
            return None
        if op == "c.tags":
            kv = f[4:]
            if kv:
                r = self.rec((f[2], f[3]), True)
                r["tags"] = {kv[i]: kv[i + 1] for i in range(0, len(kv), 2)}
            return None
        if op == "c.mark":
            self.rec((f[2], f[3]), True)["nf"] = True; return None
        if op == "c.claim":
            r = self.rec((f[2], f[3]))
            if r is None:
                r = self.rec((f[2], f[3]), True); r["fs"] = self.now; return "T"
            if r["fs"] is None or r["fs"] < self.now - 30000:
                r["fs"] = self.now; return "T"
            return "F"
        if op == "c.finish":
            r = self.rec((f[2], f[3]))
            if r: r["fs"] = None
            return None
        if op == "c.versions":
            r = self.rec((f[2], f[3]))
            return "[" + ",".join(sorted("x" + vlib.hx(v) for v in (r["versions"] if r else []))) + "]"
        if op == "c.tag":
            r = self.rec((f[2], f[3]))
            v = r["tags"].get(f[4]) if r else None
            return "-" if v is None else "S" + vlib.hx(v)
        if op == "c.exists":
            r = self.rec((f[2], f[3]))
            return "T" if r and f[4] in r["versions"] else "F"
        if op == "c.refresh":
            ks = [k for k, r in self.m.items() if r["upd"] < self.now - self.interval and not r["nf"]]
            return "[" + ",".join(sorted(f"{k[0]}/{vlib.hx(k[1])}" for k in ks)) + "]"
        if op == "c.filter":
            out = []
            for n in f[3:]:
                r = self.rec((f[2], n))
                if not (r and (r["versions"] or r["nf"])):
                    out.append("x" + vlib.hx(n))
            return "[" + ",".join(out) + "]"
        return None


def streams(ctx):
    rng, tier = ctx["rng"], ctx["tier"]
    nh, ln = (40, 30) if tier == "quick" else (300, 300)
    cases = []
    bounds = []
    for _ in range(nh):
        h = gen_cache.history(rng, ln, interval=1000)
        bounds.append((len(cases), len(cases) + len(h)))
        kinds = [vlib.decode_line(l)[0] for l in h]
        for i, l in enumerate(h):
            tag = None
            if kinds[i] in ("c.replace", "c.tags", "c.mark", "c.claim", "c.finish"):
                tag = tuple(k for k in kinds[max(0, i - 40):i + 1] if k in ("c.replace", "c.tags", "c.mark", "c.claim", "c.finish", "c.open", "c.now"))[-3:]
            cases.append({"req": l, "tag": tag, "op": kinds[i]})

    def model_eq(i, m):
        return gen_cache.canon(i) == gen_cache.canon(m)

    def derive(cs, impl):
        # judge the implementation against the map oracle, history by history
        der = []
        for (a, b) in bounds:
            o = None
            for i in range(a, b):
                f = vlib.decode_line(cs[i]["req"])
                if f[0] == "c.reset":
                    o = Oracle(int(f[2])); continue
                exp = o.step(f)
                if exp is None:
                    continue
                got = impl[i] if f[0] == "c.filter" else gen_cache.canon(impl[i])
                if got != exp:
                    der.append({"req": vlib.line("latest.same", "1.0.0", "1.0.0"),
                                "check": (lambda out, f=f, got=got, exp=exp: ("violation", f"{f[:4]}: cache answered {got}, the map spec says {exp}")),
                                "history": [c["req"] for c in cs[a:i + 1] if vlib.decode_line(c["req"])[0] not in ("c.versions", "c.tag", "c.exists", "c.refresh", "c.filter", "c.dump")] + [cs[i]["req"]],
                                "index": i})
                    break
        return der

    return [Stream("history", cases, nontrivial=lambda c, o: c.get("tag") is not None, model_eq=model_eq,
                   derive=derive, shrinkable=False)]
