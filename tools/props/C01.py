"""C01 — each dependency gets exactly the diagnostic its spec, cache and tags imply."""
from runner import Stream
import vlib, gens
from props.C02 import finding_class

PROP_MODULES = ["Vlsp.Props.C01", "Vlsp.Props.C02", "Vlsp.Props.C02Gha", "Vlsp.Props.C02Go", "Vlsp.Props.C02Pypi"]
EXTRA_SCAN = ["Vlsp/Spec/Decision.lean", "Vlsp/Spec/RefEco.lean"]
RULE = ("per ecosystem (npm, pnpm, jsr, crates, go, gha): (spec, version batches in random order, tag map, prerelease "
        "setting) -> real Cache filled, real compare_version + generate_diagnostics; compared with the Lean checker model "
        "on the reads actually made, and with the decision table over the REFERENCE range semantics (inside the C02 "
        "fragment the diagnostic must be the table's; when the anchor equals an excluded latest both answers are accepted). "
        "specs: grammar 70%, tag-like words 10%, junk 20%. non-trivial = status other than notincache; distinct by (eco, spec, status)")
ASSUMPTIONS = ["MatcherLaws are proved for npm(=pnpm=jsr) and crates; gha/go/pypi decision instances are tied by correspondence",
               "cache reads are the real SQLite reads (C03/C08 tie those to the cache model)"]

TAGWORDS = ["latest", "next", "NEXT", "beta", "Latest", "canary", "foo", "mytag", "stable", "Kanary", "dev", "edge ", "rc"]
ECOS = {"npm": gens.npm_spec, "pnpm": gens.npm_spec, "jsr": gens.npm_spec, "crates": gens.crates_spec,
        "go": gens.go_version, "gha": gens.gha_ref}


def streams(ctx):
    rng, tier = ctx["rng"], ctx["tier"]
    lat = gens.versions_lattice(small=True)
    n = 1200 if tier == "quick" else 40000
    cases = []
    for eco, gen in ECOS.items():
        for _ in range(n // len(ECOS)):
            def one_spec():
                k = rng.below(10)
                return gen(rng) if k < 7 else (rng.choice(TAGWORDS) if k < 8 else rng.choice(gens.JUNK))
            # one manifest may name the same package several times with different specs
            specs = [one_spec() for _ in range(1 + (rng.below(3) if rng.chance(1, 2) else 0))]
            ip = rng.chance(1, 2)
            pick = (lambda: rng.choice(lat)) if eco not in ("go", "gha") else (lambda: (gen(rng) if rng.chance(1, 3) else "v" + rng.choice(lat)))
            vs = [pick() for _ in range(rng.below(6))]
            if eco not in ("go", "gha") and rng.chance(1, 3):
                # the cache holds versions AROUND the operand of the first spec (its floor, its neighbours, the same versions with
                # build metadata or as prereleases): where a verdict changes
                near = gens.around(specs[0])
                if near:
                    vs = rng.shuffle(near)[: 1 + rng.below(5)] + vs[:2]
            if rng.chance(1, 3) and eco in ("go", "gha"):
                vs.append(specs[0])
            tags = []
            if rng.chance(1, 3):
                tags += ["latest", pick()]
            if rng.chance(1, 4):
                tags += [rng.choice(TAGWORDS), pick()]
            if rng.chance(1, 6) and specs[0].strip():
                tags += [specs[0], pick()]
            seen, t2 = set(), []
            for i in range(0, len(tags), 2):
                if tags[i] not in seen:
                    seen.add(tags[i]); t2 += tags[i:i + 2]
            tags = t2
            vs = rng.shuffle(vs)
            batches, i = [], 0
            while i < len(vs):
                b = 1 + rng.below(3)
                batches.append(vs[i:i + b]); i += b
            f = [eco, "T" if ip else "F", str(len(specs))] + specs + [str(len(tags) // 2)] + tags + [str(len(batches))]
            for b in batches:
                f += [str(len(b))] + b
            cases.append({"req": vlib.line("diag", *f), "tag": None, "eco": eco, "specs": specs})

    # directed: every operator on a full and on a partial operand, the cache holding the versions around the operand, each of
    # them in turn tagged `latest` (the anchor of a spec is compared with a latest version just below / at / above it)
    for eco in ("npm", "crates"):
        for op in ["", "^", "~", ">=", ">", "<=", "<", "="]:
            for operand in ["1", "1.2", "1.2.3", "0.0", "0"]:
                spec = op + operand
                near = [v for v in gens.near_versions(operand) if "+" not in v][:9]
                for L_ in near[:6]:
                    f = [eco, "F", "1", spec, "1", "latest", L_, "1", str(len(near))] + near
                    cases.append({"req": vlib.line("diag", *f), "tag": None, "eco": eco, "specs": [spec]})

    def derive(cs, impl):
        der = []
        for i, (c, o) in enumerate(zip(cs, impl)):
            eco = c["eco"]
            if " |" not in o:
                der.append({"req": vlib.line("checker.pure", eco, "-", "-", c["specs"][0]), "index": i,
                            "check": lambda out, o=o: ("model", "implementation failed: " + o)})
                continue
            left, right = o.split(" |")
            latest, rows = left.split(" ")
            rows = [vlib.unhx(x[1:]) for x in rows[1:-1].split(",")] if len(rows) > 2 else []
            lf = ("S" + vlib.unhx(latest[1:])) if latest != "-" else "-"
            per = [x.strip().split(" ") for x in right.split(";") if x.strip()]
            sts = []
            for spec, (status, diag, tagres) in zip(c["specs"], per):
                sts.append(status)
                tf_ = ("S" + vlib.unhx(tagres[1:])) if tagres != "-" else "-"
                der.append({"req": vlib.line("checker.pure", eco, lf, tf_, spec, *rows), "expect": f"{status} {diag}",
                            "kind": "model", "index": i})
                resolved = vlib.unhx(tagres[1:]) if tagres != "-" else spec

                def check(out, diag=diag, eco=eco, spec=spec, resolved=resolved, rows=rows, latest=latest, status=status):
                    if out == diag:
                        return None
                    # "a spec anchored exactly at an L it excludes may go either way"
                    if {out[:1], diag[:1]} <= {"-", "W"} and status in ("outdated", "newer") and latest != "-":
                        L = vlib.unhx(latest[1:])
                        if strip_ops(resolved) == strip_v(L):
                            return None
                        # a Go pseudo-version is anchored at its base version
                        if eco == "go" and strip_v(resolved).split("-")[0] == strip_v(L).split("+")[0].split("-")[0]:
                            return None
                    # deviations of the range semantics themselves are C02's findings, not C01's
                    fr = frag_of(eco, resolved)
                    if fr == "F":
                        return None      # outside the fragment the reading of the spec itself is judged by C02 (finding class or violation)
                    cands = rows + ([vlib.unhx(latest[1:])] if latest != "-" else [])
                    for v in cands + [""]:
                        if finding_class(eco, resolved, v, "T", "F", fr):
                            return None
                    return ("violation", f"{eco}: spec {spec!r} (resolved {resolved!r}) latest {latest} cached {rows}: "
                                         f"implementation published {show(diag)}, the decision table says {show(out)}")
                der.append({"req": vlib.line("spec.diag", eco, lf, tf_, spec, *rows), "check": check,
                            "history": [c["req"]], "index": i})
            c["tag"] = (eco, tuple(c["specs"]), tuple(sts))
            c["status"] = sts
        return der

    frag_cache = {}

    def frag_of(eco, spec):
        key = (eco, spec)
        if key not in frag_cache:
            if eco in ("npm", "pnpm", "jsr"):
                frag_cache[key] = vlib.run_model([vlib.line("spec.npm.frag", spec)])[0]
            elif eco == "crates":
                frag_cache[key] = vlib.run_model([vlib.line("spec.crates.frag", spec)])[0]
            else:
                frag_cache[key] = "T"
        return frag_cache[key]

    return [Stream("checker", cases, nontrivial=lambda c, o: any(s != "notincache" for s in (c.get("status") or [])),
                   derive=derive, model_eq=lambda i, m: True, shrinkable=False)]


def strip_ops(s):
    s = s.strip()
    while s and s[0] in "^~<>=v ":
        s = s[1:]
    return s.split(" ")[0].split(",")[0]


def strip_v(s):
    return s[1:] if s[:1] == "v" else s


def show(d):
    if d == "-":
        return "nothing"
    return d[:2] + repr(vlib.unhx(d[2:]))
