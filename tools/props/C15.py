"""C15 — a registry reply is turned into exactly the versions and tags it advertises."""
import json, urllib.parse
from runner import Stream
import vlib

PROP_MODULES = ["Vlsp.Props.C15", "Vlsp.Props.C15Go"]
RULE = ("the six real adapters (constructed with new(base_url)) against a scripted local HTTP server: generated bodies "
        "(arbitrary version sets, timestamps present/absent/garbled, yanked flags, tag maps, extra fields, wrong types at each "
        "position, truncated and non-JSON bodies) x status codes {200,201,204,301,304,400,401,403,404,410,418,429,500,502,503}; result "
        "and request path vs the Lean adapter model; plus the property on the implementation: reported set = advertised set "
        "(computed from the generated value, independently), not-found only for 404 (410 for Go), request path decodes back to "
        "the manifest name. non-trivial = 200 with >= 2 versions, or a non-200 status; distinct by (adapter, status, body shape)")
ASSUMPTIONS = ["JSON text -> value: Model/Json.lean vs serde_json (tied by this stream); sockets/TLS/redirects are reqwest's business",
               "1xx statuses are not generated (hyper treats them as interim responses)",
               "GitHub releases: at most MAX_RELEASE_PAGES (20) pages are followed (recorded finding F-C15-2)"]

STATUSES = [200, 200, 200, 201, 204, 301, 304, 400, 401, 403, 404, 410, 418, 429, 500, 502, 503]
NAMES = {"npm": ["lodash", "@scope/pkg", "@a/b.c", "left-pad"], "crates": ["serde", "tokio-util"],
         "go": ["golang.org/x/text", "github.com/Azure/Go-Autorest", "github.com/BurntSushi/toml"],
         "github": ["actions/checkout", "Owner/Repo"], "jsr": ["@std/path", "@luca/flag"], "pypi": ["requests", "Django", "zope.interface"]}
VERS = ["1.0.0", "1.1.0", "2.0.0-beta.1", "0.0.1", "10.0.0", "1.0.0+b", "v1", "é"]
GO_VERS = ["v1.0.0", "v1.1.0", "v2.0.0", "v2.0.0+incompatible", "v2.0.0-beta.1", "v2.0.0-beta.1+incompatible", "v0.0.1",
           "v10.0.0", "v1.0.0+b", "v1.0.0+a", "v0.0.0-20200101000000-abcdef123456", "v1", "1.0.0", "vx", "v1.2.3-rc.1", "v1.2.3-rc.1+meta"]
TS = ["2020-01-01T00:00:00Z", "2021-06-01T12:00:00+09:00", "garbage", "", "2020-01-01T00:00:00.123Z"]


def gen_body(rng, ad):
    """returns (json value or raw text, advertised versions or None if malformed, advertised tags)"""
    vs = rng.sample(VERS, rng.below(5))
    k = rng.below(100)
    if ad == "npm":
        val = {"name": "x", "versions": {v: {"version": v} for v in vs}}
        tags = {}
        if rng.chance(2, 3):
            tags = {t: rng.choice(VERS) for t in rng.sample(["latest", "next", "beta"], 1 + rng.below(2))}
            val["dist-tags"] = tags
        if rng.chance(1, 2):
            val["time"] = {v: rng.choice(TS) for v in vs if rng.chance(2, 3)}
        adv, atags = set(vs), tags
        if k < 12: val["versions"] = rng.choice([[], "x", None, 3]); adv = None
        elif k < 18: val.pop("versions"); adv = None
        elif k < 24: val["dist-tags"] = rng.choice([{"latest": 3}, [], "x"]); adv = None
        elif k < 28: val["time"] = rng.choice([{"1.0.0": 5}, []]); adv = None
        return val, adv, atags
    if ad == "crates":
        rows = [{"num": v, "yanked": rng.chance(1, 3), "created_at": rng.choice(TS), "downloads": 3} for v in vs]
        val = {"crate": {"id": "x"}, "versions": rows}
        adv = {r["num"] for r in rows if not r["yanked"]}
        if k < 10 and rows: rows[0].pop(rng.choice(["num", "yanked", "created_at"])); adv = None
        elif k < 16 and rows: rows[0]["yanked"] = rng.choice(["no", None, 0]); adv = None
        elif k < 22: val["versions"] = rng.choice([{}, "x", None]); adv = None
        elif k < 26: val.pop("versions"); adv = None
        return val, adv, {}
    if ad == "jsr":
        meta = {}
        for v in vs:
            m = {}
            if rng.chance(2, 3): m["createdAt"] = rng.choice(TS + [None])
            if rng.chance(1, 3): m["yanked"] = rng.chance(1, 2)
            meta[v] = m
        val = {"scope": "std", "versions": meta}
        if rng.chance(1, 2): val["latest"] = rng.choice(vs + [None]) if vs else None
        adv = {v for v, m in meta.items() if not m.get("yanked", False)}
        if k < 10 and vs: meta[vs[0]] = rng.choice([[], "x", None]); adv = None
        elif k < 16 and vs: meta[vs[0]]["yanked"] = "yes"; adv = None
        elif k < 22: val["versions"] = []; adv = None
        elif k < 26: val["latest"] = 5; adv = None
        return val, adv, {}
    if ad == "pypi":
        cur = rng.choice(VERS)
        val = {"info": {"name": "x", "version": cur}, "releases": {v: [{"filename": "f"}] * rng.below(3) for v in vs}, "urls": []}
        adv, atags = set(vs), {"latest": cur}
        if k < 10: val["info"].pop("version"); adv = None
        elif k < 16: val["info"]["version"] = None; adv = None
        elif k < 22: val["releases"] = []; adv = None
        elif k < 28 and vs: val["releases"][vs[0]] = rng.choice(["x", {}, [3]]); adv = None
        elif k < 32: val.pop("info"); adv = None
        return val, adv, atags
    if ad == "github":
        rows = [{"tag_name": v, "published_at": rng.choice(TS + [None]), "id": 1} for v in vs]
        for r in rows:
            if rng.chance(1, 4): r.pop("published_at")
        val = rows
        adv = set(vs)
        if k < 10 and rows: rows[0].pop("tag_name"); adv = None
        elif k < 16 and rows: rows[0]["published_at"] = 5; adv = None
        elif k < 22: val = {"message": "API rate limit exceeded"}; adv = None
        return val, adv, {}
    if ad == "go":
        # Go lists are v-prefixed; twins that differ only in build metadata (v2.0.0 / v2.0.0+incompatible),
        # pseudo-versions and repeated lines are all real (seeded10/C15: a dedup by SemVer precedence dropped a twin)
        lines = rng.sample(GO_VERS, rng.below(7)) if rng.chance(2, 3) else list(vs)
        if lines and rng.chance(1, 6): lines.append(lines[0])
        if rng.chance(1, 3): lines.insert(rng.below(len(lines) + 1), "")
        text = "\n".join(lines) + ("\n" if rng.chance(2, 3) else "")
        return text, {l for l in lines if l}, {}


def streams(ctx):
    rng, tier = ctx["rng"], ctx["tier"]
    n = 150 if tier == "quick" else 3000
    cases = []
    for ad in NAMES:
        for _ in range(n):
            name = rng.choice(NAMES[ad])
            status = rng.choice(STATUSES)
            val, adv, atags = gen_body(rng, ad)
            body = val if isinstance(val, str) else json.dumps(val, ensure_ascii=rng.chance(1, 2))
            k = rng.below(100)
            if k < 6 and len(body) > 2:
                body = body[:rng.below(len(body))]; adv = "?"      # truncated
            elif k < 9:
                body = rng.choice(["<html>502</html>", "", "null", "[]", "{}", "NaN", '{"versions": {"1.0.0": {}},}']); adv = "?"
            headers = ""
            extra = []
            if ad == "github" and status == 200 and isinstance(adv, set) and rng.chance(1, 3):
                # more pages, each announced by the Link header of the one before (GitHub's pagination)
                npages = 1 + rng.below(3)
                headers = 'Link: <{BASE}/repos/x/releases?page=2>; rel="next", <{BASE}/repos/x/releases?page=9>; rel="last"\r\n'
                allv = set(adv)
                for pi in range(npages):
                    vs = [f"0.{pi + 1}.{j}" for j in range(1 + rng.below(3))]
                    allv |= set(vs)
                    last = pi == npages - 1
                    st2 = 200 if (last or rng.chance(5, 6)) else rng.choice([404, 429, 500])
                    # GitHub lists prev / next / last / first in one header, in that order from page 2 on: "next" is not the first entry
                    ents = [f'<{{BASE}}/repos/x/releases?page={pi + 1}>; rel="prev"'] if rng.chance(3, 4) else []
                    if not last:
                        ents.append(f'<{{BASE}}/repos/x/releases?page={pi + 3}>; rel="next"')
                        if rng.chance(1, 2):
                            ents.append(f'<{{BASE}}/repos/x/releases?page={npages + 1}>; rel="last"')
                    if rng.chance(1, 2):
                        ents.append('<{BASE}/repos/x/releases?page=1>; rel="first"')
                    if rng.chance(1, 4):
                        ents = rng.shuffle(ents)
                    hd2 = (rng.choice(["link", "Link"]) + ": " + ", ".join(ents) + "\r\n") if ents else ""
                    extra += [str(st2), hd2, json.dumps([{"tag_name": v, "published_at": None} for v in vs])]
                    if st2 != 200:
                        allv = ("pagefail", st2); break
                adv = ("paged", adv, allv)
            nresp = str(1 + len(extra) // 3)
            cases.append({"req": vlib.line("http.fetch", ad, name, nresp, str(status), headers, body, *extra),
                          "tag": (ad, status, "ok" if isinstance(adv, set) else str(adv)[:6], len(adv) if isinstance(adv, set) else -1),
                          "ad": ad, "name": name, "status": status, "adv": adv, "atags": atags})

    # a failing reply at EVERY position of a chain of pages (also the last one), every error status: the answer is that error,
    # never the pages read so far; and the same chains without a failure: everything on every page
    for npages in (1, 2, 3):
        for fail_at in [None] + list(range(npages)):
            for st_fail in ((200,) if fail_at is None else (404, 429, 500, 503)):
                first = {f"1.{npages}.{j}" for j in range(2)}
                body = json.dumps([{"tag_name": v, "published_at": None} for v in sorted(first)])
                headers = 'Link: <{BASE}/repos/x/releases?page=2>; rel="next"\r\n'
                extra, allv = [], set(first)
                for pi in range(npages):
                    vs = [f"0.{pi + 1}.{j}" for j in range(2)]
                    st2 = st_fail if pi == fail_at else 200
                    last = pi == npages - 1
                    hd2 = "" if last else f'Link: <{{BASE}}/repos/x/releases?page={pi + 1}>; rel="prev", <{{BASE}}/repos/x/releases?page={pi + 3}>; rel="next"\r\n'
                    extra += [str(st2), hd2, json.dumps([{"tag_name": v, "published_at": None} for v in vs])]
                    if st2 != 200:
                        allv = ("pagefail", st2); break
                    allv |= set(vs)
                cases.append({"req": vlib.line("http.fetch", "github", "x/y", str(1 + len(extra) // 3), "200", headers, body, *extra),
                              "tag": ("github", 200, "chain", npages, fail_at, st_fail), "ad": "github", "name": "x/y", "status": 200,
                              "adv": ("paged", first, allv), "atags": {},
                              # each page is requested once, in the order the Link headers announce ("next", never "prev" / "first")
                              "want_paths": ["/repos/x/y/releases"] + [f"/repos/x/releases?page={k + 2}" for k in range(len(extra) // 3)]})

    # the page bound: 21 chained pages of one release each
    wextra = []
    for pi in range(21):
        hd = "" if pi == 20 else f'Link: <{{BASE}}/repos/x/releases?page={pi + 2}>; rel="next"\r\n'
        wextra += ["200", hd, json.dumps([{"tag_name": f"1.0.{pi}", "published_at": None}])]
    cases.append({"req": vlib.line("http.fetch", "github", "x/y", "21", *wextra), "tag": ("github", 200, "bound", 21),
                  "ad": "github", "name": "x/y", "status": 200, "adv": ("bound", set(f"1.0.{i}" for i in range(21))), "atags": []})

    def parse_out(o):
        d = {"kind": o.split(" ")[0]}
        if d["kind"] == "ok":
            vs = o.split(" ")[1]
            d["versions"] = sorted(vlib.unhx(x[1:]) for x in vs[1:-1].split(",")) if len(vs) > 2 else []
            tg = o.split("tags=")[1].split(" ")[0]
            d["tags"] = sorted(tuple(vlib.unhx(y) for y in x.split("=")) for x in tg[1:-1].split(",")) if len(tg) > 2 else []
        else:
            d["err"] = o.split(" ")[1]
        ps = o.split("paths=")[1]
        d["paths"] = [vlib.unhx(x[1:]) for x in ps[1:-1].split(",")] if len(ps) > 2 else []
        return d

    def model_eq(i, m):
        try:
            return parse_out(i) == parse_out(m)
        except Exception:
            return i == m

    def derive(cs, impl):
        der = []
        for i, (c, o) in enumerate(zip(cs, impl)):
            try:
                d = parse_out(o)
            except Exception:
                d = {"kind": "crash", "paths": []}
            probs = []
            ad, status, adv = c["ad"], c["status"], c["adv"]
            if isinstance(adv, tuple):
                # paginated reply: everything on every page is advertised; an error on any page is the answer
                if adv[0] == "bound":
                    if d.get("kind") == "ok" and set(d["versions"]) == set(f"1.0.{i}" for i in range(20)):
                        der.append({"req": vlib.line("ml.settle"), "index": i, "history": [c["req"]], "check": (lambda out: ("known", "F-C15-2"))})
                    elif not (d.get("kind") == "ok" and set(d["versions"]) == adv[1]):
                        der.append({"req": vlib.line("ml.settle"), "index": i, "history": [c["req"]],
                                    "check": (lambda out, o=o: ("violation", "21 chained pages: " + o[:160]))})
                    continue
                first, full = adv[1], adv[2]
                if c.get("want_paths") and d.get("paths") != c["want_paths"]:
                    der.append({"req": vlib.line("ml.settle"), "index": i, "history": [c["req"]],
                                "check": (lambda out, got=d.get("paths"), want=c["want_paths"]: ("violation", f"the pages were requested as {got}, the Link headers announce {want}"))})
                    continue
                if isinstance(full, tuple):
                    st2 = full[1]
                    want = "notfound" if st2 == 404 else ("ratelimited" if st2 == 429 else "invalid")
                    if not (d.get("kind") == "err" and d.get("err") == want):
                        der.append({"req": vlib.line("ml.settle"), "index": i, "history": [c["req"]],
                                    "check": (lambda out, o=o, want=want: ("violation", f"a later page answered with an error ({want}) but the adapter reported {o[:120]}"))})
                    continue
                if d.get("kind") == "ok" and set(d["versions"]) == first and first != full:
                    der.append({"req": vlib.line("ml.settle"), "index": i, "history": [c["req"]], "check": (lambda out: ("known", "F-C15-1"))})
                    continue
                adv = full
            definitive = status == 404 or (ad == "go" and status == 410)
            if d["kind"] == "crash":
                probs.append("adapter call did not return: " + o[:100])
            else:
                if (d.get("err") == "notfound") != definitive:
                    probs.append(f"status {status}: reported {'nonexistent' if d.get('err') == 'notfound' else d.get('err', 'ok')}")
                if 200 <= status < 300 and status != 204 and isinstance(adv, set):
                    if d["kind"] != "ok":
                        probs.append(f"well-formed reply rejected as {d.get('err')}")
                    else:
                        if set(d["versions"]) != adv:
                            probs.append(f"reported versions {sorted(set(d['versions']))} but the reply advertises {sorted(adv)}")
                        if dict(d["tags"]) != c["atags"]:
                            probs.append(f"reported tags {d['tags']} but the reply declares {c['atags']}")
                if 200 <= status < 300 and adv is None and d["kind"] == "ok":
                    probs.append("a reply that is not of the registry's shape was accepted")
                # the request names the package as the registry expects it
                if d["paths"]:
                    p = d["paths"][0]
                    dec = urllib.parse.unquote(p)
                    if ad == "go":
                        import re
                        dec = re.sub(r"!([a-z])", lambda m: m.group(1).upper(), p)
                        ok = dec == "/" + c["name"] + "/@v/list" and not any(ch.isupper() for ch in p)
                    elif ad == "npm":
                        ok = dec == "/" + c["name"] and (not c["name"].startswith("@") or p.count("/") == 1)
                    elif ad == "crates": ok = p == "/" + c["name"]
                    elif ad == "github": ok = p == f"/repos/{c['name']}/releases"
                    elif ad == "jsr": ok = p == f"/{c['name']}/meta.json"
                    else: ok = p == f"/pypi/{c['name']}/json"
                    if not ok:
                        probs.append(f"requested {p!r} for package {c['name']!r}")
            if probs:
                der.append({"req": vlib.line("bump.due", "patch", "1.0.0"), "index": i, "history": [c["req"]],
                            "check": (lambda out, probs=probs, ad=ad: ("violation", f"{ad}: " + "; ".join(probs)))})
        return der

    def nt(c, o):
        t = c["tag"]
        return t[1] != 200 or t[3] >= 2
    return [Stream("adapters", cases, nontrivial=nt, derive=derive, model_eq=model_eq, shrinkable=False)]
