"""C12 — any database written by an earlier release opens, keeps its data and works."""
from runner import Stream
import vlib, gen_cache

PROP_MODULES = ["Vlsp.Props.C12"]
RULE = ("legacy files written with raw SQL: the three schema generations (base tables; + fetching_since; + both columns), "
        "with/without the dist_tags table, every user_version in -1..4 and 7 that is consistent with the columns, populated "
        "with random rows (hostile names, claims, marks); opened 1-3 times with the real Cache::new, shape (tables, columns, "
        "user_version) and all rows compared with the Lean model, followed by a random C08 operation history on top; and two "
        "handles opening the same file (fresh and legacy) under explicit statement-level schedules with injected statement "
        "failures. non-trivial = legacy shape with data / a schedule in which both attempts pass the version read; distinct by "
        "(shape, schedule)")
ASSUMPTIONS = ["ALTER TABLE ADD COLUMN keeps existing rows with the column default (SQLite)",
               "shapes whose recorded version lacks its column are outside the property's quantifier"]


def consistent(hfs, hnf, uv):
    return (uv < 1 or hfs) and (uv < 2 or hnf) and (not hnf or hfs)


def make_line(rng, hfs, hnf, hdt, uv):
    keys = [(rng.choice(gen_cache.REGS[:3]), rng.choice(gen_cache.HOSTILE[:8])) for _ in range(1 + rng.below(3))]
    keys = list(dict.fromkeys(keys))
    f = ["T" if hfs else "F", "T" if hnf else "F", "T" if hdt else "F", str(uv), str(len(keys))]
    for (r, n) in keys:
        f += [r, n, str(rng.below(3000)), (str(rng.below(100)) if rng.chance(1, 3) else "-"), ("1" if rng.chance(1, 4) else "0")]
    vs = []
    for i in range(len(keys)):
        for v in rng.sample(gen_cache.VERSIONS, rng.below(4)):
            vs += [str(i), v]
    f += [str(len(vs) // 2)] + vs
    ts = []
    for i in range(len(keys)):
        for t in rng.sample(gen_cache.TAGS, rng.below(3)):
            ts += [str(i), t, rng.choice(gen_cache.VERSIONS)]
    f += [str(len(ts) // 3)] + ts
    return vlib.line("m.make", *f), keys


def streams(ctx):
    rng, tier = ctx["rng"], ctx["tier"]
    cases = []
    shapes = [(hfs, hnf, hdt, uv) for hfs in (False, True) for hnf in (False, True) for hdt in (False, True)
              for uv in (-1, 0, 1, 2, 3, 4, 7) if consistent(hfs, hnf, uv)]
    reps = 2 if tier == "quick" else 20
    for (hfs, hnf, hdt, uv) in shapes:
        for _ in range(reps):
            mk, keys = make_line(rng, hfs, hnf, hdt, uv)
            h = [mk, vlib.line("m.shape")]
            for _ in range(1 + rng.below(3)):
                h += [vlib.line("c.open", "0"), vlib.line("m.shape"), vlib.line("c.dump")]
            # every cache operation behaves as on a fresh database: a C08 history on top
            h.append(vlib.line("c.now", "5000"))
            for _ in range(8):
                r, n = rng.choice(keys)
                k = rng.below(6)
                if k == 0: h.append(vlib.line("c.replace", "0", r, n, *rng.sample(gen_cache.VERSIONS, rng.below(3))))
                elif k == 1: h.append(vlib.line("c.tags", "0", r, n, "latest", rng.choice(gen_cache.VERSIONS)))
                elif k == 2: h.append(vlib.line("c.mark", "0", r, n))
                elif k == 3: h.append(vlib.line("c.claim", "0", r, n))
                elif k == 4: h.append(vlib.line("c.finish", "0", r, n))
                else: h.append(vlib.line("c.open", "0"))
                h += [vlib.line("c.versions", "0", r, n), vlib.line("c.tag", "0", r, n, "latest"), vlib.line("c.refresh", "0"),
                      vlib.line("c.filter", "0", r, n, "zzz"), vlib.line("c.dump")]
            for i, l in enumerate(h):
                cases.append({"req": l, "tag": ("seq", hfs, hnf, hdt, uv) if i == 0 else None})
    # two handles at the same moment
    nsched = 150 if tier == "quick" else 3000
    for _ in range(nsched):
        if rng.chance(1, 3):
            first = vlib.line("m.fresh"); tag0 = ("fresh",)
        else:
            hfs, hnf, hdt, uv = rng.choice(shapes)
            first, _ = make_line(rng, hfs, hnf, hdt, uv); tag0 = (hfs, hnf, hdt, uv)
        moves = "".join(rng.choice("aabbAB" if rng.chance(1, 4) else "ab") for _ in range(rng.below(22)))
        h = [first, vlib.line("m.open2", moves), vlib.line("c.open", "0"), vlib.line("m.shape"), vlib.line("c.dump"),
             vlib.line("c.replace", "0", "npm", "after", "1.0.0"), vlib.line("c.claim", "0", "npm", "after"), vlib.line("c.dump")]
        for i, l in enumerate(h):
            cases.append({"req": l, "tag": ("conc", tag0, moves) if i == 1 else None})

    def derive(cs, impl):
        """the property on the implementation: opening succeeds, the final shape is complete, data survive"""
        der = []
        for i, (c, o) in enumerate(zip(cs, impl)):
            op = vlib.decode_line(c["req"])[0]
            if op == "c.open" and o != "ok":
                der.append({"req": vlib.line("latest.same", "1.0.0", "1.0.0"), "index": i,
                            "check": (lambda out, o=o: ("violation", f"opening a legacy / concurrently opened database failed: {o}")),
                            "history": [x["req"] for x in cs[max(0, i - 6):i + 1]]})
            if op == "c.open" and o == "ok":
                # opening is idempotent: a database that is already at the current schema (it has been opened before in this history)
                # is left exactly as it was — rows, marks and fetch claims included
                prev = [j for j in range(i - 1, max(-1, i - 8), -1) if vlib.decode_line(cs[j]["req"])[0] == "c.dump"]
                nxt = [j for j in range(i + 1, min(len(cs), i + 8)) if vlib.decode_line(cs[j]["req"])[0] == "c.dump"]
                if prev and nxt:
                    between = [vlib.decode_line(cs[j]["req"])[0] for j in range(prev[0] + 1, nxt[0]) if j != i]
                    first_of_history = [j for j in range(i, -1, -1) if vlib.decode_line(cs[j]["req"])[0] in ("m.make", "m.fresh")]
                    opened_before = bool(first_of_history) and any(vlib.decode_line(cs[j]["req"])[0] == "c.open" for j in range(first_of_history[0], prev[0]))
                    if opened_before and all(b in ("m.shape", "c.versions", "c.tag", "c.refresh", "c.filter", "c.now") for b in between):
                        a, b = gen_cache.canon(impl[prev[0]]), gen_cache.canon(impl[nxt[0]])
                        if a != b:
                            der.append({"req": vlib.line("latest.same", "1.0.0", "1.0.0"), "index": i,
                                        "check": (lambda out, a=a, b=b: ("violation", f"re-opening a database that is already at the current schema changed its contents: before {a} after {b}")),
                                        "history": [x["req"] for x in cs[first_of_history[0]:nxt[0] + 1]]})
            if op == "m.shape" and i > 0 and vlib.decode_line(cs[i - 1]["req"])[0] == "c.open":
                if not all(f"{k}=T" in o for k in ("pk", "vs", "dt", "fs", "nf")):
                    der.append({"req": vlib.line("latest.same", "1.0.0", "1.0.0"), "index": i,
                                "check": (lambda out, o=o: ("violation", f"after opening, the schema is incomplete: {o}")),
                                "history": [x["req"] for x in cs[max(0, i - 6):i + 1]]})
        return der

    def nt(c, o):
        t = c.get("tag")
        if not t:
            return False
        return t[0] == "seq" or ("A=pending" not in o.split("|")[0] or "B=pending" not in o.split("|")[0])
    return [Stream("legacy-and-concurrent-open", cases, nontrivial=nt, derive=derive, shrinkable=False,
                   model_eq=lambda i, m: gen_cache.canon(i) == gen_cache.canon(m))]
