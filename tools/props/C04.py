"""C04 — exactly the registry dependencies a manifest declares are checked."""
import collections
from runner import Stream
import vlib, gen_manifest, fuzzgen, render
from parsers_common import model_lines, pkgs_of, norm_py

PROP_MODULES = ["Vlsp.Props.C04", "Vlsp.Props.C04Layout", "Vlsp.Props.C04LayoutToml", "Vlsp.Props.C04LayoutPy", "Vlsp.Props.C04Walks", "Vlsp.Props.C04Reading"]
RULE = ("(a) the seven Parser::parse implementations vs the Lean parser models run on the SAME syntax tree (the tree tree-sitter really "
        "produces, dumped by the harness; go.mod: raw text; PEP 508 answers of the real library as an input): rendered manifests under "
        "every layout choice plus grammar-aware mutations; (b) the property itself on the implementation: manifests rendered from an "
        "abstract dependency list (registry entries in every documented section and syntactic form; non-registry entries: "
        "workspace:/file:/link:/git/URL/catalog: specifiers, path/workspace/registry/git crates, replace/exclude/retract directives, "
        "local and docker actions, URL requirements, keys outside dependency sections) under all layouts (indentation, CRLF, blank lines, "
        "comments, quoting style, escapes, compact/inline forms, trailing whitespace, tab separators, flow style): the multiset of "
        "(name, spec, hash) must equal the declared set, and re-rendering the same list under another layout must not change it. "
        "non-trivial = at least one registry dependency declared; distinct by format x forms x layout")
ASSUMPTIONS = ["the tree-sitter grammars and pep508_rs are inputs of the models (their output is taken from the real libraries on every case)",
               "PyPI names are compared after PEP 503 normalisation and specifier sets modulo whitespace (the library's normal form)"]

KNOWN = {
    "F-C04-1": "npm non-registry specifier checked as a version",
    "F-C04-2": "JSR specifier with a sub-path keeps the path in the version",
    "F-C04-3": "TOML literal string keeps its quotes",
    "F-C04-4": "renamed crate (package = \"…\") checked under the alias",
    "F-C04-6": "JSON string escapes are not decoded",
    "F-C04-7": "[target.*.dependencies] tables are not visited",
    "F-C04-8": "[dependencies.<name>] sub-tables are not visited",
    "F-C04-9": "trailing whitespace hides a go.mod require line",
    "F-C04-10": "flow-style step mappings are not visited",
    "F-C04-14": "TOML quoted keys are not read",
}


def triple(eco, p):
    return (p["name"], p["version"].replace(" ", "") if eco == "pypi" else p["version"], p["hash"])


def want_of(eco, decl):
    return collections.Counter(((norm_py(d[0]) if eco == "pypi" else d[0]), d[1].replace(" ", "") if eco == "pypi" else d[1], d[2]) for d in decl)


def explain(eco, deps, L, extra, missing):
    """attribute every discrepancy to a recorded class; returns (set of known ids, list of unexplained discrepancies)"""
    known, rest = set(), []
    extra, missing = list(extra.elements()), list(missing.elements())
    if eco == "npm":
        nonreg = set(render.NPM_NONREG) - {"catalog:", "catalog:default"}
        for e in list(extra):
            if e[1] in nonreg:
                known.add("F-C04-1"); extra.remove(e)
        if L["escape"]:
            for e in list(extra):
                if "\\u" in e[0] or "\\u" in e[1]:
                    dec = (e[0].encode().decode("unicode_escape") if "\\u" in e[0] else e[0], e[1].encode().decode("unicode_escape") if "\\u" in e[1] else e[1], e[2])
                    if dec in missing:
                        known.add("F-C04-6"); extra.remove(e); missing.remove(dec)
    if eco == "jsr":
        for e in list(extra):
            if "/" in e[1]:
                m = (e[0], e[1].split("/")[0], e[2])
                if m in missing:
                    known.add("F-C04-2"); extra.remove(e); missing.remove(m)
    if eco in ("crates", "pypi") and L.get("qkey"):
        for m in list(missing):
            known.add("F-C04-14"); missing.remove(m)
    if eco == "crates":
        forms = {(d[1], d[3]): (d[0], d[2]) for d in deps}
        for e in list(extra):
            if L["quote"] == "'" and len(e[1]) >= 2 and e[1][0] == "'" and e[1][-1] == "'" and (e[0], e[1][1:-1], None) in missing:
                known.add("F-C04-3"); extra.remove(e); missing.remove((e[0], e[1][1:-1], None))
            elif e[0].endswith("_alias") and (e[0][:-6], e[1], None) in missing and forms.get((e[0][:-6], e[1]), ("", ""))[1] == "renamed":
                known.add("F-C04-4"); extra.remove(e); missing.remove((e[0][:-6], e[1], None))
        for m in list(missing):
            t, form = forms.get((m[0], m[1]), ("", ""))
            if form == "subtable":
                known.add("F-C04-8"); missing.remove(m)
            elif t.startswith("target."):
                known.add("F-C04-7"); missing.remove(m)
    if eco == "go" and L["trail_ws"]:
        forms = {(d[1], d[2]): d[0] for d in deps}
        for m in list(missing):
            if forms.get((m[0], m[1])) == "block" or (forms.get((m[0], m[1])) == "single" and not L["comment"]):
                known.add("F-C04-9"); missing.remove(m)
    if eco == "gha" and L["flow"]:
        # only the steps that were actually WRITTEN as flow mappings (the renderer keeps steps with a trailing comment in block style)
        flow_written = set((d[3][0], d[3][1], d[3][2]) for d in deps if d[0] == "uses" and d[2] is None and d[3])
        for m in list(missing):
            if m in flow_written:
                known.add("F-C04-10"); missing.remove(m)
    rest = [("checked but not declared", e) for e in extra] + [("declared but not checked", m) for m in missing]
    return known, rest


def streams(ctx):
    rng, tier = ctx["rng"], ctx["tier"]
    quick = tier == "quick"
    n_r = 60 if quick else 4000
    n_m = 150 if quick else 8000
    ECOS = list(gen_manifest.FORMATS)
    # ---- (a) parser models on real trees
    docs = []
    for eco in ECOS:
        for _ in range(n_r):
            docs.append((eco, gen_manifest.manifest(rng, eco, qkey=rng.chance(1, 16))[2], "rendered"))
        k = 0
        for t in fuzzgen.documents(rng, eco, n_m):
            if len(t) < 2500 and k < n_m + 400:
                docs.append((eco, t, "mutated")); k += 1
    # every shape of alias / JSR specifier, systematically
    SHAPES = ["x", "x@1.0.0", "@s/x", "@s/x@1.0.0", "@s", "@", "", "@s/x@", "x@", "@s/@1.0.0", "@s/x@1.0.0/sub", "x@1@2", "@s/x/y@1", "é@1.0.0", "@é/x@^1"]
    for sh in SHAPES:
        docs.append(("npm", '{"dependencies":{"k":"npm:' + sh + '"}}', "shape"))
        docs.append(("jsr", '{"imports":{"k":"jsr:' + sh + '"}}', "shape"))
    # JSON string tokens with escape sequences, well formed and not (the decoded value is the string; an undecodable
    # token keeps the text between its quotes), as keys, values and section names
    ESC = ['\\u0040types\\/node', '@types\\/node', '\\u00e9-pkg', 'a\\"b', 'a\\\\', 'a\\', '\\q', '\\u12', '\\ud83d\\ude00', '\\ud83d', '\\ude00x', '\\ud83d\\u0041',
           '\\u0000', 'tab\\tx', 'a\\nb', '\\u005e1.0.0', '1.0.0\\u0020', '\\b\\f\\r', 'x\u0001y', '\\U0041', 'npm:real\\u0040^1.0.0', 'jsr:@s\\/x@\\u005e1',
           'work\\u0073pace:*', '\\', 'é\\u00e9', '\\u00E9', '\\/\\/']
    for a in ESC:
        for b in ["1.0.0", a]:
            docs.append(("npm", '{"dependencies":{"' + a + '":"' + b + '"}}', "escape"))
            docs.append(("jsr", '{"imports":{"' + a + '":"jsr:@std/x@' + b + '"}}', "escape"))
        docs.append(("npm", '{"de\\u0070endencies":{"x":"' + a + '"}, "' + a + '":{"y":"1.0.0"}}', "escape"))
        docs.append(("jsr", '{"\\u0069mports":{"x":"' + a + '"}}', "escape"))
    ca = [{"req": vlib.line("l.parse", e, t), "eco": e, "tag": None} for e, t, _ in docs]

    def derive_a(cs, impl):
        ml = model_lines([(e, t) for e, t, _ in docs])
        der = []
        for i, (l, o) in enumerate(zip(ml, impl)):
            if o.startswith(("PANIC", "ABORT", "HANG")):
                continue          # C06's subject
            der.append({"req": l, "index": i, "history": [cs[i]["req"]],
                        "check": (lambda out, o=o: None if out == o else ("model", f"parser gives {o[:300]} ; model gives {out[:300]}"))})
        return der

    def nt_a(c, o):
        ok = bool(o) and not o.startswith(("PANIC", "ABORT", "HANG"))
        if ok:
            c["tag"] = (c["eco"], len(o.split(";")), o.count("|S"))
        return ok
    st_a = Stream("parser-models", ca, nontrivial=nt_a, derive=derive_a, model_eq=lambda i, m: True, shrinkable=False, nt_on_impl=True)

    # ---- (b) declared set under all layouts + metamorphic re-rendering
    n_b = 250 if quick else 12000
    cb, meta = [], []
    for eco in ECOS:
        for _ in range(n_b):
            deps, L, text, decl = gen_manifest.manifest(rng, eco, qkey=rng.chance(1, 16))
            L2, text2, decl2 = gen_manifest.rerender(rng, eco, deps, qkey=rng.chance(1, 16))
            cb.append({"req": vlib.line("l.parse", eco, text), "eco": eco, "tag": None}); meta.append((eco, deps, L, text, decl, "first"))
            cb.append({"req": vlib.line("l.parse", eco, text2), "eco": eco, "tag": None}); meta.append((eco, deps, L2, text2, decl2, "rerendered"))

    def derive_b(cs, impl):
        der = []
        # the premise of the layout theorems (c04_npm_layout_invariant, c04_deno_layout_invariant, c04_cargo_layout_invariant_norm) on REAL trees: a manifest and
        # its re-rendering under another layout (escaped spellings included) read as the same abstract JSON
        # (the renderer's "nonascii" option edits the manifest's own name VALUE: pairs that differ in it are left out)
        pairs = [i for i in range(0, len(meta) - 1, 2) if meta[i][0] in ("npm", "jsr", "crates", "pypi", "gha", "pnpm") and meta[i][2]["nonascii"] == meta[i + 1][2]["nonascii"]
                 and bool(meta[i][2].get("qkey")) == bool(meta[i + 1][2].get("qkey"))]      # (a quoted key reads as `other`: finding F-C04-14)
        cap, per = (60 if quick else 1500), {}
        pairs = [i for i in pairs if per.setdefault(meta[i][0], []).append(i) or len(per[meta[i][0]]) <= cap]      # per format
        idxs = [j for i in pairs for j in (i, i + 1)]
        dumps = vlib.run_impl([vlib.line("ts.dump", meta[j][0], meta[j][3]) for j in idxs])
        absr = vlib.run_model([vlib.line("x.abs", meta[j][0], meta[j][3], d) for j, d in zip(idxs, dumps)])
        for k, i in enumerate(pairs):
            a1, a2 = absr[2 * k], absr[2 * k + 1]
            if a1 != a2 or a1 == "-":
                der.append({"req": vlib.line("ml.settle"), "index": i, "history": [cs[i]["req"], cs[i + 1]["req"]],
                            "check": (lambda out, a1=a1, a2=a2: ("model", f"re-rendering changed the abstract reading of the tree: {a1[:200]} vs {a2[:200]}"))})
        for i, ((eco, deps, L, text, decl, which), o) in enumerate(zip(meta, impl)):
            if o.startswith(("PANIC", "ABORT", "HANG")):
                continue
            got = collections.Counter(triple(eco, p) for p in pkgs_of(o))
            want = want_of(eco, decl)
            if got == want:
                continue
            known, rest = explain(eco, deps, L, got - want, want - got)
            for kid in known:
                der.append({"req": vlib.line("ml.settle"), "index": i, "history": [cs[i]["req"]], "check": (lambda out, kid=kid: ("known", kid))})
            for what, e in rest:
                lay = {k: v for k, v in L.items() if v and k not in ("indent", "sp_colon")}
                der.append({"req": vlib.line("ml.settle"), "index": i, "history": [cs[i]["req"]],
                            "check": (lambda out, what=what, e=e, eco=eco, lay=lay: ("violation", f"{eco}: {what}: {e} (layout {lay})"))})
        return der

    def nt_b(c, o):
        ok = bool(o) and not o.startswith(("PANIC", "ABORT", "HANG"))
        if ok:
            c["tag"] = (c["eco"], len(o.split(";")), c["req"][-16:])
        return ok
    st_b = Stream("declared-set", cb, nontrivial=nt_b, derive=derive_b, model_eq=lambda i, m: True, shrinkable=False, nt_on_impl=True)
    # ---- the recorded findings' witnesses (deterministic reproduction) and the repaired ones (must stay repaired)
    W = [("F-C04-4", "crates", "[dependencies]\nserde_alias = { package = \"serde\", version = \"1.0.0\" }\n", [("serde", "1.0.0", None)]),
         ("F-C04-6", "npm", '{"dependencies":{"\\u00e9-pkg":"1.0.0"}}', [("é-pkg", "1.0.0", None)]),
         ("F-C04-7", "crates", "[target.'cfg(unix)'.dependencies]\nlibc = \"0.2.0\"\n", [("libc", "0.2.0", None)]),
         ("F-C04-8", "crates", "[dependencies.serde]\nversion = \"1.0.0\"\n", [("serde", "1.0.0", None)]),
         ("F-C04-8", "crates", "[dependencies.mine]\npath = \"../mine\"\nversion = \"0.1.0\"\n\n[dev-dependencies.al]\npackage = \"real\"\nversion = '2.0.0'\n\n"
                               "[target.'cfg(unix)'.build-dependencies.libc]\nversion = \"0.2.0\"\n\n[dependencies.ws]\nworkspace = true\n\n[package.metadata.dependencies.q]\nversion = \"9.0.0\"\n",
          [("real", "2.0.0", None), ("libc", "0.2.0", None)]),
         ("F-C04-11", "crates", "[target.dependencies]\nanyhow = \"1.0.0\"\n", []),
         ("F-C04-10", "gha", "jobs:\n  b:\n    steps:\n      - { uses: actions/checkout@v4 }\n", [("actions/checkout", "v4", None)]),
         ("F-C04-1", "npm", '{"dependencies":{"a":"workspace:*","b":"file:../x","c":"git+https://github.com/a/b.git#v1","d":"1.0.0"}}', [("d", "1.0.0", None)]),
         ("F-C04-2", "jsr", '{"imports":{"x":"jsr:@luca/flag@^1.0.1/sub/mod.ts"}}', [("@luca/flag", "^1.0.1", None)]),
         ("F-C04-3", "crates", "[dependencies]\nserde = '1.0'\n", [("serde", "1.0", None)]),
         ("F-C04-9", "go", "require (\n\texample.com/m v1.2.3 \n)\n", [("example.com/m", "v1.2.3", None)]),
         ("F-C04-12", "gha", "jobs:\n  b:\n    steps:\n      - uses: docker://alpine@sha256:" + "0123456789abcdef" * 4 + "\n      - uses: ./.github/actions/x@v1\n"
                             "      - uses: docker://ghcr.io/o/i:1\n      - uses: actions/checkout@v4\n", [("actions/checkout", "v4", None)]),
         ("F-C04-13", "jsr", '// deno.jsonc\n{"imports": {"a": "jsr:@std/path@1.0.0"}}', [("@std/path", "1.0.0", None)]),
         ("F-C04-13", "jsr", '/* c */ {\n // d\n"imports": { /* e */ "a": "jsr:@std/path@1.0.0", // f\n "b": "jsr:@std/fs@^2.0.0" }}', [("@std/path", "1.0.0", None), ("@std/fs", "^2.0.0", None)]),
         # (not findings: corners the mutation run showed no generated document reached - kept as fixed cases of this stream)
         ("flow-workflow", "gha", "jobs: {build: {runs-on: ubuntu-latest, steps: [{uses: actions/checkout@v4}, {run: make}, {uses: 'a/b@v1.2.3'}]}}\n",
          [("actions/checkout", "v4", None), ("a/b", "v1.2.3", None)]),
         ("empty-quoted-value", "pnpm", "catalog:\n  empty: \"\"\n  one: '1'\n  q: ''\n  react: ^18.0.0\n", [("one", "1", None), ("react", "^18.0.0", None)]),
         ("short-sha-ref", "gha", "jobs:\n  b:\n    steps:\n      - uses: a/b@1a2b3c4\n      - uses: c/d@" + "g" * 40 + "\n      - uses: e/f@" + "0123456789abcdef" * 2 + "01234567 # v1.2.3\n",
          [("a/b", "1a2b3c4", None), ("c/d", "g" * 40, None), ("e/f", "v1.2.3", "0123456789abcdef" * 2 + "01234567")]),
         ("F-C04-15", "npm", '{"optionalDependencies":{"fsevents":"^2.3.0"},"dependencies":{"a":"1.0.0"}}', [("fsevents", "^2.3.0", None), ("a", "1.0.0", None)]),
         ("F-C04-16", "npm", '{"dependencies":{"a":"user/repo","b":"./local.tgz","c":"../dir","d":"~/dir","e":"/abs/dir","f":"gitlab:u/r","g":"bitbucket:u/r","h":"gist:0123abcd",'
                             '"i":"user/repo#semver:^1.0.0","j":"npm:@scope/real@1.2.3","k":"npm:real@2.0.0","l":"1.0.0"}}',
          [("@scope/real", "1.2.3", None), ("real", "2.0.0", None), ("l", "1.0.0", None)]),
         ("F-C04-14", "crates", "[dependencies]\n\"serde\" = \"1.0.0\"\n", [("serde", "1.0.0", None)]),
         ("F-C04-14", "pypi", "[project]\n\"dependencies\" = [\"requests>=2.0\"]\n", [("requests", ">=2.0", None)])]
    cw = [{"req": vlib.line("l.parse", eco, text), "eco": eco, "tag": ("witness", kid)} for kid, eco, text, _ in W]

    def derive_w(cs, impl):
        der = []
        for i, ((kid, eco, text, want), o) in enumerate(zip(W, impl)):
            got = sorted((triple(eco, p) for p in pkgs_of(o)), key=str) if not o.startswith(("PANIC", "ABORT", "HANG")) else None
            if got != sorted(want, key=str):
                der.append({"req": vlib.line("ml.settle"), "index": i, "history": [cs[i]["req"]],
                            "check": (lambda out, kid=kid, got=got, want=want, eco=eco: ("known", kid) if kid.startswith("F-") else
                                      ("violation", f"{eco} ({kid}): checked {got}, the document declares {sorted(want, key=str)}"))})
        return der
    st_w = Stream("finding-witnesses", cw, nontrivial=lambda c, o: True, derive=derive_w, model_eq=lambda i, m: True, shrinkable=False, nt_on_impl=True)
    return [st_a, st_b, st_w]
