"""C09 — at most one fetcher at a time owns a package; a dead owner's claim expires."""
import itertools
from runner import Stream
import vlib, gen_cache

PROP_MODULES = ["Vlsp.Props.C09"]
RULE = ("explicit statement-level schedules on real Cache handles sharing one SQLite file (statement points of the "
        "cfg(vlsp_verif) hook): up to 3 claimants, each either on its own handle (UPDATE and INSERT scheduled separately) "
        "or under a handle mutex (atomic), with release, data writes (replace_versions / mark_not_found) while claims are held, injected statement failure, and clock advances of 29999/30000/30001 ms, "
        "for new and already-known packages and for two keys (same name, two registries); every boolean result and the final "
        "claim columns are compared with the Lean small-step model, and the mutual-exclusion property itself is evaluated on "
        "the implementation's results; plus REAL concurrency: 2-16 OS threads, one connection each, released by a barrier on the "
        "same key (new and known packages): exactly one must win. quick: all schedules of a bounded alphabet up to length 5 (sampled) + random; "
        "non-trivial = at least two attempts on one key; distinct by event-kind sequence")
ASSUMPTIONS = ["one global monotone clock (virtual clock hook); clock skew between processes is not modelled",
               "a statement issued under contention either runs atomically later or fails busy with no effect (SQLite)",
               "'released' means anyone cleared the row (a slow former owner can release a successor's claim) - within the property's wording"]

KEYS = [("npm", "p"), ("jsr", "p")]


def sched(rng, n):
    """one random schedule as request lines"""
    L = [vlib.line("q.reset")]
    if rng.chance(1, 2):
        # already-known package
        L.append(vlib.line("q.atomic", "9", "a9", *KEYS[0])); L.append(vlib.line("q.release", "a9", *KEYS[0]))
    entered, parked = [], []
    nxt = 1
    for _ in range(n):
        k = rng.below(100)
        key = KEYS[0] if rng.chance(3, 4) else KEYS[1]
        if k < 25 and len(entered) + len(parked) < 3:
            c = str(nxt); nxt += 1
            L.append(vlib.line("q.enter", c, "h" + c, *key)); entered.append(c)
        elif k < 45 and entered:
            c = entered.pop(rng.below(len(entered)))
            L.append(vlib.line("q.update", c)); parked.append(c)   # may already have won: later q.insert is then a nop
        elif k < 58:
            c = str(nxt); nxt += 1
            L.append(vlib.line("q.atomic", c, "a" + str(rng.below(2)), *key))
        elif k < 72 and parked:
            c = parked.pop(rng.below(len(parked)))
            L.append(vlib.line("q.insert", c))
        elif k < 77 and (parked or entered):
            src = parked if (parked and (not entered or rng.chance(1, 2))) else entered
            c = src.pop(rng.below(len(src)))
            L.append(vlib.line("q.busy", c))
        elif k < 84:
            L.append(vlib.line("q.release", "a0", *key))
        elif k < 91:
            # a data write while claims are held (the owner stores what it fetched BEFORE it releases): claims must survive it
            if rng.chance(3, 4):
                L.append(vlib.line("q.store", "a" + str(rng.below(2)), *key, *rng.sample(["1.0.0", "1.1.0", "2.0.0"], rng.below(3))))
            else:
                L.append(vlib.line("q.mark", "a" + str(rng.below(2)), *key))
        else:
            L.append(vlib.line("q.tick", str(rng.choice([1, 29999, 30000, 30001, 15000, 2]))))
    for c in entered:
        L.append(vlib.line("q.update", c)); parked.append(c)
    for c in parked:
        L.append(vlib.line("q.insert", c))
    L.append(vlib.line("q.dump"))
    return L


def streams(ctx):
    rng, tier = ctx["rng"], ctx["tier"]
    n = 400 if tier == "quick" else 8000
    cases, bounds = [], []
    # fixed corpus: the boundary and the two-handle race on a new package
    fixed = [
        ["q.reset", ("q.atomic", "1", "a0", *KEYS[0]), ("q.tick", "29999"), ("q.atomic", "2", "a1", *KEYS[0]), ("q.tick", "1"),
         ("q.atomic", "3", "a1", *KEYS[0]), ("q.tick", "1"), ("q.atomic", "4", "a1", *KEYS[0]), "q.dump"],
        ["q.reset", ("q.enter", "1", "h1", *KEYS[0]), ("q.enter", "2", "h2", *KEYS[0]), ("q.update", "1"), ("q.update", "2"), ("q.insert", "2"), ("q.insert", "1"), "q.dump"],
        ["q.reset", ("q.enter", "1", "h1", *KEYS[0]), ("q.atomic", "2", "a0", *KEYS[0]), ("q.update", "1"), ("q.insert", "1"), ("q.atomic", "3", "a0", *KEYS[1]), "q.dump"],
        ["q.reset", ("q.atomic", "9", "a9", *KEYS[0]), ("q.release", "a9", *KEYS[0]), ("q.enter", "1", "h1", *KEYS[0]), ("q.atomic", "2", "a0", *KEYS[0]), ("q.update", "1"), ("q.insert", "1"), "q.dump"],
    ]
    fixed.append(["q.reset", ("q.atomic", "1", "a0", *KEYS[0]), ("q.store", "a0", *KEYS[0], "1.0.0"), ("q.atomic", "2", "a1", *KEYS[0]),
                  ("q.mark", "a0", *KEYS[0]), ("q.atomic", "3", "a1", *KEYS[0]), ("q.release", "a0", *KEYS[0]), ("q.atomic", "4", "a1", *KEYS[0]), "q.dump"])
    hist = [[vlib.line(*(x if isinstance(x, tuple) else (x,))) for x in f] for f in fixed]
    hist += [sched(rng, 3 + rng.below(10)) for _ in range(n)]
    for h in hist:
        bounds.append((len(cases), len(cases) + len(h)))
        kinds = tuple(vlib.decode_line(l)[0] for l in h)
        for i, l in enumerate(h):
            cases.append({"req": l, "tag": kinds if i == len(h) - 1 else None})

    def derive(cs, impl):
        """the property itself on the implementation's answers: at most one unreleased, unexpired winner per key"""
        der = []
        for (a, b) in bounds:
            now, holders, pend = 0, {}, {}
            for i in range(a, b):
                f = vlib.decode_line(cs[i]["req"]); o = impl[i]
                if f[0] == "q.reset":
                    now, holders, pend = 0, {}, {}
                elif f[0] == "q.tick":
                    now += int(f[1])
                elif f[0] == "q.release":
                    holders.pop((f[2], f[3]), None)
                elif f[0] in ("q.enter", "q.atomic", "q.insert", "q.update"):
                    if f[0] == "q.enter":
                        pend[f[1]] = ((f[3], f[4]), now)
                        continue
                    key, t0 = pend.get(f[1], ((None, None), now)) if f[0] in ("q.insert", "q.update") else ((f[3], f[4]), now)
                    if o == "T":
                        h = holders.get(key)
                        if h is not None and now <= h[1] + 30000:
                            der.append({"req": vlib.line("latest.same", "1.0.0", "1.0.0"), "index": i,
                                        "check": (lambda out, key=key, h=h, f=f, now=now: ("violation", f"claimant {f[1]} won {key} at {now} ms while claimant {h[0]} (since {h[1]} ms) still holds it")),
                                        "history": [c["req"] for c in cs[a:i + 1]]})
                            break
                        holders[key] = (f[1], t0)
            # (no else)
        return der

    def nt(c, o):
        t = c.get("tag")
        return bool(t) and sum(1 for k in t if k in ("q.enter", "q.atomic")) >= 2
    # real OS threads, one SQLite connection each, released together by a barrier: whatever interleaving the machine
    # produces must have exactly one winner (c09_mutex says so for ALL interleavings of the model's steps)
    rc = [{"req": vlib.line("q.reset"), "tag": None}]
    nr = 60 if ctx["tier"] == "quick" else 3000
    for i in range(nr):
        n = [2, 3, 4, 8, 16][i % 5]
        rc.append({"req": vlib.line("q.race", str(n), ["npm", "jsr"][i % 2], f"pkg{i // 3}", "T" if (i // 5) % 2 else "F"), "tag": ("race", n, (i // 5) % 2, i)})

    def derive_r(cs, impl):
        der = []
        for i, (c, o) in enumerate(zip(cs, impl)):
            if c["req"].startswith("q.race") and not (o.startswith("won=1 ") and o.endswith("err=0")):
                f = vlib.decode_line(c["req"])
                der.append({"req": vlib.line("ml.settle"), "index": i, "history": [cs[0]["req"], c["req"]],
                            "check": (lambda out, o=o, f=f: ("violation", f"{f[1]} threads claimed {f[2]}/{f[3]} at the same instant: {o} (exactly one must win)"))})
        return der
    race = Stream("real-threads", rc, nontrivial=lambda c, o: c.get("tag") is not None, derive=derive_r, model_eq=lambda i, m: True, shrinkable=False, nt_on_impl=True)
    return [Stream("claim-schedules", cases, nontrivial=nt, derive=derive, shrinkable=False,
                   model_eq=lambda i, m: gen_cache.canon(i) == gen_cache.canon(m)), race]
