"""C13 — last published diagnostics match the document's latest text and the cache."""
from runner import Stream
import vlib, gen_cache
from lsp_common import to_model_lines, canon_msgs

PROP_MODULES = ["Vlsp.Props.C13", "Vlsp.Props.C13Full"]
RULE = ("the real Backend in an in-process LspService (tokio current-thread runtime, paused clock), real Cache, real parsers/matchers, "
        "gate-controlled registries (each fetch parks until the scenario releases it): scenarios = 1-2 documents x 1-3 edits x 1-2 packages "
        "x reply outcomes (ok / not found / transient) with the replies interleaved with the later edits and didClose in random orders (every order of "
        "small scenarios in the thorough tier); the ordered publishDiagnostics stream after every step vs the Lean server model; and the "
        "property itself on the implementation: at quiescence the last published diagnostics of each document must equal what re-checking "
        "its latest text against the final cache publishes. non-trivial = a task completes after a later edit, or a claim is refused; "
        "distinct by the step sequence")
ASSUMPTIONS = ["a notification handler is atomic up to its tokio::spawn; tower-lsp may overlap handlers in ways finer than the model (not exhibited)",
               "the start-up background refresh is outside the property's quantifier (its cache effect is C10)"]

V = {"lodash": ["4.17.20", "4.17.21", "4.18.0"], "react": ["17.0.0", "18.2.0"], "serde": ["1.0.0", "1.0.200"]}


def pj(deps):
    body = ",\n".join(f'    "{n}": "{s}"' for n, s in deps)
    return '{\n  "dependencies": {\n' + body + "\n  }\n}"


P = "file:///w/c/pnpm-workspace.yaml"      # a document of ANOTHER registry type (pnpm catalog) that may name the same packages


def eco_of(uri):
    """(parser name for l.parse, registry type for l.reply)"""
    return ("pnpm", "pnpm_catalog") if uri.endswith(".yaml") else ("npm", "npm")


def text_of(uri, deps):
    if uri.endswith(".yaml"):
        return ("catalog:\n" + "".join(f"  {n}: {s}\n" for n, s in deps)) if deps else "packages:\n  - 'a/*'\n"
    return pj(deps)


def scenario(rng):
    docs = {"file:///w/a/package.json": "npm"}
    if rng.chance(1, 2):
        docs["file:///w/b/package.json"] = "npm"
    if rng.chance(1, 3):
        docs[P] = "pnpm"
    L = [vlib.line("l.start", "T"), vlib.line("l.init")]
    steps, opened = [], set()
    texts = {}
    pending_names = []
    nsteps = 3 + rng.below(6)
    for _ in range(nsteps):
        k = rng.below(10)
        if k == 9 and opened and rng.chance(1, 2):
            # didClose: the document leaves the server's map; tasks it started keep running and must still serve the others
            uri = rng.choice(sorted(opened))
            L.append(vlib.line("l.close", uri))
            opened.discard(uri); texts.pop(uri, None)
            continue
        if k < 5 or not pending_names:
            uri = rng.choice(list(docs))
            deps = [(rng.choice(["lodash", "react"]), rng.choice(["4.17.20", "^4.17.21", "17.0.0", "^18.0.0", "9.9.9", "latest", "junk"]))
                    for _ in range(rng.below(3))]
            text = text_of(uri, deps)
            L.append(vlib.line("l.parse", eco_of(uri)[0], text))
            L.append(vlib.line("l.open" if uri not in opened else "l.change", uri, text))
            opened.add(uri); texts[uri] = text
            pending_names += [(eco_of(uri)[1], n) for n, _ in deps]
        else:
            reg, n = rng.choice(pending_names)
            kind = rng.choice(["ok", "ok", "ok", "nf", "rl"])
            L.append(vlib.line("l.reply", reg, n, kind, *(V[n] if kind == "ok" else [])))
    # let everything finish: answer whatever is still parked, then settle
    for reg in (["npm", "pnpm_catalog"] if P in docs else ["npm"]):
        for n in ["lodash", "react"] * 3:
            L.append(vlib.line("l.reply", reg, n, "ok", *V[n]))
    L.append(vlib.line("l.settle"))
    mark = len(L)
    # the property's yardstick: re-check the latest text against the final cache
    for uri, text in texts.items():
        L.append(vlib.line("l.parse", eco_of(uri)[0], text))
        L.append(vlib.line("l.change", uri, text))
    L.append(vlib.line("l.dump"))
    return L, mark, texts


def fixed(steps):
    """a hand-written schedule: list of ('edit', uri, deps) / ('reply', name, kind)"""
    L = [vlib.line("l.start", "T"), vlib.line("l.init")]
    opened, texts = set(), {}
    for st in steps:
        if st[0] == "edit":
            text = text_of(st[1], st[2])
            L.append(vlib.line("l.parse", eco_of(st[1])[0], text))
            L.append(vlib.line("l.open" if st[1] not in opened else "l.change", st[1], text))
            opened.add(st[1]); texts[st[1]] = text
        elif st[0] == "close":
            L.append(vlib.line("l.close", st[1]))
            opened.discard(st[1]); texts.pop(st[1], None)
        else:
            L.append(vlib.line("l.reply", st[3] if len(st) > 3 else "npm", st[1], st[2], *(V[st[1]] if st[2] == "ok" else [])))
    L.append(vlib.line("l.settle"))
    mark = len(L)
    for uri, text in texts.items():
        L.append(vlib.line("l.parse", eco_of(uri)[0], text))
        L.append(vlib.line("l.change", uri, text))
    L.append(vlib.line("l.dump"))
    return L, mark, texts


A, B = "file:///w/a/package.json", "file:///w/b/package.json"
WITNESSES = [
    [("edit", A, [("lodash", "4.17.20")]), ("edit", A, [("lodash", "4.18.0")]), ("reply", "lodash", "ok")],          # F-C13-1
    [("edit", A, [("lodash", "4.17.20")]), ("edit", B, [("lodash", "4.17.21")]), ("reply", "lodash", "ok")],         # F-C13-2
    [("edit", A, [("lodash", "4.17.20")]), ("reply", "lodash", "ok")],                                               # plain open converges
    [("edit", A, [("lodash", "4.17.20"), ("react", "^18.0.0")]), ("reply", "react", "nf"), ("reply", "lodash", "ok")],
    [("edit", A, [("lodash", "4.17.20")]), ("reply", "lodash", "rl")],
    # the document whose task fetches is closed before the reply: the other document must still converge
    [("edit", A, [("lodash", "4.17.20")]), ("edit", B, [("lodash", "4.17.21")]), ("close", A), ("reply", "lodash", "ok")],
    [("edit", A, [("lodash", "4.17.20")]), ("close", A), ("edit", A, [("lodash", "4.17.21")]), ("reply", "lodash", "ok")],
    # documents of two registry types that name the same package: each is re-checked by its OWN parser and matcher, whoever fetched
    [("edit", P, [("lodash", "4.17.20")]), ("reply", "lodash", "ok", "pnpm_catalog"), ("edit", A, [("lodash", "4.17.20")]), ("reply", "lodash", "ok")],
    [("edit", A, [("lodash", "4.17.20")]), ("edit", P, [("lodash", "^4.17.21"), ("react", "17.0.0")]), ("reply", "lodash", "ok"),
     ("reply", "lodash", "ok", "pnpm_catalog"), ("reply", "react", "nf", "pnpm_catalog")],
]


def streams(ctx):
    rng, tier = ctx["rng"], ctx["tier"]
    n = 120 if tier == "quick" else 4000
    cases, groups = [], []
    for L, mark, texts in [fixed(w) for w in WITNESSES] + [scenario(rng) for _ in range(n)]:
        a = len(cases)
        kinds = tuple(vlib.decode_line(l)[0] + ":" + (vlib.decode_line(l)[1][-14:] if len(vlib.decode_line(l)) > 1 else "") for l in L[:mark] if not l.startswith("l.parse"))
        for i, l in enumerate(L):
            cases.append({"req": l, "tag": kinds if i == mark - 1 else None})
        groups.append((a, a + mark, a + len(L), texts))

    def derive(cs, impl):
        der = []
        for (a, m, b, texts) in groups:
            lines = [c["req"] for c in cs[a:b]]
            outs = impl[a:b]
            ml, exp, idx = to_model_lines(lines, outs)
            for l, e, i in zip(ml, exp, idx):
                der.append({"req": l, "expect": canon_msgs(e) if not l.startswith("ml.dump") else e, "kind": "model", "index": a + i,
                            "check": (lambda out, e=e, l=l: None if (gen_cache.canon(out) == gen_cache.canon(e) if l.startswith("ml.dump") else canon_msgs(out) == canon_msgs(e)) else ("model", canon_msgs(e)))})
            # the property: last publication per uri before the yardstick == the yardstick's publication
            last = {}
            stale_risk, skipped_risk = {}, {}
            names_by_uri = {}
            parked_now = set()
            live_tasks = {}      # uri -> number of unfinished tasks (approximation: parked names attributed at edit time)
            owner = {}           # parked name -> the document whose task holds its claim
            fetched_by = {}      # name -> the document whose task fetched it successfully
            latest_names = {}    # uri -> names its latest text needs
            for i in range(a, m):
                f = vlib.decode_line(cs[i]["req"]); o = impl[i]
                if f[0] in ("l.open", "l.change"):
                    uri = f[1]
                    if not any(part.startswith("pub " + vlib.hx(uri)) for part in o.split(" ; ")):
                        der.append({"req": vlib.line("ml.settle"), "index": i, "history": [c["req"] for c in cs[a:i + 1]],
                                    "check": (lambda out, uri=uri: ("violation", f"an edit of {uri} published nothing: the diagnostics of the previous revision stay in force"))})
                    before = set(parked_now)
                    for part in o.split(" ; "):
                        if part.startswith("pub "):
                            last[part.split(" ")[1]] = part
                        if part.startswith("parked="):
                            parked_now = set(x for x in part[8:-1].split(",") if x)
                    if live_tasks.get(uri):
                        stale_risk[uri] = True       # an edit while an earlier task of this document is unfinished
                    names_needed = set()
                    # a package needed by this revision was already being fetched for someone else
                    pk = impl[i - 1]
                    for it in [x for x in pk.split(";") if x]:
                        names_needed.add("npm/" + it.split("|")[0])
                    names_by_uri.setdefault(uri, set()).update(names_needed)
                    latest_names[uri] = names_needed
                    for nm in parked_now - before:
                        owner[nm] = uri              # claimed by the task this edit spawned
                    live_tasks[uri] = len(parked_now - before)
                elif f[0] in ("l.reply", "l.settle"):
                    if f[0] == "l.reply" and o != "noparked" and f[3] == "ok":
                        nm = "npm/" + vlib.hx(f[2])
                        if nm in owner:
                            fetched_by[nm] = owner[nm]
                    for part in o.split(" ; "):
                        if part.startswith("pub "):
                            last[part.split(" ")[1]] = part
                        if part.startswith("parked="):
                            parked_now = set(x for x in part[8:-1].split(",") if x)
                    if not parked_now:
                        live_tasks = {}
            for i in range(m, b):
                f = vlib.decode_line(cs[i]["req"]); o = impl[i]
                if f[0] == "l.change":
                    want = [p for p in o.split(" ; ") if p.startswith("pub ")]
                    if not want:
                        continue
                    hu = want[0].split(" ")[1]
                    if last.get(hu) != want[0]:
                        why = (f"document {f[1]}: last published {last.get(hu)} but its latest text against the final cache gives {want[0]}")
                        # F-C13-2 (open): a package this document's latest text needs was fetched by ANOTHER document's task, which
                        # republishes only its own document; F-C13-1 (fixed): a task republished a stale revision of its own document
                        other = any(fetched_by.get(nm) not in (None, f[1]) for nm in latest_names.get(f[1], set()))
                        kid = "F-C13-2" if other else ("F-C13-1" if stale_risk.get(f[1]) else None)
                        der.append({"req": vlib.line("ml.settle"), "index": a, "history": [c["req"] for c in cs[a:b]],
                                    "check": (lambda out, kid=kid, why=why: ("known", kid) if kid else ("violation", why))})
        return der

    def nt(c, o):
        return c.get("tag") is not None
    return [Stream("publish-schedules", cases, nontrivial=nt, derive=derive, model_eq=lambda i, m: True, shrinkable=False, nt_on_impl=True)]
