"""C18 — an unusable cache disables checking; it never crashes or misinforms."""
import atexit, os, shutil, tempfile
from runner import Stream
import vlib
from lsp_common import to_model_lines, canon_msgs

PROP_MODULES = ["Vlsp.Props.C18", "Vlsp.Props.C12"]
RULE = ("(a) config::data_dir / db_path / log_path under every combination of $XDG_DATA_HOME (unset, empty, absolute, relative, trailing "
        "slashes, spaces, non-ASCII) and $HOME vs the Lean DataDir model; (b) the PRODUCTION constructor Backend::new in an in-process "
        "LspService under a controlled $XDG_DATA_HOME: data directory below a regular file, database path occupied by a directory, a "
        "truncated / zero-length / garbage database file, and an intact database written by an earlier server (must be used as is): full "
        "traffic of didOpen/didChange/codeAction/didClose sessions vs the Lean server model in no-store mode, and the property itself on "
        "the implementation (warning shown, nothing published, codeAction null, every request answered); (c) Backend::build over a "
        "database damaged at every page boundary and at random byte ranges (main file and live WAL) and under a foreign write lock: every "
        "published diagnostic must be one the undamaged database yields or be backed by rows still readable; (e) the real server PROCESS "
        "(run_server over stdio: logging set-up + Backend::new) started under each data-directory situation must answer initialize and "
        "shutdown; (d) a failure injected into "
        "each VersionStorer operation after a healthy start (reads: vs the model with failing reads; writes: liveness and backing). "
        "non-trivial = the session shows the warning, or a read/write fails; distinct by scenario kind and damage position")
ASSUMPTIONS = ["the sandbox runs as root: permission-based damage (read-only file or directory) cannot fail here and is not exercised; "
               "the same code path (create_dir_all / Connection::open returning Err) is reached through a file in place of the directory",
               "dirs::home_dir() falls back to the passwd entry when $HOME is unset, so 'no home directory' is covered by the theorem "
               "c18_datadir_cwd only", "a non-UTF-8 $XDG_DATA_HOME (std::env::var → Err → treated as unset) is not in the hex protocol",
               "SQLite has no page checksums: an overwrite that leaves a structurally valid page with different payload bytes is read as data; "
               "such a diagnostic counts as backed by what was read"]

ROOT = tempfile.mkdtemp(prefix="vlsp-c18-")
atexit.register(lambda: shutil.rmtree(ROOT, ignore_errors=True))

U = {"npm": "file:///w/package.json", "crates": "file:///w/Cargo.toml", "other": "file:///w/readme.md"}
ECO = {"npm": "npm", "crates": "crates"}
REG = {"npm": "npm", "crates": "crates_io"}
VERS = {"lodash": ["4.17.20", "4.17.21", "4.18.0"], "react": ["17.0.0", "18.2.0"], "serde": ["1.0.0", "1.0.200"], "rand": ["0.7.0", "0.8.5"]}
SPECS = {"npm": ["4.17.20", "^4.17.21", "17.0.0", "^18.0.0", "9.9.9", "latest", "junk"], "crates": ["1.0.0", "0.7", "=1.0.200", "9", "x y"]}
NAMES = {"npm": ["lodash", "react"], "crates": ["serde", "rand"]}


def doc(rng, kind, n=None):
    deps = [(rng.choice(NAMES[kind]), rng.choice(SPECS[kind])) for _ in range(rng.below(3) if n is None else n)]
    if kind == "npm":
        return '{\n  "dependencies": {\n' + ",\n".join(f'    "{a}": "{b}"' for a, b in deps) + "\n  }\n}", deps
    return "[dependencies]\n" + "".join(f'{a} = "{b}"\n' for a, b in deps), deps


def session_ops(rng, steps, kinds=("npm", "crates", "other"), replies=False):
    """a random client session: open/change/action/close"""
    L, opened, names = [], set(), []
    for _ in range(steps):
        k = rng.below(10)
        kind = rng.choice(list(kinds))
        uri = U[kind]
        if k < 5:
            if kind == "other":
                text = "hello"
                L.append(vlib.line("l.parse", "npm", ""))
            else:
                text, deps = doc(rng, kind)
                names += [(REG[kind], a) for a, _ in deps]
                L.append(vlib.line("l.parse", ECO[kind], text))
            L.append(vlib.line("l.open" if uri not in opened else "l.change", uri, text)); opened.add(uri)
        elif k < 8:
            L.append(vlib.line("l.action", uri, str(rng.below(4)), str(rng.below(30))))
        elif k < 9 and uri in opened:
            L.append(vlib.line("l.close", uri)); opened.discard(uri)
        elif replies and names:
            reg, n = rng.choice(names)
            kindr = rng.choice(["ok", "ok", "nf", "rl"])
            L.append(vlib.line("l.reply", reg, n, kindr, *(VERS[n] if kindr == "ok" else [])))
    if replies:
        for reg, n in sorted(set(names)) * 2:
            L.append(vlib.line("l.reply", reg, n, "ok", *VERS[n]))
    L.append(vlib.line("l.settle"))
    return L


def populate(path):
    L = [vlib.line("l.startfile", path)]
    for n, vs in VERS.items():
        L.append(vlib.line("l.cache", "crates_io" if n in ("serde", "rand") else "npm", n, *vs))
    return L


WARN = "show warning " + vlib.hx("Cache not available, version checking disabled")


def streams(ctx):
    rng, tier = ctx["rng"], ctx["tier"]
    quick = tier == "quick"
    # ---- (a) data directory rule
    xs = ["-", "S", "S/x/y", "S/x/y/", "S/x//", "S/", "Srel", "Srel/dir/", "S/with space/d", "S/ü/データ", "S.", "S..", "S/x/./y", "S//"]
    hs = ["-", "S/home/u", "S/home/u/", "S/", "Srelhome", "S/h ü"]
    ca = [{"req": vlib.line("l.datadir", x, h), "tag": (x, h)} for x in xs for h in hs if not (x == "-" and h == "-")]
    st_a = Stream("datadir", ca, nontrivial=lambda c, o: True, shrinkable=False)

    # ---- (b) production constructor
    cases, groups = [], []
    seq = [0]

    def fresh(prefix):
        seq[0] += 1
        return f"{ROOT}/{prefix}-{seq[0]}"

    def add(L, tag, meta):
        a = len(cases)
        for i, l in enumerate(L):
            cases.append({"req": l, "tag": tag if i == len(L) - 1 else None})
        groups.append((a, len(cases), meta))

    n_b = 12 if quick else 300
    for i in range(n_b):
        kind = ["file-in-the-way", "db-is-a-directory", "zero-length", "garbage", "truncated", "intact"][i % 6]
        root = fresh("unusable" if kind in ("file-in-the-way", "db-is-a-directory") else ("probe" if kind in ("garbage", "truncated") else "usable"))
        dbp = root + "/version-lsp/versions.db"
        L = []
        if kind == "file-in-the-way":
            L += [vlib.line("fs.mkfile", root, "x")]
            xdg = root if rng.chance(1, 2) else root + "/sub"
        else:
            xdg = root
            L += [vlib.line("fs.mkdir", root + "/version-lsp")]
            if kind == "db-is-a-directory":
                L += [vlib.line("fs.mkdir", dbp)]
            elif kind == "zero-length":
                L += [vlib.line("fs.mkfile", dbp, "")]           # an empty file is a valid empty database: the store is usable
            elif kind == "garbage":
                L += [vlib.line("fs.mkfile", dbp, "this is not a database " * (1 + rng.below(300)))]
            else:
                L += populate(dbp) + [vlib.line("l.stop")]
                if kind == "truncated":
                    L += [vlib.line("fs.damage", dbp, "truncate", str(rng.choice([1, 16, 99, 100, 511, 1024, 4095])))]
        if kind in ("garbage", "truncated"):
            # whether SQLite still accepts the file (a file shorter than a page is a valid EMPTY database) is probed on a copy
            L += [vlib.line("fs.copy", dbp, root + "/probe.db"), vlib.line("l.startfile", root + "/probe.db"), vlib.line("l.stop")]
        L += [vlib.line("l.startprod", xdg), vlib.line("l.init")]
        if kind in ("intact",):
            # every package of the documents is cached: no registry traffic, diagnostics must reflect the earlier server's data
            for k2 in ("npm", "crates"):
                text, _ = doc(rng, k2, 2)
                L += [vlib.line("l.parse", ECO[k2], text), vlib.line("l.open", U[k2], text), vlib.line("l.action", U[k2], str(1 + rng.below(2)), str(10 + rng.below(12)))]
            L += [vlib.line("l.settle")]
        elif kind in ("zero-length", "garbage", "truncated"):
            L += [vlib.line("l.parse", "npm", '{"dependencies":{}}'), vlib.line("l.open", U["npm"], '{"dependencies":{}}'), vlib.line("l.settle")]
        else:
            L += session_ops(rng, 4 + rng.below(6))
        L += [vlib.line("l.stop")]
        add(L, ("prod", kind, i // 6 if kind != "truncated" else L[-3]), {"kind": kind, "model": True})

    # ---- (c) damaged files under Backend::build (gated registries)
    PAGE = 4096
    BIG = [f"1.0.{i}" for i in range(4000)]          # enough rows for the versions table and its index to span dozens of pages
    npages = 130
    if quick:
        pages = list(range(12)) + sorted(rng.sample(range(12, npages), 20))
        pts = [("main", p * PAGE, PAGE, "zero") for p in pages] + [("main", p * PAGE, None, "trunc") for p in pages]
        pts += [("main", rng.below(60 * PAGE), 64 + rng.below(3000), rng.choice(["rand", "zero", "ff"])) for _ in range(12)]
    else:
        pts = [("main", p * PAGE, PAGE, k) for p in range(npages) for k in ("zero", "ff", "rand")]
        pts += [("main", p * PAGE + d, None, "trunc") for p in range(npages) for d in (0, 1, 100, 2048)]
        pts += [("main", rng.below(npages * PAGE), 64 + rng.below(9000), rng.choice(["rand", "zero", "ff"])) for _ in range(400)]
    for j in range(6 if quick else 80):
        pts.append(("wal", rng.below(400000), 32 + rng.below(4000), rng.choice(["rand", "zero", "trunc"])))
    healthy_docs = {
        "npm": '{\n  "dependencies": {\n    "lodash": "4.17.20",\n    "react": "^18.0.0",\n    "big": "1.0.3500",\n    "big": "1.0.7",\n    "big": "^1.0.2000"\n  }\n}',
        "crates": '[dependencies]\nserde = "1.0.0"\nrand = "9"\n',
    }

    def populate_big(path):
        return populate(path) + [vlib.line("l.cache", "npm", "big", *BIG)]
    master = fresh("master") + ".db"
    add(populate_big(master) + [vlib.line("l.stop"), vlib.line("fs.size", master)], ("master",), {"kind": "setup", "model": False})
    # reference: the undamaged database
    ref = fresh("ref") + ".db"
    L = [vlib.line("fs.copy", master, ref), vlib.line("l.startfile", ref), vlib.line("l.init")]
    for k2, text in healthy_docs.items():
        L += [vlib.line("l.parse", ECO[k2], text), vlib.line("l.open", U[k2], text)]
    L += [vlib.line("l.stop"), vlib.line("fs.rm", ref)]
    add(L, ("reference",), {"kind": "reference", "model": False})
    for (which, off, ln, k) in pts:
        dst = fresh("dmg") + ".db"
        if which == "main":
            L = [vlib.line("fs.copy", master, dst)]
        else:
            src = fresh("src") + ".db"
            # copy while the writer is still open, so that a live WAL exists
            L = populate_big(src) + [vlib.line("fs.copy", src, dst), vlib.line("fs.copy", src + "-wal", dst + "-wal"), vlib.line("l.stop"), vlib.line("fs.rm", src)]
        target = dst if which == "main" else dst + "-wal"
        if k == "trunc":
            L += [vlib.line("fs.damage", target, "truncate", str(off))]
        else:
            L += [vlib.line("fs.damage", target, "overwrite", str(off), str(ln), str(1 + rng.below(1 << 30)), k)]
        L += [vlib.line("l.startfile", dst), vlib.line("l.init")]
        for k2, text in healthy_docs.items():
            L += [vlib.line("l.parse", ECO[k2], text), vlib.line("l.open", U[k2], text), vlib.line("l.action", U[k2], "4" if k2 == "npm" else "1", "14" if k2 == "npm" else "10")]
        L += [vlib.line("l.dumpfile", dst)]
        for n in ["lodash", "react", "serde", "rand"] * 2:
            L += [vlib.line("l.reply", "crates_io" if n in ("serde", "rand") else "npm", n, "ok", *VERS[n])]
        L += [vlib.line("l.reply", "npm", "big", "ok", "1.0.0", "1.0.1")]
        L += [vlib.line("l.settle"), vlib.line("l.stop"), vlib.line("fs.rm", dst), vlib.line("fs.rm", dst + "-wal"), vlib.line("fs.rm", dst + "-shm")]
        # damage after which an honest read either sees the original bytes or fails: whole pages missing or zeroed
        strict = which == "main" and (k == "trunc" or (k in ("zero", "ff") and off % PAGE == 0 and ln == PAGE))
        add(L, ("damage", which, off // PAGE, k), {"kind": "damage", "model": False, "strict": strict})
    # a foreign write lock (5 s busy timeout each: few cases)
    for mode in (["immediate"] if quick else ["immediate", "exclusive"]):
        p = fresh("locked") + ".db"
        L = populate(p) + [vlib.line("l.stop"), vlib.line("fs.lock", p, mode), vlib.line("l.startfile", p), vlib.line("l.init")]
        text = '{\n  "dependencies": {\n    "lodash": "4.17.20",\n    "react": "^18.0.0"\n  }\n}'
        L += [vlib.line("l.parse", "npm", text), vlib.line("l.open", U["npm"], text), vlib.line("l.action", U["npm"], "2", "16"), vlib.line("l.settle"), vlib.line("l.stop"), vlib.line("fs.unlock")]
        add(L, ("locked", mode), {"kind": "locked", "model": False})

    # ---- (d) failures injected after a healthy start
    READ, WRITE = ["L", "T", "V"], ["c", "r", "s", "m", "f", "F", "n"]
    n_d = 40 if quick else 1500
    for i in range(n_d):
        rd = i % 2 == 0
        sites = READ if rd else READ + WRITE
        faults = sorted(set(f"{rng.choice(sites)}:{rng.choice(['*', 'lodash', 'react', 'serde'])}" for _ in range(1 + rng.below(3))))
        if i < len(sites):
            faults = [f"{sites[i]}:*"]
        L = [vlib.line("l.startfaulty", "T", ",".join(faults))]
        for n in rng.sample(list(VERS), rng.below(4) if not rd else 4):
            L.append(vlib.line("l.cache", "crates_io" if n in ("serde", "rand") else "npm", n, *VERS[n]))
        if rng.chance(1, 3):
            L.append(vlib.line("l.tags", "npm", "lodash", "latest", "4.17.21"))
        L += [vlib.line("l.init")] + session_ops(rng, 4 + rng.below(5), kinds=("npm", "crates"), replies=not rd) + [vlib.line("l.dump"), vlib.line("l.stop")]
        add(L, ("faults", tuple(faults)), {"kind": "faults", "model": rd, "faults": faults})

    def diags_of(out):
        """[(uri, [diag strings])] of one step's traffic"""
        res = []
        for part in out.split(" ; "):
            if part.startswith("pub "):
                f = part.split(" ", 2)
                ds = f[2].strip()[1:-1]
                res.append((f[1], [d for d in ds.split(",") if d]))
        return res

    def derive(cs, impl):
        der = []
        ref_diags = set()
        for (a, b, meta) in groups:
            lines = [c["req"] for c in cs[a:b]]
            outs = impl[a:b]
            hist = lines
            def viol(why, idx=a, hist=hist):
                der.append({"req": vlib.line("ml.settle"), "index": idx, "history": hist, "check": (lambda out, why=why: ("violation", why))})
            # liveness: every request of the session was answered
            for i, o in enumerate(outs):
                if o.startswith("PANIC") or o.startswith("ERR") or o.startswith("UNKNOWN"):
                    if vlib.decode_line(lines[i])[0] in ("l.dumpfile",):
                        continue
                    viol(f"request {vlib.decode_line(lines[i])[:2]} was not answered: {o[:200]}", a + i)
            kind = meta["kind"]
            probe = [o for l, o in zip(lines, outs) if l.startswith("l.startfile") and vlib.decode_line(l)[1].endswith("/probe.db")]
            usable = bool(probe) and probe[-1] == "ok"
            if meta["model"]:
                mlines, mouts = lines, outs
                if probe:       # the probe session is not part of the modelled run
                    k0 = max(i for i, l in enumerate(lines) if l.startswith("l.startprod"))
                    mlines, mouts = lines[k0:], outs[k0:]
                ml, exp, idx = to_model_lines(mlines, mouts, prod_store=lambda p: "/usable-" in p or ("/probe-" in p and usable))
                if probe:
                    idx = [i + k0 for i in idx]
                for l, e, i in zip(ml, exp, idx):
                    op = vlib.decode_line(l)[0]
                    if op in ("ml.start", "ml.restart", "ml.cache", "ml.tags", "ml.dump"):
                        der.append({"req": l, "index": a + i, "check": (lambda out: None)})
                        continue
                    der.append({"req": l, "index": a + i, "history": hist, "check": (lambda out, e=e: None if canon_msgs(out) == canon_msgs(e) else ("model", canon_msgs(e)))})
            if kind == "reference":
                for o in outs:
                    for _, ds in diags_of(o):
                        ref_diags.update(ds)
            if kind in ("file-in-the-way", "db-is-a-directory") or (kind in ("garbage", "truncated") and not usable):
                # the property, stated on the implementation: the user is told, nothing is published, no action offered
                started = False
                for i, (l, o) in enumerate(zip(lines, outs)):
                    f = vlib.decode_line(l)
                    if f[0] == "l.startprod":
                        started = True; continue
                    if not started:
                        continue
                    if "pub " in o:
                        viol(f"{kind}: diagnostics were published although the cache cannot be opened: {o[:160]}", a + i)
                    if f[0] in ("l.open", "l.change") and not f[1].endswith("readme.md") and WARN not in o:
                        viol(f"{kind}: an edit of {f[1]} did not tell the user that version checking is unavailable: {o[:160]}", a + i)
                    if f[0] == "l.action" and "act none" not in o:
                        viol(f"{kind}: a code action was offered without a cache: {o[:160]}", a + i)
            if kind == "zero-length" or (kind in ("garbage", "truncated") and usable):
                if not any(o.startswith("pub ") for o in outs):
                    viol(f"{kind}: SQLite accepts the file as an (empty) database but the server did not use it")
            if kind == "intact":
                pubs = [d for o in outs for _, ds in diags_of(o) for d in ds]
                acts = [o for l, o in zip(lines, outs) if l.startswith("l.action") and "act none" not in o]
                # (the exact expected traffic is the model's; here only: the earlier server's data was used at all)
                if any(WARN in o for o in outs):
                    viol("an intact database in $XDG_DATA_HOME/version-lsp was not used")
            if kind in ("damage", "locked"):
                opened = [o for l, o in zip(lines, outs) if l.startswith("l.startfile")][-1]
                if opened != "ok":
                    continue          # production: Err → no store (stream b)
                # diagnostics published BEFORE any registry reply rewrites the rows must be backed by the file's content
                for i, (l, o) in enumerate(zip(lines, outs)):
                    f = vlib.decode_line(l)
                    if f[0] == "l.reply":
                        break
                    if f[0] not in ("l.open",):
                        continue
                    dumps_ = [o2 for l2, o2 in zip(lines, outs) if l2.startswith("l.dumpfile")]
                    dump = dumps_[-1] if dumps_ else "PANIC"
                    for _, ds in diags_of(o):
                        for d in ds:
                            if d in ref_diags:
                                continue      # what the undamaged database yields
                            msg = vlib.unhx(d.split(":", 1)[1].split("@")[0])
                            if meta.get("strict"):
                                viol(f"damaged database (whole pages missing or zeroed, so every read either sees the original rows or fails): "
                                     f"published '{msg}', which the undamaged database does not yield - a failed read was taken for data", a + i)
                                continue
                            if dump.startswith("PANIC"):
                                continue      # rows no longer enumerable (see ASSUMPTIONS)
                            if msg.startswith("Update available: ") and vlib.hx(msg.rsplit(" -> ", 1)[1]) not in dump:
                                viol(f"damaged database: published '{msg}', which neither the undamaged nor the damaged file's rows back", a + i)
            if kind == "faults":
                dump = [o for l, o in zip(lines, outs) if l.startswith("l.dump")][-1]
                failing_L = set(x.split(":")[1] for x in meta["faults"] if x[0] == "L")
                parsed = None
                for i, (l, o) in enumerate(zip(lines, outs)):
                    f = vlib.decode_line(l)
                    if f[0] == "l.parse":
                        parsed = o
                    if f[0] in ("l.open", "l.change", "l.reply", "l.settle"):
                        for uri, ds in diags_of(o):
                            for d in ds:
                                # d = <sev>:<hexmsg>@line:c1-line:c2 ; backing: the message's versions must exist in the final rows
                                msg = vlib.unhx(d.split(":", 1)[1].split("@")[0])
                                if msg.startswith("Update available: "):
                                    latest = msg.rsplit(" -> ", 1)[1]
                                    if vlib.hx(latest) not in dump:
                                        viol(f"published '{msg}' but no cache row holds {latest}", a + i)
                                # a dependency one of whose cache reads fails gets NO diagnostic (the error is not data)
                                line_no = int(d.split("@")[1].split(":")[0])
                                names = [vlib.unhx(x.split("|")[0]) for x in (parsed or "").split(";") if x and int(x.split("|")[5]) == line_no]
                                failing_any = set(x.split(":")[1] for x in meta["faults"] if x[0] in "LTV")
                                if f[0] in ("l.open", "l.change") and ("*" in failing_any or any(n in failing_any for n in names)):
                                    viol(f"published '{msg}' for {names} although a cache read of that dependency fails (faults {meta['faults']}): a failed read was taken for data", a + i)
        return der

    def nt(c, o):
        return c.get("tag") is not None

    st_b = Stream("unusable-cache", cases, nontrivial=nt, derive=derive, model_eq=lambda i, m: True, shrinkable=False, nt_on_impl=True)
    # ---- (e) the production PROCESS: run_server over stdio (logging set-up + Backend::new), as main.rs runs it
    pc, pmeta = [], []
    for kind in ["usable", "file-in-the-way", "file-in-the-way-deep", "log-is-a-directory", "db-is-a-directory", "dir-is-a-file"] * (1 if quick else 4):
        root = fresh("proc")
        L = []
        if kind == "usable":
            xdg = root
        elif kind == "file-in-the-way":
            L.append(vlib.line("fs.mkfile", root, "x")); xdg = root
        elif kind == "file-in-the-way-deep":
            L.append(vlib.line("fs.mkfile", root, "x")); xdg = root + "/a/b"
        elif kind == "log-is-a-directory":
            L.append(vlib.line("fs.mkdir", root + "/version-lsp/version-lsp.log")); xdg = root
        elif kind == "db-is-a-directory":
            L.append(vlib.line("fs.mkdir", root + "/version-lsp/versions.db")); xdg = root
        else:
            L.append(vlib.line("fs.mkdir", root)); L.append(vlib.line("fs.mkfile", root + "/version-lsp", "x")); xdg = root
        L.append(vlib.line("srv.probe", xdg))
        for l in L:
            pc.append({"req": l, "tag": ("process", kind) if l.startswith("srv.probe") else None}); pmeta.append(kind)

    def derive_p(cs, impl):
        der = []
        for i, (c, o, kind) in enumerate(zip(cs, impl, pmeta)):
            if c["req"].startswith("srv.probe") and not o.startswith("answered"):
                why = vlib.unhx(o.split(" ")[-1]) if o.startswith("exited") and len(o.split(" ")) > 3 else o
                der.append({"req": vlib.line("ml.settle"), "index": i, "history": [x["req"] for x in cs[max(0, i - 2):i + 1]],
                            "check": (lambda out, kind=kind, o=o, why=why: ("violation", f"data directory situation '{kind}': the server process did not answer initialize/shutdown ({o.split(' ')[0]} {o.split(' ')[1] if ' ' in o else ''}: {why})"))})
        return der
    st_p = Stream("server-process", pc, nontrivial=lambda c, o: c.get("tag") is not None, derive=derive_p, model_eq=lambda i, m: True, shrinkable=False, nt_on_impl=True)
    return [st_a, st_b, st_p]
