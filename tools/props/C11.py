"""C11 — a crash or error during a cache write never leaves a half-written package."""
from runner import Stream
import vlib, gen_cache

PROP_MODULES = ["Vlsp.Props.C11"]
RULE = ("scripted workloads on a real database; each write operation (store versions, store tags, claim, release, mark, "
        "schema creation on a fresh file and on an existing one) is run in a CHILD process that abort()s or SIGKILLs itself at "
        "statement point n (every n of every operation), and in-process with a database error injected at point n; the parent "
        "re-opens with a fresh handle and dumps all rows; compared with the Lean statement-level model (crashAt) and judged "
        "against the property: reopen succeeds and the dump equals the dump before the operation or the dump after it. "
        "non-trivial = crash point strictly inside an operation; distinct by (operation, point, mode)")
ASSUMPTIONS = ["process kill (abort/SIGKILL), not power loss: WAL + synchronous=NORMAL durability against power loss is not claimed",
               "the parent re-opens through a fresh Cache handle (fresh connection), not a fresh OS process"]

SETUP = [("c.replace", "0", "npm", "p", "0.9.0", "0.9.1"), ("c.tags", "0", "npm", "p", "latest", "0.9.1", "next", "1.0.0-rc.1"),
         ("c.replace", "0", "npm", "q", "3.0.0"), ("c.claim", "0", "npm", "q")]
OPS = [
    ("replace", "npm", "p", "1.0.0", "1.1.0", "0.9.0"),
    ("replace", "npm", "new'pkg", "1.0.0", "2.0.0"),
    ("replace", "npm", "p"),
    ("tags", "npm", "p", "latest", "1.1.0", "beta", "2.0.0-beta.1"),
    ("tags", "npm", "newtags", "latest", "1.0.0"),
    ("tags", "npm", "p"),
    ("claim", "npm", "p"),
    ("claim", "npm", "unknown"),
    ("claim", "npm", "q"),
    ("finish", "npm", "q"),
    ("mark", "npm", "p"),
    ("mark", "npm", "nobody"),
    ("open",),
    # a long version list (a package with hundreds of releases): the whole list is ONE transaction, whatever its length
    # (1300: longer than any round batch size - 100, 128, 250, 256, 500, 512, 1000, 1024 - somebody might commit by)
    ("replace", "npm", "big") + tuple(f"1.{i // 50}.{i % 50}" for i in range(1300)),
]
SENT = 99999          # a statement point no operation reaches: the operation completes


def points_of(op):
    if len(op) > 100:
        # just before / after every round number of inserted rows, and around the end of the list
        return sorted(set([1, 2, 3] + [b + k for b in (50, 100, 128, 200, 250, 256, 500, 512, 1000, 1024) for k in (0, 1, 2, 3, 4)]
                          + [len(op) - 3 + k for k in (0, 1, 2, 3, 4)]))
    return list(range(1, 12))


def streams(ctx):
    tier = ctx["tier"]
    modes = ["abort", "fail"] if tier == "quick" else ["abort", "kill", "fail"]
    cases, groups = [], []
    for op in OPS:
        for mode in modes:
            for n in points_of(op) + [SENT]:
                h = [vlib.line("c.reset", "T", "1000"), vlib.line("c.open", "0"), vlib.line("c.now", "100")]
                h += [vlib.line(*s) for s in SETUP]
                h += [vlib.line("c.now", "200"), vlib.line("c.dump")]
                if mode == "fail":
                    h.append(vlib.line("crash.fail", str(n), *op))
                else:
                    h.append(vlib.line("crash.run", mode, str(n), *op))
                h.append(vlib.line("c.dump"))
                a = len(cases)
                for i, l in enumerate(h):
                    cases.append({"req": l, "tag": (op[0], op[1:3], len(op), mode, n) if i == len(h) - 2 else None})
                groups.append((a, len(cases), op, mode, n))
    # schema creation on a FRESH file
    for mode in modes:
        for n in list(range(1, 11)) + [SENT]:
            h = [vlib.line("c.reset", "T", "1000")]
            h.append(vlib.line("crash.fail", str(n), "open") if mode == "fail" else vlib.line("crash.run", mode, str(n), "open"))
            h += [vlib.line("c.replace", "0", "npm", "p", "1.0.0"), vlib.line("c.claim", "0", "npm", "p"), vlib.line("c.mark", "0", "npm", "z"),
                  vlib.line("c.versions", "0", "npm", "p"), vlib.line("c.dump")]
            a = len(cases)
            for i, l in enumerate(h):
                cases.append({"req": l, "tag": ("open-fresh", mode, n) if i == 1 else None})
            groups.append((a, len(cases), ("open-fresh",), mode, n))

    def derive(cs, impl):
        der = []
        after = {}
        for (a, b, op, mode, n) in groups:
            if n == SENT and op[0] != "open-fresh":
                after[(op, mode)] = gen_cache.canon(impl[b - 1])
        for (a, b, op, mode, n) in groups:
            if op[0] == "open-fresh":
                bad = [o for o in impl[a:b] if o.startswith("E:") or "reopen-E" in o or o.startswith(("PANIC", "ABORT"))]
                if bad:
                    der.append({"req": vlib.line("latest.same", "1.0.0", "1.0.0"), "index": a + 1,
                                "check": (lambda o, bad=bad, n=n, mode=mode: ("violation", f"after a {mode} at statement point {n} of schema creation the database does not work: {bad[:3]}")),
                                "history": [c["req"] for c in cs[a:b]]})
                continue
            before = gen_cache.canon(impl[b - 3]); got = gen_cache.canon(impl[b - 1]); res = impl[b - 2]
            aft = after.get((op, mode))
            prob = None
            if "reopen-ok" not in res:
                prob = f"database cannot be re-opened after {mode} at point {n} of {op}: {res}"
            elif got != before and got != aft:
                prob = f"{mode} at point {n} of {op} ({res}) left a state that is neither the one before nor the one after the operation: {got[:400]}"
            elif res.startswith("completed") and got != aft:
                prob = f"{op} returned but its effect is not in the database"
            if prob:
                der.append({"req": vlib.line("latest.same", "1.0.0", "1.0.0"), "index": b - 2,
                            "check": (lambda o, prob=prob: ("violation", prob)), "history": [c["req"] for c in cs[a:b]]})
        return der

    def nt(c, o):
        return c.get("tag") is not None and (o.startswith("died@") or o.startswith("failed@"))
    return [Stream("crash-points", cases, nontrivial=nt, derive=derive, shrinkable=False,
                   model_eq=lambda i, m: gen_cache.canon(i) == gen_cache.canon(m))]
