"""C07 — applying an offered version bump rewrites only that version, to a real newer one."""
from runner import Stream
import vlib, gens, render
from lsp_common import to_model_lines, canon_msgs

PROP_MODULES = ["Vlsp.Props.C07", "Vlsp.Props.C07Locate"]
EXTRA_SCAN = ["Vlsp/Spec/BumpSpec.lean", "Vlsp/Model/Locate.lean"]
RULE = ("(a) synthetic: random PackageInfo lists (several per line, adjacent/overlapping ranges) x every interesting cursor "
        "column x cached version sets -> real find_at_position + generate_bump_code_actions on a real Cache vs the Lean model; "
        "(b) documents: manifests of all 7 formats rendered from an abstract dependency list under layout choices, real parser, "
        "cursor on every column of every dependency line, every offered TextEdit is applied (UTF-16 aware) and the result "
        "re-parsed: the edited document must declare the same dependencies with exactly one spec changed to the advertised "
        "text, and the advertised target must pass the executable acceptance spec (cached, strictly newer, maximal in its line, "
        "each due line offered once); (c) locate_version_in_token (which points a package at the version text inside its token before "
        "the cursor test and the edit) vs its Lean model on tokens/offsets incl. multi-byte and out-of-range ones. "
        "non-trivial = at least one action offered / a located package; distinct by (format, spec, versions, cursor)")
ASSUMPTIONS = ["LSP clients apply a TextEdit with UTF-16 columns; the harness does exactly that",
               "the cache reads are real SQLite reads (tied to the cache model by C03/C08)"]

VSETS = [["1.0.0", "1.0.5", "1.2.0", "2.0.0", "2.1.0-beta.1"], ["1.0.0"], ["0.9.0", "1.0.0-rc.1"], ["1.0.5", "1.0.5+b", "1.10.0", "1.9.0"],
         ["v1.0.0", "v1.0.5", "v2", "v2.1.1"], ["junk", "1.0.6", ""], [], ["3.0.0", "1.0.1"]]
CURS = ["1.0.0", "^1.0.0", "~1.0.0", ">=1.0.0", "<=1.0.0", ">1.0.0", "<2.0.0", "=1.0.0", "v1.0.0", "1.0", "^1", "1.x", "*", "latest",
        ">=1.0.0 <2.0.0", "1.0.0 || 2.0.0", "^1.0.0-rc.1", "2.1.0", "^0.9.0", "é1.0.0", "1.0.5", "==1.0.0", "~=1.0.0", "===1.0.0", "!=1.0.0", "~=1.0"]


def pk(name, version, line, col, start=None, hash_=None, extra=None):
    start = 100 * line + col if start is None else start
    f = [name, version, ("S" + hash_) if hash_ else "-", str(start), str(start + len(version.encode())), str(line), str(col)]
    if extra:
        f += ["S" + extra[0], str(extra[1]), str(extra[2])]
    else:
        f += ["-", "0", "0"]
    return f


def streams(ctx):
    rng, tier = ctx["rng"], ctx["tier"]
    out = []
    # ---- (a) synthetic
    cases = []
    for _ in range(500 if tier == "quick" else 20000):
        eco = rng.choice(["npm", "crates", "go", "pnpm", "jsr"])
        npk = 1 + rng.below(4)
        pkgs, col, line = [], 2 + rng.below(6), rng.below(3)
        for i in range(npk):
            v = rng.choice(CURS)
            if rng.chance(1, 3):
                line += 1; col = 2 + rng.below(6)
            pkgs.append(pk(f"p{i}" if rng.chance(3, 4) else "p0", v, line, col))
            col += len(v.encode()) + rng.choice([0, 0, 1, 3])
        vs = rng.choice(VSETS)
        if eco == "go":
            vs = [("v" + x if x and x[0].isdigit() else x) for x in vs]
        tgt = rng.choice(pkgs)
        cline = int(tgt[5])
        ccol = int(tgt[6]) + rng.choice([-1, 0, 1, len(tgt[1].encode()) - 1, len(tgt[1].encode()), rng.below(10)])
        ccol = max(0, ccol)
        flat = []
        for p in pkgs:
            flat += p
        f = [eco, str(cline), str(ccol), "-", str(len(vs))] + vs + [str(len(pkgs))] + flat + ["0"]
        cases.append({"req": vlib.line("ca.run", *f), "tag": (eco, tuple(p[1] for p in pkgs), tuple(vs), ccol - int(tgt[6]))})
    out.append(Stream("actions-synthetic", cases, nontrivial=lambda c, o: "[]" not in o.split(" calls=")[0]))

    # ---- (b) documents
    dcases = []
    def add_doc(eco, text, declared, vs, tag):
        lines = text.replace("\r\n", "\n").split("\n")
        for li, ln in enumerate(lines):
            if not any(d[1] and d[1] in ln for d in declared):
                continue
            cols = range(len(ln) + 1) if (tier != "quick" and len(dcases) < 40000) else sorted(set([0, len(ln)] + [ln.find(d[1]) + k for d in declared if d[1] in ln for k in (-1, 0, 1, len(d[1]) - 1, len(d[1]))]))
            for ch in cols:
                if ch < 0:
                    continue
                f = [eco, text, str(li), str(ch), "-", str(len(vs))] + vs + ["0"]
                # the declared dependency whose spec text the cursor is on (ASCII lines: characters = bytes = UTF-16 units)
                on = None
                for d in declared:
                    k = ln.find(d[1]) if (d[1] and d[0] in ln) else -1
                    while k >= 0:
                        if k <= ch < k + len(d[1]) and (k == 0 or ln[k - 1] in "\"' \t@:=") :
                            on = d
                        k = ln.find(d[1], k + 1)
                dcases.append({"req": vlib.line("ca.doc", *f), "tag": tag + (li, ch), "declared": declared, "vs": vs, "eco": eco, "on": on})
    nd = 12 if tier == "quick" else 300
    for _ in range(nd):
        L = render.lay(rng, nonascii=False, crlf=rng.chance(1, 5), quote=rng.choice(['"', "'", ""]))
        vs = rng.choice(VSETS[:4] + VSETS[7:])
        specs = [rng.choice(CURS[:9] + CURS[16:19]) for _ in range(3)]
        # package.json
        deps = [("dependencies", "lodash", specs[0], ("lodash", specs[0], None)), ("devDependencies", "@scope/pkg", specs[1], ("@scope/pkg", specs[1], None)),
                ("dependencies", "local", "workspace:*", None), ("dependencies", "chalk", specs[2], ("chalk", specs[2], None))]
        t, d = render.package_json(deps, L); add_doc("npm", t, d, vs, ("npm", tuple(specs[:2])))
        if _ % 3 == 0:       # several dependencies on ONE line
            t, d = render.package_json(deps, dict(L, compact=True)); add_doc("npm", t, d, vs, ("npm-compact", tuple(specs)))
        # Cargo.toml
        cspecs = [s for s in specs if " " not in s and "||" not in s][:2] or ["1.0.0"]
        deps = [("dependencies", "serde", "simple", cspecs[0], ("serde", cspecs[0], None)),
                ("dev-dependencies", "tokio", "inline", cspecs[-1], ("tokio", cspecs[-1], None)),
                ("dependencies", "mine", "path", "0.1.0", None)]
        t, d = render.cargo_toml(deps, L); add_doc("crates", t, d, vs, ("crates", tuple(cspecs)))
        # go.mod
        gvs = ["v" + x for x in vs]
        deps = [("single", "golang.org/x/text", "v1.0.0", ("golang.org/x/text", "v1.0.0", None)),
                ("block", "github.com/a/b", "v1.0.5", ("github.com/a/b", "v1.0.5", None)),
                ("indirect", "github.com/c/d", "v2.0.0+incompatible", ("github.com/c/d", "v2.0.0+incompatible", None))]
        if L["crlf"]:
            L2 = dict(L); L2["crlf"] = False
        else:
            L2 = L
        t, d = render.go_mod(deps, L2); add_doc("go", t, d, gvs, ("go",))
        # workflow (unquoted refs only here; quoted ones are a recorded finding of C05)
        L3 = dict(L); L3["quote"] = ""
        steps = [("uses", "actions/checkout@v1.0.0", None, ("actions/checkout", "v1.0.0", None)), ("run", "", None, None),
                 ("uses", "actions/setup-node@v1", None, ("actions/setup-node", "v1", None)), ("local", "./.github/actions/x", None, None)]
        t, d = render.workflow(steps, L3); add_doc("gha", t, d, gvs, ("gha",))
        # pnpm
        deps = [(None, "react", specs[0], ("react", specs[0], None)), ("legacy", "@types/node", specs[1], ("@types/node", specs[1], None))]
        t, d = render.pnpm_workspace(deps, L); add_doc("pnpm", t, d, vs, ("pnpm", tuple(specs[:2])))
    # every operator a single-version spec can carry, in each format that has it, on a document of its own (deterministic)
    L1 = render.lay(rng, nonascii=False, crlf=False, quote='"', compact=False, blank=False, comment=False)
    for op in ["", "^", "~", ">=", "<=", ">", "<", "=", "v", "=v"]:
        t, d = render.package_json([("dependencies", "lodash", op + "1.0.0", ("lodash", op + "1.0.0", None))], L1)
        add_doc("npm", t, d, VSETS[0], ("npm-op", op))
    # ... and caches that hold the versions in an order that is neither ascending nor descending (the registry's order, not SemVer's)
    for vs_ in (VSETS[3], VSETS[7], ["1.2.0", "2.0.0", "1.0.5", "1.0.0", "1.10.0", "1.0.7"], ["2.0.0", "1.0.9", "1.0.10", "1.3.0", "1.0.0"]):
        for op in ["", "^"]:
            t, d = render.package_json([("dependencies", "lodash", op + "1.0.0", ("lodash", op + "1.0.0", None))], L1)
            add_doc("npm", t, d, vs_, ("npm-unordered", op, tuple(vs_)))
    # ... a prerelease under the cursor whose release (same numbers) or a later prerelease is what the cache holds
    for vs_ in (["1.0.0"], ["1.0.0-rc.1", "1.0.0"], ["1.0.0-rc.1", "1.0.0-rc.2"], ["0.9.0", "1.0.0-rc.1"], ["1.0.0", "1.1.0"], ["1.0.0-rc.1", "1.0.0", "2.0.0"],
                ["1.0.0-rc.2", "1.1.0-beta", "1.1.0"]):
        for spec_ in ("1.0.0-rc.1", "^1.0.0-rc.1"):
            t, d = render.package_json([("dependencies", "lodash", spec_, ("lodash", spec_, None))], L1)
            add_doc("npm", t, d, vs_, ("npm-prerelease", spec_, tuple(vs_)))
    for op in ["", "^", "~", ">=", "<=", ">", "<", "="]:
        t, d = render.cargo_toml([("dependencies", "serde", "simple", op + "1.0.0", ("serde", op + "1.0.0", None))], L1)
        add_doc("crates", t, d, VSETS[0], ("crates-op", op))
    for op in ["==", "~=", ">=", "<=", ">", "<", "==="]:
        t, d = render.pyproject([("project", "requests" + op + "1.0.0", ("requests", op + "1.0.0", None))], L1)
        add_doc("pypi", t, [("requests", op + "1.0.0", None)], ["1.0.0", "1.0.5", "1.2.0", "2.0.0"], ("pypi-op", op))      # (PEP 440 spells prereleases differently)
    # the witnesses of F-C07-1 (repaired): the reported token is not the version text (JSR imports, npm aliases, quoted uses)
    L0 = render.lay(rng, nonascii=False, crlf=False, quote='"', compact=False, blank=False, comment=False)
    t, d = render.deno_json([("@std/path", "jsr:@std/path@^1.0.0", ("@std/path", "^1.0.0", None))], L0)
    add_doc("jsr", t, d, VSETS[0], ("jsr-finding",))
    t, d = render.package_json([("dependencies", "alias", "npm:real-pkg@^1.0.0", ("real-pkg", "^1.0.0", None))], L0)
    add_doc("npm", t, d, VSETS[0], ("npm-alias-finding",))
    t, d = render.pyproject([("project", "requests>= 1.0", ("requests", ">=1.0", None))], L0)
    add_doc("pypi", t, [("requests", ">= 1.0", None)], VSETS[0], ("pypi-finding",))
    t, d = render.workflow([("uses", "actions/checkout@v1.0.0", None, ("actions/checkout", "v1.0.0", None))], dict(L0, quote='"'))
    add_doc("gha", t, d, ["v" + x for x in VSETS[0]], ("gha-quoted-finding",))

    def known_class(c, cur):
        return None          # F-C07-1 is repaired: the witness documents above must behave like every other document

    def derive(cs, impl):
        der = []
        for i, (c, o) in enumerate(zip(cs, impl)):
            parts = [x.strip() for x in o.split("#")]
            if len(parts) < 3:
                der.append({"req": vlib.line("bump.ok", "patch", "1.0.0", "1.0.0"), "index": i,
                            "check": (lambda out, o=o: ("violation", "code action request failed: " + o[:200]))})
                continue
            plist = [tuple(x.split("=")) for x in parts[0].split(";")] if parts[0] else []
            idx = parts[1]
            acts = [a for a in parts[2:] if a]
            if idx == "-":
                # the cursor is on a declared dependency's spec: if a bump is due, finding nothing is a failure
                on = c.get("on")
                if on is not None and known_class(c, on[1]) is None:
                    for label in ("patch", "minor", "major"):
                        der.append({"req": vlib.line("bump.due", label, on[1], *c["vs"]), "index": i, "history": [c["req"]],
                                    "check": (lambda out, label=label, on=on: None if out == "F" else ("violation",
                                        f"the cursor is on the spec {on[1]!r} of {on[0]} and a newer {label} version is cached, but no dependency was found at the cursor"))})
                continue
            cur_hex = plist[int(idx)][1]
            cur = vlib.unhx(cur_hex)
            labels_offered = []
            for a in acts:
                head, re_ = [x.strip() for x in a.split("=>")]
                title, l1, c1, l2, c2, newtext = head.split("|")[:6]
                title, newtext = vlib.unhx(title), vlib.unhx(newtext)
                label = title.split("Bump to latest ")[1].split(":")[0] if "Bump to latest " in title and ":" in title else "?"
                labels_offered.append(label)
                # the edited document declares the same dependencies with exactly this spec changed
                exp = list(plist); exp[int(idx)] = (plist[int(idx)][0], vlib.hx(newtext), plist[int(idx)][2])
                got = [tuple(x.split("=")) for x in re_.split(";")] if re_ and "=" in re_ else re_
                if got != exp:
                    kc = known_class(c, cur)
                    der.append({"req": vlib.line("bump.ok", label, cur, newtext), "index": i, "history": [c["req"]],
                                "check": (lambda out, cur=cur, newtext=newtext, got=got, exp=exp, kc=kc: ("known", kc) if kc else ("violation",
                                    f"applying 'Bump … {newtext}' to spec {cur!r} does not yield the same manifest with only that spec changed: re-parsed {show(got)} expected {show(exp)}"))})
                    continue
                pre = prefix_of(cur)
                t = strip_pre(pre, cur, newtext) if newtext.startswith(pre) else newtext
                if not newtext.startswith(pre):
                    der.append({"req": vlib.line("bump.ok", label, cur, t), "index": i, "history": [c["req"]],
                                "check": (lambda out, cur=cur, newtext=newtext: ("violation", f"range operator of {cur!r} not preserved in {newtext!r}"))})
                    continue
                der.append({"req": vlib.line("bump.ok", label, cur, t, *c["vs"]), "index": i, "history": [c["req"]],
                            "check": (lambda out, cur=cur, t=t, label=label, vs=c["vs"]: None if out == "T" else ("violation",
                                f"advertised {label} target {t!r} for {cur!r} is not a cached, strictly newer, maximal version of {vs}"))})
            # completeness: every due line is offered (possibly merged into an earlier label with the same target)
            kc0 = known_class(c, cur)
            pre0 = prefix_of(cur)
            targets = []
            for a in acts:
                nt_ = vlib.unhx(a.split("=>")[0].strip().split("|")[5])
                targets.append(strip_pre(pre0, cur, nt_) if nt_.startswith(pre0) else nt_)
            for label in ("patch", "minor", "major"):
                der.append({"req": vlib.line("bump.covered", label, cur, str(len(targets)), *targets, *c["vs"]), "index": i, "history": [c["req"]],
                            "check": (lambda out, label=label, targets=tuple(targets), cur=cur, kc0=kc0: None if out == "T" else (("known", kc0) if kc0 else ("violation",
                                f"a newer {label} version exists for {cur!r} but none of the offered targets {list(targets)} is the highest of that line")))})
        return der
    # ---- (c) locate_version_in_token vs its model: tokens with the version at the end / in the middle / twice / absent, multi-byte
    # characters around it, offsets out of range or inside a character, hash-pinned packages, the empty version
    lcases = []
    TOK = ["^1.0.0", "npm:real-pkg@^1.0.0", "jsr:@std/path@^1.0.0", "jsr:@std/path@^1.0.0/sub/mod.ts", "npm:@s/p@1.0.0", ">= 1.0", "1.0.0 1.0.0", "é1.0.0é", "@v4\"", "", "日本^1.0.0",
           "npm:x@", "1.0.0-1.0.0", "v1.0.0"]
    VER = ["^1.0.0", "1.0.0", ">=1.0", "", "é", "v4", "1.0.0é", "^1.0.0/sub", "0"]
    for _ in range(400 if tier == "quick" else 20000):
        pre = rng.choice(["", "  \"", "é: \"", "{\"a\": \"", "x\n  y: ", "日本"])
        tok = rng.choice(TOK)
        post = rng.choice(["", "\"", "\",\n", "é"])
        content = pre + tok + post
        so = len(pre.encode()) + rng.choice([0, 0, 0, 0, 1, -1, 2])
        eo = len((pre + tok).encode()) + rng.choice([0, 0, 0, 0, 1, -1, 40])
        so = max(0, so)
        ver = rng.choice(VER) if rng.chance(1, 2) else tok[-rng.below(len(tok) + 1):] if tok else ""
        hsh = "-" if rng.chance(4, 6) else "S" + rng.choice(["a" * 40, tok[-3:] if len(tok) >= 3 else "abc", "1.0.0"])
        more = []
        if hsh != "-" and rng.chance(1, 2):          # a version comment after the token: "<token><gap># v1"
            gap = rng.choice([" ", "  ", "\" ", "\t", "", " x "])
            content = pre + tok + gap + "# v1"
            cs = len((pre + tok + gap).encode())
            more = [str(cs + rng.choice([0, 0, 0, 1, 50])), str(cs + 4)]
        lcases.append({"req": vlib.line("ca.locate", content, ver, hsh, str(so), str(max(0, eo)), str(rng.below(3)), str(rng.below(30)), *more), "tag": (tok, ver, so - len(pre.encode()), eo - len((pre + tok).encode()), hsh, tuple(more))})
    out.append(Stream("locate", lcases, nontrivial=lambda c, o: o != "none"))
    # ---- (d) the handler itself: the real Backend in an LspService, documents whose token is not the version text (JSR import,
    # npm alias, quoted uses) and ordinary ones; code actions requested on every column of the spec line, then the document is
    # changed (the spec moves) and requested again: the handler must use the text it cached with the packages
    SESS = [("jsr", "file:///w/deno.json", '{\n  "imports": {\n    "@std/path": "jsr:@std/path@^1.0.0"\n  }\n}', "jsr", "@std/path", ["1.0.0", "1.0.5", "1.2.0", "2.0.0"], 2),
            ("npm", "file:///w/package.json", '{\n  "dependencies": {\n    "alias": "npm:real-pkg@^1.0.0",\n    "lodash": "~1.0.0"\n  }\n}', "npm", "real-pkg", ["1.0.0", "1.0.5", "1.2.0"], 2),
            ("gha", "file:///w/.github/workflows/ci.yml", 'jobs:\n  b:\n    steps:\n      - uses: "actions/checkout@v1.0.0"\n', "github_actions", "actions/checkout", ["v1.0.0", "v1.0.5", "v2.0.0"], 3),
            ("npm", "file:///w/package.json", '{"name": "é日本😀", "dependencies": {"😀": "1.0.0", "alias": "npm:real-pkg@^1.0.0", "ü": "2"}}', "npm", "real-pkg", ["1.0.0", "1.0.5", "1.2.0"], 0),
            # the version text also occurs earlier in the token (inside the package name): the LAST occurrence is the version
            ("npm", "file:///w/package.json", '{\n  "dependencies": {\n    "shim": "npm:es5-shim@5.0.0"\n  }\n}', "npm", "es5-shim", ["5.0.0", "5.0.2", "5.1.0"], 2),
            ("jsr", "file:///w/deno.json", '{\n  "imports": {\n    "h": "jsr:@std/http1.0.0@1.0.0"\n  }\n}', "jsr", "@std/http1.0.0", ["1.0.0", "1.0.5"], 2),
            ("crates", "file:///w/Cargo.toml", '[dependencies]\nserde = { version = "1.0.0", features = ["derive"] }\n', "crates_io", "serde", ["1.0.0", "1.0.5", "1.1.0"], 1)]
    scases, sgroups = [], []
    for eco, uri, text, reg, name, vs, li in SESS:
        for variant in (text, text.replace(": ", ":   ", 1) if eco != "crates" else text.replace(" = {", "   =   {")):
            L = [vlib.line("l.start", "T"), vlib.line("l.cache", reg, name, *vs), vlib.line("l.init"),
                 vlib.line("l.parse", eco, text), vlib.line("l.open", uri, text)]
            if variant != text:
                L += [vlib.line("l.parse", eco, variant), vlib.line("l.change", uri, variant)]
            ln = variant.split("\n")[li]
            cols = range(len(ln) + 1) if tier != "quick" else range(0, len(ln) + 1, 1 if len(ln) < 60 else 2)
            for ch in cols:
                L.append(vlib.line("l.action", uri, str(li), str(ch)))
            s0 = len(scases)
            for i, l in enumerate(L):
                scases.append({"req": l, "tag": (eco, variant != text) if i == 0 else None})
            sgroups.append((s0, len(scases), eco, variant, li, vs))

    def derive_s(cs, impl):
        der = []
        for (a, b, eco, text, li, vs) in sgroups:
            lines = [c["req"] for c in cs[a:b]]
            ml, exp, idx = to_model_lines(lines, impl[a:b])
            for l, e, i in zip(ml, exp, idx):
                der.append({"req": l, "index": a + i, "check": (lambda out, e=e: None if canon_msgs(out) == canon_msgs(e) else ("model", canon_msgs(e)))})
            # the property on the handler: every offered edit replaces exactly the version text of the line
            ln = text.split("\n")[li]
            offered = 0
            for i in range(a, b):
                f = vlib.decode_line(cs[i]["req"])
                if f[0] != "l.action" or "act [" not in impl[i]:
                    continue
                body = impl[i].split("act [", 1)[1].split("]")[0]
                for item in [x for x in body.split(",") if x]:
                    title, l1, c1, c2, newtext = item.split("|")
                    offered += 1
                    u16 = ln.encode("utf-16-le")          # the edit range is in UTF-16 code units
                    old = u16[2 * int(c1): 2 * int(c2)].decode("utf-16-le", "replace")
                    after = u16[2 * int(c2): 2 * int(c2) + 2].decode("utf-16-le", "replace")
                    newt = vlib.unhx(newtext)
                    if int(l1) != li or not (old and old[0] in "^~v0123456789" and old.lstrip("^~v")[:1].isdigit() and newt[:1] == old[:1] and after in ('"', "", " ", ",")):
                        der.append({"req": vlib.line("ml.settle"), "index": i, "history": lines[: i - a + 1],
                                    "check": (lambda out, old=old, newt=newt, ln=ln: ("violation", f"the edit replaces {old!r} with {newt!r} in the line {ln!r}: that is not the version text"))})
            if offered == 0:
                der.append({"req": vlib.line("ml.settle"), "index": a, "history": lines,
                            "check": (lambda out, ln=ln: ("violation", f"no code action was offered on any column of {ln!r} although newer versions are cached"))})
        return der
    out.append(Stream("handler-sessions", scases, nontrivial=lambda c, o: c.get("tag") is not None, derive=derive_s, model_eq=lambda i, m: True,
                      shrinkable=False, nt_on_impl=True))
    out.append(Stream("actions-doc", dcases, nontrivial=lambda c, o: "=>" in o, derive=derive, model_eq=lambda i, m: True, shrinkable=False, nt_on_impl=True))
    return out


def prefix_of(v):
    """the range operator of a single-version spec, read off the spec itself (NOT from the code's table): the leading run of
    operator characters, then an optional v"""
    import re
    return re.match(r"[\^~<>=!]*", v).group(0)


def strip_pre(pre, cur, newtext):
    """the target an action advertises, without the operator; a cosmetic `v` that spec and edit share is not part of it"""
    t = newtext[len(pre):]
    if cur[len(pre):].startswith("v") and t.startswith("v"):
        t = t[1:]
    return t


def show(x):
    if isinstance(x, str):
        return x
    return [(vlib.unhx(a), vlib.unhx(b)) for a, b, *_ in x]
