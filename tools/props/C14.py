"""C14 — every documented configuration option takes effect; bad input is harmless."""
import json
from runner import Stream
import vlib, gen_cache
from lsp_common import to_model_lines, canon_msgs

PROP_MODULES = ["Vlsp.Props.C14"]
RULE = ("(a) serde_json::from_value::<LspConfig> vs the Lean parseConfig on schema-directed JSON: every subset of keys, every JSON type at "
        "every position, extra keys at every level, integers at the i64 edges, floats, arrays, null, non-objects; (b) the real Backend in an "
        "in-process LspService whose client answers workspace/configuration with the generated value (or fails / answers empty / null), then "
        "one document per registry is opened and a code action requested: traffic vs the Lean server model, and the property on the "
        "implementation: disabled registries are silent, enabled ones publish, a malformed answer produces exactly one error message and "
        "the defaults stay in force; the two cache options are probed with a prerelease-only newer version and an old package. "
        "non-trivial = an answer that changes at least one field or is rejected; distinct by the answer")
ASSUMPTIONS = ["serde derive semantics as written out in Model/Config.lean (tied by stream (a))",
               "PyPI documents are opened only for the gate test (their diagnostics are not modelled)"]

REGKEYS = ["npm", "crates", "goProxy", "github", "pnpmCatalog", "jsr", "pypi"]
ASSTR = {"npm": "npm", "crates": "crates_io", "goProxy": "go_proxy", "github": "github_actions", "pnpmCatalog": "pnpm_catalog", "jsr": "jsr", "pypi": "pypi"}
ODD = [None, True, False, 0, 1, -1, 1.5, "x", "", [], {}, [True], {"enabled": "yes"}, 9223372036854775807, 9223372036854775808, -9223372036854775808, -9223372036854775809, 1e3]
DOCS = {
    "npm": ("file:///w/package.json", '{\n  "dependencies": {\n    "lodash": "4.17.20"\n  }\n}', "npm", "lodash", 2, 16),
    "crates": ("file:///w/Cargo.toml", '[dependencies]\nserde = "1.0.0"\n', "crates_io", "serde", 1, 10),
    "goProxy": ("file:///w/go.mod", "module x\n\nrequire golang.org/x/text v0.1.0\n", "go_proxy", "golang.org/x/text", 2, 28),
    "github": ("file:///w/.github/workflows/ci.yml", "jobs:\n  b:\n    steps:\n      - uses: actions/checkout@v3\n", "github_actions", "actions/checkout", 3, 31),
    "pnpmCatalog": ("file:///w/pnpm-workspace.yaml", "catalog:\n  react: 17.0.0\n", "pnpm_catalog", "react", 1, 10),
    "jsr": ("file:///w/deno.json", '{\n  "imports": {\n    "@std/path": "jsr:@std/path@0.9.0"\n  }\n}', "jsr", "@std/path", 2, 33),
}
ECO = {"npm": "npm", "crates": "crates", "goProxy": "go", "github": "gha", "pnpmCatalog": "pnpm", "jsr": "jsr"}
VERS = {"npm": ["4.17.20", "4.18.0"], "crates": ["1.0.0", "1.1.0"], "goProxy": ["v0.1.0", "v0.2.0"], "github": ["v3", "v4"],
        "pnpmCatalog": ["17.0.0", "18.0.0"], "jsr": ["0.9.0", "1.0.0"]}


def gen_answer(rng):
    k = rng.below(100)
    if k < 5: return rng.choice(ODD)
    d = {}
    if rng.chance(2, 3):
        regs = {}
        for rk in rng.sample(REGKEYS, rng.below(5)):
            z = rng.below(10)
            regs[rk] = {"enabled": rng.chance(1, 2)} if z < 6 else ({} if z < 7 else ({"enabled": rng.choice(ODD)} if z < 9 else rng.choice(ODD)))
        if rng.chance(1, 6): regs[rng.choice(["Npm", "unknownRegistry", "go_proxy"])] = {"enabled": False}
        d["registries"] = regs if rng.chance(9, 10) else rng.choice(ODD)
    if rng.chance(1, 2):
        d["ignorePrerelease"] = rng.chance(1, 2) if rng.chance(4, 5) else rng.choice(ODD)
    if rng.chance(1, 2):
        d["cache"] = {"refreshInterval": rng.choice([1, 0, 1000, 86400000, -5] + ODD)} if rng.chance(4, 5) else rng.choice(ODD)
    if rng.chance(1, 4): d[rng.choice(["extra", "Cache", "ignore_prerelease", "enabled"])] = rng.choice(ODD)
    return d


def dumps(v):
    return json.dumps(v)


def has_struct_array(ans):
    """a JSON array where the schema has a struct (serde reads it positionally): F-C14-3"""
    if isinstance(ans, list):
        return True
    if isinstance(ans, dict):
        if isinstance(ans.get("cache"), list) or isinstance(ans.get("registries"), list):
            return True
        r = ans.get("registries")
        if isinstance(r, dict) and any(isinstance(r.get(k), list) for k in REGKEYS):
            return True
    return False


def spec_parse(ans):
    """the documented meaning of an answer, independent of serde: ('ok', disabled, ip, ri) or ('malformed',)"""
    def is_bool(x): return isinstance(x, bool)
    def is_int(x): return isinstance(x, int) and not isinstance(x, bool) and -2**63 <= x <= 2**63 - 1
    if not isinstance(ans, dict):
        return ("malformed",)
    disabled, ip, ri = set(), True, 86400000
    if "registries" in ans:
        r = ans["registries"]
        if not isinstance(r, dict): return ("malformed",)
        for k in REGKEYS:
            if k in r:
                if not isinstance(r[k], dict): return ("malformed",)
                if "enabled" in r[k]:
                    if not is_bool(r[k]["enabled"]): return ("malformed",)
                    if r[k]["enabled"] is False: disabled.add(ASSTR[k])
    if "ignorePrerelease" in ans:
        if not is_bool(ans["ignorePrerelease"]): return ("malformed",)
        ip = ans["ignorePrerelease"]
    if "cache" in ans:
        c = ans["cache"]
        if not isinstance(c, dict): return ("malformed",)
        if "refreshInterval" in c:
            if not is_int(c["refreshInterval"]): return ("malformed",)
            ri = c["refreshInterval"]
    return ("ok", disabled, ip, ri)


def streams(ctx):
    rng, tier = ctx["rng"], ctx["tier"]
    # (a)
    answers = [gen_answer(rng) for _ in range(1500 if tier == "quick" else 40000)]
    answers += [{}, None, [], [{"refreshInterval": 5}, {}, False], [{}, {}, True, 1], {"registries": {k: {"enabled": False} for k in REGKEYS}}]
    ca = [{"req": vlib.line("cfg.parse", dumps(a)), "tag": dumps(a)} for a in answers]
    for c, a in zip(ca, answers):
        c["ans"] = a

    def derive_a(cs, impl):
        der = []
        for i, (c, o) in enumerate(zip(cs, impl)):
            sp = spec_parse(c["ans"]) if c["ans"] is not None else ("null",)
            if sp[0] == "null":
                continue            # null is special-cased by the backend before serde sees it
            if sp[0] == "malformed":
                if o != "err":
                    kid = "F-C14-3" if has_struct_array(c["ans"]) else None
                    der.append({"req": vlib.line("ml.settle"), "index": i, "history": [c["req"]],
                                "check": (lambda out, kid=kid, a=c["ans"], o=o: ("known", kid) if kid else ("violation", f"malformed answer {a!r} accepted as {o}"))})
            else:
                want = "ok disabled=[%s] ip=%s ri=%d" % (",".join(r for r in ["npm", "crates_io", "go_proxy", "github_actions", "pnpm_catalog", "jsr", "pypi"] if r in sp[1]), "T" if sp[2] else "F", sp[3])
                if o != want:
                    der.append({"req": vlib.line("ml.settle"), "index": i, "history": [c["req"]],
                                "check": (lambda out, a=c["ans"], o=o, want=want: ("violation", f"answer {a!r}: the server reads {o}, the documented meaning is {want}"))})
        return der
    st_a = Stream("serde-config", ca, nontrivial=lambda c, o: o != "ok disabled=[] ip=T ri=86400000", derive=derive_a, shrinkable=False)
    # (b)
    cases, groups = [], []
    sample = [a for a in answers[:60]] + ["FAIL", "NONE", None, {}, {"registries": {"npm": {}, "crates": {"enabled": False}}}, {"registries": {"crates": {"enabled": False}}}, {"ignorePrerelease": "no"}]
    if tier != "quick":
        sample += answers[60:600]
    for a in sample:
        ans = a if a in ("FAIL", "NONE") else dumps(a)
        L = [vlib.line("l.config", ans), vlib.line("l.start", "T")]
        for rk, (uri, text, reg, name, line, ch) in DOCS.items():
            L.append(vlib.line("l.cache", reg, name, *VERS[rk]))
        L.append(vlib.line("l.init"))
        for rk, (uri, text, reg, name, line, ch) in DOCS.items():
            L.append(vlib.line("l.parse", ECO[rk], text))
            L.append(vlib.line("l.open", uri, text))
            L.append(vlib.line("l.action", uri, str(line), str(ch)))
        s0 = len(cases)
        for i, l in enumerate(L):
            cases.append({"req": l, "tag": ans if i == 0 else None})
        groups.append((s0, len(cases), a))

    # the two cache options (F-C14-1 / F-C14-2, repaired): fixed probes first, then generated ones (stream c)
    W1 = [vlib.line("l.config", dumps({"ignorePrerelease": False})), vlib.line("l.start", "T"),
          vlib.line("l.cache", "npm", "lodash", "4.17.20", "5.0.0-beta.1"), vlib.line("l.init"),
          vlib.line("l.parse", "npm", DOCS["npm"][1]), vlib.line("l.open", DOCS["npm"][0], DOCS["npm"][1])]
    s0 = len(cases)
    for i, l in enumerate(W1):
        cases.append({"req": l, "tag": "witness-ignorePrerelease" if i == 0 else None})
    groups.append((s0, len(cases), ("W1",)))
    W2 = [vlib.line("l.config", dumps({"cache": {"refreshInterval": 1}})), vlib.line("l.start", "T"),
          vlib.line("l.cache", "npm", "lodash", "4.17.20"), vlib.line("l.now", "601000"), vlib.line("l.init", "npm")]
    s0 = len(cases)
    for i, l in enumerate(W2):
        cases.append({"req": l, "tag": "witness-refreshInterval" if i == 0 else None})
    groups.append((s0, len(cases), ("W2",)))

    def derive(cs, impl):
        der = []
        for (a, b, ans) in groups:
            if isinstance(ans, tuple):
                lines = [c["req"] for c in cs[a:b]]
                ml, exp, idx = to_model_lines(lines, impl[a:b])
                for l, e, i in zip(ml, exp, idx):
                    der.append({"req": l, "index": a + i, "check": (lambda out, e=e: None if canon_msgs(out) == canon_msgs(e) else ("model", canon_msgs(e)))})
                last = impl[b - 1]
                if ans[0] == "W1":
                    ok = vlib.hx("Update available: 4.17.20 -> 5.0.0-beta.1") in last
                    der.append({"req": vlib.line("ml.settle"), "index": a, "history": lines,
                                "check": (lambda out, ok=ok: None if ok else ("violation", "ignorePrerelease=false was answered but a prerelease-only newer version is not reported as latest (the option does not reach the cache)"))})
                else:
                    ok = "npm/" + vlib.hx("lodash") in last
                    der.append({"req": vlib.line("ml.settle"), "index": a, "history": lines,
                                "check": (lambda out, ok=ok: None if ok else ("violation", "cache.refreshInterval=1 was answered but a package cached 600 s ago is not refreshed at start-up (the option does not reach the cache)"))})
                continue
            lines = [c["req"] for c in cs[a:b]]
            ml, exp, idx = to_model_lines(lines, impl[a:b])
            # an answered interval below the packages' age (0 here) makes them due at start-up; the refresh then works through the
            # registries one after the other in hash-map order, which this stream does not model (stream (c) models the refresh of one
            # registry): the claims ("parked=") are left out of the comparison, the traffic is compared in full
            def noparked(x):
                return " ; ".join(p for p in canon_msgs(x).split(" ; ") if not p.startswith("parked="))
            for l, e, i in zip(ml, exp, idx):
                der.append({"req": l, "index": a + i, "check": (lambda out, e=e: None if noparked(out) == noparked(e) else ("model", noparked(e)))})
            # the property on the implementation
            disabled = set()
            malformed = False
            if ans not in ("FAIL", "NONE") and ans is not None:
                sp = spec_parse(ans)
                if sp[0] == "ok":
                    disabled = sp[1]
                elif not has_struct_array(ans):
                    malformed = True
                else:
                    continue        # arrays at struct positions: F-C14-3, judged in stream (a)
            init_out = [impl[i] for i in range(a, b) if vlib.decode_line(cs[i]["req"])[0] == "l.init"][0]
            nerr = init_out.count("show error")
            if isinstance(ans, (str, int, float, bool)) and ans not in ("FAIL", "NONE") and nerr != 1:
                kid = None
                der.append({"req": vlib.line("ml.settle"), "index": a, "history": lines,
                            "check": (lambda out, kid=kid, ans=ans: ("known", kid) if kid else ("violation", f"the non-object answer {ans!r} was not reported as malformed"))})
            if malformed and nerr != 1:
                der.append({"req": vlib.line("ml.settle"), "index": a, "history": lines,
                            "check": (lambda out, nerr=nerr: ("violation", f"a malformed configuration answer produced {nerr} error messages (expected exactly one)"))})
            if not malformed and nerr != 0:
                der.append({"req": vlib.line("ml.settle"), "index": a, "history": lines,
                            "check": (lambda out: ("violation", "a well-formed configuration answer was reported as an error"))})
            for i in range(a, b):
                f = vlib.decode_line(cs[i]["req"])
                if f[0] == "l.open":
                    rk = [k for k, d in DOCS.items() if d[0] == f[1]][0]
                    reg = DOCS[rk][2]
                    published = "pub " in impl[i]
                    acted = "act [" in impl[i + 1]
                    if reg in disabled and (published or acted):
                        der.append({"req": vlib.line("ml.settle"), "index": i, "history": lines,
                                    "check": (lambda out, reg=reg: ("violation", f"registry {reg} is disabled but its document received diagnostics or code actions"))})
                    if reg not in disabled and not (published and acted):
                        der.append({"req": vlib.line("ml.settle"), "index": i, "history": lines,
                                    "check": (lambda out, reg=reg, ans=ans: ("violation", f"registry {reg} is enabled by {ans!r} but its document got no diagnostics / code actions"))})
        return der
    st_b = Stream("config-lsp", cases, nontrivial=lambda c, o: c.get("tag") is not None, derive=derive, model_eq=lambda i, m: True,
                  shrinkable=False, nt_on_impl=True)
    # (c) the two cache options under generated answers: a prerelease-only newer version and a package of a chosen age
    DEF_RI = 86400000
    ccases, cgroups = [], []
    def eff(a):
        """(ignorePrerelease, refreshInterval) in force after answer a, by the documented meaning"""
        if a in ("FAIL", "NONE") or a is None:
            return (True, DEF_RI)
        sp = spec_parse(a)
        return (sp[2], sp[3]) if sp[0] == "ok" else (True, DEF_RI)
    pool = [a for a in answers if isinstance(a, dict) and ("ignorePrerelease" in a or "cache" in a) and not has_struct_array(a)]
    pool = pool[: (40 if tier == "quick" else 1500)]
    fixed_c = [{"ignorePrerelease": False}, {"ignorePrerelease": True}, {"cache": {"refreshInterval": 1}}, {"cache": {"refreshInterval": 0}},
               {"cache": {"refreshInterval": -5}}, {"cache": {"refreshInterval": 9223372036854775807}}, {"cache": {"refreshInterval": -9223372036854775808}},
               {"cache": {"refreshInterval": 600000}, "ignorePrerelease": False}, {"cache": {"refreshInterval": "soon"}, "ignorePrerelease": False},
               {"ignorePrerelease": False, "extra": 1}, None, {}, "FAIL", "NONE", {"cache": {}}, {"cache": {"refreshInterval": 1.5}}]
    for a in fixed_c + pool:
        ip, ri = eff(a)
        ages = sorted(set(x for x in (ri - 1, ri, ri + 1, 0, 600000, DEF_RI + 1) if 0 <= x < 2**62))
        for age in (ages if (tier != "quick" or a in fixed_c[:9]) else [rng.choice(ages)]):
            ans = a if a in ("FAIL", "NONE") else dumps(a)
            # a slow client: the configuration answer arrives only after 0.5 - 60 s (virtual time); the refresh must still use it
            late = rng.choice([500, 2500, 10000, 60000]) if rng.chance(1, 3) else None
            L = [vlib.line("l.config", ans), vlib.line("l.start", "T"),
                 vlib.line("l.cache", "npm", "lodash", "4.17.20", "5.0.0-beta.1"), vlib.line("l.now", str(1000 + age)),
                 (vlib.line("l.initlate", str(late), "npm") if late else vlib.line("l.init", "npm")),
                 vlib.line("l.parse", "npm", DOCS["npm"][1]), vlib.line("l.open", DOCS["npm"][0], DOCS["npm"][1])]
            s0 = len(ccases)
            for i, l in enumerate(L):
                ccases.append({"req": l, "tag": (ans, age, late) if i == 0 else None})
            cgroups.append((s0, len(ccases), a, age, ip, ri))

    def derive_c(cs, impl):
        der = []
        for (a, b, ans, age, ip, ri) in cgroups:
            lines = [c["req"] for c in cs[a:b]]
            ml, exp, idx = to_model_lines(lines, impl[a:b])
            for l, e, i in zip(ml, exp, idx):
                der.append({"req": l, "index": a + i, "check": (lambda out, e=e: None if canon_msgs(out) == canon_msgs(e) else ("model", canon_msgs(e)))})
            init_out, open_out = impl[a + 4], impl[b - 1]
            refreshed = ("npm/" + vlib.hx("lodash")) in init_out.split("parked=")[-1]
            want_refresh = age > ri            # updated_at < now - interval
            if refreshed != want_refresh:
                der.append({"req": vlib.line("ml.settle"), "index": a, "history": lines,
                            "check": (lambda out, ans=ans, age=age, ri=ri, refreshed=refreshed: ("violation",
                                f"answer {ans!r}: refresh interval in force {ri} ms, package cached {age} ms ago, start-up refresh {'asked for it' if refreshed else 'did not ask for it'}"))})
            reported = vlib.hx("Update available: 4.17.20 -> 5.0.0-beta.1") in open_out
            npm_off = isinstance(ans, dict) and spec_parse(ans)[0] == "ok" and "npm" in spec_parse(ans)[1]
            if not npm_off and reported != (not ip):      # a disabled npm registry publishes nothing (judged by stream b)
                der.append({"req": vlib.line("ml.settle"), "index": a, "history": lines,
                            "check": (lambda out, ans=ans, ip=ip, reported=reported: ("violation",
                                f"answer {ans!r}: ignorePrerelease in force is {ip}, but the prerelease-only newer version 5.0.0-beta.1 {'is' if reported else 'is not'} reported as latest"))})
        return der
    st_c = Stream("cache-options", ccases, nontrivial=lambda c, o: c.get("tag") is not None, derive=derive_c, model_eq=lambda i, m: True,
                  shrinkable=False, nt_on_impl=True)
    return [st_a, st_b, st_c]
