"""C06 — no document, message or registry reply can crash or hang the server."""
from runner import Stream
import vlib, fuzzgen

PROP_MODULES = ["Vlsp.Props.C06"]
RULE = ("search stream (support for the theorems, not a proof): the synchronous pipeline of every request — Parser::parse, "
        "generate_diagnostics, PackageIndex::find_at_position + generate_bump_code_actions at every package boundary and line — on "
        "grammar-aware mutations of valid manifests of all 7 formats (truncation at every character, token splicing, block moves, CR/CRLF, "
        "Unicode / NUL / BOM injection, 20000-deep nesting, 100 kB lines) over a storer that knows every name; both matcher entry points of "
        "all 7 matchers on mutated specs and versions; didOpen/didChange/codeAction/didClose sequences of mutated documents through the "
        "in-process LspService with a liveness probe after each; arbitrary bodies/statuses through the six registry adapters. A request "
        "that panics, aborts the process or exceeds the watchdog budget is a violation with the request as replay. "
        "non-trivial = the parser extracts at least one package or the matcher accepts the spec; distinct by output shape per format")
ASSUMPTIONS = ["panic freedom of third-party crates (tree-sitter grammars, semver, pep440_rs, pep508_rs behind catch_unwind, regex, serde) is assumed by the theorems "
               "and exercised by this stream", "stack exhaustion inside the tree-sitter C parsers is runtime behaviour the model cannot exhibit; probed with 20000-deep nesting",
               "tower-lsp's own message framing and JSON-RPC decoding are outside the property's anchors"]

def extra_obligations(notes):
    """every potential panic site of the CURRENT source must be discharged by a theorem of Props/C06.lean or by a named class"""
    import json, os, extract
    sites = extract.ex_panic_sites(vlib.REPO)["panicSites"]
    tab = json.load(open(os.path.join(vlib.VERIF, "tools", "c06_sites.json")))
    thms = set(t.split(".")[-1] for t in vlib.theorems_in(os.path.join(vlib.LEAN, "Vlsp", "Props", "C06.lean")))
    obligations, discharged, problems = [], [], []
    import re, collections

    def shape(kind, line):
        """the panicking expressions of a line with its local names abstracted (method, field and function names kept):
        what a site's justification is about; renaming a variable or moving the expression into a helper keeps it"""
        code = re.sub(r'"(?:[^"\\]|\\.)*"', '""', line)
        kinds = kind.split("+")
        if any(k in ("unwrap", "expect", "macro", "split_at") for k in kinds):
            frags = [re.sub(r"^(let (mut )?\w+ = |return )", "", code)]
        else:
            frags = [m.group(0) for k, pat in extract.PANIC_PATTERNS if k in kinds for m in re.finditer(pat, code)]
        names = {}

        def rep(m):
            return names.setdefault(m.group(0), f"_{len(names) + 1}")
        return kind + "|" + ",".join(re.sub(r"(?<![\w.])[A-Za-z_]\w*(?!\s*[\w(])", rep, fr) for fr in frags)
    # the obligations of the table by (file, shape): a site of the current source that the table does not list by its exact
    # text inherits the obligation of the listed sites of the same file and shape, provided they all carry the same one and
    # the source has no more sites of that shape than the table (a moved or renamed expression - never an additional one)
    tab_kind = {}
    for f, fn, kind, line in sites:
        tab_kind.setdefault(f"{f}|{fn}|{line}", kind)
    by_shape = collections.defaultdict(list)
    for key, by in tab["sites"].items():
        f, fn, line = key.split("|", 2)
        kind = tab_kind.get(key) or "+".join(extract.panic_kinds(line))       # (a listed site that is gone from the source: its kinds are read off its text)
        if kind:
            by_shape[(f, shape(kind, line))].append(by)
    cur_shape = collections.Counter((f, shape(kind, line)) for f, fn, kind, line in sites)
    moved = []
    for f, fn, kind, line in sites:
        key = f"{f}|{fn}|{line}"
        obligations.append(key)
        by = tab["sites"].get(key)
        if not by:
            sh = (f, shape(kind, line))
            cands = by_shape.get(sh, [])
            if cands and len(set(cands)) == 1 and cur_shape[sh] <= len(cands):
                by = cands[0]
                moved.append({"site": f"{f} fn {fn}: {line}", "inherits": by})
                tab["sites"][key] = by
        if not by:
            problems.append(f"potential panic site with no obligation: {f} fn {fn} [{kind}]: {line}")
            continue
        ok = True
        for part in by.split("+"):
            k, name = part.split(":", 1)
            if k == "theorem" and name not in thms:
                ok = False; problems.append(f"site {key}: theorem {name} is not in Props/C06.lean")
            if k == "class" and name not in tab["classes"]:
                ok = False; problems.append(f"site {key}: unknown class {name}")
        if ok:
            discharged.append(key)
    notes["moved_or_renamed_sites"] = moved
    notes["panic_sites"] = {"in_source": len(sites), "discharged": len(discharged),
                            "by_theorem": sum(1 for k in discharged if "theorem:" in tab["sites"][k]),
                            "by_class_only": sum(1 for k in discharged if "theorem:" not in tab["sites"][k])}
    return {"obligations": obligations, "discharged": discharged, "problems": problems}


ECOS = ["npm", "crates", "go", "gha", "pypi", "pnpm", "jsr"]
STORERS = [["S4.18.0", "3", "4.17.20", "4.17.21", "4.18.0", "latest", "4.18.0"], ["-", "0"], ["Sv4.2.0", "3", "v3", "v4", "v4.2.0"],
           ["S1.0.200", "2", "1.0.0", "1.0.200"], ["Snot-a-version", "2", "é", ""], ["Sv0.3.8", "2", "v0.3.7", "v0.3.8"]]
SPEC_TOKENS = ["1.0.0", "^", "~", ">=", "<", "=", " ", "  ", "||", " - ", "-", "x", "*", "v", "é", "😀", ",", "1", "0", ".", "+", "a", "beta", "latest", "@", "\t", "\n", "",
               "18446744073709551616", "0.0.0-20210101000000-abcdef123456", "+incompatible", "!", "==", "~=", ".*", "===", "1!2.0", "post1", "dev0", "rc1", "_", "\x00"]


def spec(rng):
    return "".join(rng.choice(SPEC_TOKENS) for _ in range(1 + rng.below(7)))


def fuzzgen_spec(rng):
    return "".join(rng.choice(["1.0.0", "2", " ", " ", " - ", "-", ">=", "<", "^", "~", "é", "日本", "  ", "x", "||", "1.2.3"]) for _ in range(1 + rng.below(7)))


def streams(ctx):
    rng, tier = ctx["rng"], ctx["tier"]
    quick = tier == "quick"
    per = 1200 if quick else 60000
    cases = []
    for eco in ECOS:
        for t in fuzzgen.documents(rng, eco, per):
            st = rng.choice(STORERS)
            cases.append({"req": vlib.line("fz.doc", eco, t, *st), "eco": eco})
    for c in cases:
        c["tag"] = None

    def nt_doc(c, o):
        ok = o.startswith("p=") and not o.startswith("p=0 ")
        if ok:
            c["tag"] = (c["eco"], o.split(" pos=")[0])
        return ok

    def derive_bad(cs, impl):
        der = []
        for i, (c, o) in enumerate(zip(cs, impl)):
            if o.startswith("PANIC") or o in ("ABORT", "HANG"):
                where = vlib.unhx(o.split(" ")[1]) if o.startswith("PANIC ") and len(o.split(" ")) > 1 else o
                f = vlib.decode_line(c["req"])
                sig = vlib.ABORT_SIGS.get(c["req"], "")
                if o == "ABORT" and "ts_parser__external_scanner_serialize" in sig and f[1] in ("gha", "pnpm"):
                    # F-C06-2: identified by the assertion that fires and by the parser (the YAML grammar's scanner)
                    der.append({"req": vlib.line("ml.settle"), "index": i, "history": [c["req"]], "check": (lambda out: ("known", "F-C06-2"))})
                    continue
                if o == "ABORT":
                    where = "ABORT: " + sig[-160:]
                der.append({"req": vlib.line("ml.settle"), "index": i, "history": [c["req"]],
                            "check": (lambda out, where=where, f=f: ("violation", f"{f[0]} {f[1]!r}: request did not complete ({where}) on input {f[2][:120]!r}"))})
        return der
    st_doc = Stream("document-pipeline", cases, nontrivial=nt_doc, derive=derive_bad, model_eq=lambda i, m: True, shrinkable=False, nt_on_impl=True)

    mcases = []
    for eco in ECOS:
        for _ in range(1500 if quick else 80000):
            mcases.append({"req": vlib.line("fz.match", eco, spec(rng), spec(rng) if rng.chance(1, 2) else rng.choice(["1.2.3", "v1.2.3", "4.18.0"]),
                                            *[spec(rng) if rng.chance(1, 3) else rng.choice(["1.0.0", "v1.0.0", "2.0.0-rc.1"]) for _ in range(rng.below(4))]), "eco": eco, "tag": None})

    # every single-character mutation (replace / insert / delete / truncate, with multi-byte characters) of valid versions and specs
    VALID = {"go": ["v0.0.0-20210101000000-abcdef123456", "v1.2.3-0.20210101000000-abcdef123456", "v1.2.3+incompatible", "v1.2.3-beta.1"],
             "gha": ["v4", "v4.1", "v4.1.2", "v4.1.2-beta", "8e5b9c1f2a3d4e5f6a7b8c9d0e1f2a3b4c5d6e7f"],
             "npm": [">=1.0.0 <2.0.0 || 3.x", "1.0.0 - 2.0.0", "^1.2.3-beta.1", "~1.2", "latest"], "pnpm": ["^1.2.3 || ~2.0"], "jsr": ["^1.2.3", "1.x"],
             "crates": [">=1.2.0, <2", "^0.2.3", "=1.2.3-rc.1+b", "1.*"], "pypi": [">=2.28,<3", "==1.26.*", "~=1.4.2", "!=1.5; python_version>'3'", "===1.0+local"]}
    for eco, vs in VALID.items():
        for v in vs:
            muts = set()
            for i in range(len(v) + 1):
                muts.add(v[:i])
                for ch in ["é", "😀", " ", "-", ".", "0"]:
                    muts.add(v[:i] + ch + v[i:])
                    if i < len(v):
                        muts.add(v[:i] + ch + v[i + 1:])
                if i < len(v):
                    muts.add(v[:i] + v[i + 1:])
            for mu in sorted(muts):
                mcases.append({"req": vlib.line("fz.match", eco, mu, v, v, mu), "eco": eco, "tag": None})
                mcases.append({"req": vlib.line("fz.match", eco, v, mu, mu), "eco": eco, "tag": None})

    def nt_m(c, o):
        ok = o.startswith("true")
        if ok:
            c["tag"] = (c["eco"], o)
        return ok
    st_m = Stream("matchers", mcases, nontrivial=nt_m, derive=derive_bad, model_eq=lambda i, m: True, shrinkable=False, nt_on_impl=True)

    # LSP sessions of mutated documents, with a liveness probe after every request
    URIS = {"npm": "file:///w/package.json", "crates": "file:///w/Cargo.toml", "go": "file:///w/go.mod", "gha": "file:///w/.github/workflows/ci.yml",
            "pypi": "file:///w/pyproject.toml", "pnpm": "file:///w/pnpm-workspace.yaml", "jsr": "file:///w/deno.json"}
    lcases = []
    nsess = 40 if quick else 1500
    for s in range(nsess):
        eco = ECOS[s % len(ECOS)]
        uri = URIS[eco] if rng.chance(5, 6) else rng.choice(["file:///w/other.txt", "untitled:Untitled-1", "file:///w/%F0%9F%98%80/package.json", "file:///w/Cargo.toml?x=1#y"])
        L = [vlib.line("l.start", "T"), vlib.line("l.cache", "npm", "lodash", "4.17.20", "4.18.0"), vlib.line("l.init")]
        docs = list(fuzzgen.documents(rng, eco, 0))[:1]
        t = fuzzgen.SEEDS[eco][0]
        opened = False
        for _ in range(6 + rng.below(10)):
            k = rng.below(10)
            if k < 6:
                t = fuzzgen.mutate(rng, t, rng.choice(fuzzgen.SEEDS[rng.choice(ECOS)]))
                L.append(vlib.line("l.change" if opened else "l.open", uri, t)); opened = True
            elif k < 9:
                L.append(vlib.line("l.action", uri, str(rng.choice([0, 1, 2, 3, 5, 8, 1000, 4294967295])), str(rng.choice([0, 1, 7, 15, 16, 30, 100000, 4294967295]))))
            else:
                L.append(vlib.line("l.close", uri)); opened = False
            L.append(vlib.line("l.settle"))           # liveness: the server still answers
        L.append(vlib.line("l.stop"))
        for i, l in enumerate(L):
            lcases.append({"req": l, "tag": ("lsp", eco, s) if i == len(L) - 1 else None})

    def derive_l(cs, impl):
        der = []
        start = 0
        for i, (c, o) in enumerate(zip(cs, impl)):
            if c["req"].startswith("l.start"):
                start = i
            if o.startswith("PANIC") or o in ("ABORT", "HANG"):
                where = vlib.unhx(o.split(" ")[1]) if o.startswith("PANIC ") else o
                f = vlib.decode_line(c["req"])
                der.append({"req": vlib.line("ml.settle"), "index": i, "history": [x["req"] for x in cs[start:i + 1]],
                            "check": (lambda out, where=where, f=f: ("violation", f"LSP request {f[0]} did not complete ({where})"))})
        return der
    st_l = Stream("lsp-sessions", lcases, nontrivial=lambda c, o: c.get("tag") is not None, derive=derive_l, model_eq=lambda i, m: True, shrinkable=False, nt_on_impl=True)
    # the offset-level site models of Props/C06.lean vs the real parsers (values embedded in minimal documents)
    AL = ["a", "b", "z", "0", "1", "9", "/", "/", "@", "@", ".", "-", "_", "é", "日", "v", "npm:", "jsr:", "^", "~", " ", "x/y", "@s/p", "@1.0.0", "😀"]
    scases = []

    def val(prefix):
        v = prefix + "".join(rng.choice(AL) for _ in range(rng.below(9)))
        return v.strip()
    for _ in range(1500 if quick else 60000):
        v = val(rng.choice(["npm:", "npm:@", "npm:", "", "npm"]))
        scases.append({"req": vlib.line("l.parse", "npm", '{"dependencies":{"k":"' + v + '"}}'), "site": "npmalias", "v": v})
        v = val(rng.choice(["jsr:", "jsr:@", "jsr:@s/", "", "jsr"]))
        scases.append({"req": vlib.line("l.parse", "jsr", '{"imports":{"k":"' + v + '"}}'), "site": "jsr", "v": v})
        v = val(rng.choice(["a", "actions/", "o/r@", "o/r/sub@", "x"]))
        if v and not v.endswith(":") and ": " not in v and " #" not in v:
            scases.append({"req": vlib.line("l.parse", "gha", "jobs:\n  b:\n    steps:\n      - uses: " + v + "\n"), "site": "uses", "v": v})
        scases.append({"req": vlib.line("match.exists", "npm", fuzzgen_spec(rng), "1.0.0"), "site": "split", "v": None})
    for c in scases:
        c["tag"] = None

    import extract
    NONREG = tuple(extract.ex_parsers(vlib.REPO)["nonRegistryPrefixes"])

    def derive_s(cs, impl):
        der = []
        for i, (c, o) in enumerate(zip(cs, impl)):
            if o.startswith("PANIC") or o in ("ABORT", "HANG"):
                der.append({"req": vlib.line("ml.settle"), "index": i, "history": [c["req"]],
                            "check": (lambda out, o=o, c=c: ("violation", f"{vlib.decode_line(c['req'])[:3]} did not complete: {o[:80]}"))})
                continue
            if c["site"] == "split":
                spec = vlib.decode_line(c["req"])[2]
                der.append({"req": vlib.line("site.split", spec), "index": i, "history": [c["req"]],
                            "check": (lambda out: None if out.startswith("same ") else ("model", "the byte-offset model of split_and_parts and the character-level model disagree: " + out[:200]))})
                continue
            items = [x for x in o.split(";") if x]
            got = "N" if not items else "P" + items[0].split("|")[0] + "|" + items[0].split("|")[1]
            v = c["v"]

            def chk(out, got=got, v=v, site=c["site"]):
                want = out
                if site == "npmalias":
                    # a non-registry specifier never reaches the alias parser: the regenerated prefix list, and a slash outside an npm: alias
                    if v.startswith(NONREG) or ("/" in v and not v.startswith("npm:")):
                        want = "N"
                    elif out == "N":
                        want = "P" + vlib.hx("k") + "|" + vlib.hx(v)
                return None if got == want else ("model", f"{site} {v!r}: parser gives {got}, site model gives {want}")
            der.append({"req": vlib.line("site." + c["site"], v), "index": i, "history": [c["req"]], "check": chk})
        return der

    def nt_s(c, o):
        ok = bool(o) and not o.startswith(("PANIC", "false", "true")) or c["site"] == "split"
        if ok:
            c["tag"] = (c["site"], c["v"] if c["v"] is not None else c["req"][-24:])
        return ok
    st_s = Stream("site-models", scases, nontrivial=nt_s, derive=derive_s, model_eq=lambda i, m: True, shrinkable=False, nt_on_impl=True)
    return [st_doc, st_m, st_l, st_s]
