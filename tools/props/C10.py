"""C10 — every fetch outcome is recorded correctly and always releases its claim."""
import itertools
from runner import Stream
import vlib, gen_cache

PROP_MODULES = ["Vlsp.Props.C10"]
RULE = ("real fetch_missing_packages / refresh_packages on a real Cache behind a fault-injecting VersionStorer decorator and a "
        "scripted Registry (tokio paused clock): batches of 1-3 packages (duplicates, already cached, marked nonexistent, claimed "
        "by someone else) x registry outcomes {ok with/without tags, ok empty, not found, rate limited, invalid} x an injected "
        "failure at each individual cache call (claim, replace, save tags, mark, finish, filter, refresh query); after the routine "
        "returns: returned list, registry call log and the full database dump vs the Lean model; plus the property evaluated on the "
        "implementation (claim released, versions iff ok, mark iff not-found, only missing requested). quick: exhaustive over "
        "outcome x single-fault for batches <= 2, sampled for 3; non-trivial = at least one package claimed; distinct by (setup, outcomes, faults)")
ASSUMPTIONS = ["a failing cache call has no effect (decorator fails before the real call; mid-transaction failures are C11)",
               "network errors are scripted as InvalidResponse (same Err(e) arm of fetch_and_cache_package)",
               "with an instantaneous registry the staggered futures of a batch run one after the other"]

OUTCOMES = [("ok", ["1.0.0", "1.1.0"], ["latest", "1.1.0"]), ("ok", ["2.0.0"], []), ("ok", [], []), ("nf", [], []), ("rl", [], []), ("inv", [], [])]
FAULTS = ["-", "c", "r", "s", "m", "f"]
SETUPS = ["fresh", "cached", "marked", "claimed", "stale"]


def job(name, outcome, faults):
    kind, vs, tags = outcome
    return [name, kind, str(len(vs))] + vs + [str(len(tags) // 2)] + tags + [faults]


def one_case(entry, reg, gf, jobs, setups):
    L = [vlib.line("c.reset", "T", "1000"), vlib.line("c.open", "0"), vlib.line("c.now", "50")]
    for name, st in setups:
        if st == "cached":
            L.append(vlib.line("c.replace", "0", reg, name, "0.9.0"))
        elif st == "marked":
            L.append(vlib.line("c.mark", "0", reg, name))
        elif st == "claimed":
            L.append(vlib.line("c.claim", "0", reg, name))
        elif st == "stale":
            L.append(vlib.line("c.replace", "0", reg, name, "0.1.0"))
    L.append(vlib.line("c.now", "5000"))
    flat = [str(len(jobs))]
    for j in jobs:
        flat += j
    L.append(vlib.line(entry, reg, gf, *flat))
    L.append(vlib.line("c.dump"))
    return L


def streams(ctx):
    rng, tier = ctx["rng"], ctx["tier"]
    hist = []
    reg = "npm"
    # exhaustive: 1 package x setup x outcome x fault x entry
    for entry in ("fetch.missing", "fetch.refresh"):
        for st in SETUPS:
            for o in OUTCOMES:
                for fl in FAULTS:
                    for gf in (["-", "F"] if entry == "fetch.missing" else ["-", "n"]):
                        if gf != "-" and fl != "-":
                            continue
                        hist.append((one_case(entry, reg, gf, [job("a", o, fl)], [("a", st)]), (entry, st, o[0], fl, gf)))
    # 2 packages: all outcome pairs x fault on the first x setup of the second
    for o1 in OUTCOMES:
        for o2 in OUTCOMES:
            for fl in FAULTS:
                st2 = rng.choice(SETUPS)
                hist.append((one_case("fetch.missing", reg, "-", [job("a", o1, fl), job("b", o2, "-")], [("b", st2)]),
                             ("m2", o1[0], o2[0], fl, st2)))
    # duplicates and 3-package batches, sampled
    n3 = 150 if tier == "quick" else 4000
    for _ in range(n3):
        names = [rng.choice(["a", "b", "c", "a"]) for _ in range(3)]
        jobs, seen = [], {}
        for nm in names:
            if nm not in seen:
                seen[nm] = (rng.choice(OUTCOMES), rng.choice(FAULTS) if rng.chance(1, 2) else "-")
            jobs.append(job(nm, *seen[nm]))
        setups = [(nm, rng.choice(SETUPS)) for nm in set(names)]
        entry = rng.choice(["fetch.missing", "fetch.refresh"])
        hist.append((one_case(entry, reg, "-", jobs, setups), ("m3", tuple(names), tuple(sorted(setups)), entry)))
    cases, bounds = [], []
    for h, tag in hist:
        bounds.append((len(cases), len(cases) + len(h), tag))
        for i, l in enumerate(h):
            cases.append({"req": l, "tag": tag if i == len(h) - 2 else None})

    def derive(cs, impl):
        """the property on the implementation's own final state (independent of the model)"""
        der = []
        for (a, b, tag) in bounds:
            fline = vlib.decode_line(cs[b - 2]["req"])
            out, dump = impl[b - 2], impl[b - 1]
            rows = {}
            for item in dump.split(";"):
                if item.startswith("P "):
                    parts = item.split(" ")
                    rows[parts[1]] = {p.split("=")[0]: p.split("=")[1] for p in parts[2:]}
            problems = []
            # every claim taken by this routine is released unless the finish call was the injected fault
            entry, reg = fline[0], fline[1]
            njobs = int(fline[3]); i = 4; jobs = []
            for _ in range(njobs):
                name, kind, nv = fline[i], fline[i + 1], int(fline[i + 2]); i += 3
                vs = fline[i:i + nv]; i += nv
                nt = int(fline[i]); i += 1
                tags = fline[i:i + 2 * nt]; i += 2 * nt
                fl = fline[i]; i += 1
                jobs.append((name, kind, vs, tags, fl))
            pre_claimed = {vlib.decode_line(c["req"])[3] for c in cs[a:b] if vlib.decode_line(c["req"])[0] == "c.claim"}
            requested = out.split("requested=")[1] if "requested=" in out else "[]"
            req_names = [vlib.unhx(x[1:]) for x in requested[1:-1].split(",")] if len(requested) > 2 else []
            for (name, kind, vs, tags, fl) in jobs:
                row = rows.get(f"{reg}/{vlib.hx(name)}")
                if name in req_names and "f" not in fl and name not in pre_claimed:
                    if row is None or row.get("f") != "-":
                        problems.append(f"claim on {name} not released (row {row})")
                if kind != "nf" and row is not None and row.get("n") == "1" and not any(
                        vlib.decode_line(c["req"])[0] == "c.mark" and vlib.decode_line(c["req"])[3] == name for c in cs[a:b]):
                    problems.append(f"{name} marked nonexistent although the registry answered {kind}")
            # a successful outcome is recorded WITH its dist-tags: unless the claim, the version store or the tag store was the injected
            # fault, every tag the registry answered with is in the cache afterwards
            for (name, kind, vs, tags, fl) in jobs:
                if name in req_names and kind == "ok" and vs and tags and not (set(fl) & set("crs")) and name not in pre_claimed and [j[0] for j in jobs].count(name) == 1:
                    for k in range(0, len(tags), 2):
                        item = f"T {reg}/{vlib.hx(name)} {vlib.hx(tags[k])}={vlib.hx(tags[k + 1])}"
                        if item not in dump.split(";"):
                            problems.append(f"{name}: the registry answered with tag {tags[k]}={tags[k + 1]} but the cache does not hold it afterwards")
            # "the routine reports as fetched exactly the packages whose versions were stored" (fetch_missing_packages): judged
            # where it is unambiguous — a requested package whose registry answered with versions and whose cache calls were
            # not failed must be reported, one whose registry did not answer with versions must not
            if entry == "fetch.missing" and "fetched=" in out:
                ft = out.split("fetched=")[1].split(" ")[0]
                reported = [vlib.unhx(x[1:]) for x in ft[1:-1].split(",")] if len(ft) > 2 else []
                for (name, kind, vs, tags, fl) in jobs:
                    # (stored = the cache now holds exactly the versions the registry answered with; a failure of ANOTHER cache call of
                    # this package - saving its tags, releasing its claim - does not make them any less stored)
                    have = sorted(vlib.unhx(it.split(" ")[2]) for it in dump.split(";") if it.startswith(f"V {reg}/{vlib.hx(name)} "))
                    stored = bool(vs) and have == sorted(vs)
                    if name in req_names and kind == "ok" and vs and "r" not in fl and "c" not in fl and stored and name not in reported and [j[0] for j in jobs].count(name) == 1:
                        problems.append(f"{name}: versions were fetched and stored but the routine does not report it as fetched (reported {reported})")
                    if name in reported and kind != "ok":
                        problems.append(f"{name} reported as fetched although the registry answered {kind}")
                    if name in reported and kind == "ok" and vs and not stored and [j[0] for j in jobs].count(name) == 1:
                        problems.append(f"{name} reported as fetched although its versions are not in the cache (stored: {have})")
            if problems:
                der.append({"req": vlib.line("latest.same", "1.0.0", "1.0.0"), "index": b - 2,
                            "check": (lambda o, problems=problems: ("violation", "; ".join(problems))),
                            "history": [c["req"] for c in cs[a:b]]})
        return der

    return [Stream("fetch-faults", cases, nontrivial=lambda c, o: c.get("tag") is not None and "requested=[]" not in o,
                   derive=derive, shrinkable=False,
                   model_eq=lambda i, m: gen_cache.canon(i) == gen_cache.canon(m))]
