"""C03 — 'latest' is the registry's latest tag, else the highest stable cached version."""
from runner import Stream
import vlib, gen_cache

PROP_MODULES = ["Vlsp.Props.C03", "Vlsp.Props.C03History"]
RULE = ("random cache fill histories (shuffled, batched, duplicated, interleaved keys/registries, reopen) over version "
        "spellings (v-prefix, partial, prerelease, build metadata, unparsable), both prerelease settings; after each "
        "history get_latest_version is compared with the model applied to the rows actually read; plus metamorphic "
        "pairs: the same version set stored in two different orders/batchings must give cmp-equal latest. "
        "non-trivial = at least two parsable candidates and no tag, or a tag plus candidates; distinct by (ip, tag?, sorted version set)")
ASSUMPTIONS = ["SQLite row order is arbitrary: the model is applied to the row order the real query returned",
               "semver crate parse/Ord modelled in Model/Semver.lean (validated by the C02 semver stream)"]

SPELL = ["1.0.0", "1.0", "1", "v1.0.0", "v1", "1.2.3", "1.2.3-rc.1", "1.2.3-rc.1+b", "1.2.3+b", "1.2.3+a", "2.0.0-beta.1",
         "2.0.0-alpha", "2.0.0", ">=1.0.0", "^3.0.0", "~0.1", "junk", "", "1.0.0.0", "01.0.0", "10.0.0", "9.9.9",
         "0.0.1", "0.0.1-0", "v2", "2", "2.0", "=2.0.0", "1.2.3-rc.1+c", "18446744073709551616.0.0", "é1.0.0", "3.0.0-0"]


def one_history(rng, ip, vs_batches, tag, key, other_noise=True):
    reg, name = key
    # the prerelease setting in force may come from the constructor or from a later configuration answer (configure on the
    # live handle, the refresh interval unchanged or changed): 'latest' must follow the setting in force
    via_configure = rng.chance(1, 3)
    L = [vlib.line("c.reset", "T" if (ip != via_configure) else "F", "1000"), vlib.line("c.open", "0")]
    if via_configure and rng.chance(1, 2):
        L.append(vlib.line("c.configure", "0", rng.choice(["1000", "1000", "5000"]), "T" if ip else "F"))
        via_configure = False
    for b in vs_batches:
        if other_noise and rng.chance(1, 3):
            # another package / same name in another registry gets unrelated data
            oreg = rng.choice([r for r in gen_cache.REGS if r != reg])
            L.append(vlib.line("c.replace", "0", oreg, name, "99.0.0", "100.0.0-rc.1"))
            L.append(vlib.line("c.tags", "0", oreg, name, "latest", "98.0.0"))
            L.append(vlib.line("c.replace", "0", reg, name + "x", "77.0.0"))
        L.append(vlib.line("c.replace", "0", reg, name, *b))
        if rng.chance(1, 5):
            L.append(vlib.line("c.open", "0"))  # reopen
    if tag is not None:
        L.append(vlib.line("c.tags", "0", reg, name, "latest", tag, "next", "9.9.9-next.0"))
    if via_configure:
        L.append(vlib.line("c.configure", "0", rng.choice(["1000", "1000", "5000"]), "T" if ip else "F"))
    L.append(vlib.line("c.latest_rows", "0", reg, name))
    return L


def batches(rng, vs):
    vs = rng.shuffle(vs)
    out, i = [], 0
    while i < len(vs):
        k = 1 + rng.below(3)
        out.append(vs[i:i + k]); i += k
    if rng.chance(1, 3) and out:
        out.append(list(out[0]))  # repetition
    return out


def streams(ctx):
    rng = ctx["rng"]
    n = 400 if ctx["tier"] == "quick" else 6000
    cases = []      # flat list of request lines, each a case; the last line of each history is the observation
    metas = []
    for i in range(n):
        ip = rng.chance(1, 2)
        vs = [rng.choice(SPELL) for _ in range(1 + rng.below(6))]
        tag = rng.choice(SPELL) if rng.chance(1, 5) else None
        key = (rng.choice(gen_cache.REGS), rng.choice(gen_cache.HOSTILE[:8]))
        h1 = one_history(rng, ip, batches(rng, vs), tag, key)
        h2 = one_history(rng, ip, batches(rng, vs), tag, key)
        for h in (h1, h2):
            start = len(cases)
            for l in h:
                cases.append({"req": l, "tag": None})
            metas.append((start, len(cases) - 1, ip, tuple(sorted(set(vs))), tag, i))
            cases[-1]["tag"] = (ip, tag, tuple(sorted(set(vs))))

    def parse_rows(out):
        # "<latest> <tag> [rows]"
        l, t, rows = out.split(" ")
        rows = [vlib.unhx(x[1:]) for x in rows[1:-1].split(",")] if len(rows) > 2 else []
        return l, t, rows

    def derive(cs, impl):
        der = []
        byi = {}
        for (start, end, ip, vset, tag, i) in metas:
            o = impl[end]
            if o.startswith("E:") or o.startswith(("PANIC", "ABORT")):
                der.append({"req": vlib.line("latest.pure", "T", "-"), "expect": "<no error expected: " + o + ">", "kind": "model", "index": end})
                continue
            l, t, rows = parse_rows(o)
            tagf = ("S" + vlib.unhx(t[1:])) if t != "-" else "-"
            # (1) model applied to the rows actually read must give the implementation's answer
            der.append({"req": vlib.line("latest.pure", "T" if ip else "F", tagf, *rows), "expect": l, "kind": "model", "index": end})
            lf = ("S" + vlib.unhx(l[1:])) if l != "-" else "-"
            der.append({"req": vlib.line("latest.ok", "T" if ip else "F", tagf, lf, *rows), "expect": "T", "kind": "spec",
                        "why": "the answer is not the tag / not a SemVer-highest stable member of the rows read",
                        "history": [c["req"] for c in cs[start:end + 1]]})
            # (2) spec: the rows read are exactly the stored set; the tag read is the stored tag
            if tuple(sorted(set(rows))) != vset or len(rows) != len(set(rows)):
                der.append({"req": vlib.line("latest.pure", "T", "-"), "expect": "<rows differ from stored set>", "kind": "spec",
                            "why": "cache rows are not the duplicate-free union of what was stored", "history": [c["req"] for c in cs[start:end + 1]]})
            byi.setdefault(i, []).append((l, start, end))
        # (3) metamorphic: two fill orders of the same set agree up to spelling
        for i, pair in byi.items():
            if len(pair) == 2:
                (l1, s1, e1), (l2, s2, e2) = pair
                a = vlib.unhx(l1[1:]) if l1 != "-" else None
                b = vlib.unhx(l2[1:]) if l2 != "-" else None
                if a == b:
                    continue
                if a is None or b is None:
                    der.append({"req": vlib.line("latest.same", a or "", b or ""), "expect": "<one history has a latest, the other none>",
                                "kind": "spec", "why": "order dependence", "history": [c["req"] for c in cs[s1:e1 + 1]] + [c["req"] for c in cs[s2:e2 + 1]]})
                else:
                    der.append({"req": vlib.line("latest.same", a, b), "expect": "T", "kind": "spec",
                                "why": "latest depends on fill order beyond spelling",
                                "history": [c["req"] for c in cs[s1:e1 + 1]] + [c["req"] for c in cs[s2:e2 + 1]]})
        return der

    def nt(c, o):
        t = c.get("tag")
        if not t:
            return False
        ip, tag, vset = t
        return len(vset) >= 2
    canon = lambda i, m: gen_cache.canon(i) == gen_cache.canon(m)
    st = Stream("latest-histories", cases, nontrivial=nt, derive=derive, shrinkable=False,
                model_eq=lambda i, m: True if " [" in i else canon(i, m))
    return [st]
