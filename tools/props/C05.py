"""C05 — every reported location is in bounds and covers the dependency's version text."""
from runner import Stream
import vlib, gen_manifest, fuzzgen
from parsers_common import model_lines, pkgs_of

PROP_MODULES = ["Vlsp.Props.C05", "Vlsp.Props.C05Go", "Vlsp.Props.C05Gha"]
RULE = ("(a) structural part on the implementation, for ANY document: every PackageInfo returned by the seven parsers on grammar-aware "
        "mutations of valid manifests (truncation at every character, token splicing, CR/CRLF, Unicode injection, scalar restyling) must have "
        "start <= end <= len, both on character boundaries, no line break inside, and (line, column) must denote the byte offset start; the "
        "same fields vs the Lean parser models on the same real syntax tree; (b) coverage part, for manifests rendered from abstract "
        "dependency lists under all layouts: the range lies inside the dependency's value token, on its line, covers the whole spec text "
        "(exactly the spec for plain specs, exactly the hash for hash-pinned actions), and the diagnostic range "
        "(line, column .. column + end - start) is the same place in UTF-16 units. non-trivial = at least one package located; distinct by "
        "format x layout x number of packages")
ASSUMPTIONS = ["tree-sitter and pep508_rs are inputs of the models (real output on every case)",
               "the LSP position encoding is UTF-16 (the server negotiates nothing else)"]


WIRE_CHECKED, WIRE_SKIPPED = [0], [0]


def evidence_notes():
    return {"diagnostic_ranges_compared_in_utf16_units": WIRE_CHECKED[0], "packages_without_a_usable_diagnostic": WIRE_SKIPPED[0]}


def utf16_len(s):
    return len(s.encode("utf-16-le")) // 2


def structural(text, p):
    """the structural predicate of the property, evaluated on one PackageInfo; returns a list of broken clauses"""
    b = text.encode("utf-8")
    bad = []
    s, e = p["start"], p["end"]
    if s > e:
        bad.append(f"inverted range {s}..{e}")
    if e > len(b) or s > len(b):
        bad.append(f"range {s}..{e} beyond the document ({len(b)} bytes)")
        return bad
    for off in (s, e):
        if off < len(b) and (b[off] & 0xC0) == 0x80:
            bad.append(f"offset {off} is inside a character")
    if s <= e and (b"\n" in b[s:e]):
        bad.append(f"range {s}..{e} spans a line break")
    line = b[:s].count(b"\n")
    ls = b.rfind(b"\n", 0, s) + 1
    if (p["line"], p["col"]) != (line, s - ls):
        bad.append(f"(line, column) = ({p['line']}, {p['col']}) but offset {s} is at ({line}, {s - ls})")
    return bad


def classify_struct(eco, text, p, bad):
    """recorded structural findings, identified by what the document looks like at the reported place"""
    b = text.encode("utf-8")
    s, e = p["start"], p["end"]
    # F-C05-4: a quoted value whose closing quote is missing (half-typed): start = node start + 1, end = node end - 1
    if len(bad) == 1 and bad[0].startswith("inverted") and s == e + 1 and eco in ("npm", "jsr", "crates", "pnpm", "pypi") and 0 < s <= len(b) and b[s - 1:s] in (b'"', b"'"):
        return "F-C05-4"
    # F-C05-5: the value is a multi-line scalar (TOML multi-line strings, YAML block / multi-line flow scalars, a raw line
    # break inside a JSON string): the range spans a line break, or the reported line is that of the VALUE NODE's start,
    # which lies on an EARLIER line than the version text (same line with a wrong column is NOT this class)
    actual_line = b[:s].count(b"\n") if s <= len(b) else None
    def multi(x):
        return ("spans a line break" in x) or ("(line, column)" in x and actual_line is not None and p["line"] < actual_line)
    if eco != "go" and all(multi(x) for x in bad):
        return "F-C05-5"
    return None


def streams(ctx):
    rng, tier = ctx["rng"], ctx["tier"]
    quick = tier == "quick"
    ECOS = list(gen_manifest.FORMATS)
    n_m = 700 if quick else 40000
    docs = []
    for eco in ECOS:
        for t in fuzzgen.documents(rng, eco, n_m):
            if len(t) < 4000:
                docs.append((eco, t))
    ca = [{"req": vlib.line("l.parse", e, t), "eco": e, "tag": None} for e, t in docs]

    def derive_a(cs, impl):
        der = []
        # the same locations from the Lean parser models on the real syntax trees (a sample: the models slice text in O(n) per node)
        sample = [i for i in range(len(docs)) if len(docs[i][1]) < 1500][: (1500 if quick else 30000)]
        ml = model_lines([docs[i] for i in sample])
        for i, l in zip(sample, ml):
            o = impl[i]
            if o.startswith(("PANIC", "ABORT", "HANG")):
                continue
            der.append({"req": l, "index": i, "history": [cs[i]["req"]],
                        "check": (lambda out, o=o: None if out == o else ("model", f"parser gives {o[:300]} ; model gives {out[:300]}"))})
        # what the server REPORTS for these documents: the ranges of the real generate_diagnostics (a storer in which no declared
        # version exists, so that every checked package gets a diagnostic)
        wire_a = vlib.run_impl([vlib.line("diag.ranges", e, t) for e, t in docs])
        for i, ((eco, text), w) in enumerate(zip(docs, wire_a)):
            if not w.startswith("n="):
                continue            # (a crash is C06's subject)
            lines_t = text.split("\n")
            wl = w.split(" ", 1)
            for rng_ in [x for x in (wl[1].split(";") if len(wl) > 1 and wl[1] else [])]:
                l1, rest = rng_.split(":", 1)
                c1, rest2 = rest.split("-", 1)
                l2, c2 = rest2.split(":")
                prob = None
                if l1 != l2:
                    prob = f"a diagnostic range runs from line {l1} to line {l2}"
                elif int(l1) >= len(lines_t):
                    prob = f"a diagnostic on line {l1} of a document with {len(lines_t)} lines"
                elif not (int(c1) <= int(c2) <= utf16_len(lines_t[int(l1)].rstrip("\r")) + (1 if lines_t[int(l1)].endswith("\r") else 0)):
                    prob = f"diagnostic characters {c1}..{c2} on line {l1}, which has {utf16_len(lines_t[int(l1)])} UTF-16 units"
                if prob:
                    der.append({"req": vlib.line("ml.settle"), "index": i, "history": [cs[i]["req"]],
                                "check": (lambda out, prob=prob, eco=eco: ("violation", f"{eco}: {prob}"))})
                    break
        for i, ((eco, text), o) in enumerate(zip(docs, impl)):
            if o.startswith(("PANIC", "ABORT", "HANG")):
                continue
            for p in pkgs_of(o):
                bad = structural(text, p)
                if bad and classify_struct(eco, text, p, bad) == "F-C05-5":
                    continue        # a value written over several lines: the parser's range is internal, nothing is reported for it (judged above)
                if bad:
                    kid = classify_struct(eco, text, p, bad)
                    der.append({"req": vlib.line("ml.settle"), "index": i, "history": [cs[i]["req"]],
                                "check": (lambda out, kid=kid, bad=bad, p=p, eco=eco: ("known", kid) if kid else
                                          ("violation", f"{eco}: location of {p['name']} {p['version']!r}: " + "; ".join(bad)))})
                    break
        return der

    def nt(c, o):
        ok = bool(o) and not o.startswith(("PANIC", "ABORT", "HANG"))
        if ok:
            c["tag"] = (c["eco"], len(o.split(";")), c["req"][-12:])
        return ok
    st_a = Stream("structural", ca, nontrivial=nt, derive=derive_a, model_eq=lambda i, m: True, shrinkable=False, nt_on_impl=True)

    # ---- (b) coverage on rendered manifests
    n_b = 300 if quick else 15000
    cb, meta = [], []
    for eco in ECOS:
        for _ in range(n_b):
            deps, L, text, decl = gen_manifest.manifest(rng, eco)
            cb.append({"req": vlib.line("l.parse", eco, text), "eco": eco, "tag": None}); meta.append((eco, L, text, decl))

    def derive_b(cs, impl):
        der = []
        # the ranges the real generate_diagnostics puts on the wire for these manifests (a storer in which no declared version exists)
        wire = vlib.run_impl([vlib.line("diag.ranges", m[0], m[2]) for m in meta])
        # the premise of the location theorems (QuotedNode) on the real trees of well-formed JSON / TOML manifests
        hyp = [i for i, m in enumerate(meta) if m[0] in ("npm", "jsr", "crates", "pypi")][: (400 if quick else 8000)]
        dumps = vlib.run_impl([vlib.line("ts.dump", meta[i][0], meta[i][2]) for i in hyp])
        for i, d in zip(hyp, dumps):
            def chk(out, eco=meta[i][0]):
                f = dict(x.split("=") for x in out.split(" "))
                return None if f["strings"] == f["ok"] and int(f["strings"]) > 0 else ("model", f"{eco}: only {f['ok']} of {f['strings']} string nodes of a well-formed manifest satisfy QuotedNode")
            der.append({"req": vlib.line("x.hyp", meta[i][0], meta[i][2], d), "index": i, "history": [cs[i]["req"]], "check": chk})
        for i, ((eco, L, text, decl), o) in enumerate(zip(meta, impl)):
            if o.startswith(("PANIC", "ABORT", "HANG")):
                continue
            b = text.encode("utf-8")
            for p in pkgs_of(o):
                why, kid = None, None
                bad = structural(text, p)
                # the declared entry this package is: same (normalised) spec / hash
                from parsers_common import norm_py
                def same_name(d):
                    return (norm_py(d[0]) == p["name"]) if eco == "pypi" else (d[0] == p["name"])
                cands = [d for d in decl if same_name(d) and ((d[2] == p["hash"] and d[2] is not None) or (d[2] is None and p["hash"] is None and d[1].replace(" ", "") == p["version"].replace(" ", "")))]
                if not cands:
                    continue            # set differences are C04's subject
                d = cands[0]
                token, spec = d[3], (d[2] if d[2] else d[1])
                tb = token.encode("utf-8")
                occ, k0 = [], b.find(tb)
                while k0 >= 0:
                    occ.append(k0); k0 = b.find(tb, k0 + 1)
                if bad and classify_struct(eco, text, p, bad) == "F-C05-5":
                    continue        # written over several lines: not reported (the structural stream judges that nothing is)
                if bad:
                    why = "; ".join(bad)
                    kid = classify_struct(eco, text, p, bad)
                elif not occ:
                    continue
                else:
                    s, e = p["start"], p["end"]
                    # the location the server REPORTS is the diagnostic range on the wire (line, UTF-16 characters): use it whenever
                    # every package of the manifest got a diagnostic (generate_diagnostics keeps the package order); the parser's
                    # own byte range is judged only when no diagnostic is available
                    wl = wire[i].split(" ", 1)
                    wds = [x for x in (wl[1].split(";") if len(wl) > 1 and wl[1] else [])]
                    allp = pkgs_of(o)
                    on_wire = wire[i].startswith("n=") and len(wds) == len(allp) == int(wl[0][2:])
                    if on_wire:
                        WIRE_CHECKED[0] += 1
                        k = allp.index(p)
                        l1, rest = wds[k].split(":", 1)
                        c1, rest2 = rest.split("-", 1)
                        l2, c2 = rest2.split(":")
                        lines_b = b.split(b"\n")
                        if l1 != l2 or int(l1) >= len(lines_b):
                            why = f"diagnostic range on lines {l1}..{l2} of a document with {len(lines_b)} lines"
                        else:
                            lb = lines_b[int(l1)]
                            u = lb.decode("utf-8").encode("utf-16-le")
                            try:
                                pre1 = u[: 2 * int(c1)].decode("utf-16-le"); pre2 = u[: 2 * int(c2)].decode("utf-16-le")
                                if 2 * int(c2) > len(u) or int(c1) > int(c2):
                                    raise ValueError
                                ls_w = sum(len(x) + 1 for x in lines_b[: int(l1)])
                                s, e = ls_w + len(pre1.encode("utf-8")), ls_w + len(pre2.encode("utf-8"))
                            except (UnicodeDecodeError, ValueError):
                                why = f"diagnostic range characters {c1}..{c2} do not denote a range of line {l1} (UTF-16 units)"
                    else:
                        WIRE_SKIPPED[0] += 1
                    if not why:
                        got = b[s:e].decode("utf-8", "replace")
                        inside = [t0 for t0 in occ if t0 <= s and e <= t0 + len(tb)]
                        where = "diagnostic range" if on_wire else "parser range"
                        if not inside:
                            why = f"{where} {s}..{e} = {got!r} is not inside the value token {token!r} (at {occ})"
                        elif spec and spec in token and spec.replace(" ", "") not in got.replace(" ", ""):
                            why = f"{where} {got!r} does not cover the spec {spec!r}"
                        elif token == spec and got != spec:
                            why = f"{where} {got!r} is not exactly the spec {spec!r}"
                        elif on_wire and spec and token != spec and token.endswith(spec) and d[2] is None and \
                                not any(s == t0 + len(tb) - len(spec.encode("utf-8")) and e == t0 + len(tb) for t0 in inside):
                            why = f"{where} {s}..{e} = {got!r} is not the spec {spec!r} at the end of the value token {token!r} (at {occ})"
                        elif on_wire and eco == "gha" and spec and got != spec:
                            why = f"{where} {got!r} is not exactly the ref {spec!r}"
                if why:
                    lay = {k: v for k, v in L.items() if v and k not in ("indent", "sp_colon")}
                    der.append({"req": vlib.line("ml.settle"), "index": i, "history": [cs[i]["req"]],
                                "check": (lambda out, kid=kid, why=why, eco=eco, p=p, lay=lay: ("known", kid) if kid else
                                          ("violation", f"{eco}: {p['name']} {p['version']!r}: {why} (layout {lay})"))})
                    break
        return der
    st_b = Stream("coverage", cb, nontrivial=nt, derive=derive_b, model_eq=lambda i, m: True, shrinkable=False, nt_on_impl=True)
    # ---- witnesses of the recorded findings and of the repaired one
    W = [("F-C05-1", "gha", 'jobs:\n  b:\n    steps:\n      - uses: "actions/checkout@v4"\n', "v4"),
         ("F-C05-3", "npm", '{"dependencies": {"é": "1.0.0", "b": "2.0.0"}}', None),
         ("F-C05-4", "npm", fuzzgen.SEEDS["npm"][0][:115], None),      # a package.json cut in the middle of typing a value
         ("F-C05-5", "crates", '[dependencies]\nserde = \"\"\"\n1.0\"\"\"\n', None),
         ("F-C05-6", "go", "module m\n\nrequire example.com/v1.2.3/x v1.2.3\n", "v1.2.3"),
         ("F-C05-2", "go", "module m\r\n\r\nrequire (\r\n\texample.com/x v1.2.3\r\n)\r\n", "v1.2.3"),
         ("F-C05-7", "pnpm", "catalog:\n  lodash: \u2028'4.17.21'\n", "4.17.21"),
         ("F-C05-6", "go", "module m\n\n\t require example.com/v1.2.3/x v1.2.3\n", "v1.2.3")]
    cw = [{"req": vlib.line("l.parse", eco, text), "eco": eco, "tag": ("witness", kid)} for kid, eco, text, _ in W]

    def derive_w(cs, impl):
        der = []
        wirew = vlib.run_impl([vlib.line("diag.ranges", eco, text) for _, eco, text, _ in W])
        for i, ((kid, eco, text, spec), o) in enumerate(zip(W, impl)):
            b = text.encode("utf-8")
            broken = False
            allp = pkgs_of(o) if not o.startswith(("PANIC", "ABORT", "HANG")) else []
            wl = wirew[i].split(" ", 1)
            wds = [x for x in (wl[1].split(";") if len(wl) > 1 and wl[1] else [])]
            for k, p in enumerate(allp):
                sb = structural(text, p)
                if sb and classify_struct(eco, text, p, sb) == "F-C05-5":
                    if len(wds) != 0:
                        broken = True        # a value written over several lines must not be reported at all
                    continue
                if sb:
                    broken = True
                elif spec is not None and len(wds) != len(allp) and (b[p["start"]:p["end"]].decode("utf-8", "replace") != spec or p["start"] != b.rfind(spec.encode("utf-8"))):
                    broken = True          # (no diagnostic to judge: the parser's own range is judged)
                elif len(wds) == len(allp):
                    # the range on the wire (line, UTF-16 characters) reads the version text (the hash of a hash-pinned action)
                    # whenever the parser's token contains it, else the token
                    l1, rest = wds[k].split(":", 1)
                    c1, rest2 = rest.split("-", 1)
                    l2, c2 = rest2.split(":")
                    tok = b[p["start"]:p["end"]].decode("utf-8", "replace")
                    want = p["hash"] or p["version"]
                    want = want if want in tok else tok
                    lines_t = text.split("\n")
                    u = (lines_t[int(l1)] if int(l1) < len(lines_t) else "").encode("utf-16-le")
                    got_w = u[2 * int(c1): 2 * int(c2)].decode("utf-16-le", "replace")
                    if l1 != l2 or got_w != want or (spec is not None and got_w != spec):
                        broken = True
                    if spec is not None:      # ... and at the LAST occurrence of the spec in the document (the witnesses are built that way)
                        ls_w = len("\n".join(lines_t[: int(l1)]).encode("utf-8")) + (1 if int(l1) > 0 else 0)
                        if ls_w + len(u[: 2 * int(c1)].decode("utf-16-le", "replace").encode("utf-8")) != b.rfind(spec.encode("utf-8")):
                            broken = True
            if broken:
                der.append({"req": vlib.line("ml.settle"), "index": i, "history": [cs[i]["req"]], "check": (lambda out, kid=kid: ("known", kid))})
        return der
    st_w = Stream("finding-witnesses", cw, nontrivial=lambda c, o: True, derive=derive_w, model_eq=lambda i, m: True, shrinkable=False, nt_on_impl=True)
    return [st_a, st_b, st_w]
