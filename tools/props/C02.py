"""C02 — a declared range admits a version iff the ecosystem's own semantics say so."""
import re
from runner import Stream
import vlib, gens

PROP_MODULES = ["Vlsp.Props.C02", "Vlsp.Props.C02Ast", "Vlsp.Props.C02AstCrates", "Vlsp.Props.C02Gha", "Vlsp.Props.C02Go", "Vlsp.Props.C02Pypi"]
EXTRA_SCAN = ["Vlsp/Spec/Ranges.lean", "Vlsp/Spec/NpmDenote.lean", "Vlsp/Spec/CratesDenote.lean", "Vlsp/Lemmas/PreFloor.lean"]
RULE = ("(a) semver parse/Ord lattice; (b) per ecosystem: specs from the range grammar (all operators, 1-3 component "
        "operands, wildcards, hyphen, AND/OR, layout) + junk stream, against the version lattice (components {0,1,2,10}, "
        "prereleases, build); each (spec, version) is run through version_exists and compare_to_latest, compared with "
        "the Lean model, and judged against the executable reference semantics (inside the fragment the verdicts must agree; "
        "outside, a disagreement must fall in a recorded finding class). non-trivial = the reference parses the spec and the "
        "verdict is not 'invalid'; distinct by (ecosystem, spec text)")
ASSUMPTIONS = ["pep440_rs/pep508_rs are parameters of the PyPI model (see C02 level_note)",
               "reference semantics: Spec/Ranges.lean, cross-validated against node-semver and the semver crate when present"]

AST_COUNT = {}      # how the npm spec texts of this run were read (same / diff / build / bothinvalid / code-only / ref-only)

ECOS = [("npm", gens.npm_spec), ("pnpm", gens.npm_spec), ("jsr", gens.npm_spec), ("crates", gens.crates_spec),
        ("go", gens.go_version), ("gha", gens.gha_ref)]
VALID_L = {"npm": "1.0.0", "pnpm": "1.0.0", "jsr": "1.0.0", "crates": "1.0.0", "go": "v1.0.0", "gha": "v1.0.0"}


def evidence_notes():
    return {"spec_texts_by_reading": dict(AST_COUNT),
            "meaning": "'same' = the code's parser (model) and the reference parser read the spec text as the same range: for these texts "
                       "c02_npm_same_reading / c02_crates_same_reading make the verdict equality a theorem for EVERY build-free strict candidate version"}


def finding_class(eco, spec, v, impl, ref, frag):
    """recorded finding classes (KNOWN_FINDINGS.json) — predicates on the input AND the wrong behaviour"""
    if eco in ("npm", "pnpm", "jsr", "crates"):
        if frag == "F":
            if ref == "invalid" and impl != "invalid":
                return "F-C02-3" if eco != "crates" else "F-C02-4"     # accepts what the package manager rejects
            if eco == "crates":
                # Cargo reads it, the code does not: only the recorded spellings (a wildcard component after an operator, x / X)
                if impl == "invalid" and ref != "invalid" and re.search(r"[*xX]", spec):
                    return "F-C02-4"
                return None
            # npm: the recorded grammar deviation (the empty range) and the recorded readings of partial versions (bare or after '=',
            # the ends of a hyphen range)
            if impl == "invalid":
                if any(part.strip() == "" for part in spec.split("||")):
                    return "F-C02-3"        # the empty range, alone or as an alternative of ||
                if re.search(r"(^|[\s|])[^\s|]*[xX*]\.[^\s|]+", spec):
                    return "F-C02-3"        # a wildcard component followed by further components (1.x.x, x.1)
                if re.search(r"[^\S ]", spec.strip()):
                    return "F-C02-3"        # white space other than blanks between comparators (a tab, U+2003)
                return None
            if re.search(r"(^|[\s|=])v?\d+(\.\d+)?(\s|$|\|)", spec) or " - " in spec:
                return "F-C02-2"
            return None
        return None
    if eco == "go":
        core = spec[:-len("+incompatible")] if spec.endswith("+incompatible") else spec
        if "+" in core or "+" in (v[:-len("+incompatible")] if v.endswith("+incompatible") else v):
            return "F-C02-7"
        if re.search(r"-(0\.)?\d{14}-", spec) and impl == "T" and ref != "T":
            return "F-C02-7"
        return None
    if eco == "gha":
        for t in (spec, v):
            body = t[1:] if t[:1] in "vV" else t
            if body[:1] in "vV":
                return "F-C02-8"
            if "+" in t:
                return "F-C02-8"
            if any(len(c) > 1 and c[0] == "0" for c in re.split(r"[.-]", body.split("-")[0])):
                return "F-C02-8"
        return None
    return None


def streams(ctx):
    rng = ctx["rng"]
    tier = ctx["tier"]
    lat = gens.versions_lattice()
    out = []
    # (a) semver
    cases = []
    for s in gens.JUNK + gens.OPERANDS + lat[:300]:
        for op in ("semver.strict", "semver.lenient", "semver.ispre"):
            cases.append({"req": vlib.line(op, s), "tag": (op, s)})
    for _ in range(3000 if tier == "quick" else 60000):
        a, b = rng.choice(lat), rng.choice(lat)
        cases.append({"req": vlib.line("semver.cmp", a, b), "tag": ("cmp", a, b)})
    out.append(Stream("semver", cases, nontrivial=lambda c, o: o != "-"))
    # (b) matchers
    n = 6000 if tier == "quick" else 150000
    for eco, gen in ECOS:
        cases, metas = [], []
        specs = [gen(rng) for _ in range(n)]
        forced, near_pairs = [], []
        for f in vlib.load_known_findings("C02"):
            w = f["witness"]
            if w[0] == "spec.judge" and w[1] == eco:
                forced.append((w[2], w[3]))
        if eco in ("npm", "crates"):
            # exhaustive single-comparator lattice: every operator x every operand
            ops = gens.NPM_OPS
            specs += [o + x for o in ops for x in gens.OPERANDS]
            # ... and each of them against the versions around its operand, where its verdict changes
            for o in ops:
                for x in gens.OPERANDS:
                    near = gens.near_versions(x)
                    if tier == "quick":
                        near = rng.shuffle(near)[:4]
                    near_pairs += [(o + x, nv) for nv in near]
        for s, fixed in [(w[0], None) for w in forced] + near_pairs + [(x, None) for x in specs]:
            fv = [fixed] if fixed is not None else [w[1] for w in forced if w[0] == s]
            if fv:
                v = fv[0]
            elif eco in ("go", "gha"):
                v = gen(rng) if rng.chance(1, 2) else (s if rng.chance(1, 2) else rng.choice(["v", ""]) + rng.choice(lat))
            else:
                v = gens.version_for(rng, lat)
            others = [gens.version_for(rng, lat) for _ in range(rng.below(3))]
            cases.append({"req": vlib.line("match.exists", eco, s, v), "tag": (eco, s)})
            cases.append({"req": vlib.line("match.cmp", eco, s, VALID_L[eco]), "tag": None})
            cases.append({"req": vlib.line("match.cmp", eco, s, v), "tag": None})
            if others:
                cases.append({"req": vlib.line("match.exists", eco, s, v, *others), "tag": None})
            metas.append((len(cases) - (4 if others else 3), eco, s, v))

        def derive(cs, impl, metas=metas):
            der = []
            seen_ast = set()
            for (i, eco, s, v) in metas:
                ex, cmpv = impl[i], impl[i + 1]
                iv = "invalid" if cmpv == "invalid" else ex
                if ex.startswith("PANIC") or cmpv.startswith("PANIC") or "ABORT" in (ex, cmpv):
                    iv = "PANIC"

                def check(o, eco=eco, s=s, v=v, iv=iv):
                    ref, frag = o.split(" ")
                    if ref == "badv":
                        return None          # candidate is not a version of this ecosystem's SemVer shape
                    if iv == ref:
                        return None
                    k = finding_class(eco, s, v, iv, ref, frag)
                    if k:
                        return ("known", k)
                    return ("violation", f"{eco}: spec {s!r} version {v!r}: implementation says {iv}, the ecosystem's semantics say {ref}")
                der.append({"req": vlib.line("spec.judge", eco, s, v), "check": check,
                            "history": [cs[i]["req"], cs[i + 1]["req"]], "index": i})
                if eco in ("npm", "crates") and s not in seen_ast:
                    # the premise of c02_npm_same_reading, evaluated on this spec text: inside the fragment the code's parser (model)
                    # and the reference parser must read it as the SAME range; the theorem then covers every candidate version
                    seen_ast.add(s)

                    def check_ast(o, s=s, eco=eco):
                        reading, frag = o.split(" ")
                        AST_COUNT.setdefault(eco, {})
                        AST_COUNT[eco][reading] = AST_COUNT[eco].get(reading, 0) + 1
                        if frag == "T" and "+" not in s and reading != "same":
                            return ("model", f"{eco} spec {s!r} is in the fragment but the code's parser and the reference parser read it differently ({reading})")
                        return None
                    der.append({"req": vlib.line("c02.ast" if eco == "npm" else "c02.ast.crates", s), "check": check_ast, "history": [cs[i]["req"]], "index": i})
            return der
        out.append(Stream(f"match-{eco}", cases, nontrivial=lambda c, o: o in ("T", "F", "latest", "outdated", "newer") and c.get("tag") is not None,
                          derive=derive))
    # (z) the PyPI matcher vs its Lean model, the PEP 440 library's answers (pep440_rs, the real one) supplied as the model's parameter
    PV = ["1.0", "1.0.0", "2.28.1", "2.0.0rc1", "1.0.post1", "1.0.dev0", "1!2.0", "2.0", "3", "0.9", "1.0+local", "junk", "", "1.0.0.0", "v1.0", "1.0a1"]
    PS = ["", ">=1.0", ">=1.0,<2", "==1.0.*", "~=1.4.2", "!=1.5", "<2.0", ">1.0", "<=2", "==2.0", "===1.0", ">=1.0, <2.0", ">= 1.0", "1.0", ",", ">=junk", "=1.0", "~=1", ">=2.0,!=2.0.1,<3",
          "  >=1.0  ", "==1.0+local", "<1.0a1", ">=1.0;", ">", ">=2.0 , <3", ">=2.0 ,<3", "~=2.0 , !=2.5"]      # (a blank BEFORE the comma: the anchor is "2.0", not "2.0 ")
    pc = []
    for _ in range(600 if tier == "quick" else 30000):
        sp = rng.choice(PS) if rng.chance(3, 4) else rng.choice([">=", "<", "==", "~=", "!=", ""]) + rng.choice(PV) + rng.choice(["", ",<" + rng.choice(PV), " "])
        lat_ = rng.choice(PV)
        vs = [rng.choice(PV) for _ in range(rng.below(4))]
        pc.append({"req": vlib.line("match.cmp", "pypi", sp, lat_), "kind": "cmp", "sp": sp, "latest": lat_, "tag": ("pypi-cmp", sp, lat_)})
        pc.append({"req": vlib.line("match.exists", "pypi", sp, *vs), "kind": "exists", "sp": sp, "vs": vs, "tag": ("pypi-exists", sp, tuple(vs))})

    def derive_p(cs, impl):
        bases = vlib.run_model([vlib.line("pypi.base", c["sp"]) for c in cs])
        q = []
        for c, bh in zip(cs, bases):
            if c["kind"] == "cmp":
                q += [vlib.line("pep440", c["sp"], c["latest"]), vlib.line("pep440.le", vlib.unhx(bh), c["latest"])]
            else:
                q += [vlib.line("pep440", c["sp"], v) for v in c["vs"]] + [vlib.line("pep440", c["sp"], "1.0")]
        ans = vlib.run_impl(q)
        der, k = [], 0
        for i, (c, o) in enumerate(zip(cs, impl)):
            if c["kind"] == "cmp":
                a, le = ans[k], ans[k + 1]; k += 2
                l = vlib.line("pypi.cmp", c["sp"], c["latest"], a[0], a[1], a[2], le[0], le[2])
            else:
                n = len(c["vs"])
                aa = ans[k:k + n + 1]; k += n + 1
                f = []
                for v, a in zip(c["vs"], aa):
                    f += [v, a[1], a[2]]
                l = vlib.line("pypi.exists", c["sp"], aa[-1][0], *f)
                # the property itself, with the PEP 440 library as the judge: a specifier set admits "some available version" iff the
                # library parses the set and one of the versions and says the set contains it
                want = "T" if aa[-1][0] == "1" and any(a[1] == "1" and a[2] == "1" for a in aa[:n]) else "F"
                if c["sp"].strip() and o in ("T", "F") and o != want:
                    der.append({"req": vlib.line("pypi.base", c["sp"]), "index": i, "history": [c["req"]],
                                "check": (lambda out, o=o, want=want, c=c: ("violation", f"pypi: specifier {c['sp']!r} against {c['vs']}: version_exists says {o}, PEP 440 (pep440_rs) says {want}"))})
            der.append({"req": l, "index": i, "history": [c["req"]],
                        "check": (lambda out, o=o, c=c: None if out == o else ("model", f"PyPI matcher {c['kind']} {c['sp']!r}: implementation {o}, model {out}"))})
        return der
    out.append(Stream("pypi-matcher-model", pc, nontrivial=lambda c, o: o in ("T", "latest", "outdated", "newer"), derive=derive_p, model_eq=lambda i, m: True, nt_on_impl=True, shrinkable=False))
    return out
