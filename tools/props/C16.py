"""C16 — only supported manifest files, each by its own rules."""
from runner import Stream
import vlib

PROP_MODULES = ["Vlsp.Props.C16", "Vlsp.Props.C16Server"]
RULE = ("URIs = directory prefixes (POSIX/Windows separators, significant names in non-final positions, "
        "look-alike prefixes/suffixes, case variants, query/fragment suffixes; every pair of such prefixes one after the other) x file names x extensions, "
        "full product; non-trivial = the URI contains at least one significant name; distinct by URI")
ASSUMPTIONS = ["detect tables are regenerated from src/parser/types.rs by pattern matching (tools/extract.py)",
               "str::contains/ends_with/match_indices modelled on List Char (Text.lean)"]

NAMES = ["package.json", "Cargo.toml", "go.mod", "pyproject.toml", "pnpm-workspace.yaml", "deno.json",
         "deno.jsonc"]
SIGNIFICANT = NAMES + [".github", "workflows", "actions", ".yml", ".yaml"]


def uris(ctx):
    rng = ctx["rng"]
    prefixes = ["", "/", "file:///", "file:///home/u/p/", "file:///C:/proj/", "c:\\proj\\", "untitled:",
                "file:///p/.github/workflows/", "file:///p/.github/actions/a/", "p\\.github\\workflows\\",
                "p\\.github\\actions\\x\\", "file:///p/x.github/workflows/", "file:///p/.github/workflowsx/",
                "file:///p/.github/", "file:///p/github/workflows/", ".github/workflows/", ".github\\actions\\",
                "file:///p/.github/workflows\\", "file:///p\\.github/workflows/", "file:///p/.GitHub/workflows/",
                "file:///p/package.json/", "file:///p/.github/workflows/package.json/", "file:///p/a.github\\workflows\\",
                "file:///p/.github/actions", "file:///p/.github//workflows/", "file:///p/é/", "file:///p/.github/workflows/日本/"]
    files = []
    for n in NAMES:
        files += [n, "my" + n, n + ".bak", n.upper(), n.capitalize(), n + "?x=1", n + "#frag", "x" + n, n[1:], n[:-1],
                  "." + n, n + "/", n.replace(".", "")]
    files += ["ci.yml", "ci.yaml", "ci.YML", "ci.yml.bak", "readme.md", "action.yml", "ci.yamlx", ".yml", ".yaml",
              "yml", "", "workflow.yml", "pnpm-workspace.yml", "deno.json5", "ci.yml ", "a b.yaml"]
    out = []
    for p in prefixes:
        for f in files:
            out.append(p + f)
    # one significant directory AFTER another (a look-alike first, the real one later, and the other way round): "occurs somewhere
    # at a component boundary" is about EVERY occurrence, not the first one
    gh = [q for q in prefixes if "github" in q.lower()]
    for p1 in prefixes:
        for p2 in gh:
            tail = p2[len("file:///"):] if p2.startswith("file:///") else p2
            tail = tail[2:] if tail.startswith("p/") or tail.startswith("p\\") else tail
            for f in ["ci.yml", "ci.yaml", "action.yml", "package.json", "readme.md"]:
                out.append(p1 + "proj/" + tail + f)
                out.append(p1 + tail + f)
    # random compositions
    comps = [".github", "workflows", "actions", "x.github", "src", "a", "", ".github.bak", "Workflows"] + NAMES
    seps = ["/", "\\"]
    n_rand = 4000 if ctx["tier"] == "quick" else 60000
    for _ in range(n_rand):
        k = 1 + rng.below(5)
        s = rng.choice(["", "/", "file:///", "c:\\"])
        for i in range(k):
            s += rng.choice(comps) + rng.choice(seps if rng.chance(1, 4) else ["/"])
        s += rng.choice(files)
        out.append(s)
    return out


def streams(ctx):
    cases = []
    for u in dict.fromkeys(uris(ctx)):
        cases.append({"req": vlib.line("detect", u), "spec": vlib.line("spec.detect", u), "tag": u})
    nt = lambda c, o: any(s in vlib.decode_line(c["req"])[1] for s in SIGNIFICANT)
    return [Stream("detect", cases, nontrivial=nt)]
