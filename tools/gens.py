"""Grammar-directed generators for version specs and versions (one PRNG)."""
import itertools

NUMS = ["0", "1", "2", "10"]
PRES = ["", "-alpha", "-alpha.1", "-0", "-rc-1", "-beta.2"]
BUILDS = ["", "+b", "+001"]


def versions_lattice(small=False):
    out = []
    nums = ["0", "1", "2"] if small else NUMS
    for a in nums:
        for b in nums:
            for c in nums:
                for p in (PRES[:3] if small else PRES):
                    for bd in (BUILDS[:1] if small else BUILDS[:2]):
                        out.append(f"{a}.{b}.{c}{p}{bd}")
    return out


def operands(full_only=False):
    out = []
    for a in NUMS:
        if not full_only:
            out.append(a)
        for b in NUMS:
            if not full_only:
                out.append(f"{a}.{b}")
            for c in NUMS:
                out.append(f"{a}.{b}.{c}")
    out += ["1.2.3-alpha", "1.2.3-alpha.1", "0.0.0-0", "1.0.0-rc-1", "1.2.3+b", "2.0.0-beta.2+b"]
    return out


NPM_OPS = ["", "^", "~", ">=", ">", "<=", "<", "="]


def around(spec):
    """the versions around the first operand written in a spec (see near_versions); [] when it has none"""
    import re
    m = re.search(r"\d+(?:\.\d+){0,2}(?:-[0-9A-Za-z.-]+)?", spec)
    return near_versions(m.group(0)) if m else []


def near_versions(operand):
    """the versions around an operand (full or partial) at which a comparator built on it changes its verdict: the floor of
    what it denotes, its neighbours inside the same patch / minor / major line, the first versions of the next lines,
    the last ones of the previous lines, and prereleases of the floor"""
    core = operand.split("-")[0].split("+")[0]
    comps = []
    for c in core.split(".")[:3]:
        comps.append(int(c) if c.isdigit() else 0)
    while len(comps) < 3:
        comps.append(0)
    M, m, p = comps
    out = [f"{M}.{m}.{p}", f"{M}.{m}.{p + 1}", f"{M}.{m}.{p + 7}", f"{M}.{m + 1}.0", f"{M}.{m + 3}.2", f"{M + 1}.0.0", f"{M + 1}.0.0-alpha",
           f"{M}.{m}.{p}-alpha", f"{M}.{m}.{p + 1}-alpha", f"{M}.{m + 1}.0-0"]
    out += [f"{M}.{m}.{p}+b", f"{M}.{m}.{p}+1.5.1", f"{M}.{m}.{p + 1}+b"]       # the same versions published with build metadata
    if p > 0:
        out.append(f"{M}.{m}.{p - 1}")
    if m > 0:
        out.append(f"{M}.{m - 1}.9")
    if M > 0:
        out.append(f"{M - 1}.9.9")
    return out
JUNK = ["", " ", "*", "x", "X", "latest", "next", "NEXT", "workspace:*", "file:../x", "git+https://x/y.git",
        "http://x/y.tgz", "1.x", "1.X", "1.2.x", "1.*", "1.2.*", "*.1", "x.1", "1.x.x", "^^1.2.3", "vv1.2.3",
        "v1.2.3", "=v1.2.3", ">= 1.2.3", "> =1.2.3", "~>1.2.3", "1.2.3 - ", " - 1.2.3", "1.2.3 -2.0.0",
        "1 - 2", "1.2.3 - 2", "1.0.0 - 2.0.0 - 3.0.0", "||", "1.0.0||", "|| 1.0.0", "1.0.0 | 2.0.0",
        "1.0.0 || || 2.0.0", "01.2.3", "1.02.3", "1.2.03", "1.2.3-01", "1.2.3-", "1.2.3+", "1.2.3-a..b",
        "18446744073709551615.0.0", "18446744073709551616.0.0", "99999999999999999999", "1.2.3.4", "1..2",
        ".1.2", "1.2.", "-1.2.3", "+1.2.3", "+1", "1.+2.3", "é 1.0.0", "1.0.0 é", "é", "１.２.３", "1.2.3 ",
        " 1.2.3", "1.2.3\t", "\t^1.2.3", "1.2.3\n", ">=1.0.0\t<2.0.0", ">=1.0.0 <2.0.0", "\0", "1.2.3\0",
        "a.b.c", "1.2.3-alpha_beta", "1.2.3-ALPHA", "1.2.3-alpha+build.1", "x.x.x", "", ">", "<", ">=", "^", "~",
        "1.0.0 -  2.0.0", "1.0.0  - 2.0.0", ">=1.0.0 - 2.0.0", "^1.0.0 - 2.0.0", "1.0.0 - ^2.0.0",
        ">=1.0.0  <2.0.0", " >=1.0.0 <2.0.0 ", ">=1.0.0 <2.0.0 || >=3.0.0", "1.x || 2.x", "* || 1.0.0",
        "1.0.0 *", "* 1.0.0", "<1.0.0 >2.0.0", ">=1.2.3 <1.2.3", "~1.2.3-alpha", "^0.0.0", "^0.0", "^0", "~0",
        "=1.2", ">1", "<=1", "0", "0.0", "1", "1.2", "~1", "~1.2", "^1", "^1.2", ">=1.2", "<2", "<2.1",
        ">= 16", "16", "v16", "V16", "vV1", "Vv1", "v", "V", "vv", "1-alpha", "1.2-alpha", "v1-beta", "v1.2.3-rc.1",
        "1.2.3-rc.1+build", "v0.0.0-20210101000000-abcdef123456", "v1.2.3-0.20210101000000-abcdef123456",
        "v1.2.3+incompatible", "1.2.3+incompatible", "v2.0.0+incompatible+incompatible", "v1.2.3-pre+incompatible",
        "v0.0.0-2021010100000-abcdef123456", "v0.0.0-20210101000000", "v0.0.0-20210101000000-", "v0.0.0-0.2021010100000é-x",
        "v1.0.0-0.20210101000000-abc-def", "v1.0.0-202101010000aa-abcdef123456", "v1.0.0--20210101000000-abc",
        ]


def npm_single(rng, ops=NPM_OPS):
    op = rng.choice(ops)
    v = rng.choice(OPERANDS)
    sp = rng.choice(["", "", "", " ", "  "]) if op else ""
    pre = rng.choice(["", "", "", "v"])
    return op + sp + pre + v


OPERANDS = operands()


def npm_spec(rng):
    k = rng.below(100)
    if k < 45:
        return npm_single(rng)
    if k < 60:
        return npm_single(rng) + rng.choice([" ", "  "]) + npm_single(rng)
    if k < 72:
        return npm_single(rng) + rng.choice([" || ", "||", " ||", "|| "]) + npm_single(rng)
    if k < 82:
        return rng.choice(OPERANDS) + " - " + rng.choice(OPERANDS)
    if k < 88:
        return rng.choice(NUMS) + rng.choice([".x", ".X", ".*", ".x.x", "." + rng.choice(NUMS) + ".x", "." + rng.choice(NUMS) + ".*"])
    if k < 94:
        return npm_single(rng) + " " + npm_single(rng) + " || " + npm_single(rng)
    return rng.choice(JUNK)


CRATES_OPS = ["", "^", "~", ">=", ">", "<=", "<", "="]


def crates_spec(rng):
    k = rng.below(100)
    one = lambda: rng.choice(CRATES_OPS) + rng.choice(["", "", " "]) + rng.choice(OPERANDS)
    if k < 55:
        return one()
    if k < 75:
        return one() + rng.choice([", ", ",", " , "]) + one()
    if k < 85:
        return rng.choice(NUMS) + rng.choice([".*", "." + rng.choice(NUMS) + ".*", ".x"])
    if k < 90:
        return one() + ", " + one() + ", " + one()
    return rng.choice(JUNK)


def gha_ref(rng):
    k = rng.below(100)
    if k < 70:
        v = rng.choice(OPERANDS)
        return rng.choice(["v", "v", "", "V"]) + v
    if k < 80:
        return rng.choice(["v", ""]) + rng.choice(NUMS) + rng.choice(["-beta", "-rc.1", ".1-alpha"])
    if k < 88:
        return rng.choice(["main", "master", "release/v1", "8e5e7e5ab8b370d6c329ec480221332ada57f0ab", "v1.2.3.4", "latest"])
    return rng.choice(JUNK)


def go_version(rng):
    k = rng.below(100)
    if k < 55:
        return "v" + rng.choice(operands(full_only=True)) + rng.choice(["", "", "+incompatible"])
    if k < 75:
        base = rng.choice(["0.0.0", "1.2.3", "1.2.4", "2.0.0"])
        ts = rng.choice(["20210101000000", "20220101000000", "0.20210101000000", "2021010100000", "0.2021010100000"])
        return f"v{base}-{ts}-abcdef123456" + rng.choice(["", "", "+incompatible"])
    if k < 85:
        return rng.choice(OPERANDS)
    return rng.choice(JUNK)


def version_for(rng, lattice):
    k = rng.below(100)
    if k < 85:
        return rng.choice(lattice)
    if k < 92:
        return "v" + rng.choice(lattice)
    return rng.choice(JUNK)
