import json, sys, glob
import jsonschema
m = json.load(open('/verif/MANIFEST.json'))
jsonschema.validate(m, json.load(open('/root/.vp/MANIFEST.schema.json')))
es = json.load(open('/root/.vp/EVIDENCE.schema.json'))
for c in m['checks']:
    try:
        jsonschema.validate(json.load(open(c['evidence_file'])), es)
    except Exception as e:
        print('EVIDENCE INVALID', c['property_id'], str(e)[:300])
ids = {json.loads(l)['id'] for l in open('/verif/properties.jsonl')}
claimed = {c['property_id'] for c in m['checks']}
na = {x['property_id'] for x in m.get('not_applicable', [])}
assert claimed | na == ids and not (claimed & na), (ids - claimed - na, claimed & na)
print('valid; claimed', sorted(claimed))
