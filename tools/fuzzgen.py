"""Grammar-aware mutation of valid manifests of the 7 formats (C06, also feeds C05's structural part)."""

SEEDS = {
    "npm": ['{\n  "name": "demo",\n  "dependencies": {\n    "lodash": "^4.17.20",\n    "alias": "npm:@scope/real@~1.2.3",\n    "j": "jsr:@std/path@1.0.0",\n    "r": ">=1.0.0 <2.0.0 || 3.x",\n    "h": "1.0.0 - 2.0.0",\n    "t": "latest",\n    "w": "workspace:*",\n    "c": "catalog:"\n  },\n  "devDependencies": { "a": "1.0.0", "b": "~2" },\n  "overrides": { "x": { "y": "1.0.0" } }\n}\n',
            '{"dependencies":{"é":"1.0.0","b":"v1.2.3-beta.1+build"},"peerDependencies":{"react":"^17 || ^18"}}'],
    "crates": ['[package]\nname = "demo"\n\n[dependencies]\nserde = "1.0"\nrand = { version = "0.8", features = ["std"] }\nlocal = { path = "../x" }\nws = { workspace = true }\ntokio.version = "1"\n\n[dev-dependencies.criterion]\nversion = "0.5"\n\n[workspace.dependencies]\nanyhow = \'1.0.80\'\n\n[target.\'cfg(unix)\'.dependencies]\nlibc = ">=0.2, <0.3"\n'],
    "go": ['module example.com/m\n\ngo 1.21\n\nrequire golang.org/x/text v0.3.7\n\nrequire (\n\tgithub.com/a/b v1.2.3 // indirect\n\tgithub.com/c/d/v2 v2.0.0-20210101000000-abcdef123456\n\texample.com/e v0.0.0+incompatible\n)\n\nreplace github.com/a/b => ../b\n'],
    "gha": ['name: CI\non: [push]\njobs:\n  build:\n    runs-on: ubuntu-latest\n    steps:\n      - uses: actions/checkout@v4\n      - uses: "actions/setup-node@v3.1.0"\n      - uses: actions/cache@8e5b9c1f2a3d4e5f6a7b8c9d0e1f2a3b4c5d6e7f # v4.0.1\n      - uses: ./local\n      - uses: docker://alpine:3\n      - uses: owner/repo/path@main\n      - run: echo hi\n'],
    "pypi": ['[build-system]\nrequires = ["setuptools>=61", "wheel"]\n\n[project]\nname = "demo"\ndependencies = [\n  "requests>=2.28,<3",\n  "numpy==1.26.*",\n  "pkg[extra1,extra2]~=1.0; python_version >= \'3.8\'",\n  "direct @ https://example.com/x.whl",\n  \'single>=1\',\n]\n\n[project.optional-dependencies]\ndev = ["pytest>=7", "black"]\n\n[dependency-groups]\ntest = ["coverage>=7"]\n'],
    "pnpm": ['packages:\n  - "packages/*"\n\ncatalog:\n  react: ^18.2.0\n  "@types/node": "20.1.0"\n  lodash: \'4.17.21\'\n\ncatalogs:\n  legacy:\n    react: 17.0.2\n    é: 1.0.0\n'],
    "jsr": ['{\n  "name": "@demo/app",\n  "imports": {\n    "@std/path": "jsr:@std/path@^1.0.0",\n    "x": "jsr:@luca/flag@1.0.1/sub",\n    "n": "npm:chalk@5",\n    "u": "https://deno.land/x/a@v1/mod.ts",\n    "bare": "jsr:@std/fs"\n  }\n}\n'],
}
TOKENS = ['"', "'", '""', "''", '"""', "{", "}", "[", "]", "(", ")", ":", ",", "=", "@", "#", "//", "/", "\\", "\n", "\r\n", "\r", "\t", " ", "  ",
          "é", "日本", "😀", "\u2028", "\u00a0", "\ufeff", "\x00", "\x7f", "npm:", "jsr:", "workspace:", "@scope/", "@@", "@v", "v", "-", " - ", "||", "^", "~", ">=", "<", "*", "x",
          "1.0.0", "0", "99999999999999999999999", "1.0.0-", "+", "- uses: ", "uses:", "require (", "require ", ")", "version = ", ".version", "dependencies", "[dependencies]",
          "catalog:", "imports", "; python_version > '3'", "[x-]", "[", " @ ", "a[x-]", "# v1", " #", "&a", "*a", "!!str", "|", ">", "---", "%"]


def scalar_lines(text):
    lines = text.split("\n")
    return [i for i, l in enumerate(lines) if (": " in l or " = " in l) and l.strip() and not l.strip().startswith("#")]


def restyle_scalar(rng, text, i=None, style=None):
    """grammar-aware: re-write one `key: value` / `key = "value"` / `"key": "value"` line with another scalar style of its format"""
    lines = text.split("\n")
    cand = scalar_lines(text)
    if not cand:
        return text
    if i is None:
        i = rng.choice(cand)
    l = lines[i]
    sep = ": " if ": " in l else " = "
    head, _, val = l.partition(sep)
    comment = ""
    if " #" in val:
        val, _, c = val.partition(" #"); comment = " #" + c
    val = val.strip().rstrip(",")
    bare = val.strip("\"'")
    ind = " " * (len(head) - len(head.lstrip()) + 2 + (2 if head.lstrip().startswith("- ") else 0))
    if sep == ": ":
        styles = [bare, f'"{bare}"', f"'{bare}'", f"|\n{ind}{bare}", f">\n{ind}{bare}", f"|-\n{ind}{bare}", f">+\n{ind}{bare}\n", f"|2\n{ind}{bare}",
                  f"| # c\n{ind}{bare}", f"\n{ind}{bare}", f"!!str {bare}", f"&a {bare}", f'"{bare}\\\n{ind}"', f"[{bare}]", f"{{a: {bare}}}", f"? {bare}"]
    else:
        styles = [f'"{bare}"', f"'{bare}'", f'\"\"\"{bare}\"\"\"', f"\'\'\'{bare}\'\'\'", f'\"\"\"\n{bare}\"\"\"', f'\"\"\"\\\n  {bare}\"\"\"', bare, f'{{ version = "{bare}" }}', f'["{bare}"]']
    lines[i] = head + sep + (rng.choice(styles) if style is None else styles[style % len(styles)]) + comment
    return "\n".join(lines)


def mutate(rng, text, other):
    k = rng.below(15)
    if k >= 12:
        return restyle_scalar(rng, text)
    n = len(text)
    if n == 0:
        return rng.choice(TOKENS)
    i = rng.below(n + 1)
    if k == 0:
        return text[:i]                                        # truncate
    if k == 1:
        j = min(n, i + 1 + rng.below(8)); return text[:i] + text[j:]      # delete a short range
    if k == 2:
        j = min(n, i + 1 + rng.below(40)); return text[:i] + text[j:]     # delete a longer range
    if k == 3:
        j = min(n, i + 1 + rng.below(20)); return text[:j] + text[i:j] + text[j:]   # duplicate
    if k in (4, 5, 6):
        return text[:i] + rng.choice(TOKENS) + text[i:]        # insert a token
    if k == 7:
        j = min(n, i + 1); return text[:i] + rng.choice(TOKENS) + text[j:]          # replace a char
    if k == 8:
        o = rng.below(len(other) + 1); return text[:i] + other[o:]                  # splice with another document
    if k == 9:
        return text.replace("\n", "\r\n") if rng.chance(1, 2) else text.replace("\n", "\r")
    if k == 10:
        a, b = sorted([rng.below(n + 1), rng.below(n + 1)]); return text[:a] + text[b:] + text[a:b]   # move a block to the end
    # swap quotes
    return text.replace('"', "'") if rng.chance(1, 2) else text.replace("'", '"')


def documents(rng, eco, count, extra_seeds=()):
    seeds = SEEDS[eco] + list(extra_seeds)
    allseeds = [s for v in SEEDS.values() for s in v]
    for s in seeds:
        yield s
        # truncation at every byte (character) of the seed
        for i in range(len(s)):
            yield s[:i]
        # every scalar line of the seed in every scalar style of its format
        for i in scalar_lines(s):
            for st in range(16):
                yield restyle_scalar(rng, s, i, st)
    for _ in range(count):
        t = rng.choice(seeds)
        for _ in range(1 + rng.below(4)):
            t = mutate(rng, t, rng.choice(allseeds))
        yield t
    # enormous / deeply nested content
    yield seeds[0] * 400
    yield "[" * 20000
    yield "{" * 20000
    yield '{"dependencies":' + '{"a":' * 3000 + '"1"' + "}" * 3000 + "}"
    yield "- " * 20000
    yield "a:\n" + "".join(" " * i + "a:\n" for i in range(1, 600))
    yield '"' * 50001
    yield "é" * 100000
    yield "[dependencies]\n" + "a = \"1\"\n" * 20000
