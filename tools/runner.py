"""Generic check protocol (DESIGN.md §5): extract → prove → build → witnesses →
correspond → search → evidence."""
import argparse, importlib, json, os, sys, time, traceback
import vlib
from vlib import VERIF, LEAN


class Stream:
    """One correspondence stream.
    cases: list of dict(req=<line for impl and model>, spec=<line for driver spec op or None>,
                        tag=<hashable: the 'shape' used for distinct_nontrivial>)
    nontrivial(case, model_out) -> bool
    classify(case, impl_out, spec_out) -> known finding id or None   (only called when impl != spec)
    spec_eq(impl_out, spec_out) -> bool  (default: string equality)
    """

    def __init__(self, name, cases, nontrivial=None, classify=None, spec_eq=None, model_eq=None,
                 derive=None, shrinkable=True, nt_on_impl=False):
        self.name, self.cases = name, cases
        self.derive = derive          # derive(cases, impl_outs) -> [dict(req=, expect=, kind='model'|'spec', why=, history=[lines])]
        self.shrinkable = shrinkable
        self.nt_on_impl = nt_on_impl
        self.nontrivial = nontrivial or (lambda c, o: True)
        self.classify = classify or (lambda c, i, s: None)
        self.spec_eq = spec_eq or (lambda i, s: i == s)
        self.model_eq = model_eq or (lambda i, m: i == m)


def shrink_case(stream, case, still_fails):
    """Greedy character-deletion shrinker over the hex fields of a stateless request."""
    parts = case["req"].split("\t")
    op, fields = parts[0], [vlib.unhx(p) for p in parts[1:]]
    sparts = case["spec"].split("\t") if case.get("spec") else None
    improved = True
    rounds = 0
    while improved and rounds < 40:
        improved = False
        rounds += 1
        cands = []
        for fi, f in enumerate(fields):
            # drop whole field (only for variadic tails), drop one char, halve
            for ci in range(len(f)):
                nf = fields[:fi] + [f[:ci] + f[ci + 1:]] + fields[fi + 1:]
                cands.append(nf)
        if not cands:
            break
        cands = cands[:400]
        reqs = [vlib.line(op, *nf) for nf in cands]
        specs = [vlib.line(sparts[0], *nf) for nf in cands] if sparts else None
        oks = still_fails(reqs, specs)
        for nf, ok in zip(cands, oks):
            if ok:
                fields = nf
                improved = True
                break
    out = dict(case)
    out["req"] = vlib.line(op, *fields)
    if sparts:
        out["spec"] = vlib.line(sparts[0], *fields)
    return out


def replay(prop, path):
    """re-run the request lines of a replay file against the CURRENT /repo (real code) and the Lean model, side by side"""
    import json
    d = json.load(open(path))
    ok, out, _ = vlib.cargo_build()
    if not ok:
        print(out[-2000:]); return 2
    vlib.lake_build(["driver"])
    lines = d.get("history_lines") or ([d["request_line"]] if d.get("request_line") else [])
    if not lines and d.get("first_model_disagreement") and d["first_model_disagreement"].get("request_line"):
        lines = [d["first_model_disagreement"]["request_line"]]
    if not lines:
        print("this replay names a theorem / build problem, not an input:", json.dumps(d.get("theorem_or_build_problem") or d.get("proof_problem") or d, indent=1)[:3000])
        return 0
    impl = vlib.run_impl(lines)
    model = vlib.run_model(lines)
    for l, i, m in zip(lines, impl, model):
        print("request       :", [x[:200] for x in vlib.decode_line(l)])
        print("implementation:", i[:1000])
        if not m.startswith("UNKNOWN-OP"):
            print("model         :", m[:1000])
    if d.get("spec_line"):
        print("spec          :", vlib.run_model([d["spec_line"]])[0][:1000])
    if d.get("why"):
        print("recorded why  :", d["why"])
    return 0


def main(argv):
    ap = argparse.ArgumentParser()
    ap.add_argument("prop")
    ap.add_argument("--tier", default=os.environ.get("VERIF_TIER", "quick"))
    ap.add_argument("--replay")
    ap.add_argument("--no-build", action="store_true")
    a = ap.parse_args(argv)
    prop, tier = a.prop, a.tier
    if a.replay:
        return replay(prop, a.replay)
    seed = int(os.environ.get("VERIF_SEED", "20260930"))
    t0 = time.time()
    mod = importlib.import_module(f"props.{prop}")
    log = lambda *x: print(f"[{prop}]", *x, file=sys.stderr, flush=True)
    violations = []      # list of (replay_path, suffix)
    known_lines = []
    notes = {}

    # 1. extract
    ex = vlib.extract()
    notes["extraction"] = ex
    log("extract:", "degraded " + str(ex["degraded"]) if ex["degraded"] else "ok",
        "changed:" + ",".join(ex["changed_vs_committed"]) if ex["changed_vs_committed"] else "")

    # 2. prove
    prop_modules = mod.PROP_MODULES
    ok_props, out_props, dt = vlib.lake_build(prop_modules)
    log(f"lake build {' '.join(prop_modules)}: {'ok' if ok_props else 'FAILED'} ({dt:.0f}s)")
    files = [os.path.join(LEAN, m.replace(".", "/") + ".lean") for m in prop_modules]
    files += [os.path.join(LEAN, f) for f in getattr(mod, "EXTRA_SCAN", [])]
    forb = vlib.forbidden_scan(files + model_files())
    thms, discharged, axdetails, audit_out = ([], [], {}, "")
    if ok_props:
        thms, discharged, axdetails, audit_out = vlib.audit(prop, prop_modules)
    else:
        # count obligations from source even though the build failed
        for f in files:
            thms += vlib.theorems_in(f)
    extra_ob = getattr(mod, "extra_obligations", None)
    extra = extra_ob(notes) if extra_ob else {"obligations": [], "discharged": [], "problems": []}
    if ok_props and tier != "quick":
        # thorough tier: the toolchain's independent re-checker replays the compiled declarations of the theorem modules
        for m_ in prop_modules:
            rc_, out_, dt_ = vlib.run(["lake", "env", "leanchecker", m_], cwd=vlib.LEAN, timeout=3000)
            notes.setdefault("leanchecker", {})[m_] = {"rc": rc_, "seconds": round(dt_, 1)}
            if rc_ != 0:
                extra = dict(extra); extra["problems"] = list(extra["problems"]) + [f"leanchecker rejects {m_}: {out_[-300:]}"]
    proof_ok = ok_props and not forb and len(discharged) == len(thms) and not extra["problems"]
    proof_problem = None
    if not proof_ok:
        if not ok_props:
            errs = [l for l in out_props.splitlines() if "error" in l][:8]
            proof_problem = {"kind": "lake build failed", "modules": prop_modules, "errors": errs}
        elif forb:
            proof_problem = {"kind": "forbidden token", "hits": forb}
        elif extra["problems"]:
            proof_problem = {"kind": "missing obligation", "problems": extra["problems"]}
        else:
            bad = [t for t in thms if t not in discharged]
            proof_problem = {"kind": "axiom audit", "theorems": bad,
                             "axioms": {t: axdetails.get(t) for t in bad}}
        log("PROOF PROBLEM:", json.dumps(proof_problem)[:600])

    # 3. build driver + harness
    ok_drv, out_drv, dt = vlib.lake_build(["driver"])
    log(f"lake build driver: {'ok' if ok_drv else 'FAILED'} ({dt:.0f}s)")
    ok_cargo, out_cargo, dt = vlib.cargo_build()
    log(f"cargo build harness: {'ok' if ok_cargo else 'FAILED'} ({dt:.0f}s)")
    if not ok_cargo or not ok_drv:
        # cannot tie the model to the code: that is a broken check, reported as such
        what = "harness does not build against /repo" if not ok_cargo else "Lean driver does not build"
        tail = (out_cargo if not ok_cargo else out_drv).splitlines()[-30:]
        rp = vlib.write_replay(prop, {"property": prop, "broken": what, "log_tail": tail,
                                      "correspondence": "not run"})
        print(f"VIOLATION property={prop} replay={rp} no-failing-input-found")
        write_ev(prop, tier, seed, thms, discharged, prop_modules, [], {}, notes, t0, 1, proof_problem)
        return 1

    # 4+5. witnesses, corpus, streams
    ctx = dict(tier=tier, seed=seed, rng=vlib.SplitMix64(seed), log=log, replay=a.replay)
    streams = mod.streams(ctx)
    stats = {}
    samples = []
    evaluations = 0
    distinct = set()
    corr_breaks = []
    derived_violations = []
    seen_known = {}
    for st in streams:
        reqs = [c["req"] for c in st.cases]
        ts = time.time()
        impl = vlib.run_impl(reqs)
        model = vlib.run_model(reqs)
        spec_idx = [i for i, c in enumerate(st.cases) if c.get("spec")]
        spec_out = {}
        if spec_idx:
            so = vlib.run_model([st.cases[i]["spec"] for i in spec_idx])
            spec_out = dict(zip(spec_idx, so))
        evaluations += len(reqs)
        n_der = 0
        if st.derive:
            der = st.derive(st.cases, impl)
            n_der = len(der)
            if der:
                dout = vlib.run_model([d["req"] for d in der])
                for d, o in zip(der, dout):
                    if "check" in d:
                        res = d["check"](o)      # None | ("known", id) | ("violation", why) | ("model", why)
                        if res is None:
                            continue
                        if res[0] == "known":
                            seen_known.setdefault(res[1], (st, d, o, ""))
                        elif res[0] == "violation":
                            d = dict(d); d["why"] = res[1]; d.setdefault("expect", "(see why)")
                            derived_violations.append((st, d, o))
                        else:
                            corr_breaks.append((st, d.get("index", 0), res[1], o))
                    elif o != d["expect"]:
                        if d.get("kind") == "spec":
                            derived_violations.append((st, d, o))
                        else:
                            corr_breaks.append((st, d.get("index", 0), d["expect"], o))
        n_nt = 0
        out_hist = {}
        for i, c in enumerate(st.cases):
            out_hist[model[i][:24]] = out_hist.get(model[i][:24], 0) + 1
            if st.nontrivial(c, impl[i] if st.nt_on_impl else model[i]):
                n_nt += 1
                distinct.add((st.name, c.get("tag", c["req"])))
            if not st.model_eq(impl[i], model[i]):
                corr_breaks.append((st, i, impl[i], model[i]))
            if i in spec_out and not st.spec_eq(impl[i], spec_out[i]):
                kid = st.classify(c, impl[i], spec_out[i])
                if kid:
                    seen_known.setdefault(kid, (st, c, impl[i], spec_out[i]))
                else:
                    violations.append(("spec", st, c, impl[i], spec_out[i], model[i]))
        stats[st.name] = {"cases": len(reqs), "nontrivial": n_nt,
                          "output_histogram": dict(sorted(out_hist.items(), key=lambda kv: -kv[1])[:12]),
                          "spec_checked": len(spec_idx), "derived_checks": n_der, "wall_s": round(time.time() - ts, 2)}
        for c in st.cases[:2]:
            samples.append({"stream": st.name, "request": vlib.decode_line(c["req"])})
        log(f"stream {st.name}: {len(reqs)} cases, {n_nt} non-trivial, "
            f"{sum(1 for b in corr_breaks if b[0] is st)} model disagreements")

    # known findings: every open finding must have been reproduced by its witness stream
    kf = vlib.load_known_findings(prop)
    # a classified deviation counts as known ONLY while the committed file lists it as open: an unlisted id, or one
    # recorded as fixed, is a violation again (a fixed entry suppresses nothing)
    status = {f["id"]: f["status"] for f in kf}
    for kid, tup in seen_known.items():
        if status.get(kid) != "open":
            st_, d_, o_, _ = tup
            d2 = dict(d_) if isinstance(d_, dict) else {"req": d_ if isinstance(d_, str) else "", "history": []}
            d2["why"] = f"deviation class {kid} ({'recorded as fixed' if status.get(kid) == 'fixed' else 'not listed in KNOWN_FINDINGS.json'}) occurs"
            d2.setdefault("expect", "(see why)"); d2.setdefault("req", vlib.line("ml.settle"))
            derived_violations.append((st_, d2, o_))
    for f in kf:
        if f["status"] != "open":
            continue
        if f["id"] in seen_known:
            known_lines.append(f"KNOWN-FINDING: property={prop} {f['id']} {f['what']}")
        else:
            corr_breaks.append((None, -1, f"open finding {f['id']} no longer reproduces", ""))

    # 6. report
    rc = 0
    reported = set()
    for kind, st, c, io, so, mo in violations:
        key = (st.name, io, so)
        if key in reported or len(reported) >= 5:
            continue
        reported.add(key)
        small = c
        try:
            def still(reqs, specs, st=st):
                i2 = vlib.run_impl(reqs); s2 = vlib.run_model(specs)
                return [(not st.spec_eq(x, y)) and st.classify({"req": r, "spec": sp}, x, y) is None
                        for x, y, r, sp in zip(i2, s2, reqs, specs)]
            if c.get("spec") and getattr(st, "shrinkable", True):
                small = shrink_case(st, c, still)
                io2 = vlib.run_impl([small["req"]])[0]; so2 = vlib.run_model([small["spec"]])[0]
                mo2 = vlib.run_model([small["req"]])[0]
                io, so, mo = io2, so2, mo2
        except Exception:
            traceback.print_exc()
        rp = vlib.write_replay(prop, {
            "property": prop, "kind": "implementation violates spec", "stream": st.name,
            "request": vlib.decode_line(small["req"]), "request_line": small["req"], "spec_line": small.get("spec"),
            "implementation": io, "spec_expects": so, "model": mo, "seed": seed,
            "proof_problem": proof_problem,
            "replay_cmd": f"./check {prop} --replay <this file>"})
        print(f"VIOLATION property={prop} replay={rp}")
        rc = 1
    if os.environ.get("VERIF_ALL_VIOLATIONS"):        # development aid: list every derived violation (no replay files)
        for st, d, o in derived_violations:
            print("DV", st.name, d.get("why"))
    for st, d, o in derived_violations[:3]:
        rp = vlib.write_replay(prop, {
            "property": prop, "kind": "implementation violates spec (derived check)", "stream": st.name,
            "why": d.get("why"), "history": [vlib.decode_line(l) for l in d.get("history", [])],
            "history_lines": d.get("history", []),
            "spec_request": vlib.decode_line(d["req"]), "spec_says": o, "expected_for_property": d["expect"],
            "seed": seed, "proof_problem": proof_problem})
        print(f"VIOLATION property={prop} replay={rp}")
        rc = 1
    if rc == 0 and (corr_breaks or not proof_ok):
        # proof or correspondence no longer checks, and no failing input was found
        first = None
        if corr_breaks:
            st, i, io, mo = corr_breaks[0]
            first = {"stream": st.name if st else "known-findings",
                     "request": vlib.decode_line(st.cases[i]["req"]) if st else None,
                     "request_line": st.cases[i]["req"] if st else None,
                     "implementation": io, "model": mo,
                     "disagreements_total": len(corr_breaks)}
        rp = vlib.write_replay(prop, {
            "property": prop, "kind": "proof or correspondence no longer checks; search found no failing input",
            "theorem_or_build_problem": proof_problem, "first_model_disagreement": first,
            "searched": {k: v["cases"] for k, v in stats.items()}, "seed": seed})
        print(f"VIOLATION property={prop} replay={rp} no-failing-input-found")
        rc = 1
    for l in known_lines:
        print(l)
    notes["streams"] = stats
    notes["model_disagreements"] = len(corr_breaks)
    notes["known_findings_reproduced"] = sorted(seen_known)
    more = getattr(mod, "evidence_notes", None)     # per-property facts gathered while judging (e.g. how inputs were classified)
    if more:
        notes["property_notes"] = more()
    write_ev(prop, tier, seed, thms, discharged, prop_modules, samples,
             {"evaluations": evaluations, "distinct": len(distinct), "rule": getattr(mod, "RULE", "")},
             notes, t0, 0 if rc == 0 else max(1, len(reported)), proof_problem, extra)
    log(f"done rc={rc} wall={time.time() - t0:.0f}s")
    return rc


def model_files():
    out = []
    for root in ("Vlsp/Model", "Vlsp/Spec", "Vlsp/Lemmas"):
        d = os.path.join(LEAN, root)
        if os.path.isdir(d):
            for dp, _, fs in os.walk(d):
                out += [os.path.join(dp, f) for f in fs if f.endswith(".lean")]
    out.append(os.path.join(LEAN, "Vlsp", "Text.lean"))
    return out


def write_ev(prop, tier, seed, thms, discharged, modules, samples, cov, notes, t0, nviol, proof_problem, extra=None):
    extra = extra or {"obligations": [], "discharged": [], "problems": []}
    coverage = {
        "obligations": len(thms) + len(extra["obligations"]),
        "discharged": len(discharged) + len(extra["discharged"]),
        "checker_cmd": "lake build " + " ".join(modules) + " && lake env lean .audit/" + prop + ".lean  (#print axioms on every theorem; allowed ⊆ {propext, Classical.choice, Quot.sound})",
        "trusted_base": ["Lean 4.33.0 kernel", "axioms: propext, Classical.choice, Quot.sound (only those reported by #print axioms)",
                         "tools/extract.py (regenerates Vlsp/Generated.lean from /repo)",
                         "correspondence: harness/ (real code) vs lean driver (same Model/Spec definitions the theorems are about)",
                         "statements in lean/Vlsp/Props and lean/Vlsp/Spec"],
        "theorems": thms,
        "undischarged": [t for t in thms if t not in discharged],
        "extra_obligations": extra,
        "evaluations": cov.get("evaluations", 0),
        "distinct_nontrivial": cov.get("distinct", 0),
        "rule": cov.get("rule", ""),
        "samples": samples[:12] if samples else [{"note": "no correspondence cases were run"}],
        "proof_problem": proof_problem,
        "details": notes,
    }
    mod = importlib.import_module(f"props.{prop}")
    vlib.write_evidence(prop, tier, seed, coverage, getattr(mod, "ASSUMPTIONS", []), time.time() - t0, nviol)
