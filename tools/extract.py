"""tools/extract.py — the small translator: reads /repo's CURRENT working tree
and rewrites lean/Vlsp/Generated.lean with everything in the code that is data
(tables, constants, SQL texts).  Theorems mention these definitions, so they
are re-checked against what the code says now.

Pattern matching is deliberately plain (no syn).  When a pattern no longer
matches, the key is taken from tools/generated_fallback.json, and the run is
flagged `extraction_degraded` (never a silent pass: the caller then relies on
the correspondence streams and reports the degradation in the evidence)."""
import json, os, re, sys

HERE = os.path.dirname(os.path.abspath(__file__))
FALLBACK = os.path.join(HERE, "generated_fallback.json")


def rd(repo, rel):
    return open(os.path.join(repo, rel), encoding="utf-8").read()


def non_test(src):
    i = src.find("#[cfg(test)]\nmod tests")
    return src if i < 0 else src[:i]


def rust_str(lit):
    """decode a Rust "..." literal body (only the escapes that occur)"""
    out, i = [], 0
    while i < len(lit):
        c = lit[i]
        if c == "\\":
            n = lit[i + 1]
            out.append({"n": "\n", "t": "\t", "\\": "\\", '"': '"', "r": "\r", "0": "\0", "'": "'"}[n])
            i += 2
        else:
            out.append(c); i += 1
    return "".join(out)


STR = r'"((?:[^"\\]|\\.)*)"'


def lean_str(s):
    o = ['"']
    for ch in s:
        if ch == "\\": o.append("\\\\")
        elif ch == '"': o.append('\\"')
        elif ch == "\n": o.append("\\n")
        elif ch == "\t": o.append("\\t")
        elif ch == "\r": o.append("\\r")
        else: o.append(ch)
    o.append('"')
    return "".join(o)


def lean_list(xs, f=lean_str):
    return "[" + ", ".join(f(x) for x in xs) + "]"


def eval_int(expr):
    expr = expr.replace("_", "").strip()
    if not re.fullmatch(r"[0-9*+\-() ]+", expr):
        raise ValueError("not a constant int expr: " + expr)
    return int(eval(expr, {"__builtins__": {}}))


# ------------------------------------------------------------------ extractors
# each returns {key: json-able value}

def ex_detect(repo):
    src = non_test(rd(repo, "src/parser/types.rs"))
    m = re.search(r"pub fn detect_parser_type\(uri: &str\) -> Option<RegistryType> \{(.*?)\n\}\n", src, re.S)
    body = m.group(1)
    # as_str table
    as_str = dict(re.findall(r"RegistryType::(\w+) => " + STR, re.search(r"pub fn as_str.*?\n    \}\n", src, re.S).group(0)))
    # first branch must be the workflow test
    if not re.match(r"\s*if is_github_actions_workflow\(uri\) \{\s*Some\(RegistryType::(\w+)\)", body):
        raise ValueError("detect: first branch shape")
    gha = re.match(r"\s*if is_github_actions_workflow\(uri\) \{\s*Some\(RegistryType::(\w+)\)", body).group(1)
    table = []
    rest = body[body.index("}") :]
    for cond, reg in re.findall(r"else if (.*?) \{\s*Some\(RegistryType::(\w+)\)", rest, re.S):
        sufs = re.findall(r"uri\.ends_with\(" + STR + r"\)", cond)
        if not sufs or re.sub(r"uri\.ends_with\(" + STR + r"\)|\|\||\s", "", cond):
            raise ValueError("detect: condition shape: " + cond)
        for s in sufs:
            table.append([rust_str(s), as_str[reg]])
    if not re.search(r"else \{\s*None\s*\}\s*$", rest):
        raise ValueError("detect: final else")
    m = re.search(r"fn is_github_actions_workflow\(uri: &str\) -> bool \{(.*?)\n\}\n", src, re.S)
    b = m.group(1)
    md = re.search(r"let is_github_dir = (.*?);", b, re.S).group(1)
    dirs = re.findall(r"contains_dir\(uri, " + STR + r"\)", md)
    if re.sub(r"contains_dir\(uri, " + STR + r"\)|\|\||\s", "", md):
        raise ValueError("gha dir shape")
    mc = re.search(r"fn contains_dir\(uri: &str, dir: &str\) -> bool \{(.*?)\n\}\n", src, re.S).group(1)
    mb = re.fullmatch(r"\s*uri\.match_indices\(dir\)\s*\.any\(\|\(i, _\)\| i == 0 \|\| uri\[\.\.i\]\.ends_with\(\[(.*?)\]\)\)\s*", mc, re.S)
    if not mb:
        raise ValueError("contains_dir shape")
    bchars = [rust_str(c) for c in re.findall(r"'((?:[^'\\]|\\.)+)'", mb.group(1))]
    for d in dirs:
        d = rust_str(d)
        if any(d[:k] == d[-k:] for k in range(1, len(d))):
            raise ValueError("dir pattern overlaps itself; match_indices model not exact")
    my = re.search(r"let is_yaml = (.*?);", b, re.S).group(1)
    ys = re.findall(r"uri\.ends_with\(" + STR + r"\)", my)
    if re.sub(r"uri\.ends_with\(" + STR + r"\)|\|\||\s", "", my):
        raise ValueError("gha yaml shape")
    if not re.search(r"is_github_dir && is_yaml\s*$", b.strip()):
        raise ValueError("gha conj shape")
    reg_types = [[k, v] for k, v in as_str.items()]
    from_str = re.findall(STR + r" => Ok\(RegistryType::(\w+)\)", src)
    return {
        "ghaDirSubstrings": [rust_str(d) for d in dirs],
        "ghaYamlSuffixes": [rust_str(y) for y in ys],
        "ghaDirBoundaryChars": bchars,
        "ghaRegistry": as_str[gha],
        "detectSuffixTable": table,
        "registryTypes": reg_types,
        "registryFromStr": [[rust_str(s), r] for s, r in from_str],
    }


def ex_config(repo):
    src = non_test(rd(repo, "src/config.rs"))
    out = {}
    for name, key in [("DEFAULT_REFRESH_INTERVAL_MS", "defaultRefreshIntervalMs"),
                      ("FETCH_TIMEOUT_MS", "fetchTimeoutMs"),
                      ("FETCH_STAGGER_DELAY_MS", "fetchStaggerDelayMs")]:
        m = re.search(r"pub const " + name + r": \w+ = ([^;]+);", src)
        out[key] = eval_int(m.group(1))
    return out


def ex_checker(repo):
    src = non_test(rd(repo, "src/version/checker.rs"))
    m = re.search(r"const KNOWN_DIST_TAGS: &\[&str\] = &\[(.*?)\];", src, re.S)
    return {"knownDistTags": [rust_str(s) for s in re.findall(STR, m.group(1))]}


def ex_registries(repo):
    src = non_test(rd(repo, "src/version/registries/github.rs"))
    m = re.search(r"const MAX_RELEASE_PAGES: usize = ([0-9_]+);", src)
    return {"maxReleasePages": eval_int(m.group(1))}


def norm_sql(s):
    return " ".join(s.split())


def ex_cache(repo):
    src = non_test(rd(repo, "src/version/cache.rs"))
    m = re.search(r"const MIGRATIONS: &\[&\[&str\]\] = &\[(.*?)\n\];", src, re.S)
    migs = []
    for grp in re.findall(r"&\[(.*?)\]", m.group(1), re.S):
        migs.append([norm_sql(rust_str(s)) for s in re.findall(STR, grp)])
    # every SQL text, per function, in source order
    stmts = []
    for fm in re.finditer(r"\n    (?:pub )?fn (\w+)(?:<[^>]*>)?\((.*?)\n    \}\n", src, re.S):
        fname, body = fm.group(1), fm.group(2)
        for sm in re.finditer(r'r#"(.*?)"#|' + STR, body, re.S):
            text = sm.group(1) if sm.group(1) is not None else rust_str(sm.group(2))
            t = norm_sql(text)
            if re.match(r"(SELECT|INSERT|UPDATE|DELETE|CREATE|ALTER)\b", t):
                stmts.append([fname, t])
    pragmas = re.findall(r'pragma_update\(None, ' + STR + r', ' + STR + r'\)', src)
    tx_fns = [fm.group(1) for fm in re.finditer(r"\n    (?:pub )?fn (\w+)(?:<[^>]*>)?\((.*?)\n    \}\n", src, re.S)
              if "conn.transaction()" in fm.group(2) and "tx.commit()" in fm.group(2)]
    mig_cols = []
    for g in migs:
        cols = []
        for sql in g:
            mm = re.fullmatch(r"ALTER TABLE packages ADD COLUMN (\w+) .*", sql)
            if not mm:
                raise ValueError("migration statement shape: " + sql)
            cols.append(mm.group(1))
        mig_cols.append(cols)
    # the tolerated error of apply_migrations
    am = re.search(r"fn apply_migrations\(.*?\n    \}\n", src, re.S).group(0)
    tol = re.findall(r'msg\.contains\(' + STR + r'\)', am)
    guard = re.search(r"Err\(rusqlite::Error::SqliteFailure\(_, Some\(ref msg\)\)\)\s*if (.*?) =>", am, re.S)
    guard_txt = " ".join(guard.group(1).split()) if guard else ""
    return {"migrations": migs, "migrationColumns": mig_cols, "migrationTolerated": [rust_str(t) for t in tol],
            "migrationToleranceGuard": guard_txt, "sqlStatements": stmts,
            "pragmas": [[rust_str(a), rust_str(b)] for a, b in pragmas],
            "transactionalFns": tx_fns}


def ex_parsers(repo):
    out = {}
    src = non_test(rd(repo, "src/parser/package_json.rs"))
    m = re.search(r"const DEPENDENCY_FIELDS: \[&'static str; \d+\] = \[(.*?)\];", src, re.S)
    out["dependencyFields"] = [rust_str(s) for s in re.findall(STR, m.group(1))]
    m = re.search(r"const NON_REGISTRY_PREFIXES: \[&'static str; \d+\] = \[(.*?)\];", src, re.S)
    out["nonRegistryPrefixes"] = [rust_str(s) for s in re.findall(STR, m.group(1))]
    src = non_test(rd(repo, "src/parser/cargo_toml.rs"))
    m = re.search(r"const DEPENDENCY_TABLES: \[&'static str; \d+\] = \[(.*?)\];", src, re.S)
    out["dependencyTables"] = [rust_str(s) for s in re.findall(STR, m.group(1))]
    m = re.search(r"const SKIP_KEYS: \[&'static str; \d+\] = \[(.*?)\];", src, re.S)
    out["skipKeys"] = [rust_str(s) for s in re.findall(STR, m.group(1))]
    return out


PANIC_PATTERNS = [
    ("unwrap", r"\.unwrap\(\)"), ("expect", r"\.expect\("), ("slice", r"\w\[[^\]]*\.\.[^\]]*\]"),
    ("index", r"[\w\)]\[[^\]\.]+\]"), ("split_at", r"split_at\("), ("macro", r"unreachable!|panic!|todo!|unimplemented!|assert!|assert_eq!"),
    ("sub", r"\b[\w\.\(\)]+\s-\s[\w\.\(\)]+"),
    ("node_slice", r"\w\[[^\]]*byte_range\(\)\]"),
]


def panic_kinds(st):
    """the kinds of potential panic a (stripped) source line contains"""
    code = re.sub(r'"(?:[^"\\]|\\.)*"', '""', st)       # string literals do not count
    kinds = []
    for k, pat in PANIC_PATTERNS:
        if re.search(pat, code):
            if k == "index" and re.search(r"#\[|vec!\[|\[\s*\]|: \[|&\[|\.\.", code):
                continue
            if k == "sub" and ("i64" in code or "->" in code and " - " not in code):
                continue
            kinds.append(k)
    return kinds


def ex_panic_sites(repo):
    """inventory of potential panic sites in non-test code: (file, fn, kinds, normalised source line)"""
    import glob
    sites = []
    for fn in sorted(glob.glob(os.path.join(repo, "src/**/*.rs"), recursive=True)):
        rel = os.path.relpath(fn, repo)
        if rel in ("src/verif.rs",):
            continue
        src = non_test(open(fn).read())
        cur = ""
        for l in src.split("\n"):
            mm = re.search(r"\bfn\s+(\w+)", l)
            if mm:
                cur = mm.group(1)
            st = l.strip()
            if st.startswith("//") or "vlsp_verif" in l or "crate::verif::" in l:
                continue
            kinds = panic_kinds(st)
            if kinds:
                sites.append([rel, cur, "+".join(kinds), re.sub(r"\s+", " ", st)])
    return {"panicSites": sites}


def camel(s):
    parts = s.split("_")
    return parts[0] + "".join(x.capitalize() for x in parts[1:])


def ex_config_schema(repo):
    src = non_test(rd(repo, "src/config.rs"))
    def struct(name):
        m = re.search(r"((?:#\[[^\]]*\]\s*)*)pub struct " + name + r" \{(.*?)\n\}", src, re.S)
        attrs, body = m.group(1), m.group(2)
        rename_all = "camelCase" in attrs
        if "serde(default" not in attrs:
            raise ValueError(name + ": container default missing")
        fields = []
        for fm in re.finditer(r"((?:\s*#\[[^\]]*\]|\s*///[^\n]*)*)\s*pub (\w+): ([\w<>]+),", body):
            fattrs, ident, ty = fm.group(1), fm.group(2), fm.group(3)
            rn = re.search(r'rename = "([^"]+)"', fattrs)
            fields.append([rn.group(1) if rn else (camel(ident) if rename_all else ident), ident, ty])
        return fields
    top = struct("LspConfig"); cache = struct("CacheConfig"); regs = struct("RegistriesConfig"); reg = struct("RegistryConfig")
    # defaults
    d_ip = re.search(r"ignore_prerelease: (true|false),", src).group(1)
    d_en = re.search(r"impl Default for RegistryConfig \{.*?enabled: (true|false)", src, re.S).group(1)
    if not re.search(r"refresh_interval: DEFAULT_REFRESH_INTERVAL_MS", src):
        raise ValueError("refresh default")
    back = non_test(rd(repo, "src/lsp/backend.rs"))
    m = re.search(r"fn is_registry_enabled.*?match registry_type \{(.*?)\n        \}", back, re.S)
    arms = re.findall(r"RegistryType::(\w+) => config\.registries\.(\w+)\.enabled", m.group(1))
    types = non_test(rd(repo, "src/parser/types.rs"))
    as_str = dict(re.findall(r"RegistryType::(\w+) => " + STR, re.search(r"pub fn as_str.*?\n    \}\n", types, re.S).group(0)))
    ident_to_key = {f[1]: f[0] for f in regs}
    reg_keys = [[ident_to_key[ident], as_str[var]] for var, ident in arms]
    # how the answer is applied
    sp = re.search(r"fn spawn_fetch_configuration.*?\n    \}\n", back, re.S).group(0)
    null_default = bool(re.search(r"if config_value\.is_null\(\) \{\s*LspConfig::default\(\)", sp))
    # do the two cache options reach the storer, and does the start-up refresh wait for the answer?
    reaches = bool(re.search(r"storer\.configure\(\s*new_config\.cache\.refresh_interval,\s*new_config\.ignore_prerelease,?\s*\)", sp))
    br = re.search(r"fn spawn_background_refresh.*?\n    \}\n", back, re.S)
    waits = bool(br and re.search(r"async move \{\s*let _ = configured\.await;", br.group(0))
                 and re.search(r"let configured = self\.spawn_fetch_configuration\(\);\s*self\.spawn_background_refresh\(configured\);", back))
    cache_rs = non_test(rd(repo, "src/version/cache.rs"))
    stores = bool(re.search(r"fn configure\(&self, refresh_interval: i64, ignore_prerelease: bool\) \{\s*self\.refresh_interval\s*\.store\(refresh_interval, Ordering::Relaxed\);\s*self\.ignore_prerelease\s*\.store\(ignore_prerelease, Ordering::Relaxed\);", cache_rs))
    return {"configTopKeys": [f[0] for f in top], "configCacheKeys": [f[0] for f in cache], "configRegistryKeys": reg_keys,
            "configRegistryField": [f[0] for f in reg], "configDefaultIgnorePrerelease": d_ip == "true",
            "configDefaultEnabled": d_en == "true", "configNullIsDefault": null_default,
            "configReachesCache": reaches and stores, "refreshWaitsForConfig": waits}


EXTRACTORS = [ex_detect, ex_config, ex_checker, ex_registries, ex_cache, ex_parsers, ex_config_schema, ex_panic_sites]


def render(vals):
    L = ["/- REGENERATED by tools/extract.py from /repo sources on every run. Do not edit. -/",
         "namespace Vlsp.Generated", ""]
    def pairs(xs):
        return "[" + ", ".join("(" + lean_str(a) + ", " + lean_str(b) + ")" for a, b in xs) + "]"
    L.append(f"def ghaDirSubstrings : List String := {lean_list(vals['ghaDirSubstrings'])}")
    L.append(f"def ghaDirBoundaryChars : List String := {lean_list(vals['ghaDirBoundaryChars'])}")
    L.append(f"def ghaYamlSuffixes : List String := {lean_list(vals['ghaYamlSuffixes'])}")
    L.append(f"def ghaRegistry : String := {lean_str(vals['ghaRegistry'])}")
    L.append(f"def detectSuffixTable : List (String × String) := {pairs(vals['detectSuffixTable'])}")
    L.append(f"def registryTypes : List (String × String) := {pairs(vals['registryTypes'])}")
    L.append(f"def registryFromStr : List (String × String) := {pairs(vals['registryFromStr'])}")
    L.append(f"def defaultRefreshIntervalMs : Int := {vals['defaultRefreshIntervalMs']}")
    L.append(f"def fetchTimeoutMs : Int := {vals['fetchTimeoutMs']}")
    L.append(f"def fetchStaggerDelayMs : Nat := {vals['fetchStaggerDelayMs']}")
    L.append(f"def maxReleasePages : Nat := {vals['maxReleasePages']}")
    L.append(f"def knownDistTags : List String := {lean_list(vals['knownDistTags'])}")
    L.append("def migrations : List (List String) := [" + ", ".join(lean_list(g) for g in vals["migrations"]) + "]")
    L.append("def migrationColumns : List (List String) := [" + ", ".join(lean_list(g) for g in vals["migrationColumns"]) + "]")
    L.append(f"def migrationTolerated : List String := {lean_list(vals['migrationTolerated'])}")
    L.append(f"def migrationToleranceGuard : String := {lean_str(vals['migrationToleranceGuard'])}")
    L.append(f"def sqlStatements : List (String × String) := {pairs(vals['sqlStatements'])}")
    L.append(f"def pragmas : List (String × String) := {pairs(vals['pragmas'])}")
    L.append(f"def transactionalFns : List String := {lean_list(vals['transactionalFns'])}")
    L.append(f"def configTopKeys : List String := {lean_list(vals['configTopKeys'])}")
    L.append(f"def configCacheKeys : List String := {lean_list(vals['configCacheKeys'])}")
    L.append(f"def configRegistryKeys : List (String × String) := {pairs(vals['configRegistryKeys'])}")
    L.append(f"def configRegistryField : List String := {lean_list(vals['configRegistryField'])}")
    L.append(f"def configDefaultIgnorePrerelease : Bool := {'true' if vals['configDefaultIgnorePrerelease'] else 'false'}")
    L.append(f"def configDefaultEnabled : Bool := {'true' if vals['configDefaultEnabled'] else 'false'}")
    L.append(f"def configNullIsDefault : Bool := {'true' if vals['configNullIsDefault'] else 'false'}")
    L.append(f"def configReachesCache : Bool := {'true' if vals['configReachesCache'] else 'false'}")
    L.append(f"def refreshWaitsForConfig : Bool := {'true' if vals['refreshWaitsForConfig'] else 'false'}")
    L.append(f"def dependencyFields : List String := {lean_list(vals['dependencyFields'])}")
    L.append(f"def nonRegistryPrefixes : List String := {lean_list(vals['nonRegistryPrefixes'])}")
    L.append(f"def dependencyTables : List String := {lean_list(vals['dependencyTables'])}")
    L.append(f"def skipKeys : List String := {lean_list(vals['skipKeys'])}")
    L += ["", "end Vlsp.Generated", ""]
    return "\n".join(L)


def main(repo, out_path, update_fallback=False):
    fb = json.load(open(FALLBACK)) if os.path.exists(FALLBACK) else {}
    vals, degraded = dict(fb), []
    for ex in EXTRACTORS:
        try:
            vals.update(ex(repo))
        except Exception as e:  # pattern no longer matches: degrade, never crash
            degraded.append(f"{ex.__name__}: {type(e).__name__}: {e}")
    text = render(vals)
    old = open(out_path).read() if os.path.exists(out_path) else ""
    if old != text:
        open(out_path, "w").write(text)
    # the panic-site inventory lives in its own module (only C06 depends on it)
    stext = ("/- REGENERATED by tools/extract.py from /repo sources on every run. Do not edit. -/\nnamespace Vlsp.Generated\n\n"
             "/-- (file, function, kind, source line) of every potential panic site in non-test code -/\n"
             "def panicSites : List (String × String × String × String) := [\n"
             + ",\n".join("  (" + ", ".join(lean_str(x) for x in site) + ")" for site in vals["panicSites"]) + "]\n\nend Vlsp.Generated\n")
    spath = os.path.join(os.path.dirname(out_path), "GeneratedSites.lean")
    sold = open(spath).read() if os.path.exists(spath) else ""
    if sold != stext:
        open(spath, "w").write(stext)
    changed = sorted(k for k in vals if fb.get(k) != vals[k])
    if update_fallback:
        json.dump(vals, open(FALLBACK, "w"), indent=1, sort_keys=True, ensure_ascii=False)
    return {"degraded": degraded, "changed_vs_committed": changed, "rewritten": old != text}


if __name__ == "__main__":
    repo = sys.argv[1] if len(sys.argv) > 1 else "/repo"
    r = main(repo, os.path.join(os.path.dirname(HERE), "lean", "Vlsp", "Generated.lean"),
             update_fallback="--update-fallback" in sys.argv)
    print(json.dumps(r, indent=1))
