"""Random operation histories for the cache streams."""
import vlib

REGS = ["npm", "crates_io", "go_proxy", "github_actions", "pnpm_catalog", "jsr", "pypi"]
HOSTILE = ["lodash", "Lodash", "a'b", 'a"b', "a%b", "a_b", "a%", "_", "", "é", "日本語", "x" * 300, "a b", "a\tb",
           "a\nb", "@scope/pkg", "--", "; DROP TABLE packages;--", "NULL", "?1", "a\\b", "lodash "]
VERSIONS = ["1.0.0", "1.0", "v1.0.0", "1.2.3", "2.0.0-beta.1", "2.0.0", "0.1.0", "1.2.3+b", "junk", "", "10.0.0",
            "1.10.0", "1.9.0", "3.0.0-rc.1", "é", "1.0.0 ", "latest"]
TAGS = ["latest", "next", "beta", "", "Latest", "x'y"]


def canon(out, op=""):
    """order-insensitive canonical form of a response line"""
    if op == "c.filter":
        return out
    if out.startswith("[") and out.endswith("]"):
        items = out[1:-1].split(",") if len(out) > 2 else []
        return "[" + ",".join(sorted(items)) + "]"
    if out.startswith("P ") or out.startswith("V ") or out.startswith("T ") or ";" in out:
        return ";".join(sorted(x for x in out.split(";") if x))
    return out


def history(rng, length, nkeys=3, handles=2, reads_each_step=True, interval=1000):
    keys = [(rng.choice(REGS[:3]) if rng.chance(2, 3) else rng.choice(REGS), rng.choice(HOSTILE[:6]) if rng.chance(1, 2) else rng.choice(HOSTILE))
            for _ in range(nkeys)]
    # same name under two registries, on purpose
    keys.append((rng.choice(REGS), keys[0][1]))
    ip = rng.chance(1, 2)
    L = [vlib.line("c.reset", "T" if ip else "F", str(interval)), vlib.line("c.open", "0")]
    open_h = ["0"]
    now = 0
    def reads():
        h = rng.choice(open_h)
        for (r, n) in keys:
            L.append(vlib.line("c.versions", h, r, n))
            L.append(vlib.line("c.latest", h, r, n)) if False else None
            L.append(vlib.line("c.tag", h, r, n, rng.choice(TAGS)))
            L.append(vlib.line("c.exists", h, r, n, rng.choice(VERSIONS)))
        L.append(vlib.line("c.refresh", h))
        r = rng.choice(REGS[:3])
        L.append(vlib.line("c.filter", h, r, *[k[1] for k in keys]))
        L.append(vlib.line("c.dump"))
    for _ in range(length):
        h = rng.choice(open_h)
        r, n = rng.choice(keys)
        k = rng.below(100)
        if k < 25:
            vs = [rng.choice(VERSIONS) for _ in range(rng.below(5))]
            L.append(vlib.line("c.replace", h, r, n, *vs))
        elif k < 40:
            ts = rng.sample(TAGS, rng.below(4))
            kv = []
            for t in ts:
                kv += [t, rng.choice(VERSIONS)]
            L.append(vlib.line("c.tags", h, r, n, *kv))
        elif k < 50:
            L.append(vlib.line("c.mark", h, r, n))
        elif k < 65:
            L.append(vlib.line("c.claim", h, r, n))
        elif k < 75:
            L.append(vlib.line("c.finish", h, r, n))
        elif k < 87:
            now += rng.choice([0, 1, 999, 1000, 1001, 29999, 30000, 30001, 5])
            L.append(vlib.line("c.now", str(now)))
        elif k < 94:
            # reopen / open another handle
            hid = str(rng.below(handles))
            L.append(vlib.line("c.open", hid))
            if hid not in open_h:
                open_h.append(hid)
        else:
            if len(open_h) > 1:
                hid = open_h.pop()
                L.append(vlib.line("c.close", hid))
        if reads_each_step:
            reads()
    return L
