"""shared by C04 / C05: running the seven parser models of Lean on the real syntax trees"""
import re
import vlib


def py_unquote(t):
    tr = t.strip()
    if len(tr) >= 2 and ((tr[0] == '"' and tr[-1] == '"') or (tr[0] == "'" and tr[-1] == "'")):
        return tr[1:-1]
    return tr


def model_lines(docs):
    """docs: [(eco, text)] -> the `x.parse` request of each: the tree tree-sitter really produces (harness ts.dump) and,
    for pyproject, the PEP 508 library's answer on every string node (the two third-party components the models take as inputs)"""
    dumps = vlib.run_impl([vlib.line("ts.dump", e, t) for e, t in docs])
    reqs = []
    for (e, t), d in zip(docs, dumps):
        if e != "pypi":
            continue
        b = t.encode("utf-8")
        for item in d.split(";"):
            f = item.split(",")
            if len(f) == 10 and vlib.unhx(f[1]) == "string":
                try:
                    reqs.append(py_unquote(b[int(f[2]):int(f[3])].decode("utf-8")))
                except UnicodeDecodeError:
                    pass
    reqs = sorted(set(reqs))
    ans = dict(zip(reqs, vlib.run_impl([vlib.line("pep508", r) for r in reqs]))) if reqs else {}
    out = []
    for (e, t), d in zip(docs, dumps):
        extra = []
        if e == "pypi":
            b = t.encode("utf-8")
            seen = set()
            for item in d.split(";"):
                f = item.split(",")
                if len(f) == 10 and vlib.unhx(f[1]) == "string":
                    try:
                        r = py_unquote(b[int(f[2]):int(f[3])].decode("utf-8"))
                    except UnicodeDecodeError:
                        continue
                    if r not in seen and r in ans:
                        seen.add(r); extra += [r, ans[r]]
        out.append(vlib.line("x.parse", e, t, d if e != "go" else "-", *extra))
    return out


def pkgs_of(out):
    """l.parse / x.parse output -> [dict]"""
    res = []
    for x in out.split(";"):
        if not x:
            continue
        f = x.split("|")
        res.append({"name": vlib.unhx(f[0]), "version": vlib.unhx(f[1]), "hash": vlib.unhx(f[2][1:]) if f[2] != "-" else None,
                    "start": int(f[3]), "end": int(f[4]), "line": int(f[5]), "col": int(f[6]), "extra": f[7]})
    return res


def norm_py(n):
    return re.sub(r"[-_.]+", "-", n).lower()
