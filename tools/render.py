"""Renderers: abstract dependency list + layout choices -> manifest text, for the 7 formats.
Every renderer returns (text, declared) where declared is the list of (name, spec, hash|None) the
package manager would read from the file (registry dependencies only, in file order)."""
import json

def nl(layout): return "\r\n" if layout.get("crlf") else "\n"

def lay(rng, **force):
    L = {"indent": rng.choice(["  ", "    ", "\t"]), "crlf": rng.chance(1, 6), "sp_colon": rng.choice(["", " ", "  "]),
         "trail_nl": rng.chance(4, 5), "blank": rng.chance(1, 3), "comment": rng.chance(1, 3),
         "nonascii": rng.chance(1, 8), "compact": rng.chance(1, 8), "quote": rng.choice(['"', "'", ""]),
         "escape": rng.chance(1, 10), "trail_ws": rng.chance(1, 8), "flow": rng.chance(1, 10), "tabsep": rng.chance(1, 6),
         "lead_ws": rng.choice(["", "", "", "  ", "\t"]), "qkey": False,      # TOML: keys written as quoted keys (finding F-C04-14: drawn by the C04 streams only)

         "cgap": rng.choice([" # ", " # ", "  # ", "\t# ", " #", "   #  "])}      # blanks around the '#' of a version comment
    L.update(force)
    return L

# ---------------------------------------------------------------- package.json
NPM_SECTIONS = ["dependencies", "devDependencies", "peerDependencies", "optionalDependencies", "overrides"]
NPM_NONREG = ["workspace:*", "workspace:^", "file:../local", "link:../linked", "git+https://github.com/a/b.git#v1",
              "github:user/repo", "https://example.com/x.tgz", "http://example.com/x.tgz", "catalog:", "catalog:default",
              # hosted git shorthands and local paths (no range and no dist-tag contains a slash)
              "user/repo", "user/repo#semver:^1.0.0", "gitlab:user/repo", "bitbucket:user/repo", "gist:0123abcd", "./local.tgz", "../dir", "~/dir", "/abs/dir"]

def package_json(deps, L, extras=()):
    """deps: list of (section, key, value, declared or None)"""
    secs = {}
    for sec, key, val, decl in deps:
        secs.setdefault(sec, []).append((key, val, decl))
    n, ind = nl(L), L["indent"]
    lines = ["{", f'{ind}"name":{L["sp_colon"]}"demo{"é" if L["nonascii"] else ""}",', f'{ind}"version": "1.0.0",']
    declared = []
    names = list(secs)
    for si, sec in enumerate(names):
        if L["compact"]:
            body = ", ".join(f'{json.dumps(k, ensure_ascii=L["escape"])}:{L["sp_colon"]}{json.dumps(v, ensure_ascii=L["escape"])}' for k, v, _ in secs[sec])
            lines.append(f'{ind}"{sec}":{L["sp_colon"]}{{ {body} }}' + ("," if si < len(names) - 1 or extras else ""))
        else:
            lines.append(f'{ind}"{sec}":{L["sp_colon"]}{{')
            for i, (k, v, _) in enumerate(secs[sec]):
                lines.append(f'{ind}{ind}{json.dumps(k, ensure_ascii=L["escape"])}:{L["sp_colon"]}{json.dumps(v, ensure_ascii=L["escape"])}' + ("," if i < len(secs[sec]) - 1 else ""))
                if L["blank"] and i == 0:
                    lines.append("")
            lines.append(f'{ind}}}' + ("," if si < len(names) - 1 or extras else ""))
        declared += [d for _, _, d in secs[sec] if d]
    for i, (k, v) in enumerate(extras):
        lines.append(f'{ind}{json.dumps(k)}: {json.dumps(v)}' + ("," if i < len(extras) - 1 else ""))
    lines.append("}")
    return n.join(lines) + (n if L["trail_nl"] else ""), declared

# ---------------------------------------------------------------- Cargo.toml
CARGO_TABLES = ["dependencies", "dev-dependencies", "build-dependencies", "workspace.dependencies"]

def cargo_toml(deps, L):
    """deps: (table, name, form, spec, declared or None); form in simple|inline|dotted|path|workspace|registry|git"""
    n = nl(L)
    out = ["[package]", 'name = "demo"', 'version = "0.1.0"', ""]
    declared = []
    tables = {}
    for t, name, form, spec, decl in deps:
        tables.setdefault(t, []).append((name, form, spec, decl))
    for t, items in tables.items():
        if L["comment"]:
            out.append(f"# {t} of the crate" + (" é" if L["nonascii"] else ""))
        out.append(f"[{t}]")
        q = "'" if L["quote"] == "'" else '"'
        for name, form, spec, decl in items:
            if L.get("qkey") and form in ("simple", "inline", "inline2"):
                name = f'"{name}"'
            eq = f"{L['sp_colon']}={L['sp_colon']}" if L["sp_colon"] else " = "
            tc = "  # pinned" if L["comment"] else ""
            if form == "simple": out.append(f'{name}{eq}{q}{spec}{q}{tc}')
            elif form == "inline": out.append(f'{name}{eq}{{ version = {q}{spec}{q}, features = ["derive"] }}{tc}')
            elif form == "inline2": out.append(f'{name}{eq}{{ features = ["x"], version = {q}{spec}{q}, default-features = false }}')
            elif form == "dotted": out.append(f'{name}.version{eq}{q}{spec}{q}')
            elif form == "renamed": out.append(f'{name}_alias{eq}{{ package = "{name}", version = "{spec}" }}')
            elif form == "subtable":
                out += [f"[{t}.{name}]", f'version{eq}"{spec}"', f"[{t}]"]
            elif form == "path": out.append(f'{name}{eq}{{ path = "../{name}", version = "{spec}" }}')
            elif form == "workspace": out.append(f'{name}{eq}{{ workspace = true }}')
            elif form == "dotted_ws": out.append(f'{name}.workspace{eq}true')
            elif form == "registry": out.append(f'{name}{eq}{{ version = "{spec}", registry = "internal" }}')
            elif form == "git": out.append(f'{name}{eq}{{ git = "https://github.com/a/{name}" }}')
            if decl: declared.append(decl)
            if L["blank"]: out.append("")
        out.append("")
    return n.join(out) + (n if L["trail_nl"] else ""), declared

# ---------------------------------------------------------------- go.mod
def go_mod(deps, L):
    """deps: (form, path, version, declared or None); form in single|block|indirect|replace|exclude|retract"""
    n = nl(L)
    out = ["module example.com/demo", "", "go 1.21", ""]
    declared = []
    singles = [d for d in deps if d[0] == "single"]
    blocks = [d for d in deps if d[0] in ("block", "indirect")]
    others = [d for d in deps if d[0] in ("replace", "exclude", "retract")]
    # comment lines of their own (also ones that read like a requirement: a first word, then a word that starts with "v")
    if L["comment"]:
        out += ["// vendored v1 copy", "// require example.com/commented v1.0.0", "//require example.com/commented v1.0.1", ""]
    for _, p, v, decl in singles:
        sep = "\t" if L["tabsep"] else " "
        out.append(f"{L['lead_ws']}require{sep}{p}{sep}{v}" + (" // pinned" if L["comment"] else "") + ("  " if L["trail_ws"] else ""))
        if decl: declared.append(decl)
    if blocks:
        out.append("require (")
        if L["comment"]:
            out += [f"{L['indent']}// vendored copies", f"{L['indent']}// example.com/commented v1.0.2", "// v2 below", f"{L['indent']}//example.com/commented v1.0.3"]
        for form, p, v, decl in blocks:
            out.append(f"{L['indent']}{p}{' ' if not L['tabsep'] else chr(9)}{v}" + (" // indirect" if form == "indirect" else "") + (" \t" if L["trail_ws"] else ""))
            if L["blank"]: out.append("")
            if decl: declared.append(decl)
        out.append(")")
    for form, p, v, _ in others:
        if form == "replace": out.append(f"replace {p} => {p}-fork {v}")
        elif form == "exclude": out.append(f"exclude {p} {v}")
        else: out.append(f"retract {v}")
    return n.join(out) + (n if L["trail_nl"] else ""), declared

# ---------------------------------------------------------------- workflow yaml
def workflow(steps, L):
    """steps: (kind, ref_text, comment or None, declared or None); kind in uses|local|docker|run"""
    n = nl(L)
    q = L["quote"]
    out = ["name: CI" + (" é" if L["nonascii"] else ""), "on: [push]", "jobs:", "  build:", "    runs-on: ubuntu-latest", "    steps:"]
    declared = []
    for kind, ref, comment, decl in steps:
        if kind == "run":
            out.append("      - run: echo hi")
            continue
        val = f"{q}{ref}{q}"
        line = f"      - {{ uses: {val} }}" if (L["flow"] and comment is None) else f"      - uses: {val}"
        if comment is not None:
            line += f"{L['cgap']}{comment}"
        out.append(line)
        if L["blank"]: out.append("")
        if decl: declared.append(decl)
    return n.join(out) + (n if L["trail_nl"] else ""), declared

# ---------------------------------------------------------------- pyproject.toml
def pyproject(deps, L):
    """deps: (section, requirement string, declared or None); section in project|optional:<name>|build"""
    n = nl(L)
    declared = []
    out = []
    def arr(items):
        if L["compact"]:
            return "[" + ", ".join(f'"{r}"' for r in items) + "]"
        return "[" + n + "".join(f'{L["indent"]}"{r}",{n}' for r in items) + "]"
    def qk(k):
        return f'"{k}"' if L.get("qkey") else k
    proj = [d for d in deps if d[0] == "project"]
    opt = {}
    for d in deps:
        if d[0].startswith("optional:"): opt.setdefault(d[0][9:], []).append(d)
    build = [d for d in deps if d[0] == "build"]
    if build:
        out += ["[build-system]", f"{qk('requires')} = {arr([d[1] for d in build])}", 'build-backend = "setuptools.build_meta"', ""]
        declared += [d[2] for d in build if d[2]]
    out += ["[project]", 'name = "demo"', 'version = "0.1.0"']
    if proj:
        out.append(f"{qk('dependencies')} = {arr([d[1] for d in proj])}")
        declared += [d[2] for d in proj if d[2]]
    out.append("")
    if opt:
        out.append("[project.optional-dependencies]")
        for name, ds in opt.items():
            out.append(f"{name} = {arr([d[1] for d in ds])}")
            declared += [d[2] for d in ds if d[2]]
    return n.join(out) + (n if L["trail_nl"] else ""), declared

# ---------------------------------------------------------------- pnpm-workspace.yaml
def pnpm_workspace(deps, L):
    """deps: (catalog name or None for the default catalog, package, spec, declared or None)"""
    n, q = nl(L), L["quote"]
    out = ["packages:", "  - 'packages/*'", ""]
    declared = []
    default = [d for d in deps if d[0] is None]
    named = {}
    for d in deps:
        if d[0] is not None: named.setdefault(d[0], []).append(d)
    def key(k): return f'"{k}"' if k.startswith("@") else k
    def qq(s): return q if q or s[0] not in ">|*&!%@`#~" else "'"
    if default:
        out.append("catalog:")
        for _, p, s, decl in default:
            out.append(f"  {key(p)}:{' '}{qq(s)}{s}{qq(s)}" + ("  # pinned" if L["comment"] else ""))
            if decl: declared.append(decl)
    if named:
        out.append("catalogs:")
        for cname, ds in named.items():
            out.append(f"  {cname}:")
            for _, p, s, decl in ds:
                out.append(f"    {key(p)}: {qq(s)}{s}{qq(s)}")
                if decl: declared.append(decl)
    return n.join(out) + (n if L["trail_nl"] else ""), declared

# ---------------------------------------------------------------- deno.json
def deno_json(deps, L):
    """deps: (alias, specifier, declared or None)"""
    n, ind = nl(L), L["indent"]
    # deno.jsonc: comments are part of the format - before the root object, between members, after values
    c = L["comment"]
    lines = (["// deno.jsonc" + (" é" if L["nonascii"] else "")] if c and L["blank"] else ["/* the import map */"] if c else [])
    lines += ["{", f'{ind}"name": "@demo/app",', f'{ind}"imports":{L["sp_colon"]}{{']
    declared = []
    for i, (alias, spec, decl) in enumerate(deps):
        if c and i == 1: lines.append(f"{ind}{ind}// pinned")
        lines.append(f'{ind}{ind}{json.dumps(alias)}:{L["sp_colon"]}{json.dumps(spec)}' + ("," if i < len(deps) - 1 else "") + (" // keep" if c and i == 0 else ""))
        if decl: declared.append(decl)
    lines += [f"{ind}}}", "}"]
    return n.join(lines) + (n if L["trail_nl"] else ""), declared
