// optional oracle: node-semver verdicts for lines "hexspec\thexversion" on stdin
const path = require('path');
let semver;
for (const p of ['/root/.nvm/versions/node/v20.20.2/lib/node_modules/npm/node_modules/semver', '/usr/lib/node_modules/npm/node_modules/semver']) {
  try { semver = require(p); break; } catch (e) {}
}
if (!semver) { console.log('NO-SEMVER'); process.exit(3); }
const lines = require('fs').readFileSync(0, 'utf8').split('\n').filter(x => x.length);
const out = [];
for (const l of lines) {
  const [a, b] = l.split('\t');
  const spec = Buffer.from(a, 'hex').toString('utf8');
  const v = Buffer.from(b || '', 'hex').toString('utf8');
  let r;
  try {
    const range = new semver.Range(spec, { includePrerelease: true });
    const ver = semver.parse(v);
    if (!ver) r = 'badv'; else r = range.test(ver) ? 'T' : 'F';
  } catch (e) { r = 'invalid'; }
  out.push(r);
}
console.log(out.join('\n'));
