#!/bin/bash
# usage: tools/seedtest.sh <seed id> <check id>...   — apply a seeded change to /repo, run checks, undo.
id=$1; shift
cd /verif
save=$(mktemp -d); cp -r /verif/evidence "$save/"; cp -r /verif/replays "$save/"
git -C /repo apply ${SEED_DIR:-/verif/seeded}/$id/patch.diff || { echo "apply failed"; exit 2; }
for c in "$@"; do
  out=$(./check $c 2>&1); rc=$?
  echo "seed=$id check=$c rc=$rc"; echo "$out" | grep -E "VIOLATION|PROOF PROBLEM" | head -4; echo "$out" | grep -E "[1-9][0-9]* model disagreements" | head -3
done
git -C /repo checkout -- .
rm -rf /verif/evidence /verif/replays; cp -r "$save/evidence" /verif/evidence; cp -r "$save/replays" /verif/replays; rm -rf "$save"
git -C /verif checkout -- lean/Vlsp/Generated.lean 2>/dev/null
