import Vlsp.Text
import Vlsp.Model.Semver
import Vlsp.Model.Detect
import Vlsp.Spec.Supported
import Vlsp.Model.Npm
import Vlsp.Model.Crates
import Vlsp.Model.Gha
import Vlsp.Model.Go
import Vlsp.Model.Cache
import Vlsp.Spec.LatestSpec
import Vlsp.Spec.Ranges
import Vlsp.Spec.NpmDenote
import Vlsp.Spec.CratesDenote
import Vlsp.Spec.RefEco
import Vlsp.Model.Checker
import Vlsp.Model.Claim
import Vlsp.Model.Fetch
import Vlsp.Model.Txn
import Vlsp.Model.Migrate
import Vlsp.Model.Bump
import Vlsp.Spec.BumpSpec
import Vlsp.Model.Registry
import Vlsp.Model.Server
import Vlsp.Model.DataDir
import Vlsp.Model.Sites
import Vlsp.Model.Parsers
import Vlsp.Model.Pos
import Vlsp.Model.Pypi
import Vlsp.Props.C04Layout
import Vlsp.Props.C04LayoutToml
import Vlsp.Props.C04LayoutPy
import Vlsp.Props.C04Reading
import Vlsp.Model.Config

/-! Line-protocol plumbing shared by the driver's op tables. -/
namespace DriverLib
open Vlsp Vlsp.Text

def hexVal (c : Char) : Nat :=
  if '0' ≤ c && c ≤ '9' then c.toNat - 48
  else if 'a' ≤ c && c ≤ 'f' then c.toNat - 87
  else if 'A' ≤ c && c ≤ 'F' then c.toNat - 55
  else 0

def unhexBytes : List Char → ByteArray → ByteArray
  | a :: b :: rest, acc => unhexBytes rest (acc.push (UInt8.ofNat (hexVal a * 16 + hexVal b)))
  | _, acc => acc

def unhex (s : String) : Text :=
  match String.fromUTF8? (unhexBytes s.toList ByteArray.empty) with
  | some str => str.toList
  | none => []

def hexDigit (n : Nat) : Char := if n < 10 then Char.ofNat (48 + n) else Char.ofNat (87 + n)

def hex (t : Text) : String :=
  let bytes := (String.ofList t).toUTF8
  String.ofList (bytes.toList.flatMap fun b => [hexDigit (b.toNat / 16), hexDigit (b.toNat % 16)])

def tf (b : Bool) : String := if b then "T" else "F"

def opt (o : Option Text) : String :=
  match o with
  | some t => "S" ++ hex t
  | none => "-"

def verStr (v : Version) : String :=
  s!"{v.major}.{v.minor}.{v.patch}|{hex v.pre}|{hex v.build}"

def ordStr : Ordering → String
  | .lt => "less" | .eq => "equal" | .gt => "greater"

/-- reference verdict: `invalid` when the spec is not in the grammar, `badv` when the
    candidate is not strict SemVer, else T/F -/
def specNpmSat (spec v : Text) : String :=
  match Spec.NodeSemver.parse spec with
  | none => "invalid"
  | some r =>
    match Semver.parseStrict v with
    | none => "badv"
    | some x => tf (Spec.NodeSemver.sat r x)

def specNpmFrag (spec : Text) : String := tf (Spec.NodeSemver.inFrag spec)

def specCratesSat (spec v : Text) : String :=
  match Spec.CargoReq.parse spec with
  | none => "invalid"
  | some r =>
    match Semver.parseStrict v with
    | none => "badv"
    | some x => tf (Spec.CargoReq.sat r x)

/-- Go: spec malformed → invalid; pseudo-version → T; else identity -/
def specGoSat (spec v : Text) : String :=
  if !Spec.GoMod.wf spec then "invalid"
  else if Spec.GoMod.isPseudo spec then "T"
  else tf (Spec.GoMod.inside spec v)

def specGhaSat (spec v : Text) : String :=
  if !Spec.GhaRef.wf spec then "invalid" else tf (Spec.GhaRef.inside spec v)

def matcherFor (eco : Text) : Option Matcher :=
  match String.ofList eco with
  | "npm" | "pnpm" | "jsr" => some Npm.matcher
  | "crates" => some Crates.matcher
  | "gha" => some Gha.matcher
  | "go" => some Go.matcher
  | _ => none

def listStr (xs : List Text) : String := "[" ++ ",".intercalate (xs.map fun x => "x" ++ hex x) ++ "]"

def optOf (t : Text) : Option Text := match t with | 'S' :: r => some r | _ => none

def diagStr (d : Option (Checker.Severity × Text)) : String :=
  match d with
  | none => "-"
  | some (.warning, m) => "W:" ++ hex m
  | some (.error, m) => "E:" ++ hex m

def refEcoFor (eco : Text) : Option Eco :=
  match String.ofList eco with
  | "npm" | "pnpm" | "jsr" => some Spec.RefEco.npm
  | "crates" => some Spec.RefEco.crates
  | "go" => some Spec.RefEco.go
  | "gha" => some Spec.RefEco.gha
  | _ => none

/-- `checker.pure eco latest tagres cur versions…` — the MODEL's status and diagnostic for the given reads -/
def checkerPure (eco latest tagres cur : Text) (versions : List Text) : String :=
  match matcherFor eco with
  | none => "UNKNOWN-ECO"
  | some m =>
    let r : Reads := ⟨some (optOf latest), fun _ => some (optOf tagres), some versions⟩
    match Checker.compareVersion m r cur with
    | none => "ERR"
    | some (st, lo) => s!"{st.toString} {diagStr (Checker.createDiagnostic st cur lo)}"

/-- `spec.diag eco latest tagres cur versions…` — the decision table over the REFERENCE semantics,
    with the two admissible answers when the anchor equals an excluded L -/
def specDiag (eco latest tagres cur : Text) (versions : List Text) : String :=
  match refEcoFor eco with
  | none => "UNKNOWN-ECO"
  | some E => diagStr (Spec.Decision.specDiag E (optOf latest) (optOf tagres) versions cur)

def intOfText (t : Text) : Int := (String.ofList t).toInt!

structure DState where
  srv : Srv := {}
  answer : ConfigM.Answer := .failed
  shape : Migrate.Shape := Migrate.fresh
  schemaDone : Bool := false
  claim : Claim.Sys := Claim.init {} 0
  db : Db := {}
  cfg : CacheCfg := ⟨86400000, true⟩
  now : Int := 0
deriving Inhabited

def keyStr (k : Key) : String := String.ofList k.reg ++ "/" ++ hex k.name

def dumpDb (db : Db) : String :=
  let ps := db.pkgs.map fun p =>
    let f := match p.fetchingSince with | some x => toString x | none => "-"
    s!"P {keyStr p.key} u={p.updatedAt} f={f} n={if p.notFound then 1 else 0};"
  let keyOf (pid : Nat) : String :=
    match db.pkgs.find? (fun p => p.id == pid) with
    | some p => keyStr p.key
    | none => s!"orphan{pid}"
  let vs := db.vers.map fun (pid, v) => s!"V {keyOf pid} {hex v};"
  let ts := db.tags.map fun (pid, t, v) => s!"T {keyOf pid} {hex t}={hex v};"
  String.join (ps ++ vs ++ ts)

def pairs : List Text → List (Text × Text)
  | a :: b :: rest => (a, b) :: pairs rest
  | _ => []

def natOfText (t : Text) : Nat := (String.ofList t).toNat!

def takeN {α} : Nat → List α → List α × List α
  | 0, l => ([], l)
  | _, [] => ([], [])
  | n + 1, a :: l => let (x, y) := takeN n l; (a :: x, y)

def parseFaults (t : Text) : Fetch.Faults :=
  { claim := List.elem 'c' t, replace := List.elem 'r' t, saveTags := List.elem 's' t, mark := List.elem 'm' t,
    finish := List.elem 'f' t }

/-- `<name> <kind> <nvs> v* <ntags> (t v)* <faults>` repeated -/
def parseJobsAux : Nat → List Text → List Fetch.Job
  | 0, _ => []
  | n + 1, name :: kind :: nv :: rest =>
    let (vs, rest) := takeN (natOfText nv) rest
    match rest with
    | nt :: rest =>
      let (tv, rest) := takeN (2 * natOfText nt) rest
      match rest with
      | fl :: rest =>
        let o : Fetch.Outcome :=
          match String.ofList kind with
          | "ok" => .ok vs (pairs tv)
          | "nf" => .notFound
          | "rl" => .rateLimited
          | _ => .invalid
        ⟨name, o, parseFaults fl⟩ :: parseJobsAux n rest
      | [] => []
    | [] => []
  | _, _ => []

def parseJobs (f : List Text) : List Fetch.Job :=
  match f with
  | n :: rest => parseJobsAux (natOfText n) rest
  | [] => []

def sortTexts (xs : List Text) : List Text :=
  (xs.map String.ofList).mergeSort (fun a b => a ≤ b) |>.map String.toList

def shapeStr (s : Migrate.Shape) : String :=
  s!"pk={tf s.hasPackages} vs={tf s.hasVersions} dt={tf s.hasDistTags} fs={tf s.hasFetchingSince} nf={tf s.hasNotFound} uv={s.userVersion}"

/-- does attempt `a` stop at a statement point before its next statement? -/
def parksAt (a : Migrate.Attempt) : Bool :=
  if a.done || a.failed then true
  else if a.pc ≥ 1 && a.pc ≤ 6 then true
  else if a.pc == 7 then decide (1 > a.cur)
  else if a.pc == 8 then decide (2 > a.cur)
  else if a.pc == 9 then decide (2 > a.cur)
  else false

/-- execute statements until the next statement point (fuel: at most 12 statements) -/
def runToPark : Nat → Migrate.Shape → Migrate.Attempt → Migrate.Shape × Migrate.Attempt
  | 0, s, a => (s, a)
  | n + 1, s, a =>
    let (s', a') := Migrate.stepAttempt s a false
    if parksAt a' then (s', a') else runToPark n s' a'

def advanceAtt (s : Migrate.Shape) (a : Migrate.Attempt) (ok : Bool) : Migrate.Shape × Migrate.Attempt :=
  if a.done || a.failed then (s, a)
  else if !ok then (s, { a with failed := true })
  else runToPark 12 s a

def attStr (a : Migrate.Attempt) : String := if a.done then "ok" else if a.failed then "E:db" else "pending"

def finishAtt : Nat → Migrate.Shape → Migrate.Attempt → Migrate.Shape × Migrate.Attempt
  | 0, s, a => (s, a)
  | n + 1, s, a => if a.done || a.failed then (s, a) else let (s', a') := advanceAtt s a true; finishAtt n s' a'

/-- `<npk> (reg name upd fs nf)* <nv> (pidx v)* <nt> (pidx t v)*` → model rows -/
def loadRows (f : List Text) (hfs hnf hdt : Bool) : Db :=
  match f with
  | npk :: rest =>
    let n := natOfText npk
    let (pk, rest) := takeN (5 * n) rest
    let rec pkgs : Nat → List Text → List Pkg
      | i, reg :: name :: upd :: fs :: nf :: r =>
        ⟨i + 1, ⟨reg, name⟩, intOfText upd, (if hfs && fs != ['-'] then some (intOfText fs) else none),
          hnf && nf == ['1']⟩ :: pkgs (i + 1) r
      | _, _ => []
    let ps := pkgs 0 pk
    match rest with
    | nv :: rest =>
      let (vs, rest) := takeN (2 * natOfText nv) rest
      let rec vers : List Text → List (Nat × Text)
        | p :: v :: r => (natOfText p + 1, v) :: vers r
        | _ => []
      match rest with
      | nt :: rest =>
        let (ts, _) := takeN (3 * natOfText nt) rest
        let rec tags : List Text → List (Nat × Text × Text)
          | p :: t :: v :: r => (natOfText p + 1, t, v) :: tags r
          | _ => []
        { pkgs := ps, vers := vers vs, tags := if hdt then tags ts else [], nextId := n + 1 }
      | [] => { pkgs := ps, vers := vers vs, nextId := n + 1 }
    | [] => { pkgs := ps, nextId := n + 1 }
  | [] => {}

/-- the statement points an operation passes, in order, each with the database that a crash / error
    at that point leaves behind; and the result + database when it completes -/
def crashPoints (st : DState) (op : List Text) : List (String × Db) × String × Db :=
  let db := st.db
  match op with
  | opn :: reg :: name :: rest =>
    let k : Key := ⟨reg, name⟩
    match String.ofList opn with
    | "replace" =>
      let p := Txn.replaceProg k rest st.now
      let n := rest.length
      let names := ["replace.begin", "replace.after_upsert"] ++ List.replicate n "replace.after_version" ++
        ["replace.before_commit"]
      let idx : List Nat := [0, 1] ++ (List.range n).map (· + 2) ++ [1 + n]
      (((names.zip idx).map fun (nm, i) => (nm, Txn.crashAt p i db)) ++ [("replace.after_commit", p.full db)],
        "ok", Cache.replaceVersions db k rest st.now)
    | "tags" =>
      let tags := pairs rest
      if tags.isEmpty then ([], "ok", db)
      else
        let p := Txn.tagsProg k tags st.now
        let names := ["tags.begin", "tags.after_upsert", "tags.after_delete"] ++ List.replicate tags.length "tags.after_tag" ++
          ["tags.before_commit"]
        let idx : List Nat := [0, 1, 2] ++ (List.range tags.length).map (· + 3) ++ [2 + tags.length]
        (((names.zip idx).map fun (nm, i) => (nm, Txn.crashAt p i db)) ++ [("tags.after_commit", p.full db)],
          "ok", Cache.saveDistTags db k tags st.now)
    | "claim" =>
      let (db1, cnt) := db.stmtClaimUpdate k st.now (st.now - Generated.fetchTimeoutMs)
      let r := Cache.tryStartFetch db k st.now
      if cnt > 0 then ([("claim.before_update", db)], tf r.2, r.1)
      else ([("claim.before_update", db), ("claim.before_insert", db1)], tf r.2, r.1)
    | "finish" => ([("finish.before_update", db)], "ok", Cache.finishFetch db k)
    | "mark" => ([("mark.before_update", db)], "ok", Cache.markNotFound db k st.now)
    | _ => ([], "?", db)
  | [opn] =>
    if String.ofList opn == "open" then
      if st.schemaDone then ((["schema.1", "schema.2", "schema.3", "schema.4", "schema.5", "schema.6"].map fun n => (n, db)), "ok", db)
      else ((["schema.1", "schema.2", "schema.3", "schema.4", "schema.5", "schema.6", "migrate.before_stmt",
              "migrate.before_stmt", "migrate.before_user_version"].map fun n => (n, db)), "ok", db)
    else ([], "?", db)
  | _ => ([], "?", db)

def parsePkgs : Nat → List Text → List PkgInfo × List Text
  | 0, r => ([], r)
  | n + 1, name :: version :: hash :: so :: eo :: line :: col :: extra :: cs :: ce :: r =>
    let p : PkgInfo := ⟨name, version, optOf hash, natOfText so, natOfText eo, natOfText line, natOfText col,
      (optOf extra).map fun t => (t, natOfText cs, natOfText ce)⟩
    let (ps, r') := parsePkgs n r
    (p :: ps, r')
  | _, r => ([], r)

def actionStr (a : Action) : String :=
  s!"{hex a.title}|{a.line}|{a.startCol}|{a.line}|{a.endCol}|{hex a.newText}"

/-- `ca.run` on the model; the cache reads are those of a cache filled with `versions` (+ latest tag) -/
def caRun (f : List Text) : String :=
  match f with
  | eco :: line :: ch :: ltag :: nv :: rest =>
    let (versions, rest) := takeN (natOfText nv) rest
    match rest with
    | npk :: rest =>
      let (pkgs, rest) := parsePkgs (natOfText npk) rest
      let tagMap : List (Text × Text) := match rest with | _ :: r => pairs r | [] => []
      -- what the scripted fetcher records as requested
      match Bump.findAtPosition pkgs (natOfText line) (natOfText ch) with
      | none => "- [] calls=[]"
      | some p =>
        let idx := (pkgs.findIdx? (· == p)).getD 0
        let isGha := String.ofList eco == "gha"
        let tagSha (_ : Text) (tag : Text) : Option Text :=
          match tagMap.find? (·.1 == tag) with
          | some (_, sha) => if sha == "ERR".toList then none else some sha
          | none => none
        let vsRead : Option (List Text) := some versions     -- order: the model treats the row order as given
        let latest : Option (Option Text) :=
          some (Latest.getLatest true (optOf ltag) versions)
        let acts :=
          if isGha && p.commitHash.isSome then Bump.bumpActionsWithSha tagSha vsRead latest p
          else Bump.bumpActions vsRead p
        -- calls the fetcher would see, in order
        let calls : List Text :=
          if isGha && p.commitHash.isSome && !versions.isEmpty then
            if p.extra.isNone then
              match latest with
              | some (some l) => [p.name ++ ['@'] ++ l]
              | _ => []
            else (Bump.dedupTargets (Bump.targets p.version versions) []).map fun (v, _) =>
              p.name ++ ['@'] ++ (Bump.extractPrefix p.version ++ v)
          else []
        s!"{idx} [{",".intercalate (acts.map actionStr)}] calls=[{",".intercalate (calls.map hex)}]"
    | [] => "BAD"
  | _ => "BAD"

def adapterOf (t : Text) : Option Registry.Adapter :=
  match String.ofList t with
  | "npm" => some .npm | "crates" => some .crates | "go" => some .go | "github" => some .github
  | "jsr" => some .jsr | "pypi" => some .pypi | _ => none

def regErrStr : Registry.RegErr → String
  | .notFound => "notfound" | .rateLimited => "ratelimited" | .invalid => "invalid"

/-- hyper discards the body of 204 / 304 replies -/
def effectiveBody (status : Nat) (body : Text) : Text := if status == 204 || status == 304 then [] else body

/-- the scripted exchanges of a request: (status headers body)* -/
def pagesOf : List Text → List Registry.Page
  | st :: hd :: body :: rest =>
    let s := natOfText st
    ⟨s, hd, effectiveBody s body⟩ :: pagesOf rest
  | _ => []

def httpFetch (f : List Text) : String :=
  match f with
  | ad :: name :: _ :: rest@(status :: _ :: body :: _) =>
    if String.ofList ad == "github" then
      let path := Registry.requestPath .github name
      let (res, links) := Registry.githubFetch (pagesOf rest)
      -- a followed link is requested as its path (the scripted server's own address is written {BASE})
      let paths := path :: links.map fun l => (stripPrefix "{BASE}".toList l).getD l
      match res with
      | .ok r => s!"ok {listStr r.versions} tags=[] paths={listStr paths}"
      | .error e => s!"err {regErrStr e} paths={listStr paths}"
    else
    match adapterOf ad with
    | none => "BAD"
    | some a =>
      let st := natOfText status
      let path := Registry.requestPath a name
      match Registry.interpret a st (effectiveBody st body) with
      | .ok r =>
        let tags := (r.tags.map fun (k, v) => hex k ++ "=" ++ hex v)
        s!"ok {listStr r.versions} tags=[{",".intercalate tags}] paths={listStr [path]}"
      | .error e => s!"err {regErrStr e} paths={listStr [path]}"
  | _ => "BAD"

def httpTagSha (f : List Text) : String :=
  match f with
  | _ :: name :: tag :: _ :: status :: _ :: body :: _ =>
    let st := natOfText status
    let path := "/repos/".toList ++ name ++ "/tags".toList
    match Registry.fetchTagSha st (effectiveBody st body) tag with
    | .ok sha => s!"ok {hex sha} paths={listStr [path]}"
    | .error e => s!"err {regErrStr e} paths={listStr [path]}"
  | _ => "BAD"

def diagMsgStr (d : Diag) : String :=
  let sv := match d.sev with | .warning => "W" | .error => "E"
  s!"{sv}:{hex d.msg}@{d.line}:{d.c1}-{d.line}:{d.c2}"

def msgStr : Msg → String
  | .pub uri ds => s!"pub {hex uri} [{",".intercalate (ds.map diagMsgStr)}]"
  | .show kind m => s!"show {kind} {hex m}"

def parkedStr (s : Srv) : String :=
  let all := s.tasks.flatMap fun t => t.waiting.map fun n => String.ofList t.reg ++ "/" ++ hex n
  "parked=[" ++ ",".intercalate (all.mergeSort (fun a b => a ≤ b)) ++ "]"

def outLine (msgs : List String) (s : Srv) : String := " ; ".intercalate (msgs ++ [parkedStr s])

/-- unhex a kind name of a tree dump -/
def unhexText (t : Text) : Text :=
  let rec go : Text → List Nat → List Nat
    | a :: b :: r, acc => go r (acc ++ [hexVal a * 16 + hexVal b])
    | _, acc => acc
  (String.fromUTF8! (ByteArray.mk ((go t []).map (·.toUInt8)).toArray)).toList

/-- one item of a `ts.dump`: depth,kindhex,sb,eb,sr,sc,er,ec,field,flags -/
def dumpItem (t : Text) : Option (Nat × NodeInfo) :=
  match splitChar ',' t with
  | [d, k, sb, eb, sr, sc, er, ec, fld, flags] =>
    some (natOfText d, { kind := String.ofList (unhexText k), sb := natOfText sb, eb := natOfText eb, sr := natOfText sr, sc := natOfText sc,
                          er := natOfText er, ec := natOfText ec, field := if fld == ['-'] then none else some (String.ofList fld),
                          named := flags.any (· == 'n'), missing := flags.any (· == 'm') })
  | _ => none

def buildForest : Nat → Nat → List (Nat × NodeInfo) → List Node × List (Nat × NodeInfo)
  | 0, _, items => ([], items)
  | _ + 1, _, [] => ([], [])
  | fuel + 1, d, (d', info) :: rest =>
    if d' == d then
      let (kids, rest1) := buildForest fuel (d + 1) rest
      let (sibs, rest2) := buildForest fuel d rest1
      (Node.mk info kids :: sibs, rest2)
    else ([], (d', info) :: rest)

def treeOfDump (dump : Text) : Option Node :=
  let items := (splitChar ';' dump).filterMap dumpItem
  (buildForest (items.length + 2) 0 items).1.head?

def pkgOut (p : PkgInfo) : String :=
  let extra := match p.extra with | some (t, a, b) => s!"S{hex t}:{a}:{b}" | none => "-"
  let h := match p.commitHash with | some x => "S" ++ hex x | none => "-"
  s!"{hex p.name}|{hex p.version}|{h}|{p.startOffset}|{p.endOffset}|{p.line}|{p.column}|{extra}"

/-- the PEP 508 oracle of a pyproject request: pairs (requirement, answer) as the harness op `pep508` reports them -/
def pepOf (pairs : List (Text × Text)) (dep : Text) : Parsers.Pep :=
  match pairs.find? (·.1 == dep) with
  | some (_, 'P' :: r) =>
    match splitChar '|' r with
    | [n, s] => .ok (unhexText n) (unhexText s)
    | _ => .bad
  | some (_, ['U']) => .url
  | _ => .bad

mutual
def allNodes : Node → List Node
  | .mk i cs => Node.mk i cs :: allNodesList cs
def allNodesList : List Node → List Node
  | [] => []
  | c :: rest => allNodes c ++ allNodesList rest
end

def ajsonStr : C04.AJson → String
  | .str t c => s!"s{hex t}{if c then "" else "!"}"
  | .other k => s!"o({k})"
  | .obj ms => "{" ++ ",".intercalate (ms.map fun m =>
      (match m.1 with | some k => hex k | none => "-") ++ ":" ++
      (match m.2 with
       | some (.str t c) => s!"s{hex t}{if c then "" else "!"}"
       | some (.other k) => s!"o({k})"
       | some (.obj ms2) => "{" ++ ",".intercalate (ms2.map fun m2 =>
           (match m2.1 with | some k => hex k | none => "-") ++ ":" ++
           (match m2.2 with | some (.str t c) => s!"s{hex t}{if c then "" else "!"}" | some (.other k) => s!"o({k})" | some (.obj _) => "{..}" | none => "-")) ++ "}"
       | none => "-")) ++ "}"

def aleafStr : C04.ALeaf → String
  | .key t => s!"k{hex t}"
  | .str t c => s!"s{hex t}{if c then "" else "!"}"
  | .other => "o"

def atokStr : C04.ATok → String
  | .key t => s!"k{hex t}"
  | .dotted t => s!"d{hex t}"
  | .str t c => s!"s{hex t}{if c then "" else "!"}"
  | .inline ps => "{" ++ ";".intercalate (ps.map fun p => ",".intercalate (p.map aleafStr)) ++ "}"
  | .other => "o"

def atableStr (t : C04.ATable) : String :=
  "[" ++ (match t.name with | some n => hex n | none => "-") ++ "|" ++
    ";".intercalate (t.pairs.map fun p => ",".intercalate (p.map atokStr)) ++ "|" ++
    ";".intercalate (t.leafPairs.map fun p => ",".intercalate (p.map aleafStr)) ++ "]"

def ptokStr : C04.PTok → String
  | .key t => s!"k{hex t}"
  | .array strs => "[" ++ ",".intercalate (strs.map hex) ++ "]"
  | .other => "o"

def ptableStr (t : C04.PTable) : String :=
  "[" ++ (match t.name with | some n => hex n | none => "-") ++ "|" ++
    ";".intercalate (t.pairs.map fun p => ",".intercalate (p.map ptokStr)) ++ "]"

/-- `x.abs <eco> <text> <dump>` : the abstract reading of the real tree (the premise of the layout theorems):
    abstract JSON for package.json / deno.json, abstract TOML for Cargo.toml and pyproject.toml, the position-free readings of workflows and pnpm-workspace.yaml -/
def absStep (op : String) (f : List Text) : Option String :=
  match op, f with
  | "x.abs", [eco, text, dump] =>
    match treeOfDump dump with
    | none => some "-"
    | some tree =>
      if eco == "crates".toList then some (" ".intercalate ((C04.normToml (C04.absToml text tree)).map atableStr))
      else if eco == "pypi".toList then some (" ".intercalate ((C04.normPy (C04.absPy text tree)).map ptableStr))
      else if eco == "gha".toList then
        some (";".intercalate ((C04.readingGha text tree).map fun r => hex r.1 ++ (match r.2 with | some c => "#" ++ hex c | none => "")))
      else if eco == "pnpm".toList then
        some (";".intercalate ((C04.readingPnpm text tree).map fun r => match r with | some (k, v) => hex k ++ "=" ++ hex v | none => "-"))
      else if eco == "jsr".toList then some (match C04.absRootC text tree with | some a => ajsonStr a | none => "-")
      else some (match C04.absRoot text tree with | some a => ajsonStr a | none => "-")
  | _, _ => none

/-- the PyPI matcher model, the PEP 440 library's answers supplied with the request:
    `pypi.base <spec>` ; `pypi.exists <spec> <specOk> (<v> <verOk> <contains>)*` ;
    `pypi.cmp <cur> <latest> <specOk> <latestOk> <contains> <baseOk> <baseLe>` -/
def pypiStep (op : String) (f : List Text) : Option String :=
  let b (t : Text) : Bool := t == ['1']
  match op, f with
  | "pypi.base", [s] => some (hex (Pypi.extractBase (trim s)))
  | "pypi.exists", spec :: specOk :: rest =>
    let rec triples : List Text → List (Text × Bool × Bool)
      | v :: a :: c :: r => (v, b a, b c) :: triples r
      | _ => []
    let tb := triples rest
    let P : Pep440 := { specOk := fun _ => b specOk, verOk := fun v => (tb.find? (·.1 == v)).map (·.2.1) |>.getD false,
                        contains := fun _ v => (tb.find? (·.1 == v)).map (·.2.2) |>.getD false, le := fun _ _ => false }
    some (if Pypi.versionExists P spec (tb.map (·.1)) then "T" else "F")
  | "pypi.cmp", [cur, latest, specOk, latestOk, contains, baseOk, baseLe] =>
    let base := Pypi.extractBase (trim cur)
    let P : Pep440 := { specOk := fun _ => b specOk, verOk := fun v => if v == latest then b latestOk else if v == base then b baseOk else false,
                        contains := fun _ _ => b contains, le := fun _ _ => b baseLe }
    some (Pypi.compareToLatest P cur latest).toString
  | _, _ => none

/-- `x.hyp <eco> <text> <dump>` : how many `string` nodes of the real tree satisfy the premise of the location theorems -/
def hypStep (op : String) (f : List Text) : Option String :=
  match op, f with
  | "x.hyp", [_, text, dump] =>
    match treeOfDump dump with
    | none => some "strings=0 ok=0"
    | some tree =>
      let ss := (allNodes tree).filter fun n => n.kind == "string"
      some s!"strings={ss.length} ok={(ss.filter (Pos.quotedNodeB text)).length}"
  | _, _ => none

/-- `x.parse <eco> <text> <dump> (<requirement> <answer>)*` : the parser model on the real syntax tree -/
def parseStep (op : String) (f : List Text) : Option String :=
  match op, f with
  | "x.parse", eco :: text :: dump :: rest =>
    let ecoS := String.ofList eco
    if ecoS == "go" then some (";".intercalate ((Parsers.goMod text).map pkgOut))
    else
      match treeOfDump dump with
      | none => some ""
      | some tree =>
        let pkgs :=
          if ecoS == "npm" then Parsers.packageJson text tree
          else if ecoS == "jsr" then Parsers.denoJson text tree
          else if ecoS == "crates" then Parsers.cargoToml text tree
          else if ecoS == "pypi" then Parsers.pyproject (pepOf (pairs rest)) text tree
          else if ecoS == "pnpm" then Parsers.pnpmWorkspace text tree
          else if ecoS == "gha" then Parsers.workflow text tree
          else []
        some (";".intercalate (pkgs.map pkgOut))
  | _, _ => none

/-- the LSP server model, same line protocol as the harness (`l.*`), documents given as parsed packages -/
def lspStep (st : DState) (op : String) (f : List Text) : Option (DState × String) :=
  match op, f with
  | "ml.config", [a] =>
    let ans : ConfigM.Answer :=
      if a == "FAIL".toList then .failed else if a == "NONE".toList then .empty
      else match Json.parse a with
        | some j => .value j
        | none => .failed
    some ({ st with answer := ans }, "ok")
  | "ml.start", [ip] =>
    some ({ st with srv := { now := 1000, ccfg := ⟨Generated.defaultRefreshIntervalMs, ip == ['T']⟩ } }, "ok")
  | "ml.start", [ip, store, faults] =>
    -- faults: "L:lodash,V:*" — only the read sites are part of the server model
    let fl : List (Text × Char) := (splitChar ',' faults).filterMap fun item =>
      match item with
      | c :: ':' :: name => if c == 'L' || c == 'T' || c == 'V' then some (name, c) else none
      | _ => none
    some ({ st with srv := { now := 1000, ccfg := ⟨Generated.defaultRefreshIntervalMs, ip == ['T']⟩, store := store == ['T'], faults := fl } }, "ok")
  | "site.npmalias", [v] =>
    some (st, match Sites.npmAlias v with
      | none => "PANIC" | some none => "N" | some (some (n, ver)) => s!"P{hex n}|{hex ver}")
  | "site.jsr", [v] =>
    some (st, match Sites.jsrSpecifier v with
      | none => "PANIC" | some none => "N" | some (some (n, ver)) => s!"P{hex n}|{hex ver}")
  | "site.uses", [v] =>
    some (st, match Sites.usesSplit v with
      | none => "PANIC" | some none => "N" | some (some (o, r, ver)) => s!"P{hex (o ++ '/' :: r)}|{hex ver}")
  | "site.split", [v] =>
    -- the byte-offset model of split_and_parts against the character-level model the C02 streams tie to the code
    some (st, match Sites.splitAndPartsBytes v with
      | none => "PANIC"
      | some ps => if ps == Npm.splitAndParts v then "same " ++ listStr ps else "DIFF " ++ listStr ps ++ " " ++ listStr (Npm.splitAndParts v))
  | "ml.restart", [store] =>
    -- a new server process over the same database file
    some ({ st with srv := { now := 1000, ccfg := st.srv.ccfg, db := st.srv.db, store := store == ['T'] } }, "ok")
  | "l.datadir", [x, h] =>
    let opt (t : Text) : Option Text := match t with | 'S' :: r => some r | _ => none
    some (st, s!"{hex (DataDir.dataDir (opt x) (opt h))} {hex (DataDir.dbPath (opt x) (opt h))} {hex (DataDir.logPath (opt x) (opt h))}")
  | "ml.cache", reg :: name :: vs =>
    some ({ st with srv := { st.srv with db := Cache.replaceVersions st.srv.db ⟨reg, name⟩ vs st.srv.now } }, "ok")
  | "ml.tags", reg :: name :: kv =>
    some ({ st with srv := { st.srv with db := Cache.saveDistTags st.srv.db ⟨reg, name⟩ (pairs kv) st.srv.now } }, "ok")
  | "ml.now", [t] => some ({ st with srv := { st.srv with now := intOfText t } }, "ok")
  | "ml.init", regs =>
    let (s2, msgs) := ConfigM.startUp st.srv st.answer regs
    some ({ st with srv := s2 }, outLine ("cfgreq" :: msgs.map (fun m => msgStr (Server.wire s2 m))) s2)
  | "ml.edit", uri :: npk :: rest =>
    let (pkgs, more) := parsePkgs (natOfText npk) rest
    -- an optional last field: the document text (needed by code actions only)
    let content : Text := match more with | [c] => c | _ => []
    let (s', msgs) := Server.edit st.srv uri pkgs content
    some ({ st with srv := s' }, outLine (msgs.map (fun m => msgStr (Server.wire s' m))) s')
  | "ml.close", [uri] => let s' := Server.close st.srv uri; some ({ st with srv := s' }, outLine [] s')
  | "ml.action", [uri, line, ch] =>
    let r := match Server.codeAction st.srv uri (natOfText line) (natOfText ch) with
      | none => "act none"
      | some acts => "act [" ++ ",".intercalate (acts.map fun a => s!"{hex a.title}|{a.line}|{a.startCol}|{a.endCol}|{hex a.newText}") ++ "]"
    some (st, outLine [r] st.srv)
  | "ml.reply", reg :: name :: kind :: rest =>
    let o : Fetch.Outcome :=
      match String.ofList kind with
      | "ok" =>
        let (vs, tg) := rest.span (· != ['|'])
        .ok vs (pairs (tg.drop 1))
      | "nf" => .notFound
      | "rl" => .rateLimited
      | _ => .invalid
    if (st.srv.tasks.any fun t => t.reg == reg && t.waiting.contains name) then
      let (s', msgs) := Server.reply st.srv reg name o
      some ({ st with srv := s' }, outLine (msgs.map (fun m => msgStr (Server.wire s' m))) s')
    else some (st, "noparked")
  | "ml.settle", [] => some (st, outLine [] st.srv)
  | "ml.dump", [] => some (st, dumpDb st.srv.db)
  | _, _ => none

/-- stateful cache ops; `none` when the op is not a cache op -/
def cacheStep (st : DState) (op : String) (f : List Text) : Option (DState × String) :=
  match op, f with
  | "c.reset", [ip, interval] =>
    some ({ db := {}, cfg := ⟨intOfText interval, ip == ['T']⟩, now := 0, schemaDone := false }, "ok")
  | "c.configure", [_, interval, ip] => some ({ st with cfg := ⟨intOfText interval, ip == ['T']⟩ }, "ok")
  | "c.open", [_] => some ({ st with schemaDone := true, shape := Migrate.openDb st.shape }, "ok")
  | "m.make", hfs :: hnf :: hdt :: uv :: rows =>
    let (a, b, c) := (hfs == ['T'], hnf == ['T'], hdt == ['T'])
    some ({ st with db := loadRows rows a b c, now := 0, cfg := ⟨1000, true⟩, schemaDone := true,
                    shape := ⟨true, true, c, a, b, intOfText uv⟩ }, "ok")
  | "m.fresh", [] => some ({ st with db := {}, now := 0, cfg := ⟨1000, true⟩, schemaDone := false, shape := Migrate.fresh }, "ok")
  | "m.shape", [] => some (st, shapeStr st.shape)
  | "m.open2", [moves] =>
    let (s0, a0) := runToPark 12 st.shape {}
    let (s0, b0) := runToPark 12 s0 {}
    let (s1, a1, b1) := moves.foldl (fun (acc : Migrate.Shape × Migrate.Attempt × Migrate.Attempt) ch =>
      let (s, a, b) := acc
      if ch == 'a' then let (s', a') := advanceAtt s a true; (s', a', b)
      else if ch == 'b' then let (s', b') := advanceAtt s b true; (s', a, b')
      else if ch == 'A' then let (s', a') := advanceAtt s a false; (s', a', b)
      else if ch == 'B' then let (s', b') := advanceAtt s b false; (s', a, b')
      else acc) (s0, a0, b0)
    let (s2, a2) := finishAtt 12 s1 a1
    let (s3, b2) := finishAtt 12 s2 b1
    some ({ st with shape := s3, schemaDone := true },
      s!"A={attStr a1} B={attStr b1} {shapeStr s1} | finally A={attStr a2} B={attStr b2} {shapeStr s3}")
  | "c.close", [_] => some (st, "ok")
  | "c.now", [t] => some ({ st with now := intOfText t }, "ok")
  | "c.replace", _ :: reg :: name :: vs =>
    some ({ st with db := Cache.replaceVersions st.db ⟨reg, name⟩ vs st.now }, "ok")
  | "c.tags", _ :: reg :: name :: kv =>
    some ({ st with db := Cache.saveDistTags st.db ⟨reg, name⟩ (pairs kv) st.now }, "ok")
  | "c.mark", [_, reg, name] => some ({ st with db := Cache.markNotFound st.db ⟨reg, name⟩ st.now }, "ok")
  | "c.claim", [_, reg, name] =>
    let (db', b) := Cache.tryStartFetch st.db ⟨reg, name⟩ st.now
    some ({ st with db := db' }, tf b)
  | "c.finish", [_, reg, name] => some ({ st with db := Cache.finishFetch st.db ⟨reg, name⟩ }, "ok")
  | "c.versions", [_, reg, name] => some (st, listStr (Cache.getVersions st.db ⟨reg, name⟩))
  | "c.latest", [_, reg, name] => some (st, opt (Cache.getLatestVersion st.cfg st.db ⟨reg, name⟩))
  | "c.exists", [_, reg, name, v] => some (st, tf (Cache.versionExists st.db ⟨reg, name⟩ v))
  | "c.tag", [_, reg, name, t] => some (st, opt (Cache.getDistTag st.db ⟨reg, name⟩ t))
  | "c.refresh", [_] =>
    some (st, "[" ++ ",".intercalate ((Cache.needingRefresh st.cfg st.db st.now).map keyStr) ++ "]")
  | "c.filter", _ :: reg :: names => some (st, listStr (Cache.filterNotInCache st.db reg names))
  | "c.dump", [] => some (st, dumpDb st.db)
  | "latest.pure", ip :: tag :: rows =>
    let tagO : Option Text := match tag with | 'S' :: r => some r | _ => none
    some (st, opt (Latest.getLatest (ip == ['T']) tagO rows))
  | "latest.ok", ip :: tag :: ans :: rows =>
    let tagO : Option Text := match tag with | 'S' :: r => some r | _ => none
    let ansO : Option Text := match ans with | 'S' :: r => some r | _ => none
    some (st, tf (Spec.LatestSpec.acceptable (ip == ['T']) tagO rows ansO))
  | "crash.run", _ :: n :: op =>
    let (pts, res, full) := crashPoints st op
    let i := natOfText n
    match pts[i - 1]? with
    | some (nm, d) => if i == 0 then some ({ st with db := full, schemaDone := true }, s!"completed:{res} reopen-ok")
                      else some ({ st with db := d, schemaDone := true }, s!"died@{nm} reopen-ok")
    | none => some ({ st with db := full, schemaDone := true }, s!"completed:{res} reopen-ok")
  | "crash.fail", n :: op =>
    let (pts, res, full) := crashPoints st op
    let i := natOfText n
    match pts[i - 1]? with
    | some (nm, d) => if i == 0 then some ({ st with db := full, schemaDone := true }, s!"completed:{res} reopen-ok")
                      else
                        let r := if (String.ofList (op.headD [])) == "open" then "open-E:db" else "E:db"
                        some ({ st with db := d, schemaDone := true }, s!"failed@{nm}:{if nm.startsWith "schema" || nm.startsWith "migrate" then "E:db" else r} reopen-ok")
    | none => some ({ st with db := full, schemaDone := true }, s!"completed:{res} reopen-ok")
  | "fetch.missing", reg :: gf :: jobs =>
    let r := Fetch.fetchMissing st.db reg st.now (parseJobs jobs) (List.elem 'F' gf)
    some ({ st with db := r.db }, s!"fetched={listStr r.fetched} requested={listStr r.requested}")
  | "fetch.refresh", reg :: gf :: jobs =>
    if List.elem 'n' gf then some (st, "refresh-query-failed requested=[]")
    else
      let js := parseJobs jobs
      let due := (Cache.needingRefresh st.cfg st.db st.now).filter (·.reg == reg)
      let todo : List Fetch.Job := due.map fun k =>
        match js.find? (·.name == k.name) with
        | some j => j
        | none => ⟨k.name, .invalid, {}⟩
      let r := Fetch.runJobs st.db reg st.now todo
      some ({ st with db := r.db }, s!"done requested={listStr (sortTexts r.requested)}")
  | "q.reset", [] => some ({ st with claim := Claim.init {} 0 }, "ok")
  | "q.tick", [d] => some ({ st with claim := Claim.step st.claim (.tick (intOfText d).toNat) }, "ok")
  | "q.enter", [c, _, reg, name] =>
    some ({ st with claim := Claim.step st.claim (.enter (intOfText c).toNat ⟨reg, name⟩) }, "P")
  | "q.update", [c] =>
    let cn := (intOfText c).toNat
    if (st.claim.entered.find? (·.1 == cn)).isNone then some (st, "nop")
    else
      let σ' := Claim.step st.claim (.update cn)
      some ({ st with claim := σ' }, if σ'.wins.length > st.claim.wins.length then "T" else "P")
  | "q.insert", [c] =>
    let cn := (intOfText c).toNat
    if (st.claim.pending.find? (·.1 == cn)).isNone then some (st, "nop")
    else
      let σ' := Claim.step st.claim (.insert cn)
      some ({ st with claim := σ' }, if σ'.wins.length > st.claim.wins.length then "T" else "F")
  | "q.busy", [c] =>
    let cn := (intOfText c).toNat
    if (st.claim.pending.find? (·.1 == cn)).isSome then
      some ({ st with claim := Claim.step st.claim (.busy cn) }, "E:db")
    else if (st.claim.entered.find? (·.1 == cn)).isSome then
      some ({ st with claim := Claim.step st.claim (.die cn) }, "E:db")
    else some (st, "nop")
  | "q.atomic", [c, _, reg, name] =>
    let σ' := Claim.step st.claim (.startAtomic (intOfText c).toNat ⟨reg, name⟩)
    some ({ st with claim := σ' }, if σ'.wins.length > st.claim.wins.length then "T" else "F")
  | "q.store", _ :: reg :: name :: vs => some ({ st with claim := Claim.step st.claim (.store ⟨reg, name⟩ vs) }, "ok")
  | "q.mark", [_, reg, name] => some ({ st with claim := Claim.step st.claim (.mark ⟨reg, name⟩) }, "ok")
  | "q.release", [_, reg, name] => some ({ st with claim := Claim.step st.claim (.release ⟨reg, name⟩) }, "ok")
  | "q.dump", [] => some (st, dumpDb st.claim.db)
  | "latest.same", [a, b] =>
    match Semver.parseVersion a, Semver.parseVersion b with
    | some x, some y => some (st, tf (Semver.cmp x y == .eq))
    | _, _ => some (st, "F")
  | "c.latest_rows", [_, reg, name] =>
    -- the model's own answer (row order = insertion order); compared loosely, see tools/props/C03.py
    some (st, s!"{opt (Cache.getLatestVersion st.cfg st.db ⟨reg, name⟩)} {opt (Cache.getDistTag st.db ⟨reg, name⟩ "latest".toList)} {listStr (Cache.getVersions st.db ⟨reg, name⟩)}")
  | _, _ => none

end DriverLib
