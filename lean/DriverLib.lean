import Vlsp.Text
import Vlsp.Model.Semver
import Vlsp.Model.Detect
import Vlsp.Spec.Supported

/-! Line-protocol plumbing shared by the driver's op tables. -/
namespace DriverLib
open Vlsp Vlsp.Text

def hexVal (c : Char) : Nat :=
  if '0' ≤ c && c ≤ '9' then c.toNat - 48
  else if 'a' ≤ c && c ≤ 'f' then c.toNat - 87
  else if 'A' ≤ c && c ≤ 'F' then c.toNat - 55
  else 0

def unhexBytes : List Char → ByteArray → ByteArray
  | a :: b :: rest, acc => unhexBytes rest (acc.push (UInt8.ofNat (hexVal a * 16 + hexVal b)))
  | _, acc => acc

def unhex (s : String) : Text :=
  match String.fromUTF8? (unhexBytes s.toList ByteArray.empty) with
  | some str => str.toList
  | none => []

def hexDigit (n : Nat) : Char := if n < 10 then Char.ofNat (48 + n) else Char.ofNat (87 + n)

def hex (t : Text) : String :=
  let bytes := (String.ofList t).toUTF8
  String.ofList (bytes.toList.flatMap fun b => [hexDigit (b.toNat / 16), hexDigit (b.toNat % 16)])

def tf (b : Bool) : String := if b then "T" else "F"

def opt (o : Option Text) : String :=
  match o with
  | some t => "S" ++ hex t
  | none => "-"

def verStr (v : Version) : String :=
  s!"{v.major}.{v.minor}.{v.patch}|{hex v.pre}|{hex v.build}"

def ordStr : Ordering → String
  | .lt => "less" | .eq => "equal" | .gt => "greater"

end DriverLib
