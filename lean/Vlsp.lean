import Vlsp.Text
import Vlsp.Generated
import Vlsp.Model.Semver
import Vlsp.Model.Detect
