import DriverLib
open Vlsp Vlsp.Text DriverLib

def dispatch (op : String) (f : List Text) : String :=
  match op, f with
  | "detect", [uri] =>
    match Detect.detect uri with
    | some r => r
    | none => "-"
  | "spec.detect", [uri] =>
    match Spec.Supported.kindB uri with
    | some r => r
    | none => "-"
  | "semver.strict", [s] =>
    match Semver.parseStrict s with
    | some v => s!"{verStr v} {hex (Semver.toText v)}"
    | none => "-"
  | "semver.lenient", [s] =>
    match Semver.parseVersion s with
    | some v => s!"{verStr v} {hex (Semver.toText v)}"
    | none => "-"
  | "semver.cmp", [a, b] =>
    match Semver.parseStrict a, Semver.parseStrict b with
    | some x, some y => s!"{ordStr (Semver.cmp x y)} {(tf (x == y)).toLower}"
    | _, _ => "-"
  | "semver.ispre", [s] => tf (Semver.isPrerelease s)
  | "semver.bump", cur :: avail =>
    s!"{opt (Semver.calcLatestPatch cur avail)} {opt (Semver.calcLatestMinor cur avail)} {opt (Semver.calcLatestMajor cur avail)}"
  | "checker.pure", eco :: latest :: tagres :: cur :: versions => checkerPure eco latest tagres cur versions
  | "spec.diag", eco :: latest :: tagres :: cur :: versions => specDiag eco latest tagres cur versions
  | "cfg.parse", [t] =>
    match Json.parse t with
    | none => "notjson"
    | some j =>
      match ConfigM.parseConfig j with
      | none => "err"
      | some c => s!"ok disabled=[{",".intercalate (c.disabled.map String.ofList)}] ip={tf c.ignorePrerelease} ri={c.refreshInterval}"
  | "ca.run", f => caRun f
  | "ca.locate", content :: version :: hash :: so :: eo :: line :: col :: more =>
    let extra : Option (Text × Nat × Nat) := match more with | [cs, ce] => some (['c'], natOfText cs, natOfText ce) | _ => none
    let p : PkgInfo := ⟨"x".toList, version, (match hash with | 'S' :: h => some h | _ => none), natOfText so, natOfText eo, natOfText line, natOfText col, extra⟩
    match Bump.locate content p with
    | none => "none"
    | some q => s!"{q.startOffset} {q.endOffset} {q.line} {q.column} {hex q.version}"
  | "http.fetch", f => httpFetch f
  | "http.tagsha", f => httpTagSha f
  | "bump.ok", label :: cur :: t :: vs => tf (Spec.BumpSpec.acceptable (String.ofList label) cur t vs)
  | "bump.due", label :: cur :: vs => tf (Spec.BumpSpec.due (String.ofList label) cur vs)
  | "bump.covered", label :: cur :: n :: rest =>
    -- a line on which a target is due must be served by one of the offered targets (lines may share a target)
    let targets := rest.take (natOfText n)
    let vs := rest.drop (natOfText n)
    let l := String.ofList label
    tf (!(Spec.BumpSpec.due l cur vs) || targets.any fun t => Spec.BumpSpec.acceptable l cur t vs)
  | "spec.judge", [eco, spec, v] =>
    match String.ofList eco with
    | "npm" | "pnpm" | "jsr" => s!"{specNpmSat spec v} {specNpmFrag spec}"
    | "crates" => s!"{specCratesSat spec v} {tf (Spec.CargoReq.inFrag spec)}"
    | "go" => s!"{specGoSat spec v} T"
    | "gha" => s!"{specGhaSat spec v} T"
    | _ => "UNKNOWN-ECO"
  | "c02.ast", [spec] => s!"{C02Ast.sameReading spec} {specNpmFrag spec}"
  | "c02.ast.crates", [spec] => s!"{C02Ast.sameReadingCrates spec} {tf (Spec.CargoReq.inFrag spec)}"
  | "spec.npm.sat", [spec, v] => specNpmSat spec v
  | "spec.npm.frag", [spec] => specNpmFrag spec
  | "spec.crates.sat", [spec, v] => specCratesSat spec v
  | "spec.crates.frag", [spec] => tf (Spec.CargoReq.inFrag spec)
  | "spec.go.sat", [spec, v] => specGoSat spec v
  | "spec.gha.sat", [spec, v] => specGhaSat spec v
  | "match.exists", eco :: spec :: vs =>
    match matcherFor eco with
    | some m => tf (m.exists_ spec vs)
    | none => "UNKNOWN-ECO"
  | "match.cmp", [eco, spec, latest] =>
    match matcherFor eco with
    | some m => (m.cmp spec latest).toString
    | none => "UNKNOWN-ECO"
  | _, _ => s!"UNKNOWN-OP {op}"

partial def loop (h : IO.FS.Stream) (out : IO.FS.Stream) (st : DState) : IO Unit := do
  let line ← h.getLine
  if line.isEmpty then return ()
  let line := (line.dropEndWhile (· == '\n')).toString
  if line.isEmpty then loop h out st else
  match line.splitOn "\t" with
  | op :: fields =>
    let f := fields.map unhex
    match (match lspStep st op f with | some r => some r | none => cacheStep st op f) with
    | some (st', r) =>
      out.putStrLn r
      loop h out st'
    | none =>
      out.putStrLn (match parseStep op f with | some r => r | none => match hypStep op f with | some r => r | none => match pypiStep op f with | some r => r | none => match absStep op f with | some r => r | none => dispatch op f)
      loop h out st
  | [] => loop h out st

def main : IO Unit := do
  let stdin ← IO.getStdin
  let stdout ← IO.getStdout
  loop stdin stdout {}
