/-
  Executable statement of C03 for one observation: given the tag row and the
  version rows that were read, is `answer` an acceptable "latest"?
-/
import Vlsp.Model.Latest

namespace Vlsp
open Text Semver Latest

namespace Spec.LatestSpec

/-- survives the prerelease filter and parses -/
def kept (ip : Bool) (v : Text) : Option Version :=
  match parseVersion v with
  | none => none
  | some p => if ip && !p.pre.isEmpty then none else some p

/-- `answer` is acceptable: the tag if there is one; otherwise a member that is
    kept and not below any kept member; `none` iff nothing is kept. -/
def acceptable (ip : Bool) (tag : Option Text) (rows : List Text) (answer : Option Text) : Bool :=
  match tag with
  | some t => answer == some t
  | none =>
    match answer with
    | none => rows.all fun v => (kept ip v).isNone
    | some l =>
      rows.contains l &&
      match kept ip l with
      | none => false
      | some pl => rows.all fun v =>
          match kept ip v with
          | none => true
          | some pv => cmp pv pl != .gt

end Spec.LatestSpec
end Vlsp
