/-
  Spec for C01: the published diagnostic as a decision table over the
  ecosystem-level facts the property names.
-/
import Vlsp.Model.Checker

namespace Vlsp
open Text Checker

/-- the ecosystem-level facts C01 speaks about -/
structure Eco where
  wf : Text → Bool                    -- the spec is well-formed
  wfV : Text → Bool                   -- the latest is a well-formed version
  inside : Text → Text → Bool         -- the version lies inside the spec
  alwaysPresent : Text → Bool         -- Go pseudo-versions: never "not found"
  unanchored : Text → Bool            -- the spec has no version literal to be anchored at (`*`)
  anchorBelow : Text → Text → Bool    -- the spec's first version literal is below L (PyPI: ≤)

/-- what ties a matcher to its ecosystem's facts (proved per ecosystem in Props/C02*) -/
structure MatcherLaws (m : Matcher) (E : Eco) : Prop where
  invalid_iff  : ∀ s l, m.cmp s l = .invalid ↔ (E.wf s = false ∨ E.wfV l = false)
  latest_iff   : ∀ s l, m.cmp s l = .latest ↔
      (E.wf s = true ∧ E.wfV l = true ∧ (E.inside s l = true ∨ E.unanchored s = true))
  outdated_iff : ∀ s l, m.cmp s l = .outdated ↔
      (E.wf s = true ∧ E.wfV l = true ∧ E.inside s l = false ∧ E.unanchored s = false ∧ E.anchorBelow s l = true)
  exists_iff   : ∀ s vs, E.wf s = true →
      (m.exists_ s vs = true ↔ (E.alwaysPresent s = true ∨ ∃ v ∈ vs, E.inside s v = true))

/-- the same laws at ONE spec text (what C01's decision theorem actually uses: the resolved spec) -/
structure MatcherLawsAt (m : Matcher) (E : Eco) (s : Text) : Prop where
  invalid_iff  : ∀ l, m.cmp s l = .invalid ↔ (E.wf s = false ∨ E.wfV l = false)
  latest_iff   : ∀ l, m.cmp s l = .latest ↔
      (E.wf s = true ∧ E.wfV l = true ∧ (E.inside s l = true ∨ E.unanchored s = true))
  outdated_iff : ∀ l, m.cmp s l = .outdated ↔
      (E.wf s = true ∧ E.wfV l = true ∧ E.inside s l = false ∧ E.unanchored s = false ∧ E.anchorBelow s l = true)
  exists_iff   : ∀ vs, E.wf s = true →
      (m.exists_ s vs = true ↔ (E.alwaysPresent s = true ∨ ∃ v ∈ vs, E.inside s v = true))

theorem MatcherLaws.at {m : Matcher} {E : Eco} (h : MatcherLaws m E) (s : Text) : MatcherLawsAt m E s :=
  ⟨h.invalid_iff s, h.latest_iff s, h.outdated_iff s, h.exists_iff s⟩

namespace Spec.Decision

/-- well-known dist-tag names (the property's "such as latest/next/beta"; the full list is the code's) -/
def knownTag (s : Text) : Bool := Checker.isPotentialDistTag s

/-- The decision table.  `latest` = cached latest (none: not cached / marked
    nonexistent), `tagRes` = what the spec resolves to as a dist-tag, `versions`
    = cached versions. Priority: not cached ≻ unresolved well-known tag ≻ Invalid
    ≻ NotFound ≻ (inside, or nothing to anchor at: nothing) ≻ Outdated ≻ (anchored above: nothing). -/
def specDiag (E : Eco) (latest : Option Text) (tagRes : Option Text) (versions : List Text) (cur : Text) :
    Option (Severity × Text) :=
  match latest with
  | none => none
  | some L =>
    if tagRes.isNone && knownTag cur then none
    else
      let S' := tagRes.getD cur
      if !(E.wf S') || !(E.wfV L) then
        some (.error, "Invalid version format: ".toList ++ cur)
      else if !(E.alwaysPresent S' || versions.any (E.inside S')) then
        some (.error, "Version ".toList ++ cur ++ " not found in registry".toList)
      else if E.inside S' L || E.unanchored S' then none
      else if E.anchorBelow S' L then
        some (.warning, "Update available: ".toList ++ cur ++ " -> ".toList ++ L)
      else none

end Spec.Decision
end Vlsp
