/-
  What a parsed range of the npm matcher denotes in node-semver's vocabulary (definitions only; the theorem that
  the code's `satisfies` IS that comparator's satisfaction is Props/C02Ast.lean).  Shared with the driver, which
  evaluates on generated spec texts whether the code's parser and the reference parser arrive at the same range.
-/
import Vlsp.Model.Npm
import Vlsp.Spec.Ranges

namespace Vlsp.C02Ast
open Vlsp Vlsp.Text Vlsp.Semver Vlsp.Spec Vlsp.Spec.NodeSemver

def fullP (v : Version) : Partial := ⟨some v.major, some v.minor, some v.patch, v.pre⟩

/-- the node-semver comparator a parsed range of the code stands for -/
def toRef : Npm.VersionRange → Comp
  | .exact v => .cmp .bare (fullP v)
  | .caret v => .cmp .caret (fullP v)
  | .tilde v => .cmp .tilde (fullP v)
  | .gte v => .cmp .ge (fullP v)
  | .gt v => .cmp .gt (fullP v)
  | .lte v => .cmp .le (fullP v)
  | .lt v => .cmp .lt (fullP v)
  | .any => .cmp .bare ⟨none, none, none, []⟩
  | .wildcardMajor m => .cmp .bare ⟨some m, none, none, []⟩
  | .wildcardMinor m n => .cmp .bare ⟨some m, some n, none, []⟩
  | .hyphen f t => .hyphen (fullP f) (fullP t)

/-- the operands of a range carry no build metadata -/
def rangeBuildFree : Npm.VersionRange → Bool
  | .exact v | .caret v | .tilde v | .gte v | .gt v | .lte v | .lt v => v.build.isEmpty
  | .hyphen f t => f.build.isEmpty && t.build.isEmpty
  | _ => true

def flatBuildFree : Npm.VersionSpec → Bool
  | .single r => rangeBuildFree r
  | .and rs => rs.all rangeBuildFree
  | .or _ => true

def specBuildFree : Npm.VersionSpec → Bool
  | .or ss => ss.all flatBuildFree
  | s => flatBuildFree s

def flatRef : Npm.VersionSpec → List Comp
  | .single r => [toRef r]
  | .and rs => rs.map toRef
  | .or _ => []

def isOr : Npm.VersionSpec → Bool
  | .or _ => true
  | _ => false

/-- the node-semver range a parsed spec denotes (an `Or` inside a spec never occurs: its verdict is `false`) -/
def specRef : Npm.VersionSpec → Range
  | .or ss => (ss.filter fun s => !isOr s).map flatRef
  | s => [flatRef s]

/-- `=1.2.3` and `1.2.3` are the same comparator -/
def normComp : Comp → Comp
  | .cmp .eq p => .cmp .bare p
  | c => c

def normRange (r : Range) : Range := r.map (·.map normComp)

/-- do the code's parser and the reference parser read `spec` as the same range? -/
def sameReading (spec : Text) : String :=
  match Npm.parseSpec spec, NodeSemver.parse spec with
  | some s, some r => if specRef s == normRange r then "same" else "diff"
  | none, none => "bothinvalid"
  | some _, none => "code-only"
  | none, some _ => "ref-only"

end Vlsp.C02Ast
