/-
  What a parsed range of the npm matcher denotes in node-semver's vocabulary (definitions only; the theorem that
  the code's `satisfies` IS that comparator's satisfaction is Props/C02Ast.lean).  Shared with the driver, which
  evaluates on generated spec texts whether the code's parser and the reference parser arrive at the same range.
-/
import Vlsp.Model.Npm
import Vlsp.Spec.Ranges

namespace Vlsp.C02Ast
open Vlsp Vlsp.Text Vlsp.Semver Vlsp.Spec Vlsp.Spec.NodeSemver

def fullP (v : Version) : Partial := ⟨some v.major, some v.minor, some v.patch, v.pre⟩

/-- the node-semver comparator a parsed range of the code stands for -/
def toRef : Npm.VersionRange → Comp
  | .exact v => .cmp .bare (fullP v)
  | .caret v => .cmp .caret (fullP v)
  | .tilde v => .cmp .tilde (fullP v)
  | .gte v => .cmp .ge (fullP v)
  | .gt v => .cmp .gt (fullP v)
  | .lte v => .cmp .le (fullP v)
  | .lt v => .cmp .lt (fullP v)
  | .any => .cmp .bare ⟨none, none, none, []⟩
  | .wildcardMajor m => .cmp .bare ⟨some m, none, none, []⟩
  | .wildcardMinor m n => .cmp .bare ⟨some m, some n, none, []⟩
  | .hyphen f t => .hyphen (fullP f) (fullP t)
  | .anchored r _ => toRef r

/-- the operands of a range carry no build metadata -/
def rangeBuildFree : Npm.VersionRange → Bool
  | .exact v | .caret v | .tilde v | .gte v | .gt v | .lte v | .lt v => v.build.isEmpty
  | .hyphen f t => f.build.isEmpty && t.build.isEmpty
  | .anchored r _ => rangeBuildFree r
  | _ => true

def flatBuildFree : Npm.VersionSpec → Bool
  | .single r => rangeBuildFree r
  | .and rs => rs.all rangeBuildFree
  | .or _ => true

def specBuildFree : Npm.VersionSpec → Bool
  | .or ss => ss.all flatBuildFree
  | s => flatBuildFree s

def flatRef : Npm.VersionSpec → List Comp
  | .single r => [toRef r]
  | .and rs => rs.map toRef
  | .or _ => []

def isOr : Npm.VersionSpec → Bool
  | .or _ => true
  | _ => false

/-- the node-semver range a parsed spec denotes (an `Or` inside a spec never occurs: its verdict is `false`) -/
def specRef : Npm.VersionSpec → Range
  | .or ss => (ss.filter fun s => !isOr s).map flatRef
  | s => [flatRef s]

/-- the partial `M.m` written out as its floor `M.m.0-0` -/
def floorP (M m : Nat) : Partial := ⟨some M, some m, some 0, ['0']⟩

/-- comparators that denote the same set are brought to one spelling: `=v` is `v`; an operator with a partial
    operand (`M` or `M.m`) is the comparator on floors the code builds for it (`>1` is `>=2.0.0-0`, `<=1.2` is
    `<1.3.0-0`, `~1` and `^1` are `1`, `^1.2` is `^1.2.0-0`, `^0.2` and `~0.2` are `0.2`) -/
def normComp : Comp → Comp
  | .cmp .eq p => .cmp .bare p
  | .cmp .ge ⟨some M, none, none, _⟩ => .cmp .ge (floorP M 0)
  | .cmp .ge ⟨some M, some m, none, _⟩ => .cmp .ge (floorP M m)
  | .cmp .gt ⟨some M, none, none, _⟩ => .cmp .ge (floorP (M + 1) 0)
  | .cmp .gt ⟨some M, some m, none, _⟩ => .cmp .ge (floorP M (m + 1))
  | .cmp .le ⟨some M, none, none, _⟩ => .cmp .lt (floorP (M + 1) 0)
  | .cmp .le ⟨some M, some m, none, _⟩ => .cmp .lt (floorP M (m + 1))
  | .cmp .lt ⟨some M, none, none, _⟩ => .cmp .lt (floorP M 0)
  | .cmp .lt ⟨some M, some m, none, _⟩ => .cmp .lt (floorP M m)
  | .cmp .tilde ⟨some M, none, none, _⟩ => .cmp .bare ⟨some M, none, none, []⟩
  | .cmp .tilde ⟨some M, some m, none, _⟩ => .cmp .bare ⟨some M, some m, none, []⟩
  | .cmp .caret ⟨some M, none, none, _⟩ => .cmp .bare ⟨some M, none, none, []⟩
  | .cmp .caret ⟨some M, some m, none, _⟩ =>
    if M > 0 then .cmp .caret (floorP M m) else .cmp .bare ⟨some M, some m, none, []⟩
  | c => c

def normRange (r : Range) : Range := r.map (·.map normComp)

/-- do the code's parser and the reference parser read `spec` as the same range? -/
def sameReading (spec : Text) : String :=
  match Npm.parseSpec spec, NodeSemver.parse spec with
  | some s, some r => if specRef s == normRange r then "same" else "diff"
  | none, none => "bothinvalid"
  | some _, none => "code-only"
  | none, some _ => "ref-only"

end Vlsp.C02Ast
