/-
  Spec for C16: which URIs name a supported manifest, and of which ecosystem.
  Written declaratively (existential decompositions of the URI), independent of
  the code's tables: the names below are the property's own list.
-/
import Vlsp.Text

namespace Vlsp
open Text

namespace Spec.Supported

/-- the supported manifest file names with their ecosystem (property text) -/
def manifestNames : List (String × String) :=
  [("package.json", "npm"), ("Cargo.toml", "crates_io"), ("go.mod", "go_proxy"),
   ("pyproject.toml", "pypi"), ("pnpm-workspace.yaml", "pnpm_catalog"),
   ("deno.json", "jsr"), ("deno.jsonc", "jsr")]

/-- `uri` is `dir ++ "/" ++ name`: the file name is a whole path component. -/
def NamedFile (uri : Text) (name : String) : Prop :=
  ∃ dir : Text, uri = dir ++ '/' :: name.toList

def isSep (c : Char) : Bool := c == '/' || c == '\\'

/-- the directory pairs under which YAML files are workflows / actions,
    written with either separator -/
def workflowDirs : List String :=
  [".github/workflows/", ".github\\workflows\\", ".github/actions/", ".github\\actions\\"]

/-- `uri` lies under one of the workflow directories: the directory name starts
    a path component (start of the URI, or right after a separator) -/
def UnderWorkflowDir (uri : Text) : Prop :=
  ∃ (pre post : Text) (d : String), d ∈ workflowDirs ∧ uri = pre ++ d.toList ++ post ∧
    (pre = [] ∨ ∃ p c, pre = p ++ [c] ∧ isSep c = true)

def IsYaml (uri : Text) : Prop :=
  (∃ stem : Text, uri = stem ++ ".yml".toList) ∨ (∃ stem : Text, uri = stem ++ ".yaml".toList)

/-- The ecosystem a URI belongs to, as a relation. Workflow YAML wins over
    a file-name match (a `pnpm-workspace.yaml` inside `.github/workflows/` is a workflow). -/
def Kind (uri : Text) (k : String) : Prop :=
  (UnderWorkflowDir uri ∧ IsYaml uri ∧ k = "github_actions") ∨
  (¬ (UnderWorkflowDir uri ∧ IsYaml uri) ∧ ∃ name, (name, k) ∈ manifestNames ∧ NamedFile uri name)

/-- `Supported uri` — the URI is checked at all. -/
def Supported (uri : Text) : Prop := ∃ k, Kind uri k

/- Executable version, used by the driver for the search: -/
def occursAtSep (dir : Text) : Bool → Text → Bool
  | atB, [] => atB && dir.isEmpty
  | atB, c :: cs => (atB && startsWith (c :: cs) dir) || occursAtSep dir (isSep c) cs

def underWorkflowDirB (uri : Text) : Bool := workflowDirs.any fun d => occursAtSep d.toList true uri
def isYamlB (uri : Text) : Bool := endsWith uri ".yml".toList || endsWith uri ".yaml".toList

def kindB (uri : Text) : Option String :=
  if underWorkflowDirB uri && isYamlB uri then some "github_actions"
  else (manifestNames.find? fun (n, _) => endsWith uri ('/' :: n.toList)).map (·.2)

end Spec.Supported
end Vlsp
