/-
  The ecosystem facts of C01 computed from the REFERENCE range semantics
  (Spec/Ranges.lean), independent of the matcher models: used to judge the real
  code's diagnostics on specs inside the fragment where C02 claims agreement.
-/
import Vlsp.Spec.Decision
import Vlsp.Spec.Ranges

namespace Vlsp
open Text Semver

namespace Spec.RefEco

def npm : Eco where
  wf s := (NodeSemver.parse s).isSome
  wfV l := (parseStrict l).isSome
  inside s v := match NodeSemver.parse s, parseStrict v with
    | some r, some x => NodeSemver.sat r x
    | _, _ => false
  alwaysPresent _ := false
  unanchored s := match NodeSemver.parse s with
    | some r => (NodeSemver.anchor r).isNone
    | none => false
  anchorBelow s l := match NodeSemver.parse s, parseStrict l with
    | some r, some x => (match NodeSemver.anchor r with | some a => precLt a x | none => false)
    | _, _ => false

def cratesAnchor : List CargoReq.Comparator → Option Version
  | [] => none
  | c :: _ => some ⟨c.major, c.minor.getD 0, c.patch.getD 0, c.pre, []⟩

def crates : Eco where
  wf s := (CargoReq.parse s).isSome
  wfV l := (parseStrict l).isSome
  inside s v := match CargoReq.parse s, parseStrict v with
    | some r, some x => CargoReq.sat r x
    | _, _ => false
  alwaysPresent _ := false
  unanchored s := match CargoReq.parse s with
    | some r => (cratesAnchor r).isNone
    | none => false
  anchorBelow s l := match CargoReq.parse s, parseStrict l with
    | some r, some x => (match cratesAnchor r with | some a => precLt a x | none => false)
    | _, _ => false

def go : Eco where
  wf s := GoMod.wf s
  wfV l := GoMod.wf l
  inside s v := GoMod.inside s v
  alwaysPresent s := GoMod.isPseudo s
  unanchored _ := false
  anchorBelow s l := match GoMod.parse s, GoMod.parse l with
    | some a, some b => precLt a b
    | _, _ => false

def ghaPad (cs : List Nat) (pre : Text) : Version :=
  ⟨cs.headD 0, (cs.drop 1).headD 0, (cs.drop 2).headD 0, pre, []⟩

def gha : Eco where
  wf s := GhaRef.wf s
  wfV l := GhaRef.wf l
  inside s v := GhaRef.inside s v
  alwaysPresent _ := false
  unanchored _ := false
  anchorBelow s l := match GhaRef.parse s, GhaRef.parse l with
    | some (cs, pre), some (ls, lpre) => precLt (ghaPad cs pre) (ghaPad ls lpre)
    | _, _ => false

end Spec.RefEco
end Vlsp
