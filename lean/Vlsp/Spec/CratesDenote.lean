/-
  What a parsed requirement of the Cargo matcher denotes as a `semver::Comparator` (definitions only; the theorem is
  Props/C02AstCrates.lean).  `*` denotes the empty comparator list.
-/
import Vlsp.Model.Crates
import Vlsp.Spec.Ranges

namespace Vlsp.C02Ast
open Vlsp Vlsp.Text Vlsp.Semver Vlsp.Spec Vlsp.Spec.CargoReq

def fullC (op : CargoReq.Op) (v : Version) : Comparator := ⟨op, v.major, some v.minor, some v.patch, v.pre⟩

def toRefC : Crates.Req → Option Comparator
  | .caret v => some (fullC .caret v)
  | .tilde v => some (fullC .tilde v)
  | .exact v => some (fullC .exact v)
  | .gte v => some (fullC .greaterEq v)
  | .gt v => some (fullC .greater v)
  | .lte v => some (fullC .lessEq v)
  | .lt v => some (fullC .less v)
  | .any => none
  | .wildcardMajor m => some ⟨.wildcard, m, none, none, []⟩
  | .wildcardMinor m n => some ⟨.wildcard, m, some n, none, []⟩

def reqBuildFree : Crates.Req → Bool
  | .caret v | .tilde v | .exact v | .gte v | .gt v | .lte v | .lt v => v.build.isEmpty
  | _ => true

def reqsRef (rs : List Crates.Req) : List Comparator := rs.filterMap toRefC

/-- do the code's parser and the reference parser read `spec` as the same requirement? -/
def sameReadingCrates (spec : Text) : String :=
  match Crates.parseSpec spec, CargoReq.parse spec with
  | some s, some r => if reqsRef s == r then "same" else "diff"
  | none, none => "bothinvalid"
  | some _, none => "code-only"
  | none, some _ => "ref-only"

end Vlsp.C02Ast
