/-
  What a parsed requirement of the Cargo matcher denotes as a `semver::Comparator` (definitions only; the theorem is
  Props/C02AstCrates.lean).  `*` denotes the empty comparator list.
-/
import Vlsp.Model.Crates
import Vlsp.Spec.Ranges

namespace Vlsp.C02Ast
open Vlsp Vlsp.Text Vlsp.Semver Vlsp.Spec Vlsp.Spec.CargoReq

def fullC (op : CargoReq.Op) (v : Version) : Comparator := ⟨op, v.major, some v.minor, some v.patch, v.pre⟩

def toRefC : Crates.Req → Option Comparator
  | .caret v => some (fullC .caret v)
  | .tilde v => some (fullC .tilde v)
  | .exact v => some (fullC .exact v)
  | .gte v => some (fullC .greaterEq v)
  | .gt v => some (fullC .greater v)
  | .lte v => some (fullC .lessEq v)
  | .lt v => some (fullC .less v)
  | .any => none
  | .wildcardMajor m => some ⟨.wildcard, m, none, none, []⟩
  | .wildcardMinor m n => some ⟨.wildcard, m, some n, none, []⟩
  | .anchored r _ => toRefC r

def reqBuildFree : Crates.Req → Bool
  | .caret v | .tilde v | .exact v | .gte v | .gt v | .lte v | .lt v => v.build.isEmpty
  | .anchored r _ => reqBuildFree r
  | _ => true

def reqsRef (rs : List Crates.Req) : List Comparator := rs.filterMap toRefC

/-- the floor `M.m.0-0` as a full comparator operand -/
def floorC (op : CargoReq.Op) (M m : Nat) : Comparator := ⟨op, M, some m, some 0, ['0']⟩

/-- comparators with a partial operand, written as the comparator the code builds for them -/
def normC (c : Comparator) : Comparator :=
  match c.op, c.minor, c.patch with
  | .exact, none, none | .tilde, none, none | .wildcard, none, none | .caret, none, none => ⟨.wildcard, c.major, none, none, []⟩
  | .exact, some m, none | .tilde, some m, none | .wildcard, some m, none => ⟨.wildcard, c.major, some m, none, []⟩
  | .caret, some m, none => if c.major > 0 then floorC .caret c.major m else ⟨.wildcard, c.major, some m, none, []⟩
  | .greaterEq, none, none => floorC .greaterEq c.major 0
  | .greaterEq, some m, none => floorC .greaterEq c.major m
  | .greater, none, none => floorC .greaterEq (c.major + 1) 0
  | .greater, some m, none => floorC .greaterEq c.major (m + 1)
  | .lessEq, none, none => floorC .less (c.major + 1) 0
  | .lessEq, some m, none => floorC .less c.major (m + 1)
  | .less, none, none => floorC .less c.major 0
  | .less, some m, none => floorC .less c.major m
  | _, _, _ => c

/-- do the code's parser and the reference parser read `spec` as the same requirement? -/
def sameReadingCrates (spec : Text) : String :=
  match Crates.parseSpec spec, CargoReq.parse spec with
  | some s, some r => if reqsRef s == r.map normC then "same" else "diff"
  | none, none => "bothinvalid"
  | some _, none => "code-only"
  | none, some _ => "ref-only"

end Vlsp.C02Ast
