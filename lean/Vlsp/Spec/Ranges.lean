/-
  Reference range semantics the property C02 appeals to, executable:
    * NodeSemver — node-semver range grammar (strict mode) and satisfaction,
      with plain SemVer precedence for explicit version literals and component
      semantics for partial / wildcard operands (no prerelease exclusion);
    * CargoReq   — the `semver` crate's `VersionReq` grammar and
      `matches_comparator` without the `pre_is_compatible` gate;
    * GoMod      — canonical Go module versions, identity modulo `v`/`+incompatible`;
    * GhaRef     — version-like action tags, prefix matching on 1/2 components.
  Candidate versions are strict SemVer (Model/Semver.parseStrict).
-/
import Vlsp.Model.Semver

namespace Vlsp
open Text Semver

namespace Spec

/-- SemVer precedence: build metadata is ignored -/
def cmpPrec : Version → Version → Ordering :=
  compareLex (compareOn Version.major) <|
  compareLex (compareOn Version.minor) <|
  compareLex (compareOn Version.patch) (cmpVia Version.pre cmpPre)

def precLt (a b : Version) : Bool := cmpPrec a b == .lt
def precLe (a b : Version) : Bool := cmpPrec a b != .gt

/-- the least version with this triple: `M.m.p-0` -/
def floorV (a b c : Nat) : Version := ⟨a, b, c, ['0'], []⟩
def relV (a b c : Nat) : Version := ⟨a, b, c, [], []⟩

/-- half-open / closed intervals of versions under precedence; `none` = unbounded -/
structure Bounds where
  lo : Option Version := none      -- inclusive
  hi : Option Version := none      -- exclusive
  hiIncl : Option Version := none  -- inclusive (only for `<=v`, hyphen `to`)
  never : Bool := false
  exact : Option Version := none   -- `=v`: precedence-equal

def Bounds.sat (b : Bounds) (x : Version) : Bool :=
  !b.never &&
  (match b.lo with | some l => precLe l x | none => true) &&
  (match b.hi with | some h => precLt x h | none => true) &&
  (match b.hiIncl with | some h => precLe x h | none => true) &&
  (match b.exact with | some e => cmpPrec x e == .eq | none => true)

/-- a (possibly partial) operand: `none` component = x / X / * / missing -/
structure Partial where
  maj : Option Nat
  min : Option Nat
  pat : Option Nat
  pre : Text
deriving Repr, DecidableEq

def Partial.isFull (p : Partial) : Bool := p.maj.isSome && p.min.isSome && p.pat.isSome

namespace NodeSemver

inductive Op | bare | eq | gt | ge | lt | le | caret | tilde
deriving Repr, DecidableEq

inductive Comp
  | cmp (op : Op) (p : Partial)
  | hyphen (a b : Partial)
deriving Repr, DecidableEq

abbrev Range := List (List Comp)

def maxSafe : Nat := 9007199254740991

/-- numeric component `0|[1-9]\d*`, at most 16 digits and ≤ MAX_SAFE_INTEGER -/
def numComp (t : Text) : Option (Nat × Text) :=
  let (ds, rest) := spanP isAsciiDigit t
  match ds with
  | [] => none
  | d :: more =>
    if d == '0' && !more.isEmpty then none
    else if ds.length > 16 then none
    else
      let v := digitsVal ds 0
      if v ≤ maxSafe then some (v, rest) else none

/-- x-range identifier: number or x / X / * -/
def xrIdent (t : Text) : Option (Option Nat × Text) :=
  match t with
  | 'x' :: r | 'X' :: r | '*' :: r => some (none, r)
  | _ => (numComp t).map fun (n, r) => (some n, r)

def preIdentOk (seg : Text) : Bool :=
  !seg.isEmpty && seg.all identChar &&
  (if seg.all isAsciiDigit then (seg.length == 1 || !(startsWith seg ['0'])) else true)

/-- `-pre(.pre)*` and `+build(.build)*` after a full triple; returns (pre, rest) -/
def preBuild (t : Text) : Option (Text × Text) :=
  let (pre, t1) : Text × Text :=
    match t with
    | '-' :: r => let (p, r') := spanP (fun c => identChar c || c == '.') r; (p, r')
    | _ => ([], t)
  let preOk := match t with
    | '-' :: _ => !pre.isEmpty && (splitChar '.' pre).all preIdentOk
    | _ => true
  if !preOk then none
  else
    match t1 with
    | '+' :: r =>
      let (b, r') := spanP (fun c => identChar c || c == '.') r
      if !b.isEmpty && (splitChar '.' b).all (fun s => !s.isEmpty) then some (pre, r') else none
    | _ => some (pre, t1)

/-- XRANGEPLAIN after the `[v=\s]*` prefix -/
def xrPlain (t : Text) : Option (Partial × Text) :=
  match xrIdent t with
  | none => none
  | some (maj, t) =>
    match t with
    | '.' :: t =>
      match xrIdent t with
      | none => none
      | some (min, t) =>
        match t with
        | '.' :: t =>
          match xrIdent t with
          | none => none
          | some (pat, t) =>
            match preBuild t with
            | none => none
            | some (pre, t) => some (⟨maj, min, pat, pre⟩, t)
        | _ => some (⟨maj, min, none, []⟩, t)
    | _ => some (⟨maj, none, none, []⟩, t)

/-- after the operator: at most one `v` (node-semver's FULLPLAIN `v?`) -/
def dropVEqWs : Text → Text
  | 'v' :: cs => cs
  | t => t

/-- one whitespace-free comparator token (after operator-trimming) -/
def parseComp (tok : Text) : Option Comp :=
  let (op, rest) : Op × Text :=
    match tok with
    | '^' :: r => (.caret, r)
    | '~' :: '>' :: r => (.tilde, r)
    | '~' :: r => (.tilde, r)
    | '>' :: '=' :: r => (.ge, r)
    | '<' :: '=' :: r => (.le, r)
    | '>' :: r => (.gt, r)
    | '<' :: r => (.lt, r)
    | '=' :: r => (.eq, r)
    | r => (.bare, r)
  match xrPlain (dropVEqWs rest) with
  | some (p, []) => some (.cmp op p)
  | _ => none

def isOpChar (c : Char) : Bool := c == '<' || c == '>' || c == '=' || c == '~' || c == '^'

/-- comparatorTrim / tildeTrim / caretTrim: delete whitespace that follows an operator -/
def trimAfterOps : Text → Bool → Text
  | [], _ => []
  | c :: cs, afterOp =>
    if isWhite c && afterOp then trimAfterOps cs true
    else c :: trimAfterOps cs (isOpChar c)

def wsTokens (t : Text) : List Text :=
  ((splitOnAux [' '] (t.map fun c => if isWhite c then ' ' else c) [] 0).filter fun s => !s.isEmpty)

/-- hyphen range `A - B` (whole OR-part) -/
def parseHyphen (part : Text) : Option Comp :=
  let toks := wsTokens part
  match toks with
  | [a, ['-'], b] =>
    match xrPlain (dropVEqWs a), xrPlain (dropVEqWs b) with
    | some (pa, []), some (pb, []) => some (.hyphen pa pb)
    | _, _ => none
  | _ => none

def allSome {α} : List (Option α) → Option (List α)
  | [] => some []
  | none :: _ => none
  | some a :: rest => (allSome rest).map (a :: ·)

def parsePart (part0 : Text) : Option (List Comp) :=
  let part := trim part0
  if part.isEmpty then some [.cmp .bare ⟨none, none, none, []⟩]
  else match parseHyphen part with
    | some h => some [h]
    | none => allSome ((wsTokens (trimAfterOps part false)).map parseComp)

def parse (t : Text) : Option Range := allSome ((splitOn "||".toList t).map parsePart)

/-! satisfaction -/

def boundsOf : Comp → Bounds
  | .cmp op p =>
    match p.maj with
    | none =>
      match op with
      | .gt | .lt => { never := true }
      | _ => {}
    | some M =>
      match p.min with
      | none =>
        match op with
        | .bare | .eq | .caret | .tilde => { lo := floorV M 0 0, hi := floorV (M+1) 0 0 }
        | .gt => { lo := floorV (M+1) 0 0 }
        | .ge => { lo := floorV M 0 0 }
        | .lt => { hi := floorV M 0 0 }
        | .le => { hi := floorV (M+1) 0 0 }
      | some m =>
        match p.pat with
        | none =>
          match op with
          | .bare | .eq | .tilde => { lo := floorV M m 0, hi := floorV M (m+1) 0 }
          | .caret => if M == 0 then { lo := floorV 0 m 0, hi := floorV 0 (m+1) 0 }
                      else { lo := floorV M m 0, hi := floorV (M+1) 0 0 }
          | .gt => { lo := floorV M (m+1) 0 }
          | .ge => { lo := floorV M m 0 }
          | .lt => { hi := floorV M m 0 }
          | .le => { hi := floorV M (m+1) 0 }
        | some q =>
          let v : Version := ⟨M, m, q, p.pre, []⟩
          match op with
          | .bare | .eq => { exact := v }
          | .gt => { lo := v }   -- made strict in satComp
          | .ge => { lo := v }
          | .lt => { hi := v }
          | .le => { hiIncl := v }
          | .tilde => { lo := v, hi := floorV M (m+1) 0 }
          | .caret =>
            if M > 0 then { lo := v, hi := floorV (M+1) 0 0 }
            else if m > 0 then { lo := v, hi := floorV 0 (m+1) 0 }
            else { lo := v, hi := floorV 0 0 (q+1) }
  | .hyphen a b =>
    let lo : Option Version × Bool :=
      match a.maj, a.min, a.pat with
      | none, _, _ => (none, false)
      | some M, none, _ => (some (floorV M 0 0), false)
      | some M, some m, none => (some (floorV M m 0), false)
      | some M, some m, some q => (some ⟨M, m, q, a.pre, []⟩, false)
    match b.maj, b.min, b.pat with
    | none, _, _ => { lo := lo.1 }
    | some M, none, _ => { lo := lo.1, hi := floorV (M+1) 0 0 }
    | some M, some m, none => { lo := lo.1, hi := floorV M (m+1) 0 }
    | some M, some m, some q => { lo := lo.1, hiIncl := some ⟨M, m, q, b.pre, []⟩ }

def satComp (c : Comp) (x : Version) : Bool :=
  match c with
  | .cmp .gt p =>
    if p.isFull then
      match p.maj, p.min, p.pat with
      | some M, some m, some q => precLt ⟨M, m, q, p.pre, []⟩ x
      | _, _, _ => false
    else (boundsOf c).sat x
  | _ => (boundsOf c).sat x

def sat (r : Range) (x : Version) : Bool := r.any fun conj => conj.all (satComp · x)

/-- the first version literal of the range (the anchor), padded with zeros -/
def anchor (r : Range) : Option Version :=
  match r with
  | (c :: _) :: _ =>
    let p := match c with | .cmp _ p => p | .hyphen a _ => a
    match p.maj with
    | none => none
    | some M => some ⟨M, p.min.getD 0, p.pat.getD 0, p.pre, []⟩
  | _ => none

end NodeSemver
end Spec
end Vlsp

namespace Vlsp
open Text Semver
namespace Spec.NodeSemver

def compInFrag : Comp → Bool
  | .cmp op p =>
    if p.isFull then true
    else match op, p.maj, p.min, p.pat with
      | .bare, none, none, none => false           -- `x.x.x`, `*.*` … (the one-character spellings `*`, `x`, `X` are admitted as tokens in `inFrag`)
      | .bare, some _, none, none => false         -- `1`  (code: exact 1.0.0 — pinned by the project's unit tests)
      | .eq, _, _, _ => false                      -- `=1.2` (code: exact 1.2.0)
      | .bare, _, _, _ => false
      | _, some _, _, none => true                 -- an operator with `M` or `M.m`: `~1`, `^0.2`, `>1`, `<=1.2`, `>=1`
      | _, _, _, _ => false
  | .hyphen a b => a.isFull && b.isFull

/-- textual conditions of the fragment: the only whitespace is ' ' (also after an operator character: ">= 1.0.0");
    wildcards are written `N.x` / `N.*` / `N.M.x` / `N.M.*` / `*` / `x` -/
def textInFragAux : Text → Nat → Bool
  | [], _ => true
  | c :: cs, st =>          -- st: 0 = plain, 1 = right after an operator character, 2 = after an operator and blanks
    if isWhite c then c == ' ' && textInFragAux cs (if st == 0 then 0 else 2)
    else if isOpChar c then st != 2 && textInFragAux cs 1     -- "> =1.2.3": an operator after operator + blank is outside
    else textInFragAux cs 0

def textInFrag (t : Text) (_ : Bool) : Bool := textInFragAux t 0

/-- wildcard forms the code implements: `N.x`, `N.X`, `N.M.x`, `N.M.X` as a whole AND-term -/
def isCodeWildcard (tok : Text) : Bool :=
  match splitChar '.' tok with
  | [a, x] => (numComp a).any (·.2.isEmpty) && (x == ['x'] || x == ['X'] || x == ['*'])
  | [a, b, x] => (numComp a).any (·.2.isEmpty) && (numComp b).any (·.2.isEmpty) && (x == ['x'] || x == ['X'] || x == ['*'])
  | _ => false

/-- Fragment on which the code is claimed to agree with the reference semantics:
    every operand is a full `M.m.p[-pre]` version without build metadata (or the
    term is one of the implemented wildcard forms), written without whitespace
    after operators, AND-terms separated by single spaces, no empty OR-part. -/
def inFrag (spec : Text) : Bool :=
  !(contains spec ['+']) && textInFrag spec false &&
  (splitOn "||".toList spec).all fun part0 =>
    let part := trim part0
    !part.isEmpty &&
    match parseHyphen part with
    | some h => compInFrag h && (wsTokens part).length == 3
    | none =>
      (wsTokens (trimAfterOps part false)).all fun tok =>
        isCodeWildcard tok || tok == ['*'] || tok == ['x'] || tok == ['X'] ||
        match parseComp tok with
        | some (.cmp op p) => compInFrag (.cmp op p)
        | _ => false

end Spec.NodeSemver
end Vlsp

namespace Vlsp
open Text Semver
namespace Spec.CargoReq

/-- `semver::Op` -/
inductive Op | exact | greater | greaterEq | less | lessEq | tilde | caret | wildcard
deriving Repr, DecidableEq

structure Comparator where
  op : Op
  major : Nat
  minor : Option Nat
  patch : Option Nat
  pre : Text
deriving Repr, DecidableEq

def trimSpaces : Text → Text
  | ' ' :: r => trimSpaces r
  | t => t

def isWild (t : Text) : Option Text :=
  match t with
  | '*' :: r | 'x' :: r | 'X' :: r => some r
  | _ => none

/-- `comparator` of semver/src/parse.rs -/
def comparator (input : Text) : Option (Comparator × Text) :=
  let (op0, text, defaultOp) : Op × Text × Bool :=
    match input with
    | '=' :: r => (.exact, r, false)
    | '>' :: '=' :: r => (.greaterEq, r, false)
    | '>' :: r => (.greater, r, false)
    | '<' :: '=' :: r => (.lessEq, r, false)
    | '<' :: r => (.less, r, false)
    | '~' :: r => (.tilde, r, false)
    | '^' :: r => (.caret, r, false)
    | r => (.caret, r, true)
  let text := trimSpaces text
  match numericIdent text with
  | none => none
  | some (major, text) =>
    -- minor
    let r1 : Option (Option Nat × Text × Bool) :=          -- (minor, rest, hasWildcard)
      match text with
      | '.' :: t =>
        match isWild t with
        | some t' => some (none, t', true)
        | none => (numericIdent t).map fun (n, t') => (some n, t', false)
      | _ => some (none, text, false)
    match r1 with
    | none => none
    | some (minor, text, hasWild1) =>
      let r2 : Option (Option Nat × Text × Bool) :=
        match text with
        | '.' :: t =>
          match isWild t with
          | some t' => some (none, t', true)
          | none => if hasWild1 then none else (numericIdent t).map fun (n, t') => (some n, t', false)
        | _ => some (none, text, false)
      match r2 with
      | none => none
      | some (patch, text, hasWild2) =>
        let op := if defaultOp && (hasWild1 || hasWild2) then Op.wildcard else op0
        let r3 : Option (Text × Text) :=
          match patch, text with
          | some _, '-' :: t =>
            match identifier true t with
            | some (pre, t') => if pre.isEmpty then none else some (pre, t')
            | none => none
          | _, _ => some ([], text)
        match r3 with
        | none => none
        | some (pre, text) =>
          let r4 : Option Text :=
            match patch, text with
            | some _, '+' :: t =>
              match identifier false t with
              | some (b, t') => if b.isEmpty then none else some t'
              | none => none
            | _, _ => some text
          match r4 with
          | none => none
          | some text => some (⟨op, major, minor, patch, pre⟩, trimSpaces text)

def versionReqAux : Nat → Text → Option (List Comparator)
  | 0, _ => none
  | fuel + 1, input =>
    match comparator input with
    | none => none
    | some (c, text) =>
      if text.isEmpty then some [c]
      else match text with
        | ',' :: t => (versionReqAux fuel (trimSpaces t)).map (c :: ·)
        | _ => none

/-- `VersionReq::from_str` (at most 32 comparators) -/
def parse (text0 : Text) : Option (List Comparator) :=
  let text := trimSpaces text0
  match isWild text with
  | some rest => if (trimSpaces rest).isEmpty then some [] else none
  | none => versionReqAux 32 text

def preGe (a b : Text) : Bool := cmpPre a b != .lt
def preGt (a b : Text) : Bool := cmpPre a b == .gt
def preLt (a b : Text) : Bool := cmpPre a b == .lt

/-- `matches_exact`; for a partial comparator the prerelease is not compared
    (component semantics — no prerelease exclusion, as the property demands) -/
def matchesExact (c : Comparator) (v : Version) : Bool :=
  v.major == c.major &&
  (match c.minor with | some m => v.minor == m | none => true) &&
  (match c.patch with | some p => v.patch == p && v.pre == c.pre | none => true)

def matchesGreater (c : Comparator) (v : Version) : Bool :=
  if v.major != c.major then v.major > c.major
  else match c.minor with
    | none => false
    | some m =>
      if v.minor != m then v.minor > m
      else match c.patch with
        | none => false
        | some p => if v.patch != p then v.patch > p else preGt v.pre c.pre

def matchesLess (c : Comparator) (v : Version) : Bool :=
  if v.major != c.major then v.major < c.major
  else match c.minor with
    | none => false
    | some m =>
      if v.minor != m then v.minor < m
      else match c.patch with
        | none => false
        | some p => if v.patch != p then v.patch < p else preLt v.pre c.pre

def matchesTilde (c : Comparator) (v : Version) : Bool :=
  if v.major != c.major then false
  else if (match c.minor with | some m => v.minor != m | none => false) then false
  else match c.patch with
    | some p => if v.patch != p then v.patch > p else preGe v.pre c.pre
    | none => true

def matchesCaret (c : Comparator) (v : Version) : Bool :=
  if v.major != c.major then false
  else match c.minor with
    | none => true
    | some minor =>
      match c.patch with
      | none => if c.major > 0 then v.minor ≥ minor else v.minor == minor
      | some patch =>
        if c.major > 0 then
          if v.minor != minor then v.minor > minor
          else if v.patch != patch then v.patch > patch
          else preGe v.pre c.pre
        else if minor > 0 then
          if v.minor != minor then false
          else if v.patch != patch then v.patch > patch
          else preGe v.pre c.pre
        else if v.minor != minor || v.patch != patch then false
        else preGe v.pre c.pre

def matchesComparator (c : Comparator) (v : Version) : Bool :=
  match c.op with
  | .exact | .wildcard => matchesExact c v
  | .greater => matchesGreater c v
  | .greaterEq => matchesExact c v || matchesGreater c v
  | .less => matchesLess c v
  | .lessEq => matchesExact c v || matchesLess c v
  | .tilde => matchesTilde c v
  | .caret => matchesCaret c v

def sat (cs : List Comparator) (v : Version) : Bool := cs.all (matchesComparator · v)

def compFull (c : Comparator) : Bool := c.minor.isSome && c.patch.isSome

/-- fragment: every comparator has a full operand or is one of the wildcard forms
    the code implements (`N.*`, `N.M.*`, `*`), no build metadata, no space after the operator -/
def textInFrag : Text → Bool → Bool
  | [], _ => true
  | c :: cs, afterOp =>
    if c == ' ' then !afterOp && textInFrag cs false
    else textInFrag cs (c == '<' || c == '>' || c == '=' || c == '~' || c == '^')

def inFrag (spec : Text) : Bool :=
  !(contains spec ['+']) && textInFrag spec false &&
  match parse spec with
  | none => false
  | some [] => trim spec == ['*']
  | some cs =>
    (splitChar ',' spec).all fun part0 =>
      let part := trim part0
      match comparator part with
      | some (c, []) =>
        compFull c ||
        -- a partial version, with or without an operator: `1`, `0.0`, `~1`, `=1.2`, `>1`, `<=1.2`
        -- (not at the very edge of u64: `>18446744073709551615` needs a successor the code cannot represent)
        (c.patch.isNone && c.op != .wildcard && !(contains part ['*']) && !(contains part ['x']) && !(contains part ['X']) &&
          c.major < u64Max && (match c.minor with | some m => m < u64Max | none => true)) ||
        (c.op == .wildcard && !(contains part ['x']) && !(contains part ['X']) &&
          (match splitChar '.' part with | [_, _] => true | [_, _, x] => x == ['*'] | _ => false))
      | _ => false

end Spec.CargoReq

namespace Spec.GoMod

/-- canonical Go module version: `vMAJOR.MINOR.PATCH[-pre][+incompatible]` (the only
    build metadata Go allows is `+incompatible`) -/
def parse (t : Text) : Option Version :=
  let r := match t with | 'v' :: r => r | _ => t      -- "modulo the 'v' prefix"
  let core := match stripSuffix "+incompatible".toList r with | some c => c | none => r
  match parseStrict core with
  | some v => if v.build.isEmpty then some v else none
  | none => none

def wf (t : Text) : Bool := (parse t).isSome

/-- pseudo-version `vX.Y.Z-[pre.0.|0.]yyyymmddhhmmss-abcdefabcdef` (accepted without a listing) -/
def isPseudo (t : Text) : Bool :=
  match parse t with
  | none => false
  | some v =>
    match (splitChar '-' v.pre).reverse with
    | rev :: tsPart :: _ =>
      let ts := match (splitChar '.' tsPart).reverse with | l :: _ => l | [] => tsPart
      rev.length == 12 && rev.all isAsciiHexDigit && ts.length == 14 && ts.all isAsciiDigit
    | _ => false

/-- identity modulo `v` and `+incompatible` -/
def inside (spec v : Text) : Bool :=
  match parse spec, parse v with
  | some a, some b => a == b
  | _, _ => false

end Spec.GoMod

namespace Spec.GhaRef

/-- version-like tag `v?N(.N(.N)?)?(-pre)?` → (components, prerelease) -/
def parse (t : Text) : Option (List Nat × Text) :=
  let t := match t with | 'v' :: r => r | 'V' :: r => r | _ => t
  let (core, pre) : Text × Option Text :=
    match splitOnceChar '-' t with
    | some (c, p) => (c, some p)
    | none => (t, none)
  let num (s : Text) : Option Nat :=
    match numericIdent s with
    | some (n, []) => some n
    | _ => none
  let comps : Option (List Nat) :=
    match splitChar '.' core with
    | [a] => (num a).map fun x => [x]
    | [a, b] => match num a, num b with | some x, some y => some [x, y] | _, _ => none
    | [a, b, c] => match num a, num b, num c with | some x, some y, some z => some [x, y, z] | _, _, _ => none
    | _ => none
  match comps, pre with
  | some cs, none => some (cs, [])
  | some cs, some p =>
    if !p.isEmpty && (splitChar '.' p).all NodeSemver.preIdentOk then some (cs, p) else none
  | none, _ => none

def wf (t : Text) : Bool := (parse t).isSome

/-- 1 or 2 components: prefix match on major / major.minor; 3: equality -/
def inside (spec v : Text) : Bool :=
  match parse spec, parse v with
  | some (cs, pre), some (vs, vpre) =>
    let vs3 := vs ++ List.replicate (3 - vs.length) 0
    match cs with
    | [a] => vs3.head? == some a
    | [a, b] => vs3.take 2 == [a, b]
    | _ => cs == vs3 && pre == vpre
  | _, _ => false

end Spec.GhaRef
end Vlsp
