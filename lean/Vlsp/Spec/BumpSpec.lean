/-
  Executable statement of C07's "the advertised version is one the cache holds, strictly newer than
  the current one, and the highest within the same minor line / same major line / overall".
-/
import Vlsp.Model.Semver

namespace Vlsp
open Text Semver

namespace Spec.BumpSpec

def lines : List (String × (Version → Version → Bool)) :=
  [("patch", fun c v => v.major == c.major && v.minor == c.minor), ("minor", fun c v => v.major == c.major),
   ("major", fun _ _ => true)]

/-- `t` (the advertised text without the preserved operator) is an acceptable target of line `keep` -/
def acceptableOn (keep : Version → Version → Bool) (current t : Text) (vs : List Text) : Bool :=
  match parseVersion current with
  | none => false
  | some cur =>
    vs.any fun v =>
      match parseVersion v with
      | none => false
      | some pv =>
        toText pv == t && keep cur pv && cmp pv cur == .gt &&
        vs.all fun w =>
          match parseVersion w with
          | none => true
          | some pw => !(keep cur pw) || cmp pw pv != .gt

def acceptable (label : String) (current t : Text) (vs : List Text) : Bool :=
  match lines.find? (·.1 == label) with
  | some (_, keep) => acceptableOn keep current t vs
  | none => false

/-- is a target due on this line (some cached version on the line is strictly newer)? -/
def due (label : String) (current : Text) (vs : List Text) : Bool :=
  match lines.find? (·.1 == label), parseVersion current with
  | some (_, keep), some cur =>
    vs.any fun v => match parseVersion v with
      | some pv => keep cur pv && cmp pv cur == .gt
      | none => false
  | _, _ => false

end Spec.BumpSpec
end Vlsp
