/-
  C12 — any database written by an earlier release opens, keeps its data and works.
  Model: Vlsp.Migrate (statement interpreter of create_schema + apply_migrations over file shapes).
-/
import Vlsp.Model.Migrate

namespace Vlsp.C12
open Vlsp Vlsp.Migrate

theorem migSteps_eq : migSteps = [(1, "fetching_since"), (2, "not_found")] := by decide
theorem target_eq : targetVersion = 2 := by decide

/-- the "duplicate column name" tolerance of apply_migrations is unconditional in the source
    (regenerated; a guard such as `&& current_version == 0` changes this text) -/
theorem c12_tolerance_unconditional :
    Generated.migrationToleranceGuard = "msg.contains(\"duplicate column name\")" ∧
    Generated.migrationTolerated = ["duplicate column name"] := by decide

/-- closed form of opening a file of ANY shape and ANY recorded version (all integers) -/
theorem openDb_eq (s : Shape) :
    openDb s =
      { hasPackages := true, hasVersions := true, hasDistTags := true,
        hasFetchingSince := s.hasFetchingSince || decide (1 > s.userVersion),
        hasNotFound := s.hasNotFound || decide (2 > s.userVersion),
        userVersion := if 2 > s.userVersion then 2 else s.userVersion } := by
  obtain ⟨p, v, d, f, n, uv⟩ := s
  simp only [openDb, totalSteps, migSteps_eq, nSchema, List.length_cons, List.length_nil, runAttempt, stepAttempt,
    target_eq]
  by_cases h1 : 1 > uv <;> by_cases h2 : 2 > uv <;>
    simp [h1, h2, addColumn, migSteps_eq] <;> cases f <;> cases n <;> simp_all <;> omega

/-- **opens and works**: for every consistent legacy shape — base tables only, + claim column,
    + both columns, at every recorded version they could carry, and newer-than-known versions —
    opening yields a database with all tables and both columns, at version max(recorded, 2) -/
theorem c12_opens (s : Shape) (hc : consistent s = true) :
    usable (openDb s) = true ∧ (openDb s).userVersion = max s.userVersion 2 := by
  rw [openDb_eq]
  obtain ⟨p, v, d, f, n, uv⟩ := s
  simp only [consistent, Bool.and_eq_true, Bool.or_eq_true, decide_eq_true_eq] at hc
  simp only [usable, Bool.and_eq_true, Bool.or_eq_true, decide_eq_true_eq, true_and]
  refine ⟨⟨?_, ?_⟩, ?_⟩
  · rcases hc.1.1.1 with h | h
    · right; omega
    · left; exact h
  · rcases hc.1.1.2 with h | h
    · right; omega
    · left; exact h
  · by_cases h : 2 > uv
    · simp [h]; omega
    · simp [h]; omega

/-- opening is idempotent -/
theorem c12_idempotent (s : Shape) : openDb (openDb s) = openDb s := by
  rw [openDb_eq, openDb_eq]
  obtain ⟨p, v, d, f, n, uv⟩ := s
  by_cases h2 : 2 > uv
  · simp [h2]
  · have h1 : ¬ 1 > uv := by omega
    simp [h2, h1]

/-- an up-to-date database is left exactly as it is (this is the `reopen` step of C08) -/
theorem c12_current_unchanged (s : Shape) (hu : usable s = true) (hv : s.userVersion ≥ 2) : openDb s = s := by
  rw [openDb_eq]
  obtain ⟨p, v, d, f, n, uv⟩ := s
  simp only [usable, Bool.and_eq_true] at hu
  have h2 : ¬ 2 > uv := by simp at hv; omega
  have h1 : ¬ 1 > uv := by simp at hv; omega
  simp_all
  omega

/-- the inconsistent shapes — a recorded version whose column is missing — are exactly the ones
    excluded; on those the missing column is NOT added (so they are outside the property's quantifier) -/
example : consistent ⟨true, true, true, false, false, 1⟩ = false ∧
          (openDb ⟨true, true, true, false, false, 1⟩).hasFetchingSince = false := by
  constructor
  · decide
  · rw [openDb_eq]; decide

/-! ### two servers open the same file at the same moment -/

/-- one scheduling decision: which attempt moves, and whether its statement fails busy -/
structure Move where
  second : Bool
  busy : Bool
deriving DecidableEq, Repr

def stepBoth (σ : Shape × Attempt × Attempt) (m : Move) : Shape × Attempt × Attempt :=
  let (s, a, b) := σ
  if m.second then let (s', b') := stepAttempt s b m.busy; (s', a, b')
  else let (s', a') := stepAttempt s a m.busy; (s', a', b)

def runMoves (σ : Shape × Attempt × Attempt) (ms : List Move) : Shape × Attempt × Attempt := ms.foldl stepBoth σ

/-- explicit form of one statement of an attempt, by program counter -/
theorem stepAttempt_cases (s : Shape) (a : Attempt) (h : (a.done || a.failed) = false) :
    stepAttempt s a false =
      if a.pc = 0 then ({ s with hasPackages := true }, { a with pc := 1 })
      else if a.pc = 2 then ({ s with hasVersions := true }, { a with pc := 3 })
      else if a.pc = 4 then ({ s with hasDistTags := true }, { a with pc := 5 })
      else if a.pc < 6 then (s, { a with pc := a.pc + 1 })
      else if a.pc = 6 then (s, { a with pc := 7, cur := s.userVersion })
      else if a.pc = 7 then (if 1 > a.cur then { s with hasFetchingSince := true } else s, { a with pc := 8 })
      else if a.pc = 8 then (if 2 > a.cur then { s with hasNotFound := true } else s, { a with pc := 9 })
      else (if 2 > a.cur then { s with userVersion := 2 } else s, { a with done := true }) := by
  unfold stepAttempt
  simp only [h, Bool.false_eq_true, if_false, nSchema, migSteps_eq, target_eq]
  obtain ⟨pc, cur, dn, fl⟩ := a
  simp only
  rcases pc with _ | _ | _ | _ | _ | _ | _ | _ | _ | pc
  all_goals (try simp [addColumn])
  all_goals (try (split <;> simp))
  all_goals (try omega)
  · have : ¬ pc + 1 + 1 + 1 + 1 + 1 + 1 + 1 + 1 + 1 < 6 := by omega
    simp only [this, if_false]
    split <;> rfl

section PerPc
variable (s : Shape) (a : Attempt) (h : (a.done || a.failed) = false)
include h
theorem step_pc0 (e : a.pc = 0) : stepAttempt s a false = ({ s with hasPackages := true }, { a with pc := 1 }) := by
  rw [stepAttempt_cases s a h]; simp [e]
theorem step_pc2 (e : a.pc = 2) : stepAttempt s a false = ({ s with hasVersions := true }, { a with pc := 3 }) := by
  rw [stepAttempt_cases s a h]; simp [e]
theorem step_pc4 (e : a.pc = 4) : stepAttempt s a false = ({ s with hasDistTags := true }, { a with pc := 5 }) := by
  rw [stepAttempt_cases s a h]; simp [e]
theorem step_pcIdx (e : a.pc = 1 ∨ a.pc = 3 ∨ a.pc = 5) : stepAttempt s a false = (s, { a with pc := a.pc + 1 }) := by
  rw [stepAttempt_cases s a h]; rcases e with e | e | e <;> simp [e]
theorem step_pc6 (e : a.pc = 6) : stepAttempt s a false = (s, { a with pc := 7, cur := s.userVersion }) := by
  rw [stepAttempt_cases s a h]; simp [e]
theorem step_pc7 (e : a.pc = 7) :
    stepAttempt s a false = (if 1 > a.cur then { s with hasFetchingSince := true } else s, { a with pc := 8 }) := by
  rw [stepAttempt_cases s a h]; simp [e]
theorem step_pc8 (e : a.pc = 8) :
    stepAttempt s a false = (if 2 > a.cur then { s with hasNotFound := true } else s, { a with pc := 9 }) := by
  rw [stepAttempt_cases s a h]; simp [e]
theorem step_pc9 (e : a.pc ≥ 9) :
    stepAttempt s a false = (if 2 > a.cur then { s with userVersion := 2 } else s, { a with done := true }) := by
  rw [stepAttempt_cases s a h]
  have : ¬ a.pc = 0 ∧ ¬ a.pc = 2 ∧ ¬ a.pc = 4 ∧ ¬ a.pc < 6 ∧ ¬ a.pc = 6 ∧ ¬ a.pc = 7 ∧ ¬ a.pc = 8 := by omega
  simp [this]
end PerPc

/-- facts about one attempt, relative to the initial shape `s0` and the current shape `s` -/
def AttOk (s0 s : Shape) (x : Attempt) : Prop :=
  (x.pc > 6 → (x.cur = s0.userVersion ∨
      (s0.userVersion < 2 ∧ x.cur = 2 ∧ s.hasFetchingSince = true ∧ s.hasNotFound = true ∧ s.userVersion ≥ 2))) ∧
  (x.pc ≥ 1 → s.hasPackages = true) ∧ (x.pc ≥ 3 → s.hasVersions = true) ∧ (x.pc ≥ 5 → s.hasDistTags = true) ∧
  (x.pc ≥ 8 → s.hasFetchingSince = true) ∧ (x.pc ≥ 9 → s.hasNotFound = true) ∧
  (x.done = true → x.pc ≥ 9 ∧ s.userVersion ≥ 2) ∧ x.pc ≤ 9

/-- facts about the shape -/
def ShapeOk (s0 s : Shape) : Prop :=
  (s0.hasPackages = true → s.hasPackages = true) ∧ (s0.hasVersions = true → s.hasVersions = true) ∧
  (s0.hasDistTags = true → s.hasDistTags = true) ∧ (s0.hasFetchingSince = true → s.hasFetchingSince = true) ∧
  (s0.hasNotFound = true → s.hasNotFound = true) ∧
  (s.userVersion = s0.userVersion ∨
    (s0.userVersion < 2 ∧ s.userVersion = 2 ∧ s.hasFetchingSince = true ∧ s.hasNotFound = true)) ∧
  ((s.hasFetchingSince = true ∨ s.hasNotFound = true) → s.hasPackages = true) ∧
  (s.hasNotFound = true → s.hasFetchingSince = true)

/-- the invariant of two concurrent open attempts on a file whose initial shape is `s0` -/
def Inv2 (s0 : Shape) (σ : Shape × Attempt × Attempt) : Prop :=
  ShapeOk s0 σ.1 ∧ AttOk s0 σ.1 σ.2.1 ∧ AttOk s0 σ.1 σ.2.2

theorem inv2_init (s0 : Shape) (hc : consistent s0 = true) : Inv2 s0 (s0, {}, {}) := by
  simp only [consistent, Bool.and_eq_true, Bool.or_eq_true, decide_eq_true_eq, Bool.not_eq_true'] at hc
  obtain ⟨⟨⟨c1, c2⟩, c3⟩, c4⟩ := hc
  refine ⟨⟨id, id, id, id, id, Or.inl rfl, ?_, ?_⟩, ?_, ?_⟩
  · intro h
    cases hp : s0.hasPackages with
    | true => rfl
    | false =>
      exfalso
      rcases h with h | h <;> simp_all
  · intro h
    rcases c4 with h' | h'
    · rw [h] at h'; cases h'
    · exact h'
  · simp [AttOk]
  · simp [AttOk]

/-- the other attempt's facts survive any change that only adds tables/columns and either keeps the
    recorded version or sets it to 2 -/
theorem attOk_mono {s0 s s' : Shape} {y : Attempt} (hy : AttOk s0 s y)
    (h1 : s.hasPackages = true → s'.hasPackages = true) (h2 : s.hasVersions = true → s'.hasVersions = true)
    (h3 : s.hasDistTags = true → s'.hasDistTags = true) (h4 : s.hasFetchingSince = true → s'.hasFetchingSince = true)
    (h5 : s.hasNotFound = true → s'.hasNotFound = true) (h6 : s'.userVersion = s.userVersion ∨ s'.userVersion = 2) :
    AttOk s0 s' y := by
  obtain ⟨a1, a2, a3, a4, a5, a6, a7, a8⟩ := hy
  have a1' : y.pc > 6 → (y.cur = s0.userVersion ∨
      (s0.userVersion < 2 ∧ y.cur = 2 ∧ s'.hasFetchingSince = true ∧ s'.hasNotFound = true ∧ s'.userVersion ≥ 2)) := by
    intro h
    rcases a1 h with e | ⟨e1, e2, e3, e4, e5⟩
    · exact Or.inl e
    · exact Or.inr ⟨e1, e2, h4 e3, h5 e4, by rcases h6 with e | e <;> omega⟩
  refine ⟨a1', fun h => h1 (a2 h), fun h => h2 (a3 h), fun h => h3 (a4 h), fun h => h4 (a5 h), fun h => h5 (a6 h), ?_, a8⟩
  intro hd
  obtain ⟨b1, b2⟩ := a7 hd
  refine ⟨b1, ?_⟩
  rcases h6 with e | e <;> omega

/-- one attempt moves; the other one's facts survive because the shape only grows -/
theorem inv2_move (s0 s : Shape) (x y : Attempt) (busy : Bool) (hc : consistent s0 = true)
    (hs : ShapeOk s0 s) (hx : AttOk s0 s x) (hy : AttOk s0 s y) :
    ShapeOk s0 (stepAttempt s x busy).1 ∧ AttOk s0 (stepAttempt s x busy).1 (stepAttempt s x busy).2 ∧
    AttOk s0 (stepAttempt s x busy).1 y := by
  by_cases hd : (x.done || x.failed) = true
  · have : stepAttempt s x busy = (s, x) := by unfold stepAttempt; simp [hd]
    rw [this]; exact ⟨hs, hx, hy⟩
  · have hd' : (x.done || x.failed) = false := by simpa using hd
    cases busy with
    | true =>
      have : stepAttempt s x true = (s, { x with failed := true }) := by unfold stepAttempt; simp [hd']
      rw [this]; exact ⟨hs, hx, hy⟩
    | false =>
      have hdn : x.done = false := by simp only [Bool.or_eq_false_iff] at hd'; exact hd'.1
      obtain ⟨hs1, hs2, hs3, hs4, hs5, hs6, hs7, hs8⟩ := hs
      obtain ⟨hx1, hx2, hx3, hx4, hx5, hx6, hx7, hx8⟩ := hx
      simp only [consistent, Bool.and_eq_true, Bool.or_eq_true, decide_eq_true_eq, Bool.not_eq_true'] at hc
      obtain ⟨⟨⟨c1, c2⟩, c3⟩, c4⟩ := hc
      have hpc : x.pc = 0 ∨ x.pc = 2 ∨ x.pc = 4 ∨ (x.pc = 1 ∨ x.pc = 3 ∨ x.pc = 5) ∨ x.pc = 6 ∨ x.pc = 7 ∨ x.pc = 8 ∨ x.pc ≥ 9 := by
        omega
      rcases hpc with p0 | p2 | p4 | pi | e6 | e7 | e8 | e9
      · rw [step_pc0 s x hd' p0]
        refine ⟨⟨fun _ => rfl, hs2, hs3, hs4, hs5, hs6, fun _ => rfl, hs8⟩, ?_, attOk_mono hy (fun _ => rfl) id id id id (Or.inl rfl)⟩
        exact ⟨fun h => by simp at h, fun _ => rfl, fun h => by simp at h, fun h => by simp at h, fun h => by simp at h,
          fun h => by simp at h, fun h => by simp [hdn] at h, by simp⟩
      · rw [step_pc2 s x hd' p2]
        refine ⟨⟨hs1, fun _ => rfl, hs3, hs4, hs5, hs6, hs7, hs8⟩, ?_, attOk_mono hy id (fun _ => rfl) id id id (Or.inl rfl)⟩
        exact ⟨fun h => by simp at h, fun _ => hx2 (by omega), fun _ => rfl, fun h => by simp at h, fun h => by simp at h,
          fun h => by simp at h, fun h => by simp [hdn] at h, by simp⟩
      · rw [step_pc4 s x hd' p4]
        refine ⟨⟨hs1, hs2, fun _ => rfl, hs4, hs5, hs6, hs7, hs8⟩, ?_, attOk_mono hy id id (fun _ => rfl) id id (Or.inl rfl)⟩
        exact ⟨fun h => by simp at h, fun _ => hx2 (by omega), fun _ => hx3 (by omega), fun _ => rfl, fun h => by simp at h,
          fun h => by simp at h, fun h => by simp [hdn] at h, by simp⟩
      · rw [step_pcIdx s x hd' pi]
        refine ⟨⟨hs1, hs2, hs3, hs4, hs5, hs6, hs7, hs8⟩, ?_, hy⟩
        refine ⟨fun h => ?_, fun _ => hx2 (by omega), fun h => hx3 ?_, fun h => hx4 ?_, fun h => ?_, fun h => ?_, fun h => ?_, ?_⟩
        all_goals (simp only [hdn] at *; first | omega | (exfalso; omega) | (simp at h))
      · rw [step_pc6 s x hd' e6]
        refine ⟨⟨hs1, hs2, hs3, hs4, hs5, hs6, hs7, hs8⟩, ?_, hy⟩
        refine ⟨fun _ => ?_, fun _ => hx2 (by omega), fun _ => hx3 (by omega), fun _ => hx4 (by omega),
          fun h => by simp at h, fun h => by simp at h, fun h => by simp [hdn] at h, by simp⟩
        rcases hs6 with e | ⟨e1, e2, e3, e4⟩
        · exact Or.inl e
        · exact Or.inr ⟨e1, e2, e3, e4, by show s.userVersion ≥ 2; omega⟩
      · rw [step_pc7 s x hd' e7]
        have hcur := hx1 (by omega)
        by_cases hlt : 1 > x.cur
        · simp only [hlt, if_true]
          refine ⟨⟨hs1, hs2, hs3, fun _ => rfl, hs5, ?_, fun _ => hx2 (by omega), fun _ => rfl⟩, ?_, attOk_mono hy id id id (fun _ => rfl) id (Or.inl rfl)⟩
          · rcases hs6 with e | ⟨e1, e2, e3, e4⟩
            · exact Or.inl e
            · exact Or.inr ⟨e1, e2, rfl, e4⟩
          · refine ⟨fun _ => ?_, fun _ => hx2 (by omega), fun _ => hx3 (by omega), fun _ => hx4 (by omega),
              fun _ => rfl, fun h => by simp at h, fun h => by simp [hdn] at h, by simp⟩
            rcases hcur with e | ⟨e1, e2, e3, e4, e5⟩
            · exact Or.inl e
            · exact Or.inr ⟨e1, e2, rfl, e4, e5⟩
        · simp only [hlt, if_false]
          refine ⟨⟨hs1, hs2, hs3, hs4, hs5, hs6, hs7, hs8⟩, ?_, hy⟩
          refine ⟨fun _ => hcur, fun _ => hx2 (by omega), fun _ => hx3 (by omega), fun _ => hx4 (by omega),
            fun _ => ?_, fun h => by simp at h, fun h => by simp [hdn] at h, by simp⟩
          -- the column existed when the version was read: a recorded version ≥ 1 implies it
          rcases hcur with e | ⟨_, _, e3, _, _⟩
          · rcases c1 with h | h
            · omega
            · exact hs4 h
          · exact e3
      · rw [step_pc8 s x hd' e8]
        have hcur := hx1 (by omega)
        have hfs := hx5 (by omega)
        by_cases hlt : 2 > x.cur
        · simp only [hlt, if_true]
          refine ⟨⟨hs1, hs2, hs3, hs4, fun _ => rfl, ?_, fun _ => hx2 (by omega), fun _ => hfs⟩, ?_, attOk_mono hy id id id id (fun _ => rfl) (Or.inl rfl)⟩
          · rcases hs6 with e | ⟨e1, e2, e3, e4⟩
            · exact Or.inl e
            · exact Or.inr ⟨e1, e2, e3, rfl⟩
          · refine ⟨fun _ => ?_, fun _ => hx2 (by omega), fun _ => hx3 (by omega), fun _ => hx4 (by omega),
              fun _ => hfs, fun _ => rfl, fun h => by simp [hdn] at h, by simp⟩
            rcases hcur with e | ⟨e1, e2, e3, e4, e5⟩
            · exact Or.inl e
            · exact Or.inr ⟨e1, e2, e3, rfl, e5⟩
        · simp only [hlt, if_false]
          refine ⟨⟨hs1, hs2, hs3, hs4, hs5, hs6, hs7, hs8⟩, ?_, hy⟩
          refine ⟨fun _ => hcur, fun _ => hx2 (by omega), fun _ => hx3 (by omega), fun _ => hx4 (by omega),
            fun _ => hfs, fun _ => ?_, fun h => by simp [hdn] at h, by simp⟩
          rcases hcur with e | ⟨_, _, _, e4, _⟩
          · rcases c2 with h | h
            · omega
            · exact hs5 h
          · exact e4
      · -- pc = 9: the final `PRAGMA user_version = 2`
        rw [step_pc9 s x hd' e9]
        have hcur := hx1 (by omega)
        have hfs := hx5 (by omega)
        have hnf := hx6 (by omega)
        by_cases hlt : 2 > x.cur
        · simp only [hlt, if_true]
          have hu0 : s0.userVersion < 2 := by rcases hcur with e | ⟨e, _⟩ <;> omega
          refine ⟨⟨hs1, hs2, hs3, hs4, hs5, Or.inr ⟨hu0, rfl, hfs, hnf⟩, hs7, hs8⟩, ?_, attOk_mono hy id id id id id (Or.inr rfl)⟩
          have hcur' : x.cur = s0.userVersion := by rcases hcur with e | ⟨_, e, _⟩ <;> omega
          exact ⟨fun _ => Or.inl hcur', fun _ => hx2 (by omega), fun _ => hx3 (by omega), fun _ => hx4 (by omega),
            fun _ => hfs, fun _ => hnf, fun _ => ⟨e9, by simp⟩, hx8⟩
        · simp only [hlt, if_false]
          refine ⟨⟨hs1, hs2, hs3, hs4, hs5, hs6, hs7, hs8⟩, ?_, hy⟩
          refine ⟨fun _ => hcur, fun _ => hx2 (by omega), fun _ => hx3 (by omega), fun _ => hx4 (by omega),
            fun _ => hfs, fun _ => hnf, fun _ => ⟨e9, ?_⟩, hx8⟩
          rcases hcur with e | ⟨_, _, _, _, e5⟩
          · rcases hs6 with e' | ⟨_, e2, _, _⟩ <;> omega
          · exact e5

theorem inv2_step (s0 : Shape) (hc : consistent s0 = true) (σ : Shape × Attempt × Attempt) (m : Move)
    (h : Inv2 s0 σ) : Inv2 s0 (stepBoth σ m) := by
  obtain ⟨s, a, b⟩ := σ
  obtain ⟨hs, ha, hb⟩ := h
  unfold stepBoth
  cases hm : m.second with
  | false =>
    obtain ⟨r1, r2, r3⟩ := inv2_move s0 s a b m.busy hc hs ha hb
    exact ⟨r1, r2, r3⟩
  | true =>
    obtain ⟨r1, r2, r3⟩ := inv2_move s0 s b a m.busy hc hs hb ha
    exact ⟨r1, r3, r2⟩

theorem inv2_run (s0 : Shape) (hc : consistent s0 = true) (ms : List Move) : Inv2 s0 (runMoves (s0, {}, {}) ms) := by
  have gen : ∀ (ms : List Move) σ, Inv2 s0 σ → Inv2 s0 (runMoves σ ms) := by
    intro ms
    induction ms with
    | nil => intro σ h; exact h
    | cons m ms ih => intro σ h; exact ih _ (inv2_step s0 hc σ m h)
  exact gen ms _ (inv2_init s0 hc)

/-- **two servers opening the same file at the same moment**: for EVERY interleaving of the statements
    of the two attempts, with any statement failing busy: the file's shape stays consistent (never
    damaged: a recorded version always has its columns), an attempt that returned Ok left a fully usable
    database at version ≥ 2, and a retry by anyone afterwards succeeds. -/
theorem c12_concurrent_open (s0 : Shape) (hc : consistent s0 = true) (ms : List Move) :
    let σ := runMoves (s0, {}, {}) ms
    consistent σ.1 = true ∧
    (σ.2.1.done = true → usable σ.1 = true ∧ σ.1.userVersion ≥ 2) ∧
    (σ.2.2.done = true → usable σ.1 = true ∧ σ.1.userVersion ≥ 2) ∧
    usable (openDb σ.1) = true := by
  have hinv := inv2_run s0 hc ms
  generalize runMoves (s0, {}, {}) ms = σ at hinv
  obtain ⟨s, a, b⟩ := σ
  obtain ⟨⟨hs1, hs2, hs3, hs4, hs5, hs6, hs7, hs8⟩, ha, hb⟩ := hinv
  have hcons : consistent s = true := by
    show consistent s = true
    simp only [consistent, Bool.and_eq_true, Bool.or_eq_true, decide_eq_true_eq, Bool.not_eq_true'] at hc ⊢
    obtain ⟨⟨⟨c1, c2⟩, c3⟩, c4⟩ := hc
    rcases hs6 with e | ⟨e1, e2, e3, e4⟩
    · have e : s.userVersion = s0.userVersion := e
      refine ⟨⟨⟨?_, ?_⟩, ?_⟩, ?_⟩
      · rcases c1 with h | h
        · left; omega
        · right; exact hs4 h
      · rcases c2 with h | h
        · left; omega
        · right; exact hs5 h
      · cases hp : s.hasPackages with
        | true => simp
        | false =>
          cases hf : s.hasFetchingSince <;> cases hn : s.hasNotFound <;> simp_all
      · cases hn : s.hasNotFound with
        | false => left; rfl
        | true => right; exact hs8 hn
    · refine ⟨⟨⟨Or.inr e3, Or.inr e4⟩, ?_⟩, ?_⟩
      · have := hs7 (Or.inl e3)
        first | exact this | (rw [this]; simp) | (simp_all)
      · right; exact e3
  have doneOk : ∀ x, AttOk s0 s x → x.done = true → usable s = true ∧ s.userVersion ≥ 2 := by
    intro x hx hd
    obtain ⟨_, x2, x3, x4, x5, x6, x7, _⟩ := hx
    obtain ⟨hp, hv⟩ := x7 hd
    simp only [usable, Bool.and_eq_true]
    exact ⟨⟨⟨⟨⟨x2 (by omega), x3 (by omega)⟩, x4 (by omega)⟩, x5 (by omega)⟩, x6 (by omega)⟩, hv⟩
  exact ⟨hcons, doneOk a ha, doneOk b hb, (c12_opens s hcons).1⟩

end Vlsp.C12
