/-
  C04, the two YAML walks (workflows, pnpm-workspace.yaml), for ANY tree and text:
  what is reported comes only from `uses:` pairs below a `steps:` pair (resp. from the pairs of a `catalog:` mapping or
  of the mappings below `catalogs:`), every such pair below an outermost `steps:` is reported, and keys anywhere else
  are never checked.
-/
import Vlsp.Props.C04

namespace Vlsp.C04
open Vlsp Vlsp.Text Vlsp.Slice Vlsp.Cst Vlsp.Parsers

mutual
/-- a node and everything below it, in document order -/
def subNodes : Node → List Node
  | .mk i cs => Node.mk i cs :: subNodesList cs
def subNodesList : List Node → List Node
  | [] => []
  | c :: rest => subNodes c ++ subNodesList rest
end

theorem self_mem_subNodes (n : Node) : n ∈ subNodes n := by
  cases n with | mk i cs => simp [subNodes]

theorem mem_subNodesList {cs : List Node} {c x : Node} (hc : c ∈ cs) (hx : x ∈ subNodes c) : x ∈ subNodesList cs := by
  induction cs with
  | nil => cases hc
  | cons d rest ih =>
    simp only [subNodesList, List.mem_append]
    cases hc with
    | head => exact Or.inl hx
    | tail _ h => exact Or.inr (ih h)

theorem mem_subNodesList_iff {cs : List Node} {x : Node} : x ∈ subNodesList cs ↔ ∃ c ∈ cs, x ∈ subNodes c := by
  induction cs with
  | nil => simp [subNodesList]
  | cons d rest ih =>
    simp only [subNodesList, List.mem_append, ih, List.mem_cons]
    constructor
    · rintro (h | ⟨c, hc, hx⟩)
      · exact ⟨d, Or.inl rfl, h⟩
      · exact ⟨c, Or.inr hc, hx⟩
    · rintro ⟨c, (rfl | hc), hx⟩
      · exact Or.inl hx
      · exact Or.inr ⟨c, hc, hx⟩

/-- a child is below its parent -/
theorem child_mem_subNodes {n c : Node} (hc : c ∈ n.children) : c ∈ subNodes n := by
  cases n with
  | mk i cs =>
    simp only [subNodes, List.mem_cons]
    exact Or.inr (mem_subNodesList hc (self_mem_subNodes c))

mutual
/-- "below" is transitive -/
theorem subNodes_trans : (n : Node) → ∀ (x y : Node), x ∈ subNodes n → y ∈ subNodes x → y ∈ subNodes n
  | .mk i cs => by
    intro x y hx hy
    simp only [subNodes, List.mem_cons] at hx
    cases hx with
    | inl h => subst h; exact hy
    | inr h =>
      simp only [subNodes, List.mem_cons]
      exact Or.inr (subNodesList_trans cs x y h hy)
theorem subNodesList_trans : (cs : List Node) → ∀ (x y : Node), x ∈ subNodesList cs → y ∈ subNodes x → y ∈ subNodesList cs
  | [] => by intro x y hx; simp [subNodesList] at hx
  | c :: rest => by
    intro x y hx hy
    simp only [subNodesList, List.mem_append] at hx ⊢
    cases hx with
    | inl h => exact Or.inl (subNodes_trans c x y h hy)
    | inr h => exact Or.inr (subNodesList_trans rest x y h hy)
end

theorem childByField_mem {n v : Node} {f : String} (h : n.childByField f = some v) : v ∈ n.children := by
  unfold Node.childByField at h
  exact List.mem_of_find?_eq_some h

/-! ### workflows -/

def isPair (n : Node) : Bool := n.kind == "block_mapping_pair" || n.kind == "flow_pair"

/-- the (unquoted) key of a pair is `k` -/
def keyIs (content : Text) (n : Node) (k : String) : Bool :=
  match n.childByField "key" with
  | some kn => unquoteBoth (nodeText content kn) == k.toList
  | none => false

/-- what one node contributes when it is visited below `steps:`: the action of a `uses:` pair -/
def usesOf (content : Text) (n : Node) : List PkgInfo :=
  if isPair n && keyIs content n "uses" then
    match n.childByField "value" with
    | some v => (ghaUses content (unquoteBoth (nodeText content v)) v).toList
    | none => []
  else []

/-- the value of a `steps:` pair -/
def stepsValue (content : Text) (n : Node) : Option Node :=
  if isPair n && keyIs content n "steps" then n.childByField "value" else none

theorem ghaInSteps_unfold (content : Text) (info : NodeInfo) (cs : List Node) :
    ghaInSteps content (.mk info cs) = usesOf content (.mk info cs) ++ ghaInStepsList content cs := by
  rw [ghaInSteps]
  congr 1
  unfold usesOf isPair keyIs
  show (if (info.kind == "block_mapping_pair" || info.kind == "flow_pair") = true then _ else _) = _
  cases hp : (info.kind == "block_mapping_pair" || info.kind == "flow_pair") with
  | false =>
    have : ((Node.mk info cs).kind == "block_mapping_pair" || (Node.mk info cs).kind == "flow_pair") = false := hp
    simp [this]
  | true =>
    have : ((Node.mk info cs).kind == "block_mapping_pair" || (Node.mk info cs).kind == "flow_pair") = true := hp
    simp only [this, if_true, Bool.true_and]
    cases (Node.mk info cs).childByField "key" with
    | none => simp
    | some k =>
      simp only
      split <;> first | rfl | simp_all

mutual
/-- inside `steps:`, EVERY node below is looked at and only `uses:` pairs contribute, in document order -/
theorem ghaInSteps_eq (content : Text) : (n : Node) → ghaInSteps content n = (subNodes n).flatMap (usesOf content)
  | .mk info cs => by
    rw [ghaInSteps_unfold, subNodes, List.flatMap_cons, ghaInStepsList_eq content cs]
theorem ghaInStepsList_eq (content : Text) : (cs : List Node) → ghaInStepsList content cs = (subNodesList cs).flatMap (usesOf content)
  | [] => by simp [ghaInStepsList, subNodesList]
  | c :: rest => by
    rw [ghaInStepsList, subNodesList, List.flatMap_append, ghaInSteps_eq content c, ghaInStepsList_eq content rest]
end

theorem ghaFind_unfold (content : Text) (info : NodeInfo) (cs : List Node) :
    ghaFind content (.mk info cs) =
      match stepsValue content (.mk info cs) with
      | some v => ghaInSteps content v
      | none => ghaFindList content cs := by
  rw [ghaFind]
  unfold stepsValue isPair keyIs
  cases hp : (info.kind == "block_mapping_pair" || info.kind == "flow_pair") with
  | false =>
    have : ((Node.mk info cs).kind == "block_mapping_pair" || (Node.mk info cs).kind == "flow_pair") = false := hp
    simp [this]
  | true =>
    have : ((Node.mk info cs).kind == "block_mapping_pair" || (Node.mk info cs).kind == "flow_pair") = true := hp
    simp only [this, if_true, Bool.true_and]
    cases (Node.mk info cs).childByField "key" with
    | none => simp
    | some k =>
      simp only
      rfl

mutual
/-- **only `uses:` pairs below a `steps:` pair are ever checked** (jobs' `name:`, `with:` arguments, `runs-on:`,
    a `uses:` of a reusable-workflow job outside `steps:` … contribute nothing) -/
theorem ghaFind_sound (content : Text) : (n : Node) → ∀ p, p ∈ ghaFind content n →
    ∃ s ∈ subNodes n, ∃ v, stepsValue content s = some v ∧ ∃ u ∈ subNodes v, p ∈ usesOf content u
  | .mk info cs => by
    intro p hp
    rw [ghaFind_unfold] at hp
    cases hs : stepsValue content (.mk info cs) with
    | some v =>
      rw [hs] at hp
      simp only at hp
      rw [ghaInSteps_eq, List.mem_flatMap] at hp
      obtain ⟨u, hu, hpu⟩ := hp
      exact ⟨_, self_mem_subNodes _, v, hs, u, hu, hpu⟩
    | none =>
      rw [hs] at hp
      simp only at hp
      obtain ⟨s, hsm, v, hv, u, hu, hpu⟩ := ghaFindList_sound content cs p hp
      refine ⟨s, ?_, v, hv, u, hu, hpu⟩
      simp only [subNodes, List.mem_cons]
      exact Or.inr hsm
theorem ghaFindList_sound (content : Text) : (cs : List Node) → ∀ p, p ∈ ghaFindList content cs →
    ∃ s ∈ subNodesList cs, ∃ v, stepsValue content s = some v ∧ ∃ u ∈ subNodes v, p ∈ usesOf content u
  | [] => by intro p hp; simp [ghaFindList] at hp
  | c :: rest => by
    intro p hp
    simp only [ghaFindList, List.mem_append] at hp
    cases hp with
    | inl h =>
      obtain ⟨s, hsm, r⟩ := ghaFind_sound content c p h
      exact ⟨s, by simp only [subNodesList, List.mem_append]; exact Or.inl hsm, r⟩
    | inr h =>
      obtain ⟨s, hsm, r⟩ := ghaFindList_sound content rest p h
      exact ⟨s, by simp only [subNodesList, List.mem_append]; exact Or.inr hsm, r⟩
end

/-- **C04, workflows, nothing else is checked**: a reported action is the `uses:` value of a pair below the value of
    a `steps:` pair of the document -/
theorem c04_gha_only_steps_uses (content : Text) (tree : Node) (p : PkgInfo) (h : p ∈ workflow content tree) :
    ∃ s ∈ subNodes tree, ∃ v, stepsValue content s = some v ∧ ∃ u ∈ subNodes v, p ∈ usesOf content u :=
  ghaFind_sound content tree p h

/-- `IsPath n path s`: `s` is reached from `n` by going from a node to one of its children; `path` lists the nodes
    passed on the way, from `n` down to the parent of `s` (empty when `s` is `n`) -/
inductive IsPath : Node → List Node → Node → Prop
  | here {n : Node} : IsPath n [] n
  | down {n c : Node} {path : List Node} {s : Node} : c ∈ n.children → IsPath c path s → IsPath n (n :: path) s

mutual
/-- **completeness**: if no ancestor of the `steps:` pair `s` is itself a `steps:` pair with a value, every `uses:`
    pair below the value of `s` is reported -/
theorem ghaFind_complete (content : Text) : (n : Node) → ∀ (path : List Node) (s v u : Node) (p : PkgInfo),
    IsPath n path s → (∀ a ∈ path, stepsValue content a = none) →
    stepsValue content s = some v → u ∈ subNodes v → p ∈ usesOf content u → p ∈ ghaFind content n
  | .mk info cs => by
    intro path s v u p hpath hnone hs hu hp
    rw [ghaFind_unfold]
    cases hpath with
    | here =>
      rw [hs]
      simp only
      rw [ghaInSteps_eq, List.mem_flatMap]
      exact ⟨u, hu, hp⟩
    | @down _ c path' _ hc hrest =>
      have h0 : stepsValue content (.mk info cs) = none := hnone _ (List.mem_cons_self)
      rw [h0]
      simp only
      exact ghaFindList_complete content cs c path' s v u p hc hrest
        (fun a ha => hnone a (List.mem_cons_of_mem _ ha)) hs hu hp
theorem ghaFindList_complete (content : Text) : (cs : List Node) → ∀ (c : Node) (path : List Node) (s v u : Node) (p : PkgInfo),
    c ∈ cs → IsPath c path s → (∀ a ∈ path, stepsValue content a = none) →
    stepsValue content s = some v → u ∈ subNodes v → p ∈ usesOf content u → p ∈ ghaFindList content cs
  | [] => by intro c _ _ _ _ _ hc; cases hc
  | d :: rest => by
    intro c path s v u p hc hpath hnone hs hu hp
    simp only [ghaFindList, List.mem_append]
    cases hc with
    | head => exact Or.inl (ghaFind_complete content d path s v u p hpath hnone hs hu hp)
    | tail _ h => exact Or.inr (ghaFindList_complete content rest c path s v u p h hpath hnone hs hu hp)
end

/-- **C04, workflows, completeness**: every `uses:` pair below the value of an outermost `steps:` pair is reported -/
theorem c04_gha_complete (content : Text) (tree : Node) (path : List Node) (s v u : Node) (p : PkgInfo)
    (hpath : IsPath tree path s) (houter : ∀ a ∈ path, stepsValue content a = none)
    (hs : stepsValue content s = some v) (hu : u ∈ subNodes v) (hp : p ∈ usesOf content u) :
    p ∈ workflow content tree :=
  ghaFind_complete content tree path s v u p hpath houter hs hu hp

/-- a `steps:` value is looked at as a whole: pairs nested at any depth (flow style, `with:` blocks) are visited -/
theorem c04_gha_steps_all (content : Text) (v : Node) : ghaInSteps content v = (subNodes v).flatMap (usesOf content) :=
  ghaInSteps_eq content v

/-! ### pnpm-workspace.yaml -/

mutual
/-- the pairs `extract_packages_from_mapping` reads as catalog entries: the `block_mapping_pair` children, through
    chains of `block_mapping` nodes -/
def mappingPairs : Node → List Node
  | .mk _ cs => mappingPairsList cs
def mappingPairsList : List Node → List Node
  | [] => []
  | c :: rest =>
    (if c.kind == "block_mapping" then mappingPairs c
     else if c.kind == "block_mapping_pair" then [c]
     else []) ++ mappingPairsList rest
end

mutual
theorem pnpmMapping_eq (content : Text) : (n : Node) → pnpmMapping content n = (mappingPairs n).filterMap (pnpmEntry content)
  | .mk info cs => by rw [pnpmMapping, mappingPairs, pnpmMappingList_eq content cs]
theorem pnpmMappingList_eq (content : Text) : (cs : List Node) →
    pnpmMappingList content cs = (mappingPairsList cs).filterMap (pnpmEntry content)
  | [] => by simp [pnpmMappingList, mappingPairsList]
  | c :: rest => by
    rw [pnpmMappingList, mappingPairsList, List.filterMap_append, pnpmMappingList_eq content rest]
    congr 1
    by_cases h1 : (c.kind == "block_mapping") = true
    · simp only [h1, if_true]; exact pnpmMapping_eq content c
    · simp only [h1, Bool.false_eq_true, if_false]
      by_cases h2 : (c.kind == "block_mapping_pair") = true
      · simp only [h2, if_true, List.filterMap_cons, List.filterMap_nil]
        cases pnpmEntry content c <;> rfl
      · simp only [h2, Bool.false_eq_true, if_false, List.filterMap_nil]
end

mutual
theorem mappingPairs_sub : (n : Node) → ∀ e, e ∈ mappingPairs n → e ∈ subNodes n ∧ e.kind = "block_mapping_pair"
  | .mk info cs => by
    intro e he
    rw [mappingPairs] at he
    obtain ⟨h1, h2⟩ := mappingPairsList_sub cs e he
    exact ⟨by simp only [subNodes, List.mem_cons]; exact Or.inr h1, h2⟩
theorem mappingPairsList_sub : (cs : List Node) → ∀ e, e ∈ mappingPairsList cs → e ∈ subNodesList cs ∧ e.kind = "block_mapping_pair"
  | [] => by intro e he; simp [mappingPairsList] at he
  | c :: rest => by
    intro e he
    simp only [mappingPairsList, List.mem_append] at he
    simp only [subNodesList, List.mem_append]
    cases he with
    | inr h => obtain ⟨h1, h2⟩ := mappingPairsList_sub rest e h; exact ⟨Or.inr h1, h2⟩
    | inl h =>
      by_cases h1 : (c.kind == "block_mapping") = true
      · simp only [h1, if_true] at h
        obtain ⟨a, b⟩ := mappingPairs_sub c e h
        exact ⟨Or.inl a, b⟩
      · simp only [h1, Bool.false_eq_true, if_false] at h
        by_cases h2 : (c.kind == "block_mapping_pair") = true
        · simp only [h2, if_true, List.mem_singleton] at h
          subst h
          exact ⟨Or.inl (self_mem_subNodes _), by simpa using h2⟩
        · simp only [h2, Bool.false_eq_true, if_false, List.not_mem_nil] at h
end

/-- what `find_catalog_entries` does at a `catalog:` / `catalogs:` pair instead of descending -/
def handledOf (content : Text) (n : Node) : Option (List PkgInfo) :=
  if n.kind == "block_mapping_pair" then
    match n.childByField "key" with
    | some k =>
      let key := unquoteBoth (nodeText content k)
      if key == "catalog".toList then
        some (match n.childByField "value" with | some v => pnpmMapping content v | none => [])
      else if key == "catalogs".toList then
        some (match n.childByField "value" with | some v => pnpmNamed content v | none => [])
      else none
    | none => none
  else none

theorem pnpmFind_unfold (content : Text) (info : NodeInfo) (cs : List Node) :
    pnpmFind content (.mk info cs) =
      match handledOf content (.mk info cs) with
      | some r => r
      | none => pnpmFindList content cs := by
  rw [pnpmFind]
  rfl

/-- everything `extract_named_catalogs` reports is an entry pair below the node -/
theorem pnpmNamed_sound (content : Text) (v : Node) (p : PkgInfo) (h : p ∈ pnpmNamed content v) :
    ∃ e ∈ subNodes v, e.kind = "block_mapping_pair" ∧ pnpmEntry content e = some p := by
  unfold pnpmNamed at h
  simp only [List.mem_flatMap, List.mem_filter] at h
  obtain ⟨bm, ⟨hbm, _⟩, cp, hcp, hp⟩ := h
  split at hp
  · split at hp
    · rename_i v' hv'
      rw [pnpmMapping_eq, List.mem_filterMap] at hp
      obtain ⟨e, he, hpe⟩ := hp
      obtain ⟨hsub, hk⟩ := mappingPairs_sub v' e he
      refine ⟨e, ?_, hk, hpe⟩
      have h1 : bm ∈ subNodes v := child_mem_subNodes hbm
      have h2 : cp ∈ subNodes bm := child_mem_subNodes hcp
      have h3 : v' ∈ subNodes cp := child_mem_subNodes (childByField_mem hv')
      exact subNodes_trans v _ _ h1 (subNodes_trans bm _ _ h2 (subNodes_trans cp _ _ h3 hsub))
    · cases hp
  · cases hp

/-- what is reported at a `catalog:` / `catalogs:` pair comes from entry pairs below its value -/
theorem handledOf_sound (content : Text) (n : Node) (r : List PkgInfo) (h : handledOf content n = some r) (p : PkgInfo) (hp : p ∈ r) :
    n.kind = "block_mapping_pair" ∧ (keyIs content n "catalog" = true ∨ keyIs content n "catalogs" = true) ∧
    ∃ v, n.childByField "value" = some v ∧ ∃ e ∈ subNodes v, e.kind = "block_mapping_pair" ∧ pnpmEntry content e = some p := by
  unfold handledOf at h
  split at h
  · rename_i hk
    refine ⟨by simpa using hk, ?_⟩
    unfold keyIs
    cases hkey : n.childByField "key" with
    | none => rw [hkey] at h; cases h
    | some k =>
      rw [hkey] at h
      simp only at h
      split at h
      · rename_i hc
        refine ⟨Or.inl hc, ?_⟩
        cases hv : n.childByField "value" with
        | none => rw [hv] at h; simp only [Option.some.injEq] at h; subst h; cases hp
        | some v =>
          rw [hv] at h; simp only [Option.some.injEq] at h; subst h
          rw [pnpmMapping_eq, List.mem_filterMap] at hp
          obtain ⟨e, he, hpe⟩ := hp
          obtain ⟨hsub, hke⟩ := mappingPairs_sub v e he
          exact ⟨v, rfl, e, hsub, hke, hpe⟩
      · split at h
        · rename_i hc
          refine ⟨Or.inr hc, ?_⟩
          cases hv : n.childByField "value" with
          | none => rw [hv] at h; simp only [Option.some.injEq] at h; subst h; cases hp
          | some v =>
            rw [hv] at h; simp only [Option.some.injEq] at h; subst h
            exact ⟨v, rfl, pnpmNamed_sound content v p hp⟩
        · cases h
  · cases h

mutual
theorem pnpmFind_sound (content : Text) : (n : Node) → ∀ p, p ∈ pnpmFind content n →
    ∃ c ∈ subNodes n, ∃ r, handledOf content c = some r ∧ p ∈ r
  | .mk info cs => by
    intro p hp
    rw [pnpmFind_unfold] at hp
    cases hs : handledOf content (.mk info cs) with
    | some r => rw [hs] at hp; exact ⟨_, self_mem_subNodes _, r, hs, hp⟩
    | none =>
      rw [hs] at hp
      obtain ⟨c, hc, r⟩ := pnpmFindList_sound content cs p hp
      exact ⟨c, by simp only [subNodes, List.mem_cons]; exact Or.inr hc, r⟩
theorem pnpmFindList_sound (content : Text) : (cs : List Node) → ∀ p, p ∈ pnpmFindList content cs →
    ∃ c ∈ subNodesList cs, ∃ r, handledOf content c = some r ∧ p ∈ r
  | [] => by intro p hp; simp [pnpmFindList] at hp
  | d :: rest => by
    intro p hp
    simp only [pnpmFindList, List.mem_append] at hp
    cases hp with
    | inl h =>
      obtain ⟨c, hc, r⟩ := pnpmFind_sound content d p h
      exact ⟨c, by simp only [subNodesList, List.mem_append]; exact Or.inl hc, r⟩
    | inr h =>
      obtain ⟨c, hc, r⟩ := pnpmFindList_sound content rest p h
      exact ⟨c, by simp only [subNodesList, List.mem_append]; exact Or.inr hc, r⟩
end

/-- **C04, pnpm-workspace.yaml, nothing else is checked**: a reported package is an entry pair below the value of a
    `catalog:` or `catalogs:` pair of the document (`packages:`, `onlyBuiltDependencies:`, `overrides:` … contribute
    nothing) -/
theorem c04_pnpm_only_catalogs (content : Text) (tree : Node) (p : PkgInfo) (h : p ∈ pnpmWorkspace content tree) :
    ∃ c ∈ subNodes tree, c.kind = "block_mapping_pair" ∧ (keyIs content c "catalog" = true ∨ keyIs content c "catalogs" = true) ∧
      ∃ v, c.childByField "value" = some v ∧ ∃ e ∈ subNodes v, e.kind = "block_mapping_pair" ∧ pnpmEntry content e = some p := by
  obtain ⟨c, hc, r, hr, hp⟩ := pnpmFind_sound content tree p h
  exact ⟨c, hc, handledOf_sound content c r hr p hp⟩

mutual
theorem pnpmFind_complete (content : Text) : (n : Node) → ∀ (path : List Node) (c : Node) (r : List PkgInfo) (p : PkgInfo),
    IsPath n path c → (∀ a ∈ path, handledOf content a = none) → handledOf content c = some r → p ∈ r → p ∈ pnpmFind content n
  | .mk info cs => by
    intro path c r p hpath hnone hc hp
    rw [pnpmFind_unfold]
    cases hpath with
    | here => rw [hc]; exact hp
    | @down _ d path' _ hd hrest =>
      have h0 : handledOf content (.mk info cs) = none := hnone _ (List.mem_cons_self)
      rw [h0]
      exact pnpmFindList_complete content cs d path' c r p hd hrest (fun a ha => hnone a (List.mem_cons_of_mem _ ha)) hc hp
theorem pnpmFindList_complete (content : Text) : (cs : List Node) → ∀ (d : Node) (path : List Node) (c : Node) (r : List PkgInfo) (p : PkgInfo),
    d ∈ cs → IsPath d path c → (∀ a ∈ path, handledOf content a = none) → handledOf content c = some r → p ∈ r →
    p ∈ pnpmFindList content cs
  | [] => by intro d _ _ _ _ hd; cases hd
  | x :: rest => by
    intro d path c r p hd hpath hnone hc hp
    simp only [pnpmFindList, List.mem_append]
    cases hd with
    | head => exact Or.inl (pnpmFind_complete content x path c r p hpath hnone hc hp)
    | tail _ h => exact Or.inr (pnpmFindList_complete content rest d path c r p h hpath hnone hc hp)
end

/-- **C04, pnpm-workspace.yaml, completeness for `catalog:`**: every entry pair of the mapping under an outermost
    `catalog:` pair that reads as a package is reported -/
theorem c04_pnpm_catalog_complete (content : Text) (tree : Node) (path : List Node) (c k v e : Node) (p : PkgInfo)
    (hpath : IsPath tree path c) (houter : ∀ a ∈ path, handledOf content a = none)
    (hkind : c.kind = "block_mapping_pair") (hk : c.childByField "key" = some k)
    (hkey : unquoteBoth (nodeText content k) = "catalog".toList) (hv : c.childByField "value" = some v)
    (he : e ∈ mappingPairs v) (hp : pnpmEntry content e = some p) :
    p ∈ pnpmWorkspace content tree := by
  refine pnpmFind_complete content tree path c (pnpmMapping content v) p hpath houter ?_ ?_
  · unfold handledOf
    simp [hkind, hk, hkey, hv]
  · rw [pnpmMapping_eq, List.mem_filterMap]; exact ⟨e, he, hp⟩

/-! ### the premises are satisfiable (hand-built trees of `steps: {uses: a/b@v1}` and of a one-entry catalog) -/

def ni (k : String) (sb eb : Nat) (f : Option String) : NodeInfo := ⟨k, sb, eb, 0, sb, 0, eb, f, true, false⟩
def exContent : Text := "steps: {uses: a/b@v1}".toList
def exUses : Node :=
  .mk (ni "flow_pair" 8 20 none) [.mk (ni "flow_node" 8 12 (some "key")) [], .mk (ni "flow_node" 14 20 (some "value")) []]
def exVal : Node := .mk (ni "flow_node" 7 21 (some "value")) [.mk (ni "flow_mapping" 7 21 none) [exUses]]
def exTree : Node := .mk (ni "block_mapping_pair" 0 21 none) [.mk (ni "flow_node" 0 5 (some "key")) [], exVal]

example : IsPath exTree [] exTree ∧ stepsValue exContent exTree = some exVal ∧ exUses ∈ subNodes exVal ∧
    (usesOf exContent exUses).map (fun p => (p.name, p.version)) = [("a/b".toList, "v1".toList)] ∧
    (workflow exContent exTree).map (fun p => (p.name, p.version)) = [("a/b".toList, "v1".toList)] :=
  ⟨.here, rfl, by simp only [exVal, subNodes, subNodesList, List.mem_cons, List.mem_append]; exact Or.inr (Or.inl (Or.inr (Or.inl (self_mem_subNodes _)))), rfl, rfl⟩

def pxContent : Text := "catalog:\n  a: 1.0.0".toList
def pxEntry : Node :=
  .mk (ni "block_mapping_pair" 11 19 none) [.mk (ni "flow_node" 11 12 (some "key")) [], .mk (ni "flow_node" 14 19 (some "value")) []]
def pxVal : Node := .mk (ni "block_node" 11 19 (some "value")) [.mk (ni "block_mapping" 11 19 none) [pxEntry]]
def pxKey : Node := .mk (ni "flow_node" 0 7 (some "key")) []
def pxTree : Node := .mk (ni "block_mapping_pair" 0 19 none) [pxKey, pxVal]

example : IsPath pxTree [] pxTree ∧ pxTree.kind = "block_mapping_pair" ∧ pxTree.childByField "key" = some pxKey ∧
    unquoteBoth (nodeText pxContent pxKey) = "catalog".toList ∧ pxTree.childByField "value" = some pxVal ∧
    mappingPairs pxVal = [pxEntry] ∧
    (pnpmEntry pxContent pxEntry).map (fun p => (p.name, p.version)) = some ("a".toList, "1.0.0".toList) ∧
    (pnpmWorkspace pxContent pxTree).map (fun p => (p.name, p.version)) = [("a".toList, "1.0.0".toList)] :=
  ⟨.here, rfl, rfl, rfl, rfl, rfl, rfl, rfl⟩

end Vlsp.C04
