/-
  C13, the full statement: on EVERY schedule of edits and registry replies that ends quiescent, the diagnostics last
  published for each edited document are the diagnosis of its latest text against the final cache.
  (True of the repaired tree — commits 6f30219 and 6f0c8c8; on the pinned tree two schedule classes violated it.)
-/
import Vlsp.Props.C13
import Vlsp.Lemmas.ServerFrame

namespace Vlsp.C13
open Vlsp Vlsp.Text Vlsp.Server Vlsp.ServerFrame Vlsp.Db

/-! ### lists -/

theorem mem_set_or_eq {α} (l : List α) (i : Nat) (y x : α) (h : x ∈ l) : x ∈ l.set i y ∨ l[i]? = some x := by
  induction l generalizing i with
  | nil => cases h
  | cons a as ih =>
    cases i with
    | zero =>
      rcases List.mem_cons.mp h with rfl | h'
      · right; rfl
      · left; simp [h']
    | succ j =>
      rcases List.mem_cons.mp h with rfl | h'
      · left; simp
      · rcases ih j h' with h1 | h1
        · left; simp [h1]
        · right; simpa using h1

theorem mem_eraseIdx_or_eq {α} (l : List α) (i : Nat) (x : α) (h : x ∈ l) : x ∈ l.eraseIdx i ∨ l[i]? = some x := by
  induction l generalizing i with
  | nil => cases h
  | cons a as ih =>
    cases i with
    | zero =>
      rcases List.mem_cons.mp h with rfl | h'
      · right; rfl
      · left; simpa using h'
    | succ j =>
      rcases List.mem_cons.mp h with rfl | h'
      · left; simp
      · rcases ih j h' with h1 | h1
        · left; simp [h1]
        · right; simpa using h1

/-! ### the last publication -/

def lastPubFrom (uri : Text) (acc : Option (List Diag)) (log : List Msg) : Option (List Diag) :=
  log.foldl (fun acc m => match m with | .pub u ds => if u == uri then some ds else acc | _ => acc) acc

theorem lastPub_eq (uri : Text) (log : List Msg) : lastPub uri log = lastPubFrom uri none log := rfl

theorem lastPubFrom_eq (uri : Text) (acc : Option (List Diag)) (log : List Msg) :
    lastPubFrom uri acc log = match lastPubFrom uri none log with | some x => some x | none => acc := by
  induction log generalizing acc with
  | nil => rfl
  | cons m ms ih =>
    unfold lastPubFrom at ih ⊢
    simp only [List.foldl_cons]
    rw [ih, ih (match m with | .pub u ds => if u == uri then some ds else none | _ => none)]
    cases m with
    | pub u ds =>
      simp only
      split
      · rfl
      · split <;> rfl
    | «show» k t =>
      simp only
      split <;> rfl

theorem lastPub_append (uri : Text) (a b : List Msg) :
    lastPub uri (a ++ b) = match lastPub uri b with | some x => some x | none => lastPub uri a := by
  rw [lastPub_eq, lastPub_eq, lastPub_eq]
  unfold lastPubFrom
  rw [List.foldl_append]
  exact lastPubFrom_eq uri _ b

theorem lastPub_nil (uri : Text) : lastPub uri [] = none := rfl

theorem lastPub_single (uri u : Text) (ds : List Diag) : lastPub uri [Msg.pub u ds] = if u == uri then some ds else none := by
  unfold lastPub; simp only [List.foldl_cons, List.foldl_nil]

/-- publications for a list of documents keyed by distinct URIs: the last one for `uri` is the one of its document -/
theorem lastPub_map (uri : Text) (L : List (Text × List PkgInfo)) (g : Text × List PkgInfo → List Diag)
    (hn : (L.map (·.1)).Nodup) :
    lastPub uri (L.map fun d => Msg.pub d.1 (g d)) = (L.find? (·.1 == uri)).map g := by
  induction L with
  | nil => rfl
  | cons x xs ih =>
    simp only [List.map_cons, List.nodup_cons] at hn
    have hcons : (x :: xs).map (fun d => Msg.pub d.1 (g d)) = [Msg.pub x.1 (g x)] ++ xs.map (fun d => Msg.pub d.1 (g d)) := rfl
    rw [hcons, lastPub_append, ih hn.2]
    by_cases hx : (x.1 == uri) = true
    · have hnone : xs.find? (·.1 == uri) = none := by
        rw [List.find?_eq_none]
        intro y hy hyu
        have : x.1 = y.1 := by
          have h1 : x.1 = uri := by simpa using hx
          have h2 : y.1 = uri := by simpa using hyu
          rw [h1, h2]
        exact hn.1 (by rw [this]; exact List.mem_map_of_mem hy)
      rw [hnone, lastPub_single]
      simp [List.find?_cons, hx]
    · have hx' : (x.1 == uri) = false := by simpa using hx
      simp only [List.find?_cons, hx', lastPub_single]
      cases (xs.find? (·.1 == uri)).map g with
      | some y => rfl
      | none => simp

/-! ### what one step does to the state -/

/-- the state after an edit, under the default configuration with a store -/
theorem edit_char (s : Srv) (uri : Text) (pkgs : List PkgInfo) (hcfg : s.cfg.disabled = []) (hst : s.store = true) (hi : Inv s.db) :
    let r := Server.edit s uri pkgs
    r.1.cfg = s.cfg ∧ r.1.store = s.store ∧ r.1.ccfg = s.ccfg ∧ r.1.faults = s.faults ∧
    r.1.docs = setDoc s.docs uri (if (Detect.detect uri).isSome then pkgs else []) ∧
    Inv r.1.db ∧ (∀ k, SameData s.db r.1.db k) ∧
    (∀ t ∈ s.tasks, t ∈ r.1.tasks) ∧
    (∀ t ∈ r.1.tasks, t ∈ s.tasks ∨ (t.uri = some uri ∧ (Detect.detect uri).map String.toList = some t.reg ∧ t.fetched = [])) ∧
    r.2 = (match Detect.detect uri with | some reg => [Msg.pub uri (diagnose s reg pkgs)] | none => []) := by
  unfold Server.edit checkAndPublish cacheDocument
  have hns : (!s.store) = false := by rw [hst]; rfl
  cases hd : Detect.detect uri with
  | none =>
    simp only [hd]
    exact ⟨(by first | rfl | trivial), (by first | rfl | trivial), (by first | rfl | trivial), (by first | rfl | trivial), (by first | rfl | trivial), hi, fun k => SameData.refl _ k, fun t h => h, fun t h => Or.inl h, (by first | rfl | trivial)⟩
  | some reg =>
    have hdis : s.cfg.disabled.contains reg.toList = false := by rw [hcfg]; rfl
    simp only [hd, hdis, hns, Bool.false_eq_true, if_false, Option.isSome_some, if_true]
    have hdg : diagnose { s with docs := setDoc s.docs uri pkgs } reg pkgs = diagnose s reg pkgs := rfl
    by_cases he : pkgs.isEmpty = true
    · simp only [he, if_true]
      exact ⟨(by first | rfl | trivial), (by first | rfl | trivial), (by first | rfl | trivial), (by first | rfl | trivial), (by first | rfl | trivial), hi, fun k => SameData.refl _ k, fun t h => h, fun t h => Or.inl h, by first | rfl | (rw [hdg])⟩
    · simp only [he, Bool.false_eq_true, if_false]
      unfold spawnTask
      simp only
      obtain ⟨hi2, hsd⟩ := claimAll_frame reg.toList s.now
        ((pkgs.map (·.name)).filter fun n => (Cache.filterNotInCache s.db reg.toList (pkgs.map (·.name))).contains n) s.db hi
      split
      · exact ⟨(by first | rfl | trivial), (by first | rfl | trivial), (by first | rfl | trivial), (by first | rfl | trivial), (by first | rfl | trivial), hi2, hsd, fun t h => h, fun t h => Or.inl h, by first | rfl | (rw [hdg])⟩
      · refine ⟨(by first | rfl | trivial), (by first | rfl | trivial), (by first | rfl | trivial), (by first | rfl | trivial), (by first | rfl | trivial), hi2, hsd, fun t h => by simp [h], ?_, by first | rfl | (rw [hdg])⟩
        intro t ht
        simp only [List.mem_append, List.mem_singleton] at ht
        rcases ht with h | h
        · exact Or.inl h
        · right; subst h; exact ⟨rfl, by simp, rfl⟩

/-- the task after one of its packages has been answered -/
def taskAfter (t : Task) (name : Text) (ok : Bool) : Task :=
  { t with waiting := removeFirst name t.waiting, fetched := if ok then t.fetched ++ [name] else t.fetched }

/-- the four things a registry reply can do -/
theorem reply_char (s : Srv) (reg name : Text) (o : Fetch.Outcome) :
    Server.reply s reg name o = (s, []) ∨
    ∃ i t, s.tasks[i]? = some t ∧ t.reg = reg ∧
      (((taskAfter t name (applyOutcome s.db ⟨reg, name⟩ s.now o).2).waiting.isEmpty = false ∧
        Server.reply s reg name o =
          ({ s with db := (applyOutcome s.db ⟨reg, name⟩ s.now o).1,
                    tasks := s.tasks.set i (taskAfter t name (applyOutcome s.db ⟨reg, name⟩ s.now o).2) }, [])) ∨
      ((taskAfter t name (applyOutcome s.db ⟨reg, name⟩ s.now o).2).waiting.isEmpty = true ∧
        Server.reply s reg name o =
          finishTask { s with db := (applyOutcome s.db ⟨reg, name⟩ s.now o).1 } i
            (taskAfter t name (applyOutcome s.db ⟨reg, name⟩ s.now o).2))) := by
  cases hi : s.tasks.findIdx? (holds reg name) with
  | none => left; unfold Server.reply; rw [hi]
  | some i =>
    cases ht : s.tasks[i]? with
    | none => left; unfold Server.reply; rw [hi]; simp only [ht]
    | some t =>
      right
      have hreg : t.reg = reg := by
        obtain ⟨hlt, hp, _⟩ := List.findIdx?_eq_some_iff_getElem.mp hi
        have hti : s.tasks[i] = t := by
          have := List.getElem?_eq_getElem hlt
          rw [this] at ht; exact Option.some.inj ht
        rw [hti] at hp
        unfold holds at hp
        simp only [Bool.and_eq_true, beq_iff_eq] at hp
        exact hp.1
      refine ⟨i, t, ht, hreg, ?_⟩
      by_cases hw : (removeFirst name t.waiting).isEmpty = true
      · right
        refine ⟨hw, ?_⟩
        unfold Server.reply taskAfter; rw [hi]; simp only [ht]; rw [if_pos hw]
      · left
        have hw' : (removeFirst name t.waiting).isEmpty = false := by simpa using hw
        refine ⟨hw', ?_⟩
        unfold Server.reply taskAfter; rw [hi]; simp only [ht]; rw [if_neg hw]

/-! ### the invariant -/

/-- what holds of every reachable state and publication log (default configuration, usable store) -/
structure Good (s : Srv) (log : List Msg) : Prop where
  cfg : s.cfg.disabled = []
  store : s.store = true
  inv : Inv s.db
  uniq : UniqueDocs s
  tasksOk : ∀ t ∈ s.tasks, ∃ u, t.uri = some u ∧ (Detect.detect u).map String.toList = some t.reg
  /-- every supported open document was last published with SOME database that still agrees with the current
      one on each of its packages — except packages a live task has fetched (that task will re-check it) -/
  docsOk : ∀ d ∈ s.docs, ∀ reg, Detect.detect d.1 = some reg →
    ∃ s0 : Srv, s0.ccfg = s.ccfg ∧ s0.faults = s.faults ∧ lastPub d.1 log = some (diagnose s0 reg d.2) ∧
      ∀ p ∈ d.2, SameData s0.db s.db ⟨reg.toList, p.name⟩ ∨ ∃ t ∈ s.tasks, t.reg = reg.toList ∧ p.name ∈ t.fetched

theorem good_init : Good {} [] where
  cfg := rfl
  store := rfl
  inv := inv_empty
  uniq := by simp [UniqueDocs]
  tasksOk := by intro t ht; cases ht
  docsOk := by intro d hd; cases hd

theorem edit_good (s : Srv) (log : List Msg) (uri : Text) (pkgs : List PkgInfo) (h : Good s log) :
    Good (Server.edit s uri pkgs).1 (log ++ (Server.edit s uri pkgs).2) := by
  obtain ⟨hcfg, hst, hcc, hfa, hdocs, hinv, hsd, hsub, hnew, hout⟩ := edit_char s uri pkgs h.cfg h.store h.inv
  refine ⟨by rw [hcfg]; exact h.cfg, by rw [hst]; exact h.store, hinv, edit_unique s uri pkgs h.uniq, ?_, ?_⟩
  · intro t ht
    rcases hnew t ht with hold | ⟨hu, hr, _⟩
    · exact h.tasksOk t hold
    · exact ⟨uri, hu, hr⟩
  · intro d hd reg hreg
    rw [hdocs] at hd
    unfold setDoc at hd
    rcases List.mem_cons.mp hd with rfl | hd'
    · -- the edited document: published just now, with the database as it is
      simp only at hreg ⊢
      refine ⟨s, hcc.symm, hfa.symm, ?_, fun p _ => Or.inl (hsd _)⟩
      rw [hout, hreg, lastPub_append, lastPub_single]
      simp [hreg]
    · obtain ⟨hmem, hne⟩ := List.mem_filter.mp hd'
      have hne' : (uri == d.1) = false := by
        simp only [bne_iff_ne, ne_eq] at hne
        simpa using fun e => hne e.symm
      obtain ⟨s0, h1, h2, h3, h4⟩ := h.docsOk d hmem reg hreg
      refine ⟨s0, h1.trans hcc.symm, h2.trans hfa.symm, ?_, ?_⟩
      · rw [lastPub_append, hout]
        cases Detect.detect uri with
        | none => simpa [lastPub_nil] using h3
        | some r => simpa [lastPub_single, hne'] using h3
      · intro p hp
        rcases h4 p hp with hl | ⟨t, ht, hr, hf⟩
        · exact Or.inl (SameData.trans hl (hsd _))
        · exact Or.inr ⟨t, hsub t ht, hr, hf⟩

theorem string_ofList_toList (x : String) : String.ofList x.toList = x := by simp

/-- the registry string of a document handled by a task of registry `treg` -/
theorem reg_of_task {u : Text} {reg : String} {treg : Text} (hd : Detect.detect u = some reg)
    (ht : (Detect.detect u).map String.toList = some treg) : String.ofList treg = reg ∧ reg.toList = treg := by
  rw [hd] at ht
  simp only [Option.map_some, Option.some.injEq] at ht
  exact ⟨by rw [← ht]; exact string_ofList_toList reg, ht⟩

theorem reply_good (s : Srv) (log : List Msg) (reg name : Text) (o : Fetch.Outcome) (hw : wfOutcome o) (h : Good s log) :
    Good (Server.reply s reg name o).1 (log ++ (Server.reply s reg name o).2) := by
  rcases reply_char s reg name o with hno | ⟨i, t, hti, hreg, hcase⟩
  · rw [hno]; simpa using h
  · have htmem : t ∈ s.tasks := List.mem_of_getElem? hti
    obtain ⟨hinv', hother, hsame⟩ := applyOutcome_frame h.inv ⟨reg, name⟩ s.now o hw
    obtain ⟨u, htu, htreg⟩ := h.tasksOk t htmem
    -- abbreviations
    generalize hr : applyOutcome s.db ⟨reg, name⟩ s.now o = r at hinv' hother hsame hcase
    have hfetched_sub : ∀ n, n ∈ t.fetched → n ∈ (taskAfter t name r.2).fetched := by
      intro n hn; unfold taskAfter; simp only; split
      · simp [hn]
      · exact hn
    have hdata : ∀ (kd : Key), (kd ≠ ⟨reg, name⟩ ∨ r.2 = false) → SameData s.db r.1 kd := by
      intro kd hk
      by_cases hkk : kd = ⟨reg, name⟩
      · rcases hk with hk | hk
        · exact absurd hkk hk
        · rw [hkk]; exact hsame hk
      · exact hother kd hkk
    rcases hcase with ⟨hwait, heq⟩ | ⟨hwait, heq⟩
    · -- the task still waits for other packages: nothing is published
      rw [heq]
      simp only [List.append_nil]
      refine ⟨h.cfg, h.store, hinv', h.uniq, ?_, ?_⟩
      · intro t0 ht0
        rcases List.mem_or_eq_of_mem_set ht0 with hold | rfl
        · exact h.tasksOk t0 hold
        · exact ⟨u, htu, htreg⟩
      · intro d hd regd hregd
        obtain ⟨s0, h1, h2, h3, h4⟩ := h.docsOk d hd regd hregd
        refine ⟨s0, h1, h2, h3, ?_⟩
        intro p hp
        have hlt : i < s.tasks.length := by
          rcases Nat.lt_or_ge i s.tasks.length with hlt | hge
          · exact hlt
          · rw [List.getElem?_eq_none hge] at hti; cases hti
        have hset : taskAfter t name r.2 ∈ s.tasks.set i (taskAfter t name r.2) := List.mem_set hlt _
        rcases h4 p hp with hl | ⟨tw, htw, hrw, hfw⟩
        · by_cases hk : (⟨regd.toList, p.name⟩ : Key) ≠ ⟨reg, name⟩ ∨ r.2 = false
          · exact Or.inl (SameData.trans hl (hdata _ hk))
          · -- this reply stored data for exactly this package: the task that fetched it is the witness
            have hk1 : (⟨regd.toList, p.name⟩ : Key) = ⟨reg, name⟩ := by
              by_cases e : (⟨regd.toList, p.name⟩ : Key) = ⟨reg, name⟩
              · exact e
              · exact absurd (Or.inl e) hk
            have hk2 : r.2 = true := by
              cases e : r.2 with
              | true => rfl
              | false => exact absurd (Or.inr e) hk
            simp only [Key.mk.injEq] at hk1
            refine Or.inr ⟨taskAfter t name r.2, hset, ?_, ?_⟩
            · show t.reg = regd.toList
              rw [hreg, hk1.1]
            · unfold taskAfter; simp only [hk2, if_true, hk1.2]; simp
        · rcases mem_set_or_eq s.tasks i (taskAfter t name r.2) tw htw with hkeep | hisT
          · exact Or.inr ⟨tw, hkeep, hrw, hfw⟩
          · have : tw = t := by rw [hti] at hisT; exact (Option.some.inj hisT).symm
            subst this
            exact Or.inr ⟨taskAfter tw name r.2, hset, hrw, hfetched_sub _ hfw⟩
    · -- the task is complete
      rw [heq]
      have hstate := finishTask_state { s with db := r.1 } i (taskAfter t name r.2)
      have huri' : (taskAfter t name r.2).uri = some u := htu
      have hout : (finishTask { s with db := r.1 } i (taskAfter t name r.2)).2 =
          if (taskAfter t name r.2).fetched.isEmpty then []
          else (affected { s with db := r.1, tasks := s.tasks.eraseIdx i } (taskAfter t name r.2) u).map fun d =>
            Msg.pub d.1 (diagnose { s with db := r.1, tasks := s.tasks.eraseIdx i } (String.ofList t.reg) d.2) := by
        unfold finishTask
        simp only [huri']
        split <;> rfl
      rw [hstate, hout]
      refine ⟨h.cfg, h.store, hinv', h.uniq, ?_, ?_⟩
      · intro t0 ht0
        exact h.tasksOk t0 (List.mem_of_mem_eraseIdx ht0)
      · intro d hd regd hregd
        obtain ⟨s0, h1, h2, h3, h4⟩ := h.docsOk d hd regd hregd
        by_cases hempty : (taskAfter t name r.2).fetched.isEmpty = true
        · -- nothing was fetched: nothing is published, and no data changed
          simp only [hempty, if_true, List.append_nil]
          have hr2 : r.2 = false := by
            cases e : r.2 with
            | false => rfl
            | true =>
              exfalso
              unfold taskAfter at hempty
              simp [e] at hempty
          refine ⟨s0, h1, h2, h3, ?_⟩
          intro p hp
          rcases h4 p hp with hl | ⟨tw, htw, hrw, hfw⟩
          · exact Or.inl (SameData.trans hl (hdata _ (Or.inr hr2)))
          · rcases mem_eraseIdx_or_eq s.tasks i tw htw with hkeep | hisT
            · exact Or.inr ⟨tw, hkeep, hrw, hfw⟩
            · exfalso
              have : tw = t := by rw [hti] at hisT; exact (Option.some.inj hisT).symm
              subst this
              have := hfetched_sub _ hfw
              have hne : (taskAfter tw name r.2).fetched ≠ [] := List.ne_nil_of_mem this
              simp [hne] at hempty
        · have hempty' : (taskAfter t name r.2).fetched.isEmpty = false := by simpa using hempty
          simp only [hempty', Bool.false_eq_true, if_false]
          -- the list of documents re-checked, keyed by distinct URIs
          generalize haff : affected { s with db := r.1, tasks := s.tasks.eraseIdx i } (taskAfter t name r.2) u = A
          have hAsub : A.Sublist s.docs := by rw [← haff]; exact List.filter_sublist
          have hAnodup : (A.map (·.1)).Nodup := (List.Sublist.map _ hAsub).nodup h.uniq
          have hAmem : ∀ x, x ∈ A ↔ x ∈ s.docs ∧
              (x.1 == u || ((Detect.detect x.1).map String.toList == some (taskAfter t name r.2).reg &&
                x.2.any fun p => (taskAfter t name r.2).fetched.contains p.name)) = true := by
            intro x; rw [← haff]; unfold affected; exact List.mem_filter
          rw [lastPub_append, lastPub_map d.1 A _ hAnodup]
          by_cases hdA : d ∈ A
          · -- re-checked now
            rw [find_of_mem_unique A hAnodup d hdA]
            have hregs : String.ofList t.reg = regd := by
              have hc := ((hAmem d).mp hdA).2
              simp only [Bool.or_eq_true, beq_iff_eq, Bool.and_eq_true] at hc
              rcases hc with hc | ⟨hc, _⟩
              · rw [hc] at hregd; exact (reg_of_task hregd htreg).1
              · exact (reg_of_task hregd hc).1
            refine ⟨{ s with db := r.1, tasks := s.tasks.eraseIdx i }, rfl, rfl, ?_, fun p _ => Or.inl (SameData.refl _ _)⟩
            simp only [Option.map_some, hregs]
          · -- not re-checked: no package of this document was fetched by the finished task
            have hnone : A.find? (·.1 == d.1) = none := by
              rw [List.find?_eq_none]
              intro x hx hxd
              have hxs : x ∈ s.docs := hAsub.subset hx
              have : x = d := by
                have h1 := find_of_mem_unique s.docs h.uniq x hxs
                have h2 := find_of_mem_unique s.docs h.uniq d hd
                have e : x.1 = d.1 := by simpa using hxd
                rw [e] at h1; rw [h1] at h2; exact Option.some.inj h2
              exact hdA (this ▸ hx)
            simp only [hnone, Option.map_none]
            refine ⟨s0, h1, h2, h3, ?_⟩
            have hcond : ¬ (d.1 = u ∨ ((Detect.detect d.1).map String.toList = some t.reg ∧
                ∃ p ∈ d.2, p.name ∈ (taskAfter t name r.2).fetched)) := by
              intro hc
              apply hdA
              rw [hAmem]
              refine ⟨hd, ?_⟩
              simp only [Bool.or_eq_true, beq_iff_eq, Bool.and_eq_true, List.any_eq_true]
              rcases hc with hc | ⟨hc1, p, hp, hpf⟩
              · exact Or.inl hc
              · exact Or.inr ⟨hc1, p, hp, by simpa using hpf⟩
            have hregmap : (Detect.detect d.1).map String.toList = some regd.toList := by rw [hregd]; rfl
            intro p hp
            rcases h4 p hp with hl | ⟨tw, htw, hrw, hfw⟩
            · by_cases hk : (⟨regd.toList, p.name⟩ : Key) ≠ ⟨reg, name⟩ ∨ r.2 = false
              · exact Or.inl (SameData.trans hl (hdata _ hk))
              · exfalso
                have hk1 : (⟨regd.toList, p.name⟩ : Key) = ⟨reg, name⟩ := by
                  by_cases e : (⟨regd.toList, p.name⟩ : Key) = ⟨reg, name⟩
                  · exact e
                  · exact absurd (Or.inl e) hk
                have hk2 : r.2 = true := by
                  cases e : r.2 with
                  | true => rfl
                  | false => exact absurd (Or.inr e) hk
                simp only [Key.mk.injEq] at hk1
                apply hcond
                right
                refine ⟨by rw [hregmap, hk1.1, hreg], p, hp, ?_⟩
                unfold taskAfter; simp only [hk2, if_true, hk1.2]; simp
            · rcases mem_eraseIdx_or_eq s.tasks i tw htw with hkeep | hisT
              · exact Or.inr ⟨tw, hkeep, hrw, hfw⟩
              · exfalso
                have : tw = t := by rw [hti] at hisT; exact (Option.some.inj hisT).symm
                subst this
                apply hcond
                right
                exact ⟨by rw [hregmap, hrw], p, hp, hfetched_sub _ hfw⟩

/-- didClose removes the document and nothing else: the tasks it started keep running, and every other document keeps
    what it is owed -/
theorem close_good (s : Srv) (log : List Msg) (uri : Text) (h : Good s log) : Good (Server.close s uri) log where
  cfg := h.cfg
  store := h.store
  inv := h.inv
  uniq := by
    unfold UniqueDocs Server.close
    simp only
    exact List.Nodup.sublist (List.Sublist.map _ List.filter_sublist) h.uniq
  tasksOk := h.tasksOk
  docsOk := by
    intro d hd reg hreg
    have hd' : d ∈ s.docs := (List.mem_filter.mp hd).1
    exact h.docsOk d hd' reg hreg

/-! ### every schedule -/

/-- events as the code can receive them -/
def wfEv : Ev → Prop
  | .edit _ _ => True
  | .reply _ _ o => wfOutcome o
  | .close _ => True

theorem step_good (s : Srv) (log : List Msg) (e : Ev) (hw : wfEv e) (h : Good s log) :
    Good (step s e).1 (log ++ (step s e).2) := by
  cases e with
  | edit uri pkgs => exact edit_good s log uri pkgs h
  | reply reg name o => exact reply_good s log reg name o hw h
  | close uri => simpa [step] using close_good s log uri h

theorem run_good (evs : List Ev) : ∀ (s : Srv) (log : List Msg), (∀ e ∈ evs, wfEv e) → Good s log →
    Good (run s evs).1 (log ++ (run s evs).2) := by
  induction evs with
  | nil => intro s log _ h; simpa [run] using h
  | cons e es ih =>
    intro s log hw h
    have h1 := step_good s log e (hw e (by simp)) h
    have h2 := ih (step s e).1 (log ++ (step s e).2) (fun x hx => hw x (by simp [hx])) h1
    simp only [run]
    rw [← List.append_assoc]
    exact h2

/-- a document stays open as long as it is not closed -/
theorem step_keeps_doc (s : Srv) (e : Ev) (uri : Text) (hne : e ≠ .close uri) (h : ∃ d ∈ s.docs, d.1 = uri) :
    ∃ d ∈ (step s e).1.docs, d.1 = uri := by
  cases e with
  | close u =>
    obtain ⟨d, hd, hu⟩ := h
    refine ⟨d, ?_, hu⟩
    simp only [step, Server.close]
    refine List.mem_filter.mpr ⟨hd, ?_⟩
    simp only [bne_iff_ne, ne_eq]
    intro e; apply hne; rw [← e, hu]
  | reply reg name o => simp only [step]; rw [reply_docs]; exact h
  | edit uri' pkgs =>
    have hdocs : (Server.edit s uri' pkgs).1.docs = setDoc s.docs uri' (if (Detect.detect uri').isSome then pkgs else []) := by
      unfold Server.edit checkAndPublish cacheDocument
      simp only
      cases Detect.detect uri' with
      | none => rfl
      | some reg =>
        simp only
        split
        · rfl
        · split
          · rfl
          · split
            · rfl
            · unfold spawnTask; simp only; split <;> rfl
    simp only [step]
    rw [hdocs]
    unfold setDoc
    obtain ⟨d, hd, hu⟩ := h
    by_cases he : uri' = uri
    · exact ⟨_, List.mem_cons_self, he⟩
    · refine ⟨d, List.mem_cons_of_mem _ (List.mem_filter.mpr ⟨hd, ?_⟩), hu⟩
      simp only [bne_iff_ne, ne_eq]
      rw [hu]; exact fun e => he e.symm

theorem edit_opens_doc (s : Srv) (uri : Text) (pkgs : List PkgInfo) : ∃ d ∈ (Server.edit s uri pkgs).1.docs, d.1 = uri := by
  have hdocs : (Server.edit s uri pkgs).1.docs = setDoc s.docs uri (if (Detect.detect uri).isSome then pkgs else []) := by
    unfold Server.edit checkAndPublish cacheDocument
    simp only
    cases Detect.detect uri with
    | none => rfl
    | some reg =>
      simp only
      split
      · rfl
      · split
        · rfl
        · split
          · rfl
          · unfold spawnTask; simp only; split <;> rfl
  rw [hdocs]; exact ⟨_, List.mem_cons_self, rfl⟩

theorem run_keeps_doc (evs : List Ev) (s : Srv) (uri : Text) (hnc : Ev.close uri ∉ evs) (h : ∃ d ∈ s.docs, d.1 = uri) :
    ∃ d ∈ (run s evs).1.docs, d.1 = uri := by
  induction evs generalizing s with
  | nil => simpa [run] using h
  | cons e es ih =>
    simp only [run]
    exact ih _ (fun hm => hnc (List.mem_cons_of_mem _ hm))
      (step_keeps_doc s e uri (fun he => hnc (by rw [he]; exact List.mem_cons_self)) h)

theorem run_opens_doc (evs : List Ev) (s : Srv) (uri : Text) (pk : List PkgInfo) (hnc : Ev.close uri ∉ evs)
    (h : Ev.edit uri pk ∈ evs) : ∃ d ∈ (run s evs).1.docs, d.1 = uri := by
  induction evs generalizing s with
  | nil => cases h
  | cons e es ih =>
    simp only [run]
    have hnc' : Ev.close uri ∉ es := fun hm => hnc (List.mem_cons_of_mem _ hm)
    rcases List.mem_cons.mp h with rfl | h'
    · exact run_keeps_doc es _ uri hnc' (by simpa [step] using edit_opens_doc s uri pk)
    · exact ih _ hnc' h'

/-- **C13, in full**: on EVERY schedule of edits, registry replies and didClose (any interleaving, any number of
    documents, any outcomes) that ends with no fetch in flight, the diagnostics last published for each document that is
    open at the end are exactly the diagnosis of its latest text against the final cache. -/
theorem c13_full_holds (evs : List Ev) (hw : ∀ e ∈ evs, wfEv e) (uri : Text) (reg : String) (hdet : Detect.detect uri = some reg)
    (hq : Quiescent (run {} evs).1) (hopen : ∃ d ∈ (run {} evs).1.docs, d.1 = uri) :
    lastPub uri (run {} evs).2 = wanted (run {} evs).1 uri reg := by
  have hg := run_good evs {} [] hw good_init
  simp only [List.nil_append] at hg
  obtain ⟨d, hd, hdu⟩ := hopen
  obtain ⟨s0, h1, h2, h3, h4⟩ := hg.docsOk d hd reg (by rw [hdu]; exact hdet)
  have hno : (run {} evs).1.tasks = [] := by
    unfold Quiescent at hq; simpa using hq
  have hsame : ∀ p ∈ d.2, SameData s0.db (run {} evs).1.db ⟨reg.toList, p.name⟩ := by
    intro p hp
    rcases h4 p hp with hl | ⟨t, ht, _, _⟩
    · exact hl
    · rw [hno] at ht; cases ht
  unfold wanted
  rw [← hdu, find_of_mem_unique _ hg.uniq d hd, h3]
  simp only [Option.map_some]
  congr 1
  exact diagnose_congr s0 _ reg d.2 h1 h2 hsame

/-- the full statement as first written (kept in Props/C13.lean) follows for schedules the code can receive -/
theorem c13_full_wf (evs : List Ev) (hw : ∀ e ∈ evs, wfEv e) (uri : Text) (reg : String) (hdet : Detect.detect uri = some reg) :
    let r := run {} evs
    Quiescent r.1 → (∃ d ∈ r.1.docs, d.1 = uri) → lastPub uri r.2 = wanted r.1 uri reg :=
  fun hq hopen => c13_full_holds evs hw uri reg hdet hq hopen

/-- in particular every document that was edited and never closed -/
theorem c13_full_edited (evs : List Ev) (hw : ∀ e ∈ evs, wfEv e) (uri : Text) (reg : String) (hdet : Detect.detect uri = some reg)
    (hq : Quiescent (run {} evs).1) (hed : ∃ pk, Ev.edit uri pk ∈ evs) (hnc : Ev.close uri ∉ evs) :
    lastPub uri (run {} evs).2 = wanted (run {} evs).1 uri reg := by
  obtain ⟨pk, hpk⟩ := hed
  exact c13_full_holds evs hw uri reg hdet hq (run_opens_doc evs {} uri pk hnc hpk)

end Vlsp.C13
