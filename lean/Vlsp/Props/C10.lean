/-
  C10 — every fetch outcome is recorded correctly and always releases its claim.
  Model: Vlsp.Fetch (src/lsp/refresh.rs) over the cache model; uses the C08/C09 lemmas.
-/
import Vlsp.Model.Fetch
import Vlsp.Props.C08
import Vlsp.Props.C09

namespace Vlsp.C10
open Vlsp Vlsp.Text Vlsp.Db Vlsp.Fetch Vlsp.C08 Vlsp.C09

/-- the claim was obtained by this call -/
def claimed (db : Db) (k : Key) (now : Int) (f : Faults) : Bool :=
  !f.claim && (Cache.tryStartFetch db k now).2

/-- a refused or failed claim: nothing is asked of the registry, nothing changes, nothing is reported -/
theorem c10_no_claim_no_effect {db : Db} (hi : Inv db) (k : Key) (now : Int) (o : Outcome) (f : Faults)
    (hc : claimed db k now f = false) :
    (fetchAndCache db k now o f).called = false ∧ (fetchAndCache db k now o f).success = false ∧
    ∀ k', fsOf (fetchAndCache db k now o f).db k' = fsOf db k' ∧
          (fetchAndCache db k now o f).db.versionsOf k' = db.versionsOf k' ∧
          (fetchAndCache db k now o f).db.tagsOf k' = db.tagsOf k' := by
  unfold claimed at hc
  unfold fetchAndCache
  by_cases hf : f.claim = true
  · simp [hf]
  · have hf' : f.claim = false := by simpa using hf
    have ht : (Cache.tryStartFetch db k now).2 = false := by simpa [hf'] using hc
    simp only [hf', Bool.false_eq_true, if_false, ht, Bool.not_false, if_true]
    refine ⟨trivial, trivial, fun k' => ⟨c09_failed_claim_no_effect hi k now ht k', ?_, ?_⟩⟩
    · exact (c08_claim_keeps_data hi k k' now).1
    · exact (c08_claim_keeps_data hi k k' now).2

/-- the registry is asked exactly when the claim was obtained -/
theorem c10_called_iff (db : Db) (k : Key) (now : Int) (o : Outcome) (f : Faults) :
    (fetchAndCache db k now o f).called = claimed db k now f := by
  unfold fetchAndCache claimed
  cases f.claim <;> cases h : (Cache.tryStartFetch db k now).2 <;> simp [h]

/-- **reported as fetched exactly when** the claim was obtained, the registry returned versions
    and the cache accepted them -/
theorem c10_success_iff (db : Db) (k : Key) (now : Int) (o : Outcome) (f : Faults) :
    (fetchAndCache db k now o f).success = true ↔
      (claimed db k now f = true ∧ (∃ vs tags, o = .ok vs tags) ∧ f.replace = false) := by
  unfold fetchAndCache claimed
  cases hfc : f.claim <;> cases h : (Cache.tryStartFetch db k now).2 <;> simp [h]
  cases o <;> simp
  cases f.replace <;> simp

/-- a package that has a row keeps it through every cache operation -/
theorem hasRow_apply (d : Db) (op : C08.Op) (k' : Key) (h : (d.findPkg k').isSome) :
    ((C08.apply d op).findPkg k').isSome := by
  have upd : ∀ (d : Db) (k : Key) (g : Pkg → Pkg), (∀ p, (g p).key = p.key) → (d.findPkg k').isSome →
      ((d.updatePkgs k g).findPkg k').isSome := by
    intro d k g hg h
    rw [findPkg_updatePkgs d k k' g hg]; cases hq : d.findPkg k' <;> simp_all
  have ins : ∀ (d : Db) (k : Key) (n : Int) (fs : Option Int) (nf : Bool), (d.findPkg k').isSome →
      ((d.insertPkg k n fs nf).findPkg k').isSome := by
    intro d k n fs nf h
    rw [findPkg_insertPkg]; cases hq : d.findPkg k' <;> simp_all
  have same : ∀ (d d' : Db), d'.pkgs = d.pkgs → (d.findPkg k').isSome → (d'.findPkg k').isSome := by
    intro d d' hp h; unfold findPkg at *; rw [hp]; exact h
  cases op with
  | replace k vs now =>
    simp only [C08.apply, Cache.replaceVersions]
    have h1 : ((d.stmtUpsertTouch k now).findPkg k').isSome := by
      unfold stmtUpsertTouch; split
      · exact upd d k (fun p => { p with updatedAt := now }) (fun _ => rfl) h
      · exact ins d k now none false h
    cases hs : (d.stmtUpsertTouch k now).selectId k with
    | none => exact h
    | some pid => exact same _ _ (foldl_insert_pkgs _ pid vs).1 h1
  | tags k t now =>
    simp only [C08.apply, Cache.saveDistTags]
    split
    · exact h
    · have h1 : ((d.stmtInsertPkgIgnore k now).findPkg k').isSome := by
        unfold stmtInsertPkgIgnore; split
        · exact h
        · exact ins d k now none false h
      cases hs : (d.stmtInsertPkgIgnore k now).selectId k with
      | none => exact h
      | some pid => simp only; rw [foldl_insertTag_eq]; exact same _ _ rfl h1
  | mark k now =>
    simp only [C08.apply, Cache.markNotFound, stmtMark]; split
    · exact upd d k (fun p => { p with notFound := true }) (fun _ => rfl) h
    · exact ins d k now none true h
  | claim k now =>
    simp only [C08.apply, Cache.tryStartFetch, stmtClaimUpdate]
    have h1 := upd d k (fun p => if claimable p (now - Generated.fetchTimeoutMs) then { p with fetchingSince := some now } else p)
      (fun p => by split <;> rfl) h
    by_cases hn : (List.filter (fun p => p.key == k && claimable p (now - Generated.fetchTimeoutMs)) d.pkgs).length > 0
    · simp only [hn, if_true]; exact h1
    · simp only [hn, if_false]
      unfold stmtClaimInsert; split
      · exact h1
      · exact ins _ k now (some now) false h1
  | finish k => exact upd d k (fun p => { p with fetchingSince := none }) (fun _ => rfl) h
  | reopen => exact h

theorem hasRow_run (ops : List C08.Op) (d : Db) (k' : Key) (h : (d.findPkg k').isSome) :
    ((C08.run ops d).findPkg k').isSome := by
  induction ops generalizing d with
  | nil => exact h
  | cons op ops ih => exact ih _ (hasRow_apply d op k' h)

/-- the cache operations a fetch performs after it has obtained its claim, before the release -/
def bodyOps (k : Key) (now : Int) (o : Outcome) (fl : Faults) : List C08.Op :=
  match o with
  | .ok vs tags =>
    if fl.replace then []
    else [.replace k vs now] ++ (if !tags.isEmpty && !fl.saveTags then [.tags k tags now] else [])
  | .notFound => if fl.mark then [] else [.mark k now]
  | _ => []

/-- **a fetch is a history of cache operations on its own key**: claim, then the recording
    operations, then the release — so every C08 theorem (union, last tags, marks, isolation) applies to
    any batch and any interleaving of batches -/
theorem c10_as_history (db : Db) (k : Key) (now : Int) (o : Outcome) (fl : Faults)
    (hc : claimed db k now fl = true) :
    (fetchAndCache db k now o fl).db =
      C08.run ([.claim k now] ++ bodyOps k now o fl ++ (if fl.finish then [] else [.finish k])) db := by
  unfold claimed at hc
  have hf' : fl.claim = false := by cases h : fl.claim <;> simp_all
  have ht : (Cache.tryStartFetch db k now).2 = true := by simpa [hf'] using hc
  unfold fetchAndCache bodyOps
  simp only [hf', Bool.false_eq_true, if_false, ht, Bool.not_true]
  cases o with
  | ok vs tags =>
    cases hr : fl.replace <;> cases hfin : fl.finish <;>
      cases hb : (!tags.isEmpty && !fl.saveTags) <;> simp [C08.run, C08.apply, hb]
  | notFound => cases hm : fl.mark <;> cases hfin : fl.finish <;> simp [C08.run, C08.apply]
  | rateLimited => cases hfin : fl.finish <;> simp [C08.run, C08.apply]
  | network => cases hfin : fl.finish <;> simp [C08.run, C08.apply]
  | invalid => cases hfin : fl.finish <;> simp [C08.run, C08.apply]

/-- **the claim is always released**: whenever the claim was obtained and the release call itself
    did not fail, the package is unclaimed when the routine returns — for every outcome and every
    other fault -/
theorem c10_release {db : Db} (hi : Inv db) (k : Key) (now : Int) (o : Outcome) (fl : Faults)
    (hc : claimed db k now fl = true) (hfin : fl.finish = false) :
    fsOf (fetchAndCache db k now o fl).db k = some none := by
  rw [c10_as_history db k now o fl hc]
  simp only [hfin, Bool.false_eq_true, if_false]
  rw [C08.run, List.foldl_append]
  simp only [List.foldl_cons, List.foldl_nil, C08.apply, Cache.finishFetch]
  rw [fsOf_finish]
  -- the row exists after the claim and persists
  have hrow : ((C08.run ([.claim k now] ++ bodyOps k now o fl) db).findPkg k).isSome := by
    rw [C08.run, List.foldl_append]
    apply hasRow_run
    simp only [List.foldl_cons, List.foldl_nil, C08.apply]
    unfold claimed at hc
    have hf' : fl.claim = false := by cases h : fl.claim <;> simp_all
    have ht : (Cache.tryStartFetch db k now).2 = true := by simpa [hf'] using hc
    by_cases hn : (db.stmtClaimUpdate k now (now - Generated.fetchTimeoutMs)).2 > 0
    · obtain ⟨fs, hfs, _⟩ := (claimUpdate_count_pos hi k now _).mp hn
      have : fsOf (Cache.tryStartFetch db k now).1 k = some (some now) ∨ True := Or.inr trivial
      have h2 : (fsOf (Cache.tryStartFetch db k now).1 k).isSome := by
        unfold Cache.tryStartFetch; simp only [hn, if_true]
        rw [fsOf_claimUpdate, hfs]; rfl
      unfold fsOf at h2; cases hq : (Cache.tryStartFetch db k now).1.findPkg k <;> simp_all
    · have h2 : (fsOf (Cache.tryStartFetch db k now).1 k).isSome := by
        unfold Cache.tryStartFetch at ht ⊢
        simp only [hn, if_false] at ht ⊢
        have hm : ((db.stmtClaimUpdate k now (now - Generated.fetchTimeoutMs)).1.stmtClaimInsert k now).2 > 0 := by
          simpa using ht
        have := (claimInsert_count_pos _ k now).mp hm
        rw [fsOf_claimInsert, this]; simp [this]
      unfold fsOf at h2; cases hq : (Cache.tryStartFetch db k now).1.findPkg k <;> simp_all
  unfold C08.run at hrow
  unfold fsOf
  cases hq : (List.foldl C08.apply db ([C08.Op.claim k now] ++ bodyOps k now o fl)).findPkg k with
  | none => rw [hq] at hrow; cases hrow
  | some q => simp

theorem wf_ops (k : Key) (now : Int) (o : Outcome) (fl : Faults)
    (htags : ∀ vs tags, o = .ok vs tags → (tags.map (·.1)).Nodup) :
    ∀ op ∈ ([C08.Op.claim k now] ++ bodyOps k now o fl ++ (if fl.finish then [] else [C08.Op.finish k])), op.wf := by
  intro op hop
  cases op with
  | tags k' t n =>
    simp only [List.mem_append, List.mem_singleton, reduceCtorEq, false_or] at hop
    rcases hop with hb | hf
    · unfold bodyOps at hb
      cases o with
      | ok vs tags =>
        simp only at hb
        split at hb
        · cases hb
        · simp only [List.mem_append, List.mem_singleton, reduceCtorEq, false_or] at hb
          split at hb
          · simp only [List.mem_singleton, C08.Op.tags.injEq] at hb
            obtain ⟨_, rfl, _⟩ := hb
            exact htags vs t rfl
          · cases hb
      | notFound => simp only at hb; split at hb <;> simp at hb
      | rateLimited => simp at hb
      | network => simp at hb
      | invalid => simp at hb
    · split at hf <;> simp at hf
  | replace _ _ _ => trivial
  | mark _ _ => trivial
  | claim _ _ => trivial
  | finish _ => trivial
  | reopen => trivial

/-- **versions are stored exactly when** the registry returned them and the cache accepted them -/
theorem c10_versions_iff {db : Db} (hi : Inv db) (k : Key) (now : Int) (o : Outcome) (fl : Faults)
    (hc : claimed db k now fl = true) (htags : ∀ vs tags, o = .ok vs tags → (tags.map (·.1)).Nodup) (w : Text) :
    w ∈ (fetchAndCache db k now o fl).db.versionsOf k ↔
      w ∈ db.versionsOf k ∨ ∃ vs tags, o = .ok vs tags ∧ fl.replace = false ∧ w ∈ vs := by
  rw [c10_as_history db k now o fl hc, c08_union _ (wf_ops k now o fl htags) hi]
  constructor
  · rintro (h | ⟨vs, n, hm, hw⟩)
    · exact Or.inl h
    · right
      simp only [List.mem_append, List.mem_singleton, reduceCtorEq, false_or] at hm
      rcases hm with hb | hf
      · unfold bodyOps at hb
        cases o with
        | ok vs' tags =>
          simp only at hb
          split at hb
          · cases hb
          · rename_i hr
            simp only [List.mem_append, List.mem_singleton, C08.Op.replace.injEq] at hb
            rcases hb with ⟨_, rfl, _⟩ | hb
            · exact ⟨vs, tags, rfl, by simpa using hr, hw⟩
            · split at hb <;> simp at hb
        | notFound => simp only at hb; split at hb <;> simp at hb
        | rateLimited => simp at hb
        | network => simp at hb
        | invalid => simp at hb
      · split at hf <;> simp at hf
  · rintro (h | ⟨vs, tags, rfl, hr, hw⟩)
    · exact Or.inl h
    · right
      refine ⟨vs, now, ?_, hw⟩
      simp [bodyOps, hr]

/-- **a failure (or success) for one package never touches another package of the batch**:
    whatever `k`'s outcome and faults, every other key reads back the same versions -/
theorem c10_batch_isolation {db : Db} (hi : Inv db) (k k' : Key) (now : Int) (o : Outcome) (fl : Faults)
    (htags : ∀ vs tags, o = .ok vs tags → (tags.map (·.1)).Nodup) (hkk : k' ≠ k) (w : Text) :
    w ∈ (fetchAndCache db k now o fl).db.versionsOf k' ↔ w ∈ db.versionsOf k' := by
  by_cases hc : claimed db k now fl = true
  · rw [c10_as_history db k now o fl hc, c08_union _ (wf_ops k now o fl htags) hi]
    constructor
    · rintro (h | ⟨vs, n, hm, _⟩)
      · exact h
      · exfalso
        simp only [List.mem_append, List.mem_singleton, reduceCtorEq, false_or] at hm
        rcases hm with hb | hf
        · unfold bodyOps at hb
          cases o with
          | ok vs' tags =>
            simp only at hb
            split at hb
            · cases hb
            · simp only [List.mem_append, List.mem_singleton, C08.Op.replace.injEq] at hb
              rcases hb with ⟨h1, _, _⟩ | hb
              · exact hkk h1
              · split at hb <;> simp at hb
          | notFound => simp only at hb; split at hb <;> simp at hb
          | rateLimited => simp at hb
          | network => simp at hb
          | invalid => simp at hb
        · split at hf <;> simp at hf
    · exact Or.inl
  · have hc' : claimed db k now fl = false := by simpa using hc
    rw [((c10_no_claim_no_effect hi k now o fl hc').2.2 k').2.1]

/-- **any interleaving of any batch**: for ANY sequence of cache operations (in particular any merge
    of the per-package histories of a batch, in any order), a package's versions afterwards are what
    it had plus what was stored for it — independent of the other packages' outcomes and faults -/
theorem c10_batch_independent (ops : List C08.Op) (hw : ∀ op ∈ ops, op.wf) {db : Db} (hi : Inv db) (k : Key) (w : Text) :
    w ∈ (C08.run ops db).versionsOf k ↔ w ∈ db.versionsOf k ∨ ∃ vs now, C08.Op.replace k vs now ∈ ops ∧ w ∈ vs :=
  c08_union ops hw hi k w

/-- only packages that are actually missing are requested; if the filter query fails nothing is -/
theorem c10_only_missing_requested (db : Db) (reg : Text) (now : Int) (jobs : List Job) (ff : Bool) (n : Text)
    (h : n ∈ (fetchMissing db reg now jobs ff).requested) :
    ff = false ∧ n ∈ Cache.filterNotInCache db reg (jobs.map (·.name)) := by
  unfold fetchMissing at h
  split at h
  · cases h
  · have sub : ∀ (js : List Job) (d : Db), n ∈ (runJobs d reg now js).requested → ∃ j ∈ js, j.name = n := by
      intro js
      induction js with
      | nil => intro d h; cases h
      | cons j rest ih =>
        intro d h
        simp only [runJobs, List.mem_append] at h
        rcases h with h | h
        · split at h
          · exact ⟨j, List.mem_cons_self, (List.mem_singleton.mp h).symm⟩
          · cases h
        · obtain ⟨j', hj', hn⟩ := ih _ h
          exact ⟨j', List.mem_cons_of_mem _ hj', hn⟩
    obtain ⟨j, hj, hn⟩ := sub _ _ h
    have := (List.mem_filter.mp hj).2
    cases ff with
    | true => simp at this
    | false =>
      simp only [Bool.false_eq_true, if_false, List.contains_iff_mem] at this
      exact ⟨rfl, hn ▸ this⟩

/-- no cache operation other than `mark_not_found` changes any mark -/
theorem notFound_apply_eq (d : Db) (op : C08.Op) (k' : Key) (hop : ∀ k n, op ≠ .mark k n) :
    notFoundOf (C08.apply d op) k' = notFoundOf d k' := by
  have upd : ∀ (d : Db) (k : Key) (g : Pkg → Pkg), (∀ p, (g p).key = p.key) → (∀ p, (g p).notFound = p.notFound) →
      notFoundOf (d.updatePkgs k g) k' = notFoundOf d k' := by
    intro d k g hg hn
    unfold notFoundOf
    rw [findPkg_updatePkgs d k k' g hg]
    cases hq : d.findPkg k' with
    | none => rfl
    | some q => simp only [Option.map_some]; split <;> simp [hn]
  have ins : ∀ (d : Db) (k : Key) (n : Int) (fs : Option Int),
      notFoundOf (d.insertPkg k n fs false) k' = notFoundOf d k' := by
    intro d k n fs
    unfold notFoundOf
    rw [findPkg_insertPkg]
    cases hq : d.findPkg k' with
    | some q => rfl
    | none =>
      simp only
      by_cases hk : k = k'
      · simp [hk]
      · simp [hk]
  have same : ∀ (d d' : Db), d'.pkgs = d.pkgs → notFoundOf d' k' = notFoundOf d k' := by
    intro d d' hp; unfold notFoundOf findPkg; rw [hp]
  cases op with
  | replace k vs now =>
    simp only [C08.apply, Cache.replaceVersions]
    have h1 : notFoundOf (d.stmtUpsertTouch k now) k' = notFoundOf d k' := by
      unfold stmtUpsertTouch; split
      · exact upd d k (fun p => { p with updatedAt := now }) (fun _ => rfl) (fun _ => rfl)
      · exact ins d k now none
    cases hs : (d.stmtUpsertTouch k now).selectId k with
    | none => rfl
    | some pid => exact (same _ _ (foldl_insert_pkgs _ pid vs).1).trans h1
  | tags k t now =>
    simp only [C08.apply, Cache.saveDistTags]
    split
    · rfl
    · have h1 : notFoundOf (d.stmtInsertPkgIgnore k now) k' = notFoundOf d k' := by
        unfold stmtInsertPkgIgnore; split
        · rfl
        · exact ins d k now none
      cases hs : (d.stmtInsertPkgIgnore k now).selectId k with
      | none => rfl
      | some pid => simp only; rw [foldl_insertTag_eq]; exact (same _ _ rfl).trans h1
  | mark k now => exact absurd rfl (hop k now)
  | claim k now =>
    simp only [C08.apply, Cache.tryStartFetch, stmtClaimUpdate]
    have h1 := upd d k (fun p => if claimable p (now - Generated.fetchTimeoutMs) then { p with fetchingSince := some now } else p)
      (fun p => by split <;> rfl) (fun p => by split <;> rfl)
    by_cases hn : (List.filter (fun p => p.key == k && claimable p (now - Generated.fetchTimeoutMs)) d.pkgs).length > 0
    · simp only [hn, if_true]; exact h1
    · simp only [hn, if_false]
      unfold stmtClaimInsert; split
      · exact h1
      · exact (ins _ k now (some now)).trans h1
  | finish k => exact upd d k (fun p => { p with fetchingSince := none }) (fun _ => rfl) (fun _ => rfl)
  | reopen => rfl

/-- **never marked nonexistent for a transient failure** (rate limit, network, garbage) nor for a
    successful fetch: every mark is exactly as before, for every fault combination -/
theorem c10_transient_never_marks (db : Db) (k k' : Key) (now : Int) (o : Outcome) (fl : Faults)
    (ho : o ≠ .notFound) : notFoundOf (fetchAndCache db k now o fl).db k' = notFoundOf db k' := by
  by_cases hc : claimed db k now fl = true
  · rw [c10_as_history db k now o fl hc]
    have hnomark : ∀ op ∈ ([C08.Op.claim k now] ++ bodyOps k now o fl ++ (if fl.finish then [] else [C08.Op.finish k])),
        ∀ k n, op ≠ .mark k n := by
      intro op hop k0 n0 he
      subst he
      simp only [List.mem_append, List.mem_singleton, reduceCtorEq, false_or] at hop
      rcases hop with hb | hf
      · unfold bodyOps at hb
        cases o with
        | ok vs tags =>
          simp only at hb
          split at hb
          · cases hb
          · simp only [List.mem_append, List.mem_singleton, reduceCtorEq, false_or] at hb
            split at hb <;> simp at hb
        | notFound => exact ho rfl
        | rateLimited => simp at hb
        | network => simp at hb
        | invalid => simp at hb
      · split at hf <;> simp at hf
    have gen : ∀ (ops : List C08.Op) (d : Db), (∀ op ∈ ops, ∀ k n, op ≠ C08.Op.mark k n) →
        notFoundOf (C08.run ops d) k' = notFoundOf d k' := by
      intro ops
      induction ops with
      | nil => intro d _; rfl
      | cons op ops ih =>
        intro d hnm
        simp only [C08.run, List.foldl_cons]
        have := ih (C08.apply d op) (fun o ho => hnm o (List.mem_cons_of_mem _ ho))
        simp only [C08.run] at this
        rw [this, notFound_apply_eq d op k' (hnm op List.mem_cons_self)]
    exact gen _ db hnomark
  · have hc' : claimed db k now fl = false := by simpa using hc
    unfold claimed at hc'
    unfold fetchAndCache
    by_cases hf : fl.claim = true
    · simp [hf]
    · have hf' : fl.claim = false := by simpa using hf
      have ht : (Cache.tryStartFetch db k now).2 = false := by simpa [hf'] using hc'
      simp only [hf', Bool.false_eq_true, if_false, ht, Bool.not_false, if_true]
      exact notFound_apply_eq db (.claim k now) k' (fun _ _ h => by cases h)

/-- a definitive not-found answer IS recorded (unless that very cache call failed) -/
theorem c10_notfound_marks {db : Db} (k : Key) (now : Int) (fl : Faults)
    (hc : claimed db k now fl = true) (hm : fl.mark = false) :
    notFoundOf (fetchAndCache db k now .notFound fl).db k = true := by
  rw [c10_as_history db k now .notFound fl hc]
  simp only [bodyOps, hm, Bool.false_eq_true, if_false]
  rw [C08.run, List.foldl_append, List.foldl_append]
  simp only [List.foldl_cons, List.foldl_nil]
  apply c08_mark_survives
  exact c08_mark_sets _ k now

/-! ### non-vacuity -/
example :
    let k : Key := ⟨"npm".toList, "p".toList⟩
    let r := fetchAndCache Db.empty k 7 (.ok ["1.0.0".toList] [("latest".toList, "1.0.0".toList)]) { saveTags := true }
    r.success = true ∧ r.db.versionsOf k = ["1.0.0".toList] ∧ r.db.tagsOf k = [] ∧ fsOf r.db k = some none := by decide
example :
    let k : Key := ⟨"npm".toList, "p".toList⟩
    let r := fetchAndCache Db.empty k 7 .rateLimited {}
    r.success = false ∧ notFoundOf r.db k = false ∧ fsOf r.db k = some none := by decide
example :
    let k : Key := ⟨"npm".toList, "p".toList⟩
    let r := fetchAndCache Db.empty k 7 .notFound { finish := true }
    notFoundOf r.db k = true ∧ fsOf r.db k = some (some 7) := by decide

end Vlsp.C10
