/-
  C02 for Cargo at the level of parsed requirements: `VersionRequirement::satisfies` (model `Crates.satisfiesReq`) is
  the semver crate's `matches_comparator` (without the prerelease gate) of the comparator it denotes, for every
  requirement and every candidate (build metadata takes no part on either side: the code compares by SemVer precedence
  since the repair of F-C02-6).
-/
import Vlsp.Props.C02Ast
import Vlsp.Spec.CratesDenote

namespace Vlsp.C02Ast
open Vlsp Vlsp.Text Vlsp.Semver Vlsp.Spec Vlsp.Spec.CargoReq

theorem preGe_iff (a b : Text) : preGe a b = true ↔ ordNum (cmpPre a b) ≠ 0 := by
  unfold preGe; rw [Ne, ← ord_lt_iff]; simp
theorem preGt_iff (a b : Text) : preGt a b = true ↔ ordNum (cmpPre a b) = 2 := by
  unfold preGt; rw [← ord_gt_iff]; simp
theorem preLt_iff (a b : Text) : preLt a b = true ↔ ordNum (cmpPre a b) = 0 := by
  unfold preLt; rw [← ord_lt_iff]; simp

theorem cmpPre_eq_iff (a b : Text) : a = b ↔ ordNum (cmpPre a b) = 1 := by
  rw [← ord_eq_iff]
  constructor
  · rintro rfl; exact Std.ReflCmp.compare_self
  · exact cmpPre_eq

theorem ite_true_iff (c : Prop) [Decidable c] (a b : Bool) :
    (if c then a else b) = true ↔ (c ∧ a = true) ∨ (¬c ∧ b = true) := by
  by_cases h : c <;> simp [h]

/-- **for every parsed requirement and every candidate, the code's `satisfies` is the semver crate's
    `matches_comparator`** (each side is turned into a formula over the three numbers and the prerelease comparison;
    `omega` decides the equivalence) -/
theorem c02_crates_ast (r : Crates.Req) (x : Version) :
    Crates.satisfiesReq r x = (match toRefC r with | some c => matchesComparator c x | none => true) := by
  induction r with
  | anchored r a ih => simp only [Crates.satisfiesReq, toRefC]; exact ih
  | any => rfl
  | wildcardMajor m =>
    simp only [Crates.satisfiesReq, toRefC, matchesComparator, matchesExact, Bool.and_true]
  | wildcardMinor m n =>
    simp only [Crates.satisfiesReq, toRefC, matchesComparator, matchesExact, Bool.and_true]
  | exact v =>
    simp only [Crates.satisfiesReq, toRefC, fullC, matchesComparator, matchesExact]
    rw [Bool.eq_iff_iff]
    simp only [beq_iff_eq, Bool.and_eq_true, peq_iff, cmp4_eq, cmpPre_eq_iff]
    omega
  | gte v =>
    simp only [Crates.satisfiesReq, toRefC, fullC, matchesComparator, matchesExact, matchesGreater]
    rw [Bool.eq_iff_iff]
    have := ordNum_le (cmpPre x.pre v.pre)
    simp only [pge_iff, cmp4_lt, ite_true_iff, bne_iff_ne, ne_eq, decide_eq_true_eq, preGt_iff, Bool.false_eq_true,
      Bool.or_eq_true, Bool.and_eq_true, beq_iff_eq, cmpPre_eq_iff]
    omega
  | gt v =>
    simp only [Crates.satisfiesReq, toRefC, fullC, matchesComparator, matchesGreater]
    rw [Bool.eq_iff_iff]
    simp only [pgt_iff, cmp4_gt, ite_true_iff, bne_iff_ne, ne_eq, decide_eq_true_eq, preGt_iff, Bool.false_eq_true]
    omega
  | lte v =>
    simp only [Crates.satisfiesReq, toRefC, fullC, matchesComparator, matchesExact, matchesLess]
    rw [Bool.eq_iff_iff]
    have := ordNum_le (cmpPre x.pre v.pre)
    simp only [ple_iff, cmp4_gt, ite_true_iff, bne_iff_ne, ne_eq, decide_eq_true_eq, preLt_iff, Bool.false_eq_true,
      Bool.or_eq_true, Bool.and_eq_true, beq_iff_eq, cmpPre_eq_iff]
    omega
  | lt v =>
    simp only [Crates.satisfiesReq, toRefC, fullC, matchesComparator, matchesLess]
    rw [Bool.eq_iff_iff]
    simp only [plt_iff, cmp4_lt, ite_true_iff, bne_iff_ne, ne_eq, decide_eq_true_eq, preLt_iff, Bool.false_eq_true]
    omega
  | tilde v =>
    simp only [Crates.satisfiesReq, toRefC, fullC, matchesComparator, matchesTilde]
    rw [Bool.eq_iff_iff]
    simp only [pge_iff, cmp4_lt, ite_true_iff, bne_iff_ne, ne_eq, decide_eq_true_eq, preGe_iff, Bool.false_eq_true,
      Bool.and_eq_true, beq_iff_eq, and_false, false_or, or_false, Decidable.not_not]
    omega
  | caret v =>
    simp only [Crates.satisfiesReq, toRefC, fullC, matchesComparator, matchesCaret]
    rw [Bool.eq_iff_iff]
    have hl := plt_iff x v
    rw [cmp4_lt] at hl
    simp only [ite_true_iff, hl, bne_iff_ne, ne_eq, decide_eq_true_eq, preGe_iff, Bool.false_eq_true, Bool.or_eq_true,
      Bool.and_eq_true, beq_iff_eq, and_false, false_or]
    omega

theorem c02_crates_spec_ast (rs : List Crates.Req) (x : Version) :
    Crates.satisfies rs x = CargoReq.sat (reqsRef rs) x := by
  unfold Crates.satisfies CargoReq.sat reqsRef
  induction rs with
  | nil => rfl
  | cons r rest ih =>
    simp only [List.all_cons, List.filterMap_cons]
    rw [c02_crates_ast r x, ih]
    cases toRefC r with
    | none => simp
    | some c => simp

/-- a comparator with a partial operand matches exactly what the comparator on floors matches that the code builds for
    it (`>1` is `>=2.0.0-0`, `<=1.2` is `<1.3.0-0`, `=1.2`, `~1.2` are `1.2.*`, `^1.2` is `^1.2.0-0`, `0` is `0.*`) -/
theorem matches_normC (c : Comparator) (x : Version) (hx : PreFloor x.pre) :
    matchesComparator (normC c) x = matchesComparator c x := by
  have hfl := floor_not_lt x.pre hx
  have hle := ordNum_le (cmpPre x.pre ['0'])
  obtain ⟨op, M, minor, patch, pre⟩ := c
  cases op <;> cases minor <;> cases patch <;> simp only [normC, floorC] <;> (try split) <;>
    simp only [matchesComparator, matchesExact, matchesGreater, matchesLess, matchesTilde, matchesCaret] <;>
    first
      | rfl
      | (rw [Bool.eq_iff_iff]
         simp only [ite_true_iff, bne_iff_ne, ne_eq, decide_eq_true_eq, preGt_iff, preLt_iff, preGe_iff, Bool.false_eq_true,
           Bool.or_eq_true, Bool.and_eq_true, beq_iff_eq, cmpPre_eq_iff, and_false, false_or, or_false, and_true, true_and, Decidable.not_not,
           ge_iff_le, gt_iff_lt, false_and, not_false_eq_true, not_true_eq_false, Bool.and_true, Bool.true_and, Bool.and_false,
           Bool.false_and] <;> omega)

theorem all_normC (r : List Comparator) (x : Version) (hx : PreFloor x.pre) :
    ((r.map normC).all fun c => matchesComparator c x) = r.all fun c => matchesComparator c x := by
  induction r with
  | nil => rfl
  | cons c rest ih => simp only [List.map_cons, List.all_cons, matches_normC c x hx, ih]

/-- from one evaluation to all candidates, as for npm -/
theorem c02_crates_same_reading (spec : Text) (h : sameReadingCrates spec = "same") (x : Version) (hx : PreFloor x.pre) :
    ∃ s r, Crates.parseSpec spec = some s ∧ CargoReq.parse spec = some r ∧ Crates.satisfies s x = CargoReq.sat r x := by
  unfold sameReadingCrates at h
  cases hs : Crates.parseSpec spec with
  | none => rw [hs] at h; cases hr : CargoReq.parse spec <;> rw [hr] at h <;> simp at h
  | some s =>
    cases hr : CargoReq.parse spec with
    | none => rw [hs, hr] at h; simp at h
    | some r =>
      rw [hs, hr] at h
      simp only at h
      have heq : reqsRef s = r.map normC := by
        by_cases hq : (reqsRef s == r.map normC) = true
        · exact eq_of_beq hq
        · rw [if_neg hq] at h; simp at h
      refine ⟨s, r, rfl, rfl, ?_⟩
      rw [c02_crates_spec_ast s x, heq]
      exact all_normC r x hx

example : Crates.satisfiesReq (.caret ⟨0, 0, 3, [], []⟩) ⟨0, 0, 3, [], []⟩ = true ∧
    matchesComparator (fullC .caret ⟨0, 0, 3, [], []⟩) ⟨0, 0, 3, [], []⟩ = true := by decide

end Vlsp.C02Ast
