/-
  C14 — every documented configuration option takes effect; bad input is harmless.
  Model: Vlsp.ConfigM (serde view of LspConfig, spawn_fetch_configuration) + Vlsp.Server gates.
-/
import Vlsp.Model.Config

namespace Vlsp.C14
open Vlsp Vlsp.Text Vlsp.Json Vlsp.ConfigM Vlsp.Server

/-! ### the `enabled` gate -/

/-- files of a disabled registry receive neither diagnostics nor code actions, whatever they contain -/
theorem c14_enabled_gate (s : Srv) (uri : Text) (reg : String) (pkgs : List PkgInfo)
    (hd : Detect.detect uri = some reg) (hdis : s.cfg.disabled.contains reg.toList = true) :
    (Server.edit s uri pkgs).2 = [] ∧ ∀ line ch, Server.codeAction s uri line ch = none := by
  constructor
  · unfold Server.edit checkAndPublish cacheDocument
    simp only [hd, hdis, if_true]
  · intro line ch
    unfold Server.codeAction
    simp only [hd, hdis, if_true]

/-- … while every other registry keeps working exactly as under the default configuration: what an
    edit publishes and which task it spawns depends on the configuration only through "is THIS
    document's registry disabled" -/
theorem c14_others_unaffected (s : Srv) (cfg' : Config) (uri : Text) (reg : String) (pkgs : List PkgInfo)
    (hd : Detect.detect uri = some reg) (h1 : s.cfg.disabled.contains reg.toList = false)
    (h2 : cfg'.disabled.contains reg.toList = false) :
    (Server.edit { s with cfg := cfg' } uri pkgs).2 = (Server.edit s uri pkgs).2 ∧
    (Server.edit { s with cfg := cfg' } uri pkgs).1.db = (Server.edit s uri pkgs).1.db := by
  unfold Server.edit checkAndPublish cacheDocument
  simp only [hd, h1, h2, Bool.false_eq_true, if_false, Option.isSome_some, if_true]
  cases hs : s.store with
  | false => simp [hs]
  | true =>
    simp only [hs, Bool.not_true, Bool.false_eq_true, if_false]
    split
    · exact ⟨rfl, rfl⟩
    · refine ⟨rfl, ?_⟩
      unfold spawnTask
      simp only
      split <;> rfl

/-! ### parsing the answer -/

theorem keys_eq : Generated.configTopKeys = ["cache", "registries", "ignorePrerelease"] ∧
    Generated.configCacheKeys = ["refreshInterval"] ∧ Generated.configRegistryField = ["enabled"] ∧
    Generated.configRegistryKeys.map (·.1) = ["npm", "crates", "goProxy", "github", "pnpmCatalog", "jsr", "pypi"] ∧
    Generated.configDefaultEnabled = true ∧ Generated.configDefaultIgnorePrerelease = true ∧
    Generated.configNullIsDefault = true ∧ Generated.defaultRefreshIntervalMs = 86400000 := by decide

/-- missing options take their documented defaults: everything enabled, prereleases ignored, 24 h -/
theorem c14_defaults : parseConfig (.obj []) = some ⟨[], true, 86400000⟩ := by decide

/-- a null answer means all defaults -/
theorem c14_null_is_default (s : Srv) : (applyAnswer s (.value .null)) = ({ s with cfg := ⟨[], true, 86400000⟩ }, []) := by
  simp [applyAnswer, keys_eq, defaultConfig]

/-- a failing / unsupported configuration request, or an empty answer, changes nothing and shows nothing -/
theorem c14_request_failure_harmless (s : Srv) : applyAnswer s .failed = (s, []) ∧ applyAnswer s .empty = (s, []) :=
  ⟨rfl, rfl⟩

/-- **a malformed answer is reported and leaves the previous settings in force** (exactly one message,
    state untouched) -/
theorem c14_malformed_keeps_previous (s : Srv) (j : Json) (hn : j ≠ .null) (hbad : parseConfig j = none) :
    applyAnswer s (.value j) = (s, [.show "error" "Failed to parse configuration".toList]) := by
  unfold applyAnswer
  cases j <;> simp_all

theorem beq_false_of_ne {k : Text} {n : String} (h : n.toList ≠ k) : (k == n.toList) = false := by
  cases hb : (k == n.toList) with
  | false => rfl
  | true => exact absurd (beq_iff_eq.mp hb).symm h

theorem anyCongr {α} (l : List α) (f g : α → Bool) (h : ∀ x ∈ l, f x = g x) : l.any f = l.any g := by
  induction l with
  | nil => rfl
  | cons x xs ih =>
    simp only [List.any_cons]
    rw [h x List.mem_cons_self, ih (fun y hy => h y (List.mem_cons_of_mem _ hy))]

theorem filterMapCongr {α β} (l : List α) (f g : α → Option β) (h : ∀ x ∈ l, f x = g x) :
    l.filterMap f = l.filterMap g := by
  induction l with
  | nil => rfl
  | cons x xs ih =>
    simp only [List.filterMap_cons]
    rw [h x List.mem_cons_self, ih (fun y hy => h y (List.mem_cons_of_mem _ hy))]

theorem filter_append_ne (kvs : List (Text × Json)) (k : Text) (v : Json) (n : String) (hk : n.toList ≠ k) :
    (kvs ++ [(k, v)]).filter (·.1 == n.toList) = kvs.filter (·.1 == n.toList) := by
  rw [List.filter_append]
  have : [(k, v)].filter (fun x : Text × Json => x.1 == n.toList) = [] := by
    simp only [List.filter_cons, List.filter_nil, beq_false_of_ne hk, Bool.false_eq_true, if_false]
  rw [this, List.append_nil]

theorem dupField_append (kvs : List (Text × Json)) (k : Text) (v : Json) (names : List String)
    (hk : ∀ n ∈ names, n.toList ≠ k) : dupField (kvs ++ [(k, v)]) names = dupField kvs names := by
  unfold dupField
  apply anyCongr
  intro n hn
  rw [filter_append_ne kvs k v n (hk n hn)]

theorem get_append (kvs : List (Text × Json)) (k : Text) (v : Json) (n : String) (hk : n.toList ≠ k) :
    get? (kvs ++ [(k, v)]) n = get? kvs n := by
  unfold get?
  rw [List.find?_append]
  cases hf : kvs.find? (·.1 == n.toList) with
  | some x => rfl
  | none =>
    simp only [Option.none_or, List.find?_cons, beq_false_of_ne hk, List.find?_nil]

theorem structFields_append (names : List String) (kvs : List (Text × Json)) (k : Text) (v : Json)
    (hk : ∀ n ∈ names, n.toList ≠ k) :
    structFields names (.obj (kvs ++ [(k, v)])) = structFields names (.obj kvs) := by
  unfold structFields
  simp only [dupField_append kvs k v names hk]
  split
  · rfl
  · congr 1
    apply filterMapCongr
    intro n hn
    rw [get_append kvs k v n (hk n hn)]

/-- **unknown keys are ignored** (top level; the same lemma `structFields_append` applies at every
    nesting level, since every struct is read through `structFields`) -/
theorem c14_unknown_keys_ignored (kvs : List (Text × Json)) (k : Text) (v : Json)
    (hk : ∀ n ∈ Generated.configTopKeys, n.toList ≠ k) :
    parseConfig (.obj (kvs ++ [(k, v)])) = parseConfig (.obj kvs) := by
  unfold parseConfig
  rw [structFields_append _ kvs k v hk]

/-! ### the two options that never take effect (F-C14-1, F-C14-2) -/

/-- full statement (kept; FALSE): after any accepted answer the cache uses the answered values -/
def c14_options_full : Prop :=
  ∀ (s : Srv) (j : Json) (c : Config), parseConfig j = some c →
    (applyAnswer s (.value j)).1.ccfg = ⟨c.refreshInterval, c.ignorePrerelease⟩

/-- **whatever the client answers, the cache keeps the parameters it was constructed with**: neither
    `ignorePrerelease` nor `cache.refreshInterval` can ever reach it -/
theorem c14_deviation_cache_params (s : Srv) (a : Answer) : (applyAnswer s a).1.ccfg = s.ccfg := by
  unfold applyAnswer
  cases a with
  | failed => rfl
  | empty => rfl
  | value j =>
    cases j <;> simp only <;> (try split) <;> (try split) <;> rfl

theorem c14_options_full_false : ¬ c14_options_full := by
  intro h
  have := h {} (.obj [("ignorePrerelease".toList, .bool false)]) ⟨[], false, 86400000⟩ (by decide)
  rw [c14_deviation_cache_params] at this
  have h2 : ({} : Srv).ccfg = ⟨86400000, true⟩ := by decide
  rw [h2] at this
  cases this

/-- F-C14-3: a JSON array is accepted as a positional LspConfig instead of being reported malformed -/
theorem c14_deviation_array :
    parseConfig (.arr [.obj [("refreshInterval".toList, .num ['5'])], .obj [], .bool false]) = some ⟨[], false, 5⟩ := by
  decide

/-! non-vacuity -/
example : parseConfig (.obj [("registries".toList, .obj [("crates".toList, .obj [("enabled".toList, .bool false)]),
    ("npm".toList, .obj [])]), ("extra".toList, .num ['1'])]) = some ⟨["crates_io".toList], true, 86400000⟩ := by decide
example : parseConfig (.obj [("ignorePrerelease".toList, .str "no".toList)]) = none := by decide
example : parseConfig (.obj [("cache".toList, .obj [("refreshInterval".toList, .num "1.5".toList)])]) = none := by decide
example : parseConfig (.str "x".toList) = none := by decide

end Vlsp.C14
