/-
  C14 — every documented configuration option takes effect; bad input is harmless.
  Model: Vlsp.ConfigM (serde view of LspConfig, spawn_fetch_configuration) + Vlsp.Server gates.
-/
import Vlsp.Model.Config
import Vlsp.Props.C08

namespace Vlsp.C14
open Vlsp Vlsp.Text Vlsp.Json Vlsp.ConfigM Vlsp.Server

/-! ### the `enabled` gate -/

/-- files of a disabled registry receive neither diagnostics nor code actions, whatever they contain -/
theorem c14_enabled_gate (s : Srv) (uri : Text) (reg : String) (pkgs : List PkgInfo)
    (hd : Detect.detect uri = some reg) (hdis : s.cfg.disabled.contains reg.toList = true) :
    (Server.edit s uri pkgs).2 = [] ∧ ∀ line ch, Server.codeAction s uri line ch = none := by
  constructor
  · unfold Server.edit checkAndPublish cacheDocument
    simp only [hd, hdis, if_true]
  · intro line ch
    unfold Server.codeAction
    simp only [hd, hdis, if_true]

/-- … while every other registry keeps working exactly as under the default configuration: what an
    edit publishes and which task it spawns depends on the configuration only through "is THIS
    document's registry disabled" -/
theorem c14_others_unaffected (s : Srv) (cfg' : Config) (uri : Text) (reg : String) (pkgs : List PkgInfo)
    (hd : Detect.detect uri = some reg) (h1 : s.cfg.disabled.contains reg.toList = false)
    (h2 : cfg'.disabled.contains reg.toList = false) :
    (Server.edit { s with cfg := cfg' } uri pkgs).2 = (Server.edit s uri pkgs).2 ∧
    (Server.edit { s with cfg := cfg' } uri pkgs).1.db = (Server.edit s uri pkgs).1.db := by
  unfold Server.edit checkAndPublish cacheDocument
  simp only [hd, h1, h2, Bool.false_eq_true, if_false, Option.isSome_some, if_true]
  cases hs : s.store with
  | false => simp [hs]
  | true =>
    simp only [hs, Bool.not_true, Bool.false_eq_true, if_false]
    split
    · exact ⟨rfl, rfl⟩
    · refine ⟨rfl, ?_⟩
      unfold spawnTask
      simp only
      split <;> rfl

/-! ### parsing the answer -/

theorem keys_eq : Generated.configTopKeys = ["cache", "registries", "ignorePrerelease"] ∧
    Generated.configCacheKeys = ["refreshInterval"] ∧ Generated.configRegistryField = ["enabled"] ∧
    Generated.configRegistryKeys.map (·.1) = ["npm", "crates", "goProxy", "github", "pnpmCatalog", "jsr", "pypi"] ∧
    Generated.configDefaultEnabled = true ∧ Generated.configDefaultIgnorePrerelease = true ∧
    Generated.configNullIsDefault = true ∧ Generated.defaultRefreshIntervalMs = 86400000 := by decide

/-- missing options take their documented defaults: everything enabled, prereleases ignored, 24 h -/
theorem c14_defaults : parseConfig (.obj []) = some ⟨[], true, 86400000⟩ := by decide

/-- a null answer means all defaults (handed to the cache as well) -/
theorem c14_null_is_default (s : Srv) :
    (applyAnswer s (.value .null)) = ({ s with cfg := ⟨[], true, 86400000⟩, ccfg := ⟨86400000, true⟩ }, []) := by
  simp [applyAnswer, applyConfig, keys_eq, defaultConfig, (by decide : Generated.configReachesCache = true)]

/-- a failing / unsupported configuration request, or an empty answer, changes nothing and shows nothing -/
theorem c14_request_failure_harmless (s : Srv) : applyAnswer s .failed = (s, []) ∧ applyAnswer s .empty = (s, []) :=
  ⟨rfl, rfl⟩

/-- **a malformed answer is reported and leaves the previous settings in force** (exactly one message,
    state untouched) -/
theorem c14_malformed_keeps_previous (s : Srv) (j : Json) (hn : j ≠ .null) (hbad : parseConfig j = none) :
    applyAnswer s (.value j) = (s, [.show "error" "Failed to parse configuration".toList]) := by
  unfold applyAnswer
  cases j <;> simp_all

theorem beq_false_of_ne {k : Text} {n : String} (h : n.toList ≠ k) : (k == n.toList) = false := by
  cases hb : (k == n.toList) with
  | false => rfl
  | true => exact absurd (beq_iff_eq.mp hb).symm h

theorem anyCongr {α} (l : List α) (f g : α → Bool) (h : ∀ x ∈ l, f x = g x) : l.any f = l.any g := by
  induction l with
  | nil => rfl
  | cons x xs ih =>
    simp only [List.any_cons]
    rw [h x List.mem_cons_self, ih (fun y hy => h y (List.mem_cons_of_mem _ hy))]

theorem filterMapCongr {α β} (l : List α) (f g : α → Option β) (h : ∀ x ∈ l, f x = g x) :
    l.filterMap f = l.filterMap g := by
  induction l with
  | nil => rfl
  | cons x xs ih =>
    simp only [List.filterMap_cons]
    rw [h x List.mem_cons_self, ih (fun y hy => h y (List.mem_cons_of_mem _ hy))]

theorem filter_append_ne (kvs : List (Text × Json)) (k : Text) (v : Json) (n : String) (hk : n.toList ≠ k) :
    (kvs ++ [(k, v)]).filter (·.1 == n.toList) = kvs.filter (·.1 == n.toList) := by
  rw [List.filter_append]
  have : [(k, v)].filter (fun x : Text × Json => x.1 == n.toList) = [] := by
    simp only [List.filter_cons, List.filter_nil, beq_false_of_ne hk, Bool.false_eq_true, if_false]
  rw [this, List.append_nil]

theorem dupField_append (kvs : List (Text × Json)) (k : Text) (v : Json) (names : List String)
    (hk : ∀ n ∈ names, n.toList ≠ k) : dupField (kvs ++ [(k, v)]) names = dupField kvs names := by
  unfold dupField
  apply anyCongr
  intro n hn
  rw [filter_append_ne kvs k v n (hk n hn)]

theorem get_append (kvs : List (Text × Json)) (k : Text) (v : Json) (n : String) (hk : n.toList ≠ k) :
    get? (kvs ++ [(k, v)]) n = get? kvs n := by
  unfold get?
  rw [List.find?_append]
  cases hf : kvs.find? (·.1 == n.toList) with
  | some x => rfl
  | none =>
    simp only [Option.none_or, List.find?_cons, beq_false_of_ne hk, List.find?_nil]

theorem structFields_append (names : List String) (kvs : List (Text × Json)) (k : Text) (v : Json)
    (hk : ∀ n ∈ names, n.toList ≠ k) :
    structFields names (.obj (kvs ++ [(k, v)])) = structFields names (.obj kvs) := by
  unfold structFields
  simp only [dupField_append kvs k v names hk]
  split
  · rfl
  · congr 1
    apply filterMapCongr
    intro n hn
    rw [get_append kvs k v n (hk n hn)]

/-- **unknown keys are ignored** (top level; the same lemma `structFields_append` applies at every
    nesting level, since every struct is read through `structFields`) -/
theorem c14_unknown_keys_ignored (kvs : List (Text × Json)) (k : Text) (v : Json)
    (hk : ∀ n ∈ Generated.configTopKeys, n.toList ≠ k) :
    parseConfig (.obj (kvs ++ [(k, v)])) = parseConfig (.obj kvs) := by
  unfold parseConfig
  rw [structFields_append _ kvs k v hk]

/-! ### the two cache options (F-C14-1, F-C14-2 — repaired) -/

/-- regenerated from the source on every run: `spawn_fetch_configuration` hands the two values to the storer,
    `Cache::configure` stores them, and the start-up refresh awaits the configuration task -/
theorem flags_eq : Generated.configReachesCache = true ∧ Generated.refreshWaitsForConfig = true := by decide

/-- full statement: after any accepted answer the cache uses the answered values -/
def c14_options_full : Prop :=
  ∀ (s : Srv) (j : Json) (c : Config), parseConfig j = some c →
    (applyAnswer s (.value j)).1.ccfg = ⟨c.refreshInterval, c.ignorePrerelease⟩

theorem parseConfig_null : parseConfig .null = none := by decide

theorem applyAnswer_accepted (s : Srv) (j : Json) (c : Config) (h : parseConfig j = some c) :
    applyAnswer s (.value j) = (applyConfig s c, []) := by
  unfold applyAnswer
  cases j with
  | null => rw [parseConfig_null] at h; cases h
  | _ => simp only [h]

theorem c14_options_full_holds : c14_options_full := by
  intro s j c h
  rw [applyAnswer_accepted s j c h]
  simp [applyConfig, flags_eq.1]

/-- **`ignorePrerelease` decides whether a prerelease can be reported as latest**: after an accepted answer every
    "latest" read (diagnostics and code actions go through `readsOf`) is computed with the answered flag -/
theorem c14_ignore_prerelease_decides (s : Srv) (j : Json) (c : Config) (h : parseConfig j = some c) (k : Key)
    (hf : failing s k.name 'L' = false) :
    (readsOf (applyAnswer s (.value j)).1 k).latest =
      some (Latest.getLatest c.ignorePrerelease (s.db.tagOf k "latest".toList) (s.db.versionsOf k)) := by
  rw [applyAnswer_accepted s j c h]
  have hf' : failing (applyConfig s c) k.name 'L' = false := hf
  have hcc : (applyConfig s c).ccfg = ⟨c.refreshInterval, c.ignorePrerelease⟩ := by simp [applyConfig, flags_eq.1]
  have hdb : (applyConfig s c).db = s.db := rfl
  simp only [readsOf, hf', Bool.false_eq_true, if_false, hcc, hdb, Cache.getLatestVersion]

/-- **`cache.refreshInterval` decides how old a package may be before it is refreshed**: the start-up refresh runs
    after the answer has been applied and asks for exactly the packages that are stale by the ANSWERED interval -/
theorem c14_startup_uses_answer (s : Srv) (j : Json) (c : Config) (h : parseConfig j = some c) (regs : List Text) :
    startUp s (.value j) regs = (regs.foldl (fun s r => Server.startRefresh s r) (applyConfig s c), []) := by
  unfold startUp
  simp only [flags_eq.2, if_true]
  rw [applyAnswer_accepted s j c h]

theorem c14_refresh_interval_decides (s : Srv) (c : Config) (reg n : Text) (hi : Db.Inv s.db)
    (hreg : Cache.knownRegistry reg = true) :
    n ∈ refreshDue (applyConfig s c) reg ↔
      ∃ p, s.db.findPkg ⟨reg, n⟩ = some p ∧ p.updatedAt < s.now - c.refreshInterval ∧ p.notFound = false := by
  have hcc : (applyConfig s c).ccfg = ⟨c.refreshInterval, c.ignorePrerelease⟩ := by simp [applyConfig, flags_eq.1]
  have hdb : (applyConfig s c).db = s.db := rfl
  have hnow : (applyConfig s c).now = s.now := rfl
  unfold refreshDue
  rw [hcc, hdb, hnow]
  rw [← C08.c08_refresh_iff ⟨c.refreshInterval, c.ignorePrerelease⟩ s.db s.now ⟨reg, n⟩ hi hreg]
  simp only [List.mem_map, List.mem_filter, beq_iff_eq]
  constructor
  · rintro ⟨k, ⟨hk, hr⟩, rfl⟩
    cases k; simp only at hr; subst hr; exact hk
  · intro hk
    exact ⟨⟨reg, n⟩, ⟨hk, rfl⟩, rfl⟩

/-- a rejected / failed / empty answer leaves the cache's parameters alone (the previous settings stay in force) -/
theorem c14_rejected_keeps_cache_params (s : Srv) (a : Answer)
    (h : a = .failed ∨ a = .empty ∨ ∃ j, a = .value j ∧ j ≠ .null ∧ parseConfig j = none) :
    (applyAnswer s a).1.ccfg = s.ccfg := by
  rcases h with rfl | rfl | ⟨j, rfl, hn, hb⟩
  · rfl
  · rfl
  · unfold applyAnswer
    cases j <;> first | exact absurd rfl hn | simp only [hb]

/-- F-C14-3: a JSON array is accepted as a positional LspConfig instead of being reported malformed -/
theorem c14_deviation_array :
    parseConfig (.arr [.obj [("refreshInterval".toList, .num ['5'])], .obj [], .bool false]) = some ⟨[], false, 5⟩ := by
  decide

/-! non-vacuity -/
example : parseConfig (.obj [("registries".toList, .obj [("crates".toList, .obj [("enabled".toList, .bool false)]),
    ("npm".toList, .obj [])]), ("extra".toList, .num ['1'])]) = some ⟨["crates_io".toList], true, 86400000⟩ := by decide
example : parseConfig (.obj [("ignorePrerelease".toList, .str "no".toList)]) = none := by decide
example : parseConfig (.obj [("cache".toList, .obj [("refreshInterval".toList, .num "1.5".toList)])]) = none := by decide
example : parseConfig (.str "x".toList) = none := by decide

end Vlsp.C14
