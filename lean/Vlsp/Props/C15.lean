/-
  C15 — a registry reply is turned into exactly the versions and tags it advertises.
  Model: Vlsp.Registry (src/version/registries/*.rs).
-/
import Vlsp.Model.Registry

namespace Vlsp.C15
open Vlsp Vlsp.Text Vlsp.Json Vlsp.Registry

/-! ### status classification, for EVERY status code and every body -/

theorem statusErr_eq (a : Adapter) (status : Nat) :
    statusErr a status =
      if status = 404 ∨ (a = .go ∧ status = 410) then some .notFound
      else if a = .github ∧ status = 429 then some .rateLimited
      else if isSuccess status = false then some .invalid else none := by
  unfold statusErr
  by_cases h404 : status = 404
  · simp [h404]
  · by_cases hgo : (a = .go ∧ status = 410)
    · obtain ⟨rfl, rfl⟩ := hgo; simp
    · by_cases hgh : (a = .github ∧ status = 429)
      · obtain ⟨rfl, rfl⟩ := hgh; simp
      · have e1 : (status == 404) = false := by simpa using h404
        have e2 : (a == Adapter.go && status == 410) = false := by
          cases hh : (a == Adapter.go && status == 410) with
          | false => rfl
          | true => simp only [Bool.and_eq_true, beq_iff_eq] at hh; exact absurd hh hgo
        have e3 : (a == Adapter.github && status == 429) = false := by
          cases hh : (a == Adapter.github && status == 429) with
          | false => rfl
          | true => simp only [Bool.and_eq_true, beq_iff_eq] at hh; exact absurd hh hgh
        simp only [e1, e2, e3, Bool.false_eq_true, if_false, h404, hgo, hgh, false_or]
        cases isSuccess status <;> simp

/-- 'does not exist' is reported only for the definitive answers: 404, and 410 for the Go proxy -/
theorem c15_notfound_iff (a : Adapter) (status : Nat) (body : Text) :
    interpret a status body = .error .notFound ↔ (status = 404 ∨ (a = .go ∧ status = 410)) := by
  unfold interpret
  rw [statusErr_eq]
  by_cases h : status = 404 ∨ (a = .go ∧ status = 410)
  · simp [h]
  · simp only [h, if_false, iff_false]
    by_cases hgh : (a = .github ∧ status = 429)
    · simp [hgh]
    · simp only [hgh, if_false]
      cases isSuccess status
      · simp
      · simp only [Bool.true_eq_false, if_false]
        cases bodyOf a body <;> simp

/-- every non-2xx status other than the definitive ones is a transient failure (rate limiting is
    distinguished only by the GitHub adapter) -/
theorem c15_status (a : Adapter) (status : Nat) (body : Text) (hns : isSuccess status = false) :
    interpret a status body =
      .error (if status = 404 ∨ (a = .go ∧ status = 410) then .notFound
              else if a = .github ∧ status = 429 then .rateLimited else .invalid) := by
  unfold interpret
  rw [statusErr_eq]
  by_cases h : status = 404 ∨ (a = .go ∧ status = 410)
  · simp [h]
  · by_cases hgh : (a = .github ∧ status = 429)
    · simp [h, hgh]
    · simp [h, hgh, hns]

/-- a successful status with a body that is not of the reply shape is a transient failure, never
    'does not exist' (so, with C10, the package is never marked nonexistent for it) -/
theorem c15_malformed_is_transient (a : Adapter) (status : Nat) (body : Text) (hs : isSuccess status = true)
    (e : RegErr) (h : interpret a status body = .error e) : e = .invalid := by
  have h404 : status ≠ 404 := by intro h; subst h; simp [isSuccess] at hs
  have h410 : status ≠ 410 := by intro h; subst h; simp [isSuccess] at hs
  have h429 : status ≠ 429 := by intro h; subst h; simp [isSuccess] at hs
  unfold interpret at h
  rw [statusErr_eq] at h
  simp only [h404, h410, h429, and_false, or_false, if_false, hs, Bool.true_eq_false] at h
  cases hb : bodyOf a body with
  | none => simp [hb] at h; exact h.symm
  | some r => simp [hb] at h

/-- with a successful status, the reply is what the body advertises, or a transient failure -/
theorem c15_success_body (a : Adapter) (status : Nat) (body : Text) (hs : isSuccess status = true) :
    interpret a status body = match bodyOf a body with | some r => .ok r | none => .error .invalid := by
  have h404 : status ≠ 404 := by intro h; subst h; simp [isSuccess] at hs
  have h410 : status ≠ 410 := by intro h; subst h; simp [isSuccess] at hs
  have h429 : status ≠ 429 := by intro h; subst h; simp [isSuccess] at hs
  unfold interpret
  rw [statusErr_eq]
  simp only [h404, h410, h429, and_false, or_false, if_false, hs, Bool.true_eq_false]
  cases bodyOf a body <;> rfl

/-! ### name encodings (the round trip through the registry's own decoding is checked on the real
    request paths by the correspondence stream) -/

/-- unscoped npm names are requested unchanged; scoped names become ONE path segment -/
theorem c15_npm_encoding (name : Text) :
    (startsWith name ['@'] = false → npmEncode name = name) ∧
    (startsWith name ['@'] = true → '/' ∉ npmEncode name) := by
  unfold npmEncode
  refine ⟨fun hs => by simp [hs], ?_⟩
  intro hs
  simp only [hs, if_true, List.mem_flatMap, not_exists, not_and]
  intro c _ hm
  by_cases hc : c = '/'
  · subst hc
    have : ("%2F" : String).toList = ['%', '2', 'F'] := by decide
    simp [this] at hm
  · have : (c == '/') = false := by simpa using hc
    simp only [this, Bool.false_eq_true, if_false, List.mem_singleton] at hm
    exact hc hm.symm

example : requestPath .npm "@scope/pkg".toList = "/@scope%2Fpkg".toList ∧ requestPath .npm "lodash".toList = "/lodash".toList ∧
    requestPath .go "github.com/Azure/Go-X".toList = "/github.com/!azure/!go-!x/@v/list".toList ∧
    requestPath .jsr "@std/path".toList = "/@std/path/meta.json".toList ∧
    requestPath .pypi "Requests".toList = "/pypi/Requests/json".toList ∧
    requestPath .github "actions/checkout".toList = "/repos/actions/checkout/releases".toList ∧
    requestPath .crates "serde".toList = "/serde".toList := by decide

/-! ### what is reported for a well-formed reply (closed examples on JSON values; `Json.parse` itself is
    tied to serde_json by the correspondence stream and is not evaluated in the kernel) -/

/-- npm: exactly the keys of `versions`, and the dist-tags map; unknown fields are ignored -/
example : (npmBody (.obj [("versions".toList, .obj [("1.0.0".toList, .obj []), ("1.1.0".toList, .obj [("x".toList, .num ['1'])])]),
                          ("dist-tags".toList, .obj [("latest".toList, .str "1.1.0".toList)]), ("extra".toList, .arr [])])).map
            (fun r => (r.versions, r.tags)) =
    some (["1.0.0".toList, "1.1.0".toList], [("latest".toList, "1.1.0".toList)]) := by decide
/-- crates.io: yanked versions are not reported -/
example : (cratesBody (.obj [("versions".toList, .arr [
      .obj [("num".toList, .str "1.0.0".toList), ("yanked".toList, .bool false), ("created_at".toList, .str "x".toList)],
      .obj [("num".toList, .str "1.1.0".toList), ("yanked".toList, .bool true), ("created_at".toList, .str "y".toList)]])])).map
    (·.versions) = some ["1.0.0".toList] := by decide
/-- JSR: yanked versions are not reported, `yanked` defaults to false -/
example : (jsrBody (.obj [("latest".toList, .null), ("versions".toList, .obj [
      ("1.0.0".toList, .obj []), ("1.1.0".toList, .obj [("yanked".toList, .bool true)])])])).map (·.versions) =
    some ["1.0.0".toList] := by decide
/-- PyPI: the keys of `releases`, and `latest` = info.version -/
example : (pypiBody (.obj [("info".toList, .obj [("version".toList, .str "2.0".toList)]),
      ("releases".toList, .obj [("1.0".toList, .arr []), ("2.0".toList, .arr [.obj [("f".toList, .num ['1'])]])])])).map
    (fun r => (r.versions, r.tags)) = some (["1.0".toList, "2.0".toList], [("latest".toList, "2.0".toList)]) := by decide
/-- Go proxy: the non-empty lines -/
example : (goBody "v1.0.0\nv1.1.0\n\nv2.0.0+incompatible\n".toList).versions =
    ["v1.0.0".toList, "v1.1.0".toList, "v2.0.0+incompatible".toList] := by decide
/-- rate limiting and server errors are transient for every adapter -/
example : interpret .npm 429 [] = .error .invalid ∧ interpret .github 429 [] = .error .rateLimited ∧
    interpret .pypi 503 [] = .error .invalid ∧ interpret .go 410 [] = .error .notFound ∧
    interpret .npm 410 [] = .error .invalid := by
  refine ⟨?_, ?_, ?_, ?_, ?_⟩ <;> (rw [c15_status _ _ _ (by decide)]; simp)

/-! ### GitHub releases: every page is read (F-C15-1, repaired), up to a fixed bound -/

/-- a well-formed paginated answer: every page but the last advertises a next page -/
def Chained : List Page → Prop
  | [] => True
  | [pg] => (headerValue "link".toList pg.headers).bind nextLink = none
  | pg :: rest => ((headerValue "link".toList pg.headers).bind nextLink).isSome = true ∧ Chained rest

/-- the releases a page advertises -/
def pageVersions (pg : Page) : List Text := match bodyOf .github pg.body with | some r => r.versions | none => []

theorem githubFetchAux_all (n : Nat) (pages : List Page) (acc links : List Text)
    (hlen : pages.length ≤ n) (hne : pages ≠ [])
    (hgood : ∀ pg ∈ pages, statusErr .github pg.status = none ∧ (bodyOf .github pg.body).isSome = true)
    (hch : Chained pages) :
    (githubFetchAux n pages acc links).1 = .ok ⟨acc ++ pages.flatMap pageVersions, []⟩ := by
  induction pages generalizing n acc links with
  | nil => exact absurd rfl hne
  | cons pg rest ih =>
    cases n with
    | zero => simp at hlen
    | succ n =>
      obtain ⟨hst, hbody⟩ := hgood pg (by simp)
      cases hb : bodyOf .github pg.body with
      | none => rw [hb] at hbody; cases hbody
      | some r =>
        have hpv : pageVersions pg = r.versions := by simp [pageVersions, hb]
        unfold githubFetchAux
        simp only [hst, hb]
        cases rest with
        | nil =>
          have hnone : (headerValue "link".toList pg.headers).bind nextLink = none := hch
          have : (if (n == 0) = true then none else (headerValue "link".toList pg.headers).bind nextLink) = none := by
            split
            · rfl
            · exact hnone
          simp only [this, List.flatMap_cons, List.flatMap_nil, List.append_nil, hpv]
        | cons pg2 rest2 =>
          obtain ⟨hsome, hch2⟩ := hch
          have hn : (n == 0) = false := by
            simp only [List.length_cons] at hlen
            have : 1 ≤ n := by omega
            cases n with
            | zero => omega
            | succ m => rfl
          cases hl : (headerValue "link".toList pg.headers).bind nextLink with
          | none => rw [hl] at hsome; cases hsome
          | some target =>
            simp only [hn, Bool.false_eq_true, if_false, hl]
            rw [ih n (acc ++ r.versions) (links ++ [target]) (by simp only [List.length_cons] at hlen ⊢; omega) (by simp)
              (fun q hq => hgood q (by simp [hq])) hch2]
            simp only [List.flatMap_cons, hpv, List.append_assoc]

/-- **every release of every page is reported** — for any well-formed paginated answer of up to
    `MAX_RELEASE_PAGES` (= 20, regenerated from the source) pages -/
theorem c15_github_all_pages (pages : List Page) (hlen : pages.length ≤ Generated.maxReleasePages) (hne : pages ≠ [])
    (hgood : ∀ pg ∈ pages, statusErr .github pg.status = none ∧ (bodyOf .github pg.body).isSome = true)
    (hch : Chained pages) (pg : Page) (hp : pg ∈ pages) (v : Text) (hv : v ∈ pageVersions pg) :
    ∃ r, (githubFetch pages).1 = .ok r ∧ v ∈ r.versions := by
  refine ⟨_, githubFetchAux_all _ pages [] [] hlen hne hgood hch, ?_⟩
  simp only [List.nil_append, List.mem_flatMap]
  exact ⟨pg, hp, hv⟩

theorem c15_github_page_bound_value : Generated.maxReleasePages = 20 := rfl

/-- **the bound (F-C15-2, recorded)**: when the page budget is used up, whatever else the registry would serve is
    not read — a release list longer than 20 pages is cut there (a deliberate bound against endless link chains) -/
theorem c15_github_stops_at_bound (pg : Page) (rest : List Page) (acc links : List Text) :
    githubFetchAux 0 (pg :: rest) acc links = (.ok ⟨acc, []⟩, links) := rfl

/-- never more than `MAX_RELEASE_PAGES − 1` links are followed, whatever the registry answers: the loop terminates -/
theorem c15_github_links_bounded (n : Nat) (pages : List Page) (acc links : List Text) :
    (githubFetchAux n pages acc links).2.length ≤ links.length + (n - 1) := by
  induction n generalizing pages acc links with
  | zero => cases pages <;> simp [githubFetchAux]
  | succ n ih =>
    cases pages with
    | nil => simp [githubFetchAux]
    | cons pg rest =>
      unfold githubFetchAux
      cases statusErr .github pg.status with
      | some e => simp
      | none =>
        simp only
        cases bodyOf .github pg.body with
        | none => simp
        | some r =>
          simp only
          split
          · rename_i target hq
            have := ih rest (acc ++ r.versions) (links ++ [target])
            have hn : n ≠ 0 := by
              intro h0; subst h0; simp at hq
            simp only [List.length_append, List.length_singleton] at this
            omega
          · simp

end Vlsp.C15
