/-
  C02 / C01 — the Go matcher satisfies the `MatcherLaws`: a required version is "inside" a cached one iff they
  denote the same version (same SemVer, same pseudo-version timestamp); the existence test (string equality after
  normalisation) and the comparison with the latest (parse and compare) are the SAME relation — which needs that
  strict SemVer parsing is injective and that the version order is antisymmetric.
-/
import Vlsp.Props.C02
import Vlsp.Lemmas.SemverEq
import Vlsp.Lemmas.SemverRoundTrip

namespace Vlsp.C02
open Vlsp Vlsp.Text Vlsp.Semver

def tsEq : Option Text → Option Text → Bool
  | none, none => true
  | some a, some b => a == b
  | _, _ => false

/-- the two texts denote the same Go version -/
def goSame (s v : Text) : Bool :=
  match Go.parseGoVersion s, Go.parseGoVersion v with
  | some (cv, cts), some (lv, lts) => cv == lv && tsEq cts lts
  | _, _ => false

def goEco : Eco where
  wf s := (Go.parseGoVersion s).isSome
  wfV l := (Go.parseGoVersion l).isSome
  inside := goSame
  alwaysPresent s := Go.isPseudoVersion s
  unanchored _ := false
  anchorBelow s l := Go.compareGoVersions s l == .outdated

theorem cmpText_eq_iff (a b : Text) : cmpText a b = .eq ↔ a = b := by
  constructor
  · exact cmpText_eq
  · intro h; subst h; exact Std.ReflCmp.compare_self

theorem go_latest_iff_same (s l : Text) : Go.compareGoVersions s l = .latest ↔ goSame s l = true := by
  unfold Go.compareGoVersions goSame
  cases Go.parseGoVersion s with
  | none => simp
  | some p =>
    obtain ⟨cv, cts⟩ := p
    cases Go.parseGoVersion l with
    | none => simp
    | some q =>
      obtain ⟨lv, lts⟩ := q
      simp only [Bool.and_eq_true, beq_iff_eq]
      cases hc : cmp cv lv with
      | lt =>
        have : cv ≠ lv := fun e => by rw [(cmp_eq_iff_eq cv lv).mpr e] at hc; cases hc
        simp [this]
      | gt =>
        have : cv ≠ lv := fun e => by rw [(cmp_eq_iff_eq cv lv).mpr e] at hc; cases hc
        simp [this]
      | eq =>
        have e := (cmp_eq_iff_eq cv lv).mp hc
        simp only [e, true_and]
        cases cts <;> cases lts <;> simp [tsEq]
        rename_i a b
        cases ht : cmpText a b with
        | eq => simp [(cmpText_eq_iff a b).mp ht]
        | lt =>
          have : a ≠ b := fun e => by rw [(cmpText_eq_iff a b).mpr e] at ht; cases ht
          simp [this]
        | gt =>
          have : a ≠ b := fun e => by rw [(cmpText_eq_iff a b).mpr e] at ht; cases ht
          simp [this]

theorem go_invalid_iff (s l : Text) :
    Go.compareGoVersions s l = .invalid ↔ ((Go.parseGoVersion s).isSome = false ∨ (Go.parseGoVersion l).isSome = false) := by
  unfold Go.compareGoVersions
  cases Go.parseGoVersion s with
  | none => simp
  | some p =>
    obtain ⟨cv, cts⟩ := p
    cases Go.parseGoVersion l with
    | none => simp
    | some q =>
      obtain ⟨lv, lts⟩ := q
      simp only [Option.isSome_some, Bool.true_eq_false, or_self, iff_false]
      cases cmp cv lv <;> simp
      cases cts <;> cases lts <;> simp
      rename_i a b
      cases cmpText a b <;> simp

theorem splitOnceChar_spec (c : Char) (t a b : Text) (h : splitOnceChar c t = some (a, b)) : t = a ++ c :: b := by
  induction t generalizing a with
  | nil => simp [splitOnceChar] at h
  | cons x xs ih =>
    unfold splitOnceChar at h
    split at h
    · rename_i hx
      simp only [Option.some.injEq, Prod.mk.injEq] at h
      obtain ⟨h1, h2⟩ := h
      have : x = c := by simpa using hx
      subst h1; subst h2; simp [this]
    · cases hr : splitOnceChar c xs with
      | none => simp [hr] at h
      | some p =>
        obtain ⟨a', b'⟩ := p
        simp only [hr, Option.some.injEq, Prod.mk.injEq] at h
        obtain ⟨h1, h2⟩ := h
        subst h1; subst h2
        simp [ih a' hr]

/-- `parse_go_version` reads only the normalised text -/
def parseNorm (n : Text) : Option (Version × Option Text) :=
  match splitOnceChar '-' n with
  | some (base, rest) =>
    let isPseudo : Option Text :=
      match splitChar '-' rest with
      | p0 :: _ :: _ => if byteLen p0 == 14 && p0.all isAsciiDigit then some p0 else none
      | _ => none
    match isPseudo with
    | some p0 => (parseStrict base).map fun v => (v, some p0)
    | none => (parseStrict (base ++ '-' :: rest)).map fun v => (v, none)
  | none => (parseStrict n).map fun v => (v, none)

theorem parseGo_norm (s : Text) : Go.parseGoVersion s = parseNorm (Go.normalize s) := rfl

/-- a version without a pseudo-version timestamp is the strict SemVer reading of its whole normalised text -/
theorem parseNorm_none_ts (n : Text) (v : Version) (h : parseNorm n = some (v, none)) : parseStrict n = some v := by
  unfold parseNorm at h
  cases hs : splitOnceChar '-' n with
  | none =>
    simp only [hs] at h
    cases hp : parseStrict n with
    | none => simp [hp] at h
    | some w => simp [hp] at h; rw [h]
  | some p =>
    obtain ⟨base, rest⟩ := p
    simp only [hs] at h
    have e := splitOnceChar_spec '-' n base rest hs
    split at h
    · cases hp : parseStrict base with
      | none => simp [hp] at h
      | some w => simp [hp] at h
    · cases hp : parseStrict (base ++ '-' :: rest) with
      | none => simp [hp] at h
      | some w =>
        simp [hp] at h
        rw [e, hp, h]

/-- a text that is not a pseudo-version has no timestamp -/
theorem not_pseudo_no_ts (s : Text) (v : Version) (ts : Option Text) (hp : Go.isPseudoVersion s = false)
    (h : Go.parseGoVersion s = some (v, ts)) : ts = none := by
  rw [parseGo_norm] at h
  unfold Go.isPseudoVersion at hp
  unfold parseNorm at h
  cases hs : splitOnceChar '-' (Go.normalize s) with
  | none =>
    simp only [hs] at h
    cases hq : parseStrict (Go.normalize s) with
    | none => simp [hq] at h
    | some w => simp [hq] at h; exact h.2.symm
  | some p =>
    obtain ⟨base, rest⟩ := p
    simp only [hs] at h hp
    cases hsp : splitChar '-' rest with
    | nil =>
      simp only [hsp] at h
      cases hq : parseStrict (base ++ '-' :: rest) <;> simp [hq] at h
      exact h.2.symm
    | cons p0 tl =>
      cases tl with
      | nil =>
        simp only [hsp] at h
        cases hq : parseStrict (base ++ '-' :: rest) <;> simp [hq] at h
        exact h.2.symm
      | cons p1 tl' =>
        simp only [hsp] at h hp
        by_cases h14 : (byteLen p0 == 14 && p0.all isAsciiDigit) = true
        · simp [h14] at hp
        · have h14' : (byteLen p0 == 14 && p0.all isAsciiDigit) = false := by simpa using h14
          simp only [h14', Bool.false_eq_true, if_false] at h
          cases hq : parseStrict (base ++ '-' :: rest) <;> simp [hq] at h
          exact h.2.symm

theorem go_laws : MatcherLaws Go.matcher goEco where
  invalid_iff s l := by simpa [Go.matcher, goEco] using go_invalid_iff s l
  latest_iff s l := by
    simp only [Go.matcher, goEco, Bool.false_eq_true, or_false]
    rw [go_latest_iff_same]
    constructor
    · intro h
      refine ⟨?_, ?_, h⟩
      · unfold goSame at h; cases hp : Go.parseGoVersion s <;> simp_all
      · unfold goSame at h
        cases hp : Go.parseGoVersion s with
        | none => simp [hp] at h
        | some p => cases hq : Go.parseGoVersion l <;> simp_all
    · exact fun h => h.2.2
  outdated_iff s l := by
    simp only [Go.matcher, goEco, beq_iff_eq, Bool.false_eq_true, true_and]
    constructor
    · intro h
      have hi : ¬ Go.compareGoVersions s l = .invalid := by rw [h]; simp
      rw [go_invalid_iff] at hi
      have hl : ¬ Go.compareGoVersions s l = .latest := by rw [h]; simp
      rw [go_latest_iff_same] at hl
      refine ⟨?_, ?_, by simpa using hl, h⟩
      · cases hp : (Go.parseGoVersion s).isSome <;> simp_all
      · cases hp : (Go.parseGoVersion l).isSome <;> simp_all
    · exact fun h => h.2.2.2
  exists_iff s vs hwf := by
    simp only [Go.matcher, Go.versionExists, goEco] at hwf ⊢
    cases hps : Go.isPseudoVersion s with
    | true => simp
    | false =>
      simp only [Bool.false_eq_true, if_false, false_or, List.any_eq_true, beq_iff_eq]
      cases hp : Go.parseGoVersion s with
      | none => simp [hp] at hwf
      | some p =>
        obtain ⟨cv, cts⟩ := p
        have hts := not_pseudo_no_ts s cv cts hps hp
        subst hts
        constructor
        · rintro ⟨v, hv, hn⟩
          refine ⟨v, hv, ?_⟩
          unfold goSame
          have : Go.parseGoVersion v = Go.parseGoVersion s := by rw [parseGo_norm, parseGo_norm, hn]
          rw [this, hp]; simp [tsEq]
        · rintro ⟨v, hv, hsame⟩
          refine ⟨v, hv, ?_⟩
          unfold goSame at hsame
          rw [hp] at hsame
          cases hq : Go.parseGoVersion v with
          | none => simp [hq] at hsame
          | some q =>
            obtain ⟨lv, lts⟩ := q
            simp only [hq, Bool.and_eq_true, beq_iff_eq] at hsame
            obtain ⟨hcv, hts⟩ := hsame
            cases lts with
            | some x => simp [tsEq] at hts
            | none =>
              subst hcv
              rw [parseGo_norm] at hp hq
              have h1 := parseNorm_none_ts _ _ hp
              have h2 := parseNorm_none_ts _ _ hq
              exact parseStrict_inj _ _ _ h2 h1

/-- C01's decision theorem therefore holds verbatim for Go modules -/
theorem c01_go (latest tagRes : Option Text) (versions : List Text) (cur : Text) :
    Checker.diagFor Go.matcher (C01.okReads latest tagRes versions) cur = Spec.Decision.specDiag goEco latest tagRes versions cur :=
  C01.c01_decision Go.matcher goEco go_laws latest tagRes versions cur

end Vlsp.C02
