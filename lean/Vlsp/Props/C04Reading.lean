/-
  C04, layout, the two YAML formats: what the workflow parser and the pnpm-workspace parser report depends on the
  syntax tree ONLY through a reading of it that has no positions in it —
    workflows: the sequence of (unquoted `uses:` value, trimmed text after `#` on its line) of the `uses:` pairs below the
               outermost `steps:` pairs;
    pnpm:      the sequence of (unquoted key, unquoted value) of the entry pairs of the catalogs.
  Two documents whose trees read alike therefore declare the same actions / packages, whatever their indentation, quoting
  style, flow or block style, comments elsewhere and line endings.  (That two layouts of one manifest DO read alike is a
  fact about tree-sitter-yaml; it is evaluated on the real trees of re-rendered manifests on every run.)
-/
import Vlsp.Props.C04Walks

namespace Vlsp.C04
open Vlsp Vlsp.Text Vlsp.Slice Vlsp.Cst Vlsp.Parsers

/-! ### workflows -/

/-- the version comment of a hash pin: the trimmed text after the first `#` of the line, if there is any -/
def commentOf (content : Text) (node : Node) : Option Text :=
  match Sites.hashComment content node.sb with
  | some (some (after, _)) => if (trim after).isEmpty then none else some (trim after)
  | _ => none

/-- what a `uses:` value declares, as a function of its text and its version comment: (owner/repo, version, commit) -/
def declUses (r : Text × Option Text) : Option (Text × Text × Option Text) :=
  if notRepository r.1 then none
  else match Sites.usesSplit r.1 with
    | some (some (owner, repo, version)) =>
      let name := owner ++ '/' :: repo
      if isHash version then
        match r.2 with
        | some c => some (name, c, some version)
        | none => some (name, version, some version)
      else some (name, version, none)
    | _ => none

def triple3 (p : PkgInfo) : Text × Text × Option Text := (p.name, p.version, p.commitHash)

theorem ghaUses_reading (content value : Text) (node : Node) :
    (ghaUses content value node).map triple3 = declUses (value, commentOf content node) := by
  unfold ghaUses declUses
  simp only
  split
  · rfl
  · unfold ghaUsesRepo commentOf
    cases Sites.usesSplit value with
    | none => rfl
    | some r =>
      cases r with
      | none => rfl
      | some x =>
        obtain ⟨owner, repo, version⟩ := x
        simp only
        split
        · cases Sites.hashComment content node.sb with
          | none => rfl
          | some c =>
            cases c with
            | none => rfl
            | some ah =>
              obtain ⟨after, hashOff⟩ := ah
              simp only
              split <;> rfl
        · rfl

/-- the ref of a `uses:` value is a 40-hex commit -/
def refIsHash (value : Text) : Bool :=
  match Sites.usesSplit value with
  | some (some (_, _, version)) => isHash version
  | _ => false

/-- a comment matters for hash pins only -/
theorem declUses_norm (value : Text) (c : Option Text) :
    declUses (value, if refIsHash value then c else none) = declUses (value, c) := by
  unfold declUses refIsHash
  simp only
  split
  · rfl
  · cases Sites.usesSplit value with
    | none => rfl
    | some r =>
      cases r with
      | none => rfl
      | some x =>
        obtain ⟨owner, repo, version⟩ := x
        simp only
        by_cases hh : isHash version = true
        · simp only [hh, if_true]
        · have hh' : isHash version = false := by simpa using hh
          simp only [hh', Bool.false_eq_true, if_false]

/-- the reading of one node visited below `steps:`: the unquoted value and, for a hash pin, its version comment -/
def usesReading (content : Text) (n : Node) : List (Text × Option Text) :=
  if isPair n && keyIs content n "uses" then
    match n.childByField "value" with
    | some v =>
      let value := unquoteBoth (nodeText content v)
      [(value, if refIsHash value then commentOf content v else none)]
    | none => []
  else []

theorem usesOf_reading (content : Text) (n : Node) :
    (usesOf content n).map triple3 = (usesReading content n).filterMap declUses := by
  unfold usesOf usesReading
  split
  · cases n.childByField "value" with
    | none => rfl
    | some v =>
      simp only [List.filterMap_cons, List.filterMap_nil, declUses_norm]
      have := ghaUses_reading content (unquoteBoth (nodeText content v)) v
      cases hg : ghaUses content (unquoteBoth (nodeText content v)) v with
      | none => rw [hg] at this; simp only [Option.map_none] at this; rw [← this]; rfl
      | some p => rw [hg] at this; simp only [Option.map_some] at this; rw [← this]; rfl
  · rfl

mutual
/-- the values of the outermost `steps:` pairs, in document order -/
def outerSteps (content : Text) : Node → List Node
  | .mk info cs =>
    match stepsValue content (.mk info cs) with
    | some v => [v]
    | none => outerStepsList content cs
def outerStepsList (content : Text) : List Node → List Node
  | [] => []
  | c :: rest => outerSteps content c ++ outerStepsList content rest
end

mutual
theorem ghaFind_outer (content : Text) : (n : Node) → ghaFind content n = (outerSteps content n).flatMap (ghaInSteps content)
  | .mk info cs => by
    rw [ghaFind_unfold, outerSteps]
    cases stepsValue content (.mk info cs) with
    | some v => simp
    | none => exact ghaFindList_outer content cs
theorem ghaFindList_outer (content : Text) : (cs : List Node) →
    ghaFindList content cs = (outerStepsList content cs).flatMap (ghaInSteps content)
  | [] => by simp [ghaFindList, outerStepsList]
  | c :: rest => by
    rw [ghaFindList, outerStepsList, List.flatMap_append, ghaFind_outer content c, ghaFindList_outer content rest]
end

/-- the reading of a workflow: the `uses:` pairs below the outermost `steps:` pairs, by value text and version comment -/
def readingGha (content : Text) (tree : Node) : List (Text × Option Text) :=
  (outerSteps content tree).flatMap fun v => (subNodes v).flatMap (usesReading content)

theorem map_flatMap_eq {α β γ} (l : List α) (f : α → List β) (g : β → γ) : (l.flatMap f).map g = l.flatMap fun a => (f a).map g := by
  induction l with
  | nil => rfl
  | cons a as ih => simp only [List.flatMap_cons, List.map_append, ih]

theorem filterMap_flatMap_eq {α β γ} (l : List α) (f : α → List β) (g : β → Option γ) :
    (l.flatMap f).filterMap g = l.flatMap fun a => (f a).filterMap g := by
  induction l with
  | nil => rfl
  | cons a as ih => simp only [List.flatMap_cons, List.filterMap_append, ih]

/-- **the workflow parser reports exactly what the reading declares** -/
theorem c04_gha_reading (content : Text) (tree : Node) :
    (workflow content tree).map triple3 = (readingGha content tree).filterMap declUses := by
  unfold workflow readingGha
  rw [ghaFind_outer, map_flatMap_eq, filterMap_flatMap_eq]
  congr 1
  funext v
  rw [ghaInSteps_eq, map_flatMap_eq, filterMap_flatMap_eq]
  congr 1
  funext u
  exact usesOf_reading content u

/-- **layout invariance for workflows**: two documents (any texts, any trees) that read alike declare the same actions
    with the same versions and commits, in the same order -/
theorem c04_gha_layout_invariant (c1 c2 : Text) (t1 t2 : Node) (h : readingGha c1 t1 = readingGha c2 t2) :
    (workflow c1 t1).map triple3 = (workflow c2 t2).map triple3 := by
  rw [c04_gha_reading, c04_gha_reading, h]

/-! ### pnpm-workspace.yaml -/

/-- the entry pairs below a `catalogs:` value: the pairs of the mappings that are the values of its named catalogs -/
def namedEntries (n : Node) : List Node :=
  (n.children.filter (·.kind == "block_mapping")).flatMap fun bm =>
    bm.children.flatMap fun cp =>
      if cp.kind == "block_mapping_pair" then
        match cp.childByField "value" with
        | some v => mappingPairs v
        | none => []
      else []

theorem pnpmNamed_eq (content : Text) (n : Node) : pnpmNamed content n = (namedEntries n).filterMap (pnpmEntry content) := by
  unfold pnpmNamed namedEntries
  rw [filterMap_flatMap_eq]
  congr 1
  funext bm
  rw [filterMap_flatMap_eq]
  congr 1
  funext cp
  split
  · cases cp.childByField "value" with
    | none => rfl
    | some v => exact pnpmMapping_eq content v
  · rfl

/-- the entry pairs a `catalog:` / `catalogs:` pair stands for -/
def handledEntries (content : Text) (n : Node) : Option (List Node) :=
  if n.kind == "block_mapping_pair" then
    match n.childByField "key" with
    | some k =>
      let key := unquoteBoth (nodeText content k)
      if key == "catalog".toList then
        some (match n.childByField "value" with | some v => mappingPairs v | none => [])
      else if key == "catalogs".toList then
        some (match n.childByField "value" with | some v => namedEntries v | none => [])
      else none
    | none => none
  else none

theorem handledOf_entries (content : Text) (n : Node) :
    handledOf content n = (handledEntries content n).map fun es => es.filterMap (pnpmEntry content) := by
  unfold handledOf handledEntries
  split
  · cases n.childByField "key" with
    | none => rfl
    | some k =>
      simp only
      split
      · cases n.childByField "value" with
        | none => rfl
        | some v => simp only [Option.map_some, pnpmMapping_eq]
      · split
        · cases n.childByField "value" with
          | none => rfl
          | some v => simp only [Option.map_some, pnpmNamed_eq]
        · rfl
  · rfl

mutual
/-- all catalog entry pairs of a document, in the order the parser visits them -/
def catalogEntries (content : Text) : Node → List Node
  | .mk info cs =>
    match handledEntries content (.mk info cs) with
    | some es => es
    | none => catalogEntriesList content cs
def catalogEntriesList (content : Text) : List Node → List Node
  | [] => []
  | c :: rest => catalogEntries content c ++ catalogEntriesList content rest
end

mutual
theorem pnpmFind_entries (content : Text) : (n : Node) →
    pnpmFind content n = (catalogEntries content n).filterMap (pnpmEntry content)
  | .mk info cs => by
    rw [pnpmFind_unfold, catalogEntries, handledOf_entries]
    cases handledEntries content (.mk info cs) with
    | some es => rfl
    | none => exact pnpmFindList_entries content cs
theorem pnpmFindList_entries (content : Text) : (cs : List Node) →
    pnpmFindList content cs = (catalogEntriesList content cs).filterMap (pnpmEntry content)
  | [] => by simp [pnpmFindList, catalogEntriesList]
  | c :: rest => by
    rw [pnpmFindList, catalogEntriesList, List.filterMap_append, pnpmFind_entries content c, pnpmFindList_entries content rest]
end

/-- how an entry pair reads: its unquoted key and its value without quotes (`none` when a side is missing) -/
def entryReading (content : Text) (pair : Node) : Option (Text × Text) :=
  match pair.childByField "key", pair.childByField "value" with
  | some k, some v =>
    let tr := trim (nodeText content v)
    some (unquoteBoth (nodeText content k), if quotedText tr then (slice tr 1 (byteLen tr - 1)).getD [] else tr)
  | _, _ => none

/-- what an entry declares: nothing when its value is empty -/
def declEntry (r : Option (Text × Text)) : Option (Text × Text) :=
  match r with
  | some (name, version) => if version.isEmpty then none else some (name, version)
  | none => none

def pair2 (p : PkgInfo) : Text × Text := (p.name, p.version)

theorem pnpmEntry_reading (content : Text) (pair : Node) :
    (pnpmEntry content pair).map pair2 = declEntry (entryReading content pair) := by
  unfold pnpmEntry entryReading declEntry
  cases pair.childByField "key" with
  | none => rfl
  | some k =>
    cases pair.childByField "value" with
    | none => rfl
    | some v =>
      simp only
      cases hq : quotedText (trim (nodeText content v)) with
      | true =>
        simp only [if_true]
        split <;> rfl
      | false =>
        simp only [Bool.false_eq_true, if_false]
        split <;> rfl

/-- the reading of a pnpm-workspace.yaml: its catalog entries by key and value text -/
def readingPnpm (content : Text) (tree : Node) : List (Option (Text × Text)) :=
  (catalogEntries content tree).map (entryReading content)

/-- **the pnpm-workspace parser reports exactly what the reading declares** -/
theorem c04_pnpm_reading (content : Text) (tree : Node) :
    (pnpmWorkspace content tree).map pair2 = (readingPnpm content tree).filterMap declEntry := by
  unfold pnpmWorkspace readingPnpm
  rw [pnpmFind_entries, List.filterMap_map]
  induction catalogEntries content tree with
  | nil => rfl
  | cons e es ih =>
    simp only [List.filterMap_cons, Function.comp]
    have := pnpmEntry_reading content e
    cases hp : pnpmEntry content e with
    | none => rw [hp] at this; simp only [Option.map_none] at this; rw [← this]; exact ih
    | some p => rw [hp] at this; simp only [Option.map_some] at this; rw [← this]; simp only [List.map_cons, ih]

/-- **layout invariance for pnpm-workspace.yaml** -/
theorem c04_pnpm_layout_invariant (c1 c2 : Text) (t1 t2 : Node) (h : readingPnpm c1 t1 = readingPnpm c2 t2) :
    (pnpmWorkspace c1 t1).map pair2 = (pnpmWorkspace c2 t2).map pair2 := by
  rw [c04_pnpm_reading, c04_pnpm_reading, h]

/-! ### the readings of the two hand-built trees of Props/C04Walks.lean -/

example : readingGha exContent exTree = [("a/b@v1".toList, none)] ∧
    (workflow exContent exTree).map triple3 = [("a/b".toList, "v1".toList, none)] := ⟨rfl, rfl⟩

example : readingPnpm pxContent pxTree = [some ("a".toList, "1.0.0".toList)] ∧
    (pnpmWorkspace pxContent pxTree).map pair2 = [("a".toList, "1.0.0".toList)] := ⟨rfl, rfl⟩

end Vlsp.C04
