/-
  C04, layout: what the package.json and deno.json parsers report depends on the syntax tree ONLY through an
  abstract JSON reading of it (object members as key text / value, strings by their unquoted text); byte
  positions, white space, member separators, comments and any other extra nodes do not enter.  Two documents
  whose trees read as the same abstract JSON therefore yield the same set of (name, spec) — whatever their layout.
-/
import Vlsp.Props.C04

namespace Vlsp.C04
open Vlsp Vlsp.Text Vlsp.Slice Vlsp.Cst Vlsp.Parsers

/-- the abstract reading of a JSON value node -/
inductive AJson where
  | str (text : Text) (closed : Bool)             -- a string: its unquoted text, and whether both quotes are there
  | obj (members : List (Option Text × Option AJson))   -- the `pair` children: key text (if any), value (if any)
  | other (kind : String)

/-- one level of abstraction below an object: enough for the two JSON manifests, whose walks are two levels deep -/
def absLeaf (content : Text) (n : Node) : AJson :=
  if n.kind == "string" then .str (jsonStr (nodeText content n)) (closedString (nodeText content n)) else .other n.kind

def absMembers (content : Text) (leaf : Node → AJson) (obj : Node) : List (Option Text × Option AJson) :=
  (obj.children.filter (·.kind == "pair")).map fun p =>
    ((p.childByField "key").map fun k => jsonStr (nodeText content k), (p.childByField "value").map leaf)

/-- a dependency object: members with leaf values -/
def absDepObject (content : Text) (obj : Node) : AJson :=
  if obj.kind == "object" then .obj (absMembers content (absLeaf content) obj) else absLeaf content obj

/-- the root object: members whose values are read as dependency objects -/
def absRoot (content : Text) (tree : Node) : Option AJson :=
  match tree.child0 with
  | some doc => if doc.kind == "object" then some (.obj (absMembers content (absDepObject content) doc)) else none
  | none => none

/-- the root object of a deno.json / deno.jsonc: comments before it are not part of the reading -/
def absRootC (content : Text) (tree : Node) : Option AJson :=
  match tree.firstValue with
  | some doc => if doc.kind == "object" then some (.obj (absMembers content (absDepObject content) doc)) else none
  | none => none

/-! ### the declared set, defined on the abstract reading only -/

def entryTriple (m : Option Text × Option AJson) : Option (Text × Text) :=
  match m with
  | (some key, some (.str raw true)) => if nonRegistry raw then none else some (npmNameVersion key raw)
  | _ => none

def sectionTriples (m : Option Text × Option AJson) : List (Text × Text) :=
  match m with
  | (some key, some (.obj members)) => if strIn Generated.dependencyFields key then members.filterMap entryTriple else []
  | _ => []

/-- what package.json declares, as a function of its abstract reading -/
def declaredNpm : Option AJson → List (Text × Text)
  | some (.obj members) => members.flatMap sectionTriples
  | _ => []

def triple (p : PkgInfo) : Text × Text := (p.name, p.version)

theorem npmEntry_abs (content : Text) (child : Node) (hk : child.kind = "pair") :
    (npmEntry content child).map triple =
      entryTriple ((child.childByField "key").map fun k => jsonStr (nodeText content k),
                   (child.childByField "value").map (absLeaf content)) := by
  unfold npmEntry
  have hk' : (child.kind != "pair") = false := by simp [hk]
  simp only [hk', Bool.false_eq_true, if_false]
  cases child.childByField "key" with
  | none => cases child.childByField "value" <;> rfl
  | some k =>
    cases child.childByField "value" with
    | none => rfl
    | some v =>
      simp only [Option.map_some, absLeaf]
      by_cases hs : v.kind = "string"
      · have hs' : (v.kind != "string") = false := by simp [hs]
        have hs'' : (v.kind == "string") = true := by simp [hs]
        simp only [hs', hs'', Bool.false_eq_true, if_false, if_true]
        cases hc : closedString (nodeText content v) with
        | false => simp [entryTriple]
        | true =>
          simp only [Bool.not_true, Bool.false_eq_true, if_false, entryTriple]
          split <;> simp [triple]
      · have hs' : (v.kind != "string") = true := by simpa using hs
        have hs'' : (v.kind == "string") = false := by simpa using hs
        simp [hs', hs'', entryTriple]

theorem npmObject_abs (content : Text) (obj : Node) :
    (npmPackagesOfObject content obj).map triple = (absMembers content (absLeaf content) obj).filterMap entryTriple := by
  unfold npmPackagesOfObject absMembers
  induction obj.children with
  | nil => rfl
  | cons c cs ih =>
    by_cases hk : c.kind = "pair"
    · have hf : (c.kind == "pair") = true := by simp [hk]
      simp only [List.filterMap_cons, List.filter_cons, hf, if_true, List.map_cons]
      have := npmEntry_abs content c hk
      cases he : npmEntry content c with
      | none => rw [he] at this; simp only [Option.map_none] at this; rw [← this]; simpa using ih
      | some p => rw [he] at this; simp only [Option.map_some] at this; rw [← this]; simpa using ih
    · have hf : (c.kind == "pair") = false := by simpa using hk
      have hne : npmEntry content c = none := by
        unfold npmEntry
        have : (c.kind != "pair") = true := by simpa using hk
        simp [this]
      simp only [List.filterMap_cons, hne, List.filter_cons, hf, Bool.false_eq_true, if_false]
      exact ih

theorem npmSection_abs (content : Text) (c : Node) (hk : c.kind = "pair") :
    (match npmSectionOf content c with
      | some sec => (npmPackagesOfObject content sec).map triple
      | none => []) =
    sectionTriples ((c.childByField "key").map fun k => jsonStr (nodeText content k),
                    (c.childByField "value").map (absDepObject content)) := by
  unfold npmSectionOf
  have hk' : (c.kind != "pair") = false := by simp [hk]
  simp only [hk', Bool.false_eq_true, if_false]
  cases c.childByField "key" with
  | none => cases c.childByField "value" <;> rfl
  | some k =>
    simp only [Option.map_some]
    cases hin : strIn Generated.dependencyFields (jsonStr (nodeText content k)) with
    | false =>
      simp only [Bool.not_false, if_true, sectionTriples]
      cases (c.childByField "value").map (absDepObject content) with
      | none => rfl
      | some a => cases a <;> simp [hin]
    | true =>
      simp only [Bool.not_true, Bool.false_eq_true, if_false]
      cases c.childByField "value" with
      | none => rfl
      | some v =>
        simp only [Option.map_some, absDepObject]
        by_cases hv : v.kind = "object"
        · have hv' : (v.kind == "object") = true := by simp [hv]
          simp only [hv', if_true, sectionTriples, hin]
          exact npmObject_abs content v
        · have hv' : (v.kind == "object") = false := by simpa using hv
          simp only [hv', Bool.false_eq_true, if_false, absLeaf]
          split <;> simp [sectionTriples]

/-- **the declared set is a function of the abstract reading**: what the package.json parser reports, as
    (name, spec) pairs, is `declaredNpm` of the abstract JSON — positions and layout do not enter -/
theorem c04_npm_abstract (content : Text) (tree : Node) :
    (packageJson content tree).map triple = declaredNpm (absRoot content tree) := by
  unfold packageJson absRoot
  cases tree.child0 with
  | none => rfl
  | some doc =>
    simp only
    by_cases ho : doc.kind = "object"
    · have ho' : (doc.kind == "object") = true := by simp [ho]
      simp only [ho', if_true, declaredNpm]
      unfold npmSections absMembers
      induction doc.children with
      | nil => rfl
      | cons c cs ih =>
        by_cases hk : c.kind = "pair"
        · have hf : (c.kind == "pair") = true := by simp [hk]
          have hhead := npmSection_abs content c hk
          simp only [List.filterMap_cons, List.filter_cons, hf, if_true, List.map_cons, List.flatMap_cons]
          cases hsec : npmSectionOf content c with
          | none =>
            rw [hsec] at hhead
            rw [← hhead]
            simpa using ih
          | some sec =>
            rw [hsec] at hhead
            simp only [List.flatMap_cons, List.map_append]
            rw [← hhead]
            simpa using ih
        · have hf : (c.kind == "pair") = false := by simpa using hk
          have hne : npmSectionOf content c = none := by
            unfold npmSectionOf
            have : (c.kind != "pair") = true := by simpa using hk
            simp [this]
          simp only [List.filterMap_cons, hne, List.filter_cons, hf, Bool.false_eq_true, if_false]
          exact ih
    · have ho' : (doc.kind == "object") = false := by simpa using ho
      simp [ho', declaredNpm]

/-- **layout invariance for package.json**: two documents — any texts, any trees — that read as the same abstract
    JSON are checked for the same (name, spec) pairs, in the same order -/
theorem c04_npm_layout_invariant (c1 c2 : Text) (t1 t2 : Node) (h : absRoot c1 t1 = absRoot c2 t2) :
    (packageJson c1 t1).map triple = (packageJson c2 t2).map triple := by
  rw [c04_npm_abstract, c04_npm_abstract, h]

/-! ### deno.json -/

def jsrTriple (m : Option Text × Option AJson) : Option (Text × Text) :=
  match m with
  | (_, some (.str raw true)) =>
    (match Sites.jsrSpecifier raw with
     | some (some (n, ver)) => some (n, ver)
     | _ => none)
  | _ => none

def importsTriples (m : Option Text × Option AJson) : List (Text × Text) :=
  match m with
  | (some key, some (.obj members)) => if key == importsKey then members.filterMap jsrTriple else []
  | _ => []

/-- what deno.json declares, as a function of its abstract reading -/
def declaredJsr : Option AJson → List (Text × Text)
  | some (.obj members) => members.flatMap importsTriples
  | _ => []

theorem denoEntry_abs (content : Text) (child : Node) (hk : child.kind = "pair") :
    (denoEntry content child).map triple =
      jsrTriple ((child.childByField "key").map fun k => jsonStr (nodeText content k),
                 (child.childByField "value").map (absLeaf content)) := by
  unfold denoEntry
  have hk' : (child.kind != "pair") = false := by simp [hk]
  simp only [hk', Bool.false_eq_true, if_false]
  cases child.childByField "value" with
  | none => simp [jsrTriple]
  | some v =>
    simp only [Option.map_some, absLeaf]
    by_cases hs : v.kind = "string"
    · have hs' : (v.kind != "string") = false := by simp [hs]
      have hs'' : (v.kind == "string") = true := by simp [hs]
      simp only [hs', hs'', Bool.false_eq_true, if_false, if_true]
      cases hc : closedString (nodeText content v) with
      | false => simp [jsrTriple]
      | true =>
        simp only [Bool.not_true, Bool.false_eq_true, if_false, jsrTriple]
        cases Sites.jsrSpecifier (jsonStr (nodeText content v)) with
        | none => rfl
        | some r => cases r with
          | none => rfl
          | some nv => rfl
    · have hs' : (v.kind != "string") = true := by simpa using hs
      have hs'' : (v.kind == "string") = false := by simpa using hs
      simp [hs', hs'', jsrTriple]

theorem denoObject_abs (content : Text) (obj : Node) :
    (denoPackagesOfImports content obj).map triple = (absMembers content (absLeaf content) obj).filterMap jsrTriple := by
  unfold denoPackagesOfImports absMembers
  induction obj.children with
  | nil => rfl
  | cons c cs ih =>
    by_cases hk : c.kind = "pair"
    · have hf : (c.kind == "pair") = true := by simp [hk]
      simp only [List.filterMap_cons, List.filter_cons, hf, if_true, List.map_cons]
      have := denoEntry_abs content c hk
      cases he : denoEntry content c with
      | none => rw [he] at this; simp only [Option.map_none] at this; rw [← this]; simpa using ih
      | some p => rw [he] at this; simp only [Option.map_some] at this; rw [← this]; simpa using ih
    · have hf : (c.kind == "pair") = false := by simpa using hk
      have hne : denoEntry content c = none := by
        unfold denoEntry
        have : (c.kind != "pair") = true := by simpa using hk
        simp [this]
      simp only [List.filterMap_cons, hne, List.filter_cons, hf, Bool.false_eq_true, if_false]
      exact ih

theorem denoSection_abs (content : Text) (c : Node) (hk : c.kind = "pair") :
    (match denoSectionOf content c with
      | some sec => (denoPackagesOfImports content sec).map triple
      | none => []) =
    importsTriples ((c.childByField "key").map fun k => jsonStr (nodeText content k),
                    (c.childByField "value").map (absDepObject content)) := by
  unfold denoSectionOf
  have hk' : (c.kind != "pair") = false := by simp [hk]
  simp only [hk', Bool.false_eq_true, if_false]
  cases c.childByField "key" with
  | none => cases c.childByField "value" <;> rfl
  | some k =>
    simp only [Option.map_some]
    cases hin : (jsonStr (nodeText content k) == importsKey) with
    | false =>
      have hne : (jsonStr (nodeText content k) != importsKey) = true := by unfold bne; rw [hin]; rfl
      simp only [hne, if_true, importsTriples]
      cases (c.childByField "value").map (absDepObject content) with
      | none => rfl
      | some a => cases a <;> simp only [hin, Bool.false_eq_true, if_false]
    | true =>
      have hne : (jsonStr (nodeText content k) != importsKey) = false := by unfold bne; rw [hin]; rfl
      simp only [hne, Bool.false_eq_true, if_false]
      cases c.childByField "value" with
      | none => rfl
      | some v =>
        simp only [Option.map_some, absDepObject]
        by_cases hv : v.kind = "object"
        · have hv' : (v.kind == "object") = true := by simp [hv]
          simp only [hv', if_true, importsTriples, hin]
          exact denoObject_abs content v
        · have hv' : (v.kind == "object") = false := by simpa using hv
          simp only [hv', Bool.false_eq_true, if_false, absLeaf]
          split <;> simp [importsTriples]

theorem c04_deno_abstract (content : Text) (tree : Node) :
    (denoJson content tree).map triple = declaredJsr (absRootC content tree) := by
  unfold denoJson absRootC
  cases tree.firstValue with
  | none => rfl
  | some doc =>
    simp only
    by_cases ho : doc.kind = "object"
    · have ho' : (doc.kind == "object") = true := by simp [ho]
      simp only [ho', if_true, declaredJsr]
      unfold denoSections absMembers
      induction doc.children with
      | nil => rfl
      | cons c cs ih =>
        by_cases hk : c.kind = "pair"
        · have hf : (c.kind == "pair") = true := by simp [hk]
          have hhead := denoSection_abs content c hk
          simp only [List.filterMap_cons, List.filter_cons, hf, if_true, List.map_cons, List.flatMap_cons]
          cases hsec : denoSectionOf content c with
          | none =>
            rw [hsec] at hhead
            rw [← hhead]
            simpa using ih
          | some sec =>
            rw [hsec] at hhead
            simp only [List.flatMap_cons, List.map_append]
            rw [← hhead]
            simpa using ih
        · have hf : (c.kind == "pair") = false := by simpa using hk
          have hne : denoSectionOf content c = none := by
            unfold denoSectionOf
            have : (c.kind != "pair") = true := by simpa using hk
            simp [this]
          simp only [List.filterMap_cons, hne, List.filter_cons, hf, Bool.false_eq_true, if_false]
          exact ih
    · have ho' : (doc.kind == "object") = false := by simpa using ho
      simp [ho', declaredJsr]

/-- **layout invariance for deno.json** -/
theorem c04_deno_layout_invariant (c1 c2 : Text) (t1 t2 : Node) (h : absRootC c1 t1 = absRootC c2 t2) :
    (denoJson c1 t1).map triple = (denoJson c2 t2).map triple := by
  rw [c04_deno_abstract, c04_deno_abstract, h]

end Vlsp.C04
