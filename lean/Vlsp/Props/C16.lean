/-
  C16 — only supported manifest files are checked, each by its own ecosystem.

  Model : Vlsp.Detect.detect        (src/parser/types.rs, tables regenerated from source)
  Spec  : Vlsp.Spec.Supported.Kind  (declarative; the property's own file-name list)
-/
import Vlsp.Model.Detect
import Vlsp.Spec.Supported
import Vlsp.Lemmas.TextLemmas

namespace Vlsp.C16
open Vlsp Vlsp.Text Vlsp.Detect Vlsp.Spec.Supported

/-! ### helper facts (model ↔ declarative spec pieces) -/

theorem isBoundaryChar_eq (c : Char) : isBoundaryChar c = isSep c := by
  have h : ∀ a : Char, (a == c) = (c == a) := fun a => by
    by_cases hac : a = c
    · subst hac; rfl
    · have h1 : (a == c) = false := by simpa using hac
      have h2 : (c == a) = false := by simpa using (fun h => hac h.symm)
      rw [h1, h2]
  simp only [isBoundaryChar, Generated.ghaDirBoundaryChars, isSep, List.any_cons, List.any_nil,
    Bool.or_false]
  have e1 : ("/" : String).toList = ['/'] := by decide
  have e2 : ("\\" : String).toList = ['\\'] := by decide
  rw [e1, e2]
  show (('/' == c && true) || ('\\' == c && true)) = _
  simp only [Bool.and_true, h]

theorem occursAtBoundary_iff (dir : Text) (atB : Bool) (t : Text) :
    occursAtBoundary dir atB t = true ↔
      (atB = true ∧ ∃ post, t = dir ++ post) ∨
      (∃ pre c post, t = pre ++ c :: (dir ++ post) ∧ isSep c = true) := by
  induction t generalizing atB with
  | nil =>
    simp only [occursAtBoundary, Bool.and_eq_true, List.isEmpty_iff]
    constructor
    · rintro ⟨h1, h2⟩; left; exact ⟨h1, [], by simp [h2]⟩
    · rintro (⟨h1, post, hp⟩ | ⟨pre, c, post, hp, _⟩)
      · refine ⟨h1, ?_⟩
        have := congrArg List.length hp; simp at this
        exact List.eq_nil_of_length_eq_zero (by omega)
      · have := congrArg List.length hp; simp at this
  | cons a as ih =>
    simp only [occursAtBoundary, Bool.or_eq_true, Bool.and_eq_true, ih, startsWith_iff, isBoundaryChar_eq]
    constructor
    · rintro (⟨h1, post, hp⟩ | ⟨h1, post, hp⟩ | ⟨pre, c, post, hp, hc⟩)
      · left; exact ⟨h1, post, hp⟩
      · right; exact ⟨[], a, post, by simp [hp], h1⟩
      · right; exact ⟨a :: pre, c, post, by simp [hp], hc⟩
    · rintro (⟨h1, post, hp⟩ | ⟨pre, c, post, hp, hc⟩)
      · left; exact ⟨h1, post, hp⟩
      · right
        cases pre with
        | nil =>
          simp at hp; obtain ⟨rfl, rfl⟩ := hp
          left; exact ⟨hc, post, rfl⟩
        | cons e es =>
          simp at hp; obtain ⟨rfl, rfl⟩ := hp
          right; exact ⟨es, c, post, rfl, hc⟩

theorem containsDir_iff (uri dir : Text) :
    containsDir uri dir = true ↔
      ∃ pre post, uri = pre ++ dir ++ post ∧ (pre = [] ∨ ∃ p c, pre = p ++ [c] ∧ isSep c = true) := by
  unfold containsDir
  rw [occursAtBoundary_iff]
  constructor
  · rintro (⟨_, post, hp⟩ | ⟨pre, c, post, hp, hc⟩)
    · exact ⟨[], post, by simp [hp], Or.inl rfl⟩
    · exact ⟨pre ++ [c], post, by simp [hp], Or.inr ⟨pre, c, rfl, hc⟩⟩
  · rintro ⟨pre, post, hp, (rfl | ⟨p, c, rfl, hc⟩)⟩
    · left; exact ⟨rfl, post, by simpa using hp⟩
    · right; exact ⟨p, c, post, by simp [hp], hc⟩

theorem underDir_iff (uri : Text) :
    (Generated.ghaDirSubstrings.any fun s => containsDir uri s.toList) = true ↔ UnderWorkflowDir uri := by
  simp only [Generated.ghaDirSubstrings, List.any_cons, List.any_nil, Bool.or_false, Bool.or_eq_true,
    containsDir_iff, UnderWorkflowDir, workflowDirs, List.mem_cons, List.not_mem_nil, or_false]
  constructor
  · rintro (⟨pre, post, h, hb⟩ | ⟨pre, post, h, hb⟩ | ⟨pre, post, h, hb⟩ | ⟨pre, post, h, hb⟩)
    · exact ⟨pre, post, _, Or.inl rfl, h, hb⟩
    · exact ⟨pre, post, _, Or.inr (Or.inl rfl), h, hb⟩
    · exact ⟨pre, post, _, Or.inr (Or.inr (Or.inl rfl)), h, hb⟩
    · exact ⟨pre, post, _, Or.inr (Or.inr (Or.inr rfl)), h, hb⟩
  · rintro ⟨pre, post, d, (rfl | rfl | rfl | rfl), h, hb⟩
    · exact Or.inl ⟨pre, post, h, hb⟩
    · exact Or.inr (Or.inl ⟨pre, post, h, hb⟩)
    · exact Or.inr (Or.inr (Or.inl ⟨pre, post, h, hb⟩))
    · exact Or.inr (Or.inr (Or.inr ⟨pre, post, h, hb⟩))

theorem isYaml_iff (uri : Text) :
    (Generated.ghaYamlSuffixes.any fun s => endsWith uri s.toList) = true ↔ IsYaml uri := by
  simp only [Generated.ghaYamlSuffixes, List.any_cons, List.any_nil, Bool.or_false, Bool.or_eq_true,
    endsWith_iff, IsYaml]

theorem workflow_iff (uri : Text) :
    isGithubActionsWorkflow uri = true ↔ (UnderWorkflowDir uri ∧ IsYaml uri) := by
  unfold isGithubActionsWorkflow
  rw [Bool.and_eq_true, underDir_iff, isYaml_iff]

/-- the model's suffix table is exactly "/" ++ the property's file names, in some order,
    with the same ecosystems -/
theorem table_is_names :
    Generated.detectSuffixTable.map (fun (s, k) => (s.toList, k)) =
      [("package.json", "npm"), ("Cargo.toml", "crates_io"), ("go.mod", "go_proxy"),
       ("pnpm-workspace.yaml", "pnpm_catalog"), ("deno.json", "jsr"), ("deno.jsonc", "jsr"),
       ("pyproject.toml", "pypi")].map (fun ((n : String), (k : String)) => ('/' :: n.toList, k)) := by
  decide

theorem firstSuffix_some {uri : Text} {tbl : List (String × String)} {k : String} :
    firstSuffix uri tbl = some k → ∃ s, (s, k) ∈ tbl ∧ endsWith uri s.toList = true := by
  induction tbl with
  | nil => simp [firstSuffix]
  | cons e rest ih =>
    obtain ⟨s, r⟩ := e
    simp only [firstSuffix]
    split
    · rename_i h; intro hk; cases hk; exact ⟨s, List.mem_cons_self, h⟩
    · intro hk; obtain ⟨s', hm, he⟩ := ih hk; exact ⟨s', List.mem_cons_of_mem _ hm, he⟩

theorem firstSuffix_of_mem {uri : Text} {tbl : List (String × String)} {s k : String}
    (hm : (s, k) ∈ tbl) (he : endsWith uri s.toList = true) :
    ∃ s' k', firstSuffix uri tbl = some k' ∧ (s', k') ∈ tbl ∧ endsWith uri s'.toList = true := by
  induction tbl with
  | nil => cases hm
  | cons e rest ih =>
    obtain ⟨s0, r0⟩ := e
    simp only [firstSuffix]
    split
    · rename_i h; exact ⟨s0, r0, rfl, List.mem_cons_self, h⟩
    · rename_i h
      rcases List.mem_cons.mp hm with heq | hm'
      · cases heq; exact absurd he h
      · obtain ⟨s', k', h1, h2, h3⟩ := ih hm'
        exact ⟨s', k', h1, List.mem_cons_of_mem _ h2, h3⟩

/-- every entry of the model's table is `"/" ++ name` for a name of the spec with the same kind,
    and names contain no `/` -/
theorem table_entry {s k : String} (h : (s, k) ∈ Generated.detectSuffixTable) :
    ∃ n : String, (n, k) ∈ manifestNames ∧ s.toList = '/' :: n.toList ∧ '/' ∉ n.toList := by
  simp only [Generated.detectSuffixTable, List.mem_cons, List.not_mem_nil, or_false, Prod.mk.injEq] at h
  rcases h with ⟨rfl, rfl⟩ | ⟨rfl, rfl⟩ | ⟨rfl, rfl⟩ | ⟨rfl, rfl⟩ | ⟨rfl, rfl⟩ | ⟨rfl, rfl⟩ | ⟨rfl, rfl⟩
  · exact ⟨"package.json", by decide, by decide, by decide⟩
  · exact ⟨"Cargo.toml", by decide, by decide, by decide⟩
  · exact ⟨"go.mod", by decide, by decide, by decide⟩
  · exact ⟨"pnpm-workspace.yaml", by decide, by decide, by decide⟩
  · exact ⟨"deno.json", by decide, by decide, by decide⟩
  · exact ⟨"deno.jsonc", by decide, by decide, by decide⟩
  · exact ⟨"pyproject.toml", by decide, by decide, by decide⟩

theorem names_entry {n k : String} (h : (n, k) ∈ manifestNames) :
    ∃ s : String, (s, k) ∈ Generated.detectSuffixTable ∧ s.toList = '/' :: n.toList ∧ '/' ∉ n.toList := by
  simp only [manifestNames, List.mem_cons, List.not_mem_nil, or_false, Prod.mk.injEq] at h
  rcases h with ⟨rfl, rfl⟩ | ⟨rfl, rfl⟩ | ⟨rfl, rfl⟩ | ⟨rfl, rfl⟩ | ⟨rfl, rfl⟩ | ⟨rfl, rfl⟩ | ⟨rfl, rfl⟩
  · exact ⟨"/package.json", by decide, by decide, by decide⟩
  · exact ⟨"/Cargo.toml", by decide, by decide, by decide⟩
  · exact ⟨"/go.mod", by decide, by decide, by decide⟩
  · exact ⟨"/pyproject.toml", by decide, by decide, by decide⟩
  · exact ⟨"/pnpm-workspace.yaml", by decide, by decide, by decide⟩
  · exact ⟨"/deno.json", by decide, by decide, by decide⟩
  · exact ⟨"/deno.jsonc", by decide, by decide, by decide⟩

/-- one ecosystem per file name: the kinds of two spec names that are both the
    basename of `uri` agree (there is only one basename) -/
theorem kind_unique {uri : Text} {n1 n2 k1 k2 : String}
    (h1 : (n1, k1) ∈ manifestNames) (h2 : (n2, k2) ∈ manifestNames)
    (f1 : NamedFile uri n1) (f2 : NamedFile uri n2) : k1 = k2 := by
  obtain ⟨_, _, _, hs1⟩ := names_entry h1
  obtain ⟨_, _, _, hs2⟩ := names_entry h2
  obtain ⟨d1, e1⟩ := f1
  obtain ⟨d2, e2⟩ := f2
  have : n1.toList = n2.toList := slash_suffix_unique (e1.symm.trans e2) hs1 hs2
  have hn : n1 = n2 := String.toList_inj.mp this
  subst hn
  simp only [manifestNames, List.mem_cons, List.not_mem_nil, or_false, Prod.mk.injEq] at h1 h2
  rcases h1 with ⟨rfl, rfl⟩ | ⟨rfl, rfl⟩ | ⟨rfl, rfl⟩ | ⟨rfl, rfl⟩ | ⟨rfl, rfl⟩ | ⟨rfl, rfl⟩ | ⟨rfl, rfl⟩ <;>
    (simp at h2; try exact h2.symm)

/-! ### the property -/

/-- **C16, both directions, for every string**: the code classifies a URI as
    ecosystem `k` exactly when the URI names a supported manifest of that
    ecosystem (file name = whole last path component; YAML under a workflow
    directory that starts a path component).  The "only if" direction is what
    excludes `mypackage.json`, `go.mod.bak`, `x.github/workflows/ci.yml`, … -/
theorem c16_iff (uri : Text) (k : String) : detect uri = some k ↔ Kind uri k := by
  unfold detect Kind
  by_cases hw : isGithubActionsWorkflow uri = true
  · have hw' := (workflow_iff uri).mp hw
    simp only [hw, if_true, Option.some.injEq, Generated.ghaRegistry]
    constructor
    · intro h; left; exact ⟨hw'.1, hw'.2, h.symm⟩
    · rintro (⟨_, _, rfl⟩ | ⟨hn, _⟩)
      · rfl
      · exact absurd hw' hn
  · have hw' : ¬ (UnderWorkflowDir uri ∧ IsYaml uri) := fun h => hw ((workflow_iff uri).mpr h)
    simp only [hw, if_false, Bool.false_eq_true]
    constructor
    · intro h
      right
      obtain ⟨s, hm, he⟩ := firstSuffix_some h
      obtain ⟨n, hn, hs, _⟩ := table_entry hm
      refine ⟨hw', n, hn, ?_⟩
      rw [hs] at he
      exact endsWith_iff.mp he
    · rintro (⟨h1, h2, _⟩ | ⟨_, n, hn, hf⟩)
      · exact absurd ⟨h1, h2⟩ hw'
      · obtain ⟨s, hm, hs, _⟩ := names_entry hn
        have he : endsWith uri s.toList = true := by rw [hs]; exact endsWith_iff.mpr hf
        obtain ⟨s', k', h1, h2, h3⟩ := firstSuffix_of_mem hm he
        obtain ⟨n', hn', hs', _⟩ := table_entry h2
        rw [hs'] at h3
        have := kind_unique hn' hn (endsWith_iff.mp h3) hf
        rw [h1, this]

/-- a document that names no supported manifest is never classified -/
theorem c16_none_iff (uri : Text) : detect uri = none ↔ ¬ Supported uri := by
  unfold Supported
  constructor
  · intro h ⟨k, hk⟩
    rw [(c16_iff uri k).mpr hk] at h; cases h
  · intro h
    cases hd : detect uri with
    | none => rfl
    | some k => exact absurd ⟨k, (c16_iff uri k).mp hd⟩ h

/-- a URI has at most one ecosystem: never parsed by another ecosystem's rules -/
theorem c16_functional (uri : Text) (k1 k2 : String) (h1 : Kind uri k1) (h2 : Kind uri k2) : k1 = k2 := by
  have a := (c16_iff uri k1).mpr h1
  have b := (c16_iff uri k2).mpr h2
  rw [a] at b; exact Option.some.inj b

/-- the documented overlap: YAML under a workflow directory is an Actions file whatever its name -/
theorem c16_priority (uri : Text) (h1 : UnderWorkflowDir uri) (h2 : IsYaml uri) :
    detect uri = some "github_actions" :=
  (c16_iff uri _).mpr (Or.inl ⟨h1, h2, rfl⟩)

/-- the executable spec used by the search (`kindB`) agrees with the model on every input,
    hence (by `c16_iff`) decides the declarative spec `Kind` -/
theorem c16_kindB_eq (uri : Text) : kindB uri = detect uri := by
  have hu : underWorkflowDirB uri = (Generated.ghaDirSubstrings.any fun s => containsDir uri s.toList) := by
    have : ∀ d atB t, occursAtSep d atB t = occursAtBoundary d atB t := by
      intro d atB t
      induction t generalizing atB with
      | nil => rfl
      | cons c cs ih => simp [occursAtSep, occursAtBoundary, ih, isBoundaryChar_eq]
    simp [underWorkflowDirB, workflowDirs, Generated.ghaDirSubstrings, containsDir, this]
  have hy : isYamlB uri = (Generated.ghaYamlSuffixes.any fun s => endsWith uri s.toList) := by
    simp [isYamlB, Generated.ghaYamlSuffixes]
  unfold kindB detect isGithubActionsWorkflow
  rw [hu, hy]
  cases hc : ((Generated.ghaDirSubstrings.any fun s => containsDir uri s.toList) &&
      (Generated.ghaYamlSuffixes.any fun s => endsWith uri s.toList))
  · simp only [Bool.false_eq_true, if_false]
    apply Option.ext
    intro k
    constructor
    · intro h
      rw [Option.map_eq_some_iff] at h
      obtain ⟨⟨n, k'⟩, hf, hk⟩ := h
      simp only at hk; subst hk
      have hm := List.mem_of_find?_eq_some hf
      have hp := List.find?_some hf
      simp only at hp
      obtain ⟨s, hms, hs, _⟩ := names_entry hm
      have he : endsWith uri s.toList = true := by rw [hs]; exact hp
      obtain ⟨s', k'', h1, h2, h3⟩ := firstSuffix_of_mem hms he
      obtain ⟨n', hn', hs', _⟩ := table_entry h2
      rw [hs'] at h3
      have := kind_unique hn' hm (endsWith_iff.mp h3) (endsWith_iff.mp hp)
      rw [h1, this]
    · intro h
      obtain ⟨s, hm, he⟩ := firstSuffix_some h
      obtain ⟨n, hn, hs, _⟩ := table_entry hm
      rw [hs] at he
      cases hf : manifestNames.find? (fun x => endsWith uri ('/' :: x.1.toList)) with
      | none =>
        have := List.find?_eq_none.mp hf (n, k) hn
        simp only at this
        exact absurd he this
      | some x =>
        obtain ⟨n', k'⟩ := x
        have hm' := List.mem_of_find?_eq_some hf
        have hp' := List.find?_some hf
        simp only at hp'
        have := kind_unique hm' hn (endsWith_iff.mp hp') (endsWith_iff.mp he)
        simp [this]
  · simp [Generated.ghaRegistry]

/-! ### non-vacuity and the look-alikes named in the property (closed terms) -/

example : Kind "file:///p/package.json".toList "npm" :=
  (c16_iff _ _).mp (by decide)
example : detect "file:///p/.github/workflows/ci.yml".toList = some "github_actions" := by decide
example : detect "file:///p/.github/workflows/pnpm-workspace.yaml".toList = some "github_actions" := by decide
example : detect "file:///p/mypackage.json".toList = none := by decide
example : detect "file:///p/go.mod.bak".toList = none := by decide
example : detect "file:///p/.github/workflows/readme.md".toList = none := by decide
example : detect "package.json".toList = none := by decide
example : detect "file:///a/x.github/workflows/ci.yml".toList = none := by decide
example : detect "file:///p/Package.json".toList = none := by decide
example : detect "c:\\p\\.github\\workflows\\ci.yaml".toList = some "github_actions" := by decide

end Vlsp.C16
