/-
  C05 — every reported location is in bounds and covers the dependency's version text.
  Models: Vlsp.Parsers (locations are part of every PkgInfo the parser models produce; the parser-models stream
  ties them to the code on real syntax trees), Vlsp.Pos.
-/
import Vlsp.Model.Pos
import Vlsp.Model.Parsers
import Vlsp.Props.C04

namespace Vlsp.C05
open Vlsp Vlsp.Text Vlsp.Slice Vlsp.Cst Vlsp.Parsers Vlsp.Pos

theorem lineOf_append (a b : Text) : lineOf (a ++ b) = lineOf a + lineOf b := by
  induction a with
  | nil => simp [lineOf]
  | cons c cs ih => simp [lineOf, ih]; omega

theorem colOf_append_noNl (a b : Text) (acc : Nat) (h : ∀ c ∈ b, c ≠ '\n') :
    colOf (a ++ b) acc = colOf a acc + byteLen b := by
  induction a generalizing acc with
  | nil =>
    induction b generalizing acc with
    | nil => simp [colOf, byteLen]
    | cons c cs ih =>
      have hc : (c == '\n') = false := by simpa using h c (by simp)
      simp only [List.nil_append, colOf, hc, Bool.false_eq_true, if_false, byteLen] at ih ⊢
      rw [ih (fun x hx => h x (by simp [hx]))]; omega
  | cons c cs ih =>
    simp only [List.cons_append, colOf]
    split <;> exact ih _

theorem lineOf_noNl (b : Text) (h : ∀ c ∈ b, c ≠ '\n') : lineOf b = 0 := by
  induction b with
  | nil => rfl
  | cons c cs ih =>
    have hc : (c == '\n') = false := by simpa using h c (by simp)
    simp [lineOf, hc, ih (fun x hx => h x (by simp [hx]))]

/-- **a complete one-line quoted value gives a correct location**: the location `node.start + 1 .. node.end − 1`,
    `(row, column + 1)` that the JSON, TOML and quoted-YAML branches compute is in bounds, on one line, denotes the
    same place by offset and by (line, column), and is EXACTLY the text between the quotes -/
theorem locOk_of_quoted (content : Text) (v : Node) (name ver : Text) (h : QuotedNode content v) :
    LocOk content ⟨name, ver, none, v.sb + 1, v.eb - 1, v.info.sr, v.info.sc + 1, none⟩ ∧
    ∃ pre q body q' post, content = pre ++ q :: (body ++ q' :: post) ∧
      slice content (v.sb + 1) (v.eb - 1) = some body := by
  obtain ⟨pre, q, body, q', post, hc, hsb, heb, hq, hq', hqn, hbody, hl, hcol⟩ := h
  have e : content = (pre ++ [q]) ++ body ++ (q' :: post) := by rw [hc]; simp
  have l1 : byteLen (pre ++ [q]) = v.sb + 1 := by simp [byteLen_append, byteLen, hq, hsb]
  have l2 : byteLen (pre ++ [q] ++ body) = v.eb - 1 := by
    simp only [byteLen_append, byteLen, hq]; omega
  refine ⟨⟨pre ++ [q], body, q' :: post, e, l1, l2, hbody, ?_, ?_⟩, pre, q, body, q', post, hc, ?_⟩
  · have : lineOf [q] = 0 := lineOf_noNl [q] (by simpa using hqn)
    simp [lineOf_append, this, hl]
  · have := colOf_append_noNl pre [q] 0 (by simpa using hqn)
    simp only [this, byteLen, hq, hcol]
  · have l2' : v.eb - 1 = byteLen (pre ++ [q]) + byteLen body := by
      simp only [byteLen_append, byteLen, hq] at l2 ⊢; omega
    rw [← l1, l2']
    conv => lhs; arg 1; rw [e]
    exact slice_append _ _ _

/-- a one-line unquoted scalar reported with the node's own range (unquoted pnpm catalog entries) -/
theorem locOk_of_plain (content : Text) (v : Node) (name ver : Text) (h : PlainNode content v) :
    LocOk content ⟨name, ver, none, v.sb, v.eb, v.info.sr, v.info.sc, none⟩ := by
  obtain ⟨pre, body, post, hc, hsb, heb, hbody, hl, hcol⟩ := h
  exact ⟨pre, body, post, hc, hsb, by simp [byteLen_append, heb], hbody, hl, hcol⟩

/-! ### per parser -/

/-- package.json: every reported location of a complete one-line string value is correct -/
theorem c05_npm_entry (content : Text) (child v : Node) (p : PkgInfo) (h : npmEntry content child = some p)
    (hv : child.childByField "value" = some v) (hq : QuotedNode content v) : LocOk content p := by
  unfold npmEntry at h
  split at h
  · cases h
  · cases hk : child.childByField "key" with
    | none => simp [hk] at h
    | some k =>
      simp only [hk, hv] at h
      split at h
      · cases h
      · split at h
        · cases h
        · split at h
          · cases h
          · simp only [Option.some.injEq] at h
            subst h
            exact (locOk_of_quoted content v _ _ hq).1

/-- deno.json -/
theorem c05_deno_entry (content : Text) (child v : Node) (p : PkgInfo) (h : denoEntry content child = some p)
    (hv : child.childByField "value" = some v) (hq : QuotedNode content v) : LocOk content p := by
  unfold denoEntry at h
  split at h
  · cases h
  · simp only [hv] at h
    split at h
    · cases h
    · split at h
      · cases h
      · split at h
        · simp only [Option.some.injEq] at h
          subst h
          exact (locOk_of_quoted content v _ _ hq).1
        · cases h

/-- Cargo.toml: the three places that report a string value all use `stringVer` -/
theorem c05_cargo_string (content : Text) (s : Node) (name : Text) (hq : QuotedNode content s) :
    LocOk content ⟨name, (stringVer content s).1, none, (stringVer content s).2.1, (stringVer content s).2.2.1,
      (stringVer content s).2.2.2.1, (stringVer content s).2.2.2.2, none⟩ :=
  (locOk_of_quoted content s name _ hq).1

/-- pnpm-workspace.yaml: both branches of `parse_package_entry`, for a value node that carries no white space
    of its own (`lead = 0`, the trimmed text is the node text) -/
theorem c05_pnpm_entry (content : Text) (pair v : Node) (p : PkgInfo) (h : pnpmEntry content pair = some p)
    (hv : pair.childByField "value" = some v)
    (hlead : (nodeText content v).takeWhile isWhite = [])
    (htrim : trim (nodeText content v) = nodeText content v)
    (hlen : v.sb + byteLen (nodeText content v) = v.eb)
    (hn : (QuotedNode content v ∧ quotedText (nodeText content v) = true) ∨
          (PlainNode content v ∧ quotedText (nodeText content v) = false)) :
    LocOk content p := by
  unfold pnpmEntry at h
  cases hk : pair.childByField "key" with
  | none => simp [hk] at h
  | some k =>
    simp only [hk, hv, htrim, hlead, byteLen, Nat.add_zero, hlen] at h
    rcases hn with ⟨hq, hquoted⟩ | ⟨hp, hquoted⟩
    · simp only [hquoted, if_true] at h
      split at h
      · cases h
      · simp only [Option.some.injEq] at h
        subst h
        exact (locOk_of_quoted content v _ _ hq).1
    · simp only [hquoted, Bool.false_eq_true, if_false] at h
      split at h
      · cases h
      · simp only [Option.some.injEq] at h
        subst h
        exact locOk_of_plain content v _ _ hp

/-! ### deviations kept visible -/

/-- F-C05-4 (fixed): a value whose closing quote has not been typed yet — a one-byte node, for which
    `start + 1 .. end − 1` would be an inverted range — is no longer reported at all -/
theorem c05_unterminated_skipped (content : Text) (child v : Node) (hv : child.childByField "value" = some v)
    (hc : closedString (nodeText content v) = false) : npmEntry content child = none ∧ denoEntry content child = none := by
  refine ⟨C04.c04_npm_unclosed_never content child v hv hc, ?_⟩
  unfold denoEntry
  split
  · rfl
  · simp only [hv]
    split
    · rfl
    · simp [hc]

/-- **F-C05-1**: for a quoted `uses:` value the position of `@` is computed in the UNQUOTED text but added to the
    start of the QUOTED node: the range starts at the `@` and ends after the closing quote -/
theorem c05_deviation_quoted_uses :
    let content := "- uses: \"a/b@v4\"".toList
    let node : Node := .mk { kind := "flow_node", sb := 8, eb := 16, sr := 0, sc := 8, er := 0, ec := 16, field := some "value", named := true, missing := false } []
    (ghaUses content "a/b@v4".toList node).map (fun p => (p.startOffset, p.endOffset, slice content p.startOffset p.endOffset)) =
      some (12, 16, some "@v4\"".toList) := by decide

/-- the same value unquoted is located exactly -/
theorem c05_plain_uses_exact :
    let content := "- uses: a/b@v4".toList
    let node : Node := .mk { kind := "flow_node", sb := 8, eb := 14, sr := 0, sc := 8, er := 0, ec := 14, field := some "value", named := true, missing := false } []
    (ghaUses content "a/b@v4".toList node).map (fun p => (p.startOffset, p.endOffset, p.column, slice content p.startOffset p.endOffset)) =
      some (12, 14, 12, some "v4".toList) := by decide

/-! ### the diagnostic range and the client's units -/

theorem utf16_eq_bytes_of_ascii (t : Text) (h : ∀ c ∈ t, c.val < 0x80) : utf16Length t = byteLen t := by
  induction t with
  | nil => rfl
  | cons c cs ih =>
    have hc := h c (by simp)
    have h16 : utf16Len c = 1 := by
      unfold utf16Len
      have : c.val < 0x10000 := by
        have : (0x80 : UInt32) < 0x10000 := by decide
        exact UInt32.lt_trans hc this
      simp [this]
    simp [utf16Length, byteLen, h16, utf8Len_ascii c hc, ih (fun x hx => h x (by simp [hx]))]

/-- **the diagnostic range is right in the client's units when the line is ASCII up to the end of the spec**:
    byte columns and UTF-16 columns then coincide -/
theorem c05_diag_range_ascii (linePrefix mid : Text) (p : PkgInfo)
    (hcol : p.column = byteLen linePrefix) (hlen : p.endOffset - p.startOffset = byteLen mid) (hse : p.startOffset ≤ p.endOffset)
    (ha : ∀ c ∈ linePrefix ++ mid, c.val < 0x80) :
    diagRange p = (p.line, utf16Length linePrefix, utf16Length (linePrefix ++ mid)) := by
  have h1 := utf16_eq_bytes_of_ascii linePrefix (fun c hc => ha c (by simp [hc]))
  have h2 := utf16_eq_bytes_of_ascii (linePrefix ++ mid) ha
  simp only [diagRange, h1, h2, byteLen_append, hcol]
  congr 2; omega

/-- with a non-ASCII character before the spec the byte column is not the UTF-16 column (F-C05-3, repaired: the
    diagnostics and code actions convert at the LSP boundary — Props/C05Wire.lean, Props/C07Locate.lean) -/
theorem c05_bytes_vs_utf16 : byteLen "é".toList = 2 ∧ utf16Length "é".toList = 1 := by decide

end Vlsp.C05

namespace Vlsp.C05
open Vlsp Vlsp.Text Vlsp.Slice Vlsp.Pos

theorem sliceTo_spec (t : Text) (n : Nat) (pre : Text) (h : sliceTo t n = some pre) :
    ∃ post, t = pre ++ post ∧ byteLen pre = n := by
  induction t generalizing n pre with
  | nil =>
    cases n with
    | zero => simp [sliceTo] at h; subst h; exact ⟨[], rfl, rfl⟩
    | succ m => simp [sliceTo] at h
  | cons c cs ih =>
    cases n with
    | zero => simp [sliceTo] at h; subst h; exact ⟨c :: cs, rfl, rfl⟩
    | succ m =>
      simp only [sliceTo] at h
      split at h
      · rename_i hle
        cases hr : sliceTo cs (m + 1 - utf8Len c) with
        | none => simp [hr] at h
        | some r =>
          simp only [hr, Option.map_some, Option.some.injEq] at h
          subst h
          obtain ⟨post, e, l⟩ := ih _ _ hr
          exact ⟨post, by simp [e], by simp [byteLen, l]; omega⟩
      · cases h

theorem sliceFrom_spec (t : Text) (n : Nat) (r : Text) (h : sliceFrom t n = some r) :
    ∃ pre, t = pre ++ r ∧ byteLen pre = n := by
  induction t generalizing n with
  | nil =>
    cases n with
    | zero => simp [sliceFrom] at h; subst h; exact ⟨[], rfl, rfl⟩
    | succ m => simp [sliceFrom] at h
  | cons c cs ih =>
    cases n with
    | zero => simp [sliceFrom] at h; subst h; exact ⟨[], rfl, rfl⟩
    | succ m =>
      simp only [sliceFrom] at h
      split at h
      · obtain ⟨pre, e, l⟩ := ih _ h
        exact ⟨c :: pre, by simp [e], by simp [byteLen, l]; omega⟩
      · cases h

theorem byteLen_inj_prefix (a b c d : Text) (h : a ++ b = c ++ d) (hl : byteLen a = byteLen c) : a = c ∧ b = d := by
  induction a generalizing c with
  | nil =>
    cases c with
    | nil => exact ⟨rfl, by simpa using h⟩
    | cons x xs => simp [byteLen] at hl; have := utf8Len_pos x; omega
  | cons x xs ih =>
    cases c with
    | nil => simp [byteLen] at hl; have := utf8Len_pos x; omega
    | cons y ys =>
      simp only [List.cons_append, List.cons.injEq] at h
      obtain ⟨hxy, hrest⟩ := h
      subst hxy
      have := ih ys hrest (by simp [byteLen] at hl; omega)
      exact ⟨by rw [this.1], this.2⟩

/-- the executable test is sound: what the driver counts as a well-formed quoted node satisfies the premise -/
theorem quotedNodeB_sound (content : Text) (v : Node) (h : quotedNodeB content v = true) : QuotedNode content v := by
  unfold quotedNodeB at h
  cases hp : sliceTo content v.sb with
  | none => simp [hp] at h
  | some pre =>
    cases hs : slice content v.sb v.eb with
    | none => simp [hp, hs] at h
    | some mid =>
      cases mid with
      | nil => simp [hp, hs] at h
      | cons q rest =>
        simp only [hp, hs] at h
        cases hr : rest.reverse with
        | nil => simp [hr] at h
        | cons q' bodyRev =>
          simp only [hr, Bool.and_eq_true, beq_iff_eq, bne_iff_ne, ne_eq, List.all_eq_true] at h
          obtain ⟨⟨⟨⟨⟨hq, hq'⟩, hqn⟩, hb⟩, hl⟩, hc⟩ := h
          have hrest : rest = bodyRev.reverse ++ [q'] := by
            have := congrArg List.reverse hr; simpa using this
          obtain ⟨post0, e0, l0⟩ := sliceTo_spec content v.sb pre hp
          -- the slice: content = x ++ (q :: rest) ++ z with |x| = sb
          unfold slice at hs
          split at hs
          · rename_i hle
            cases hto : sliceTo content v.eb with
            | none => simp [hto] at hs
            | some upto =>
              simp only [hto, Option.bind_some] at hs
              obtain ⟨z, e1, l1⟩ := sliceTo_spec content v.eb upto hto
              obtain ⟨x, e2, l2⟩ := sliceFrom_spec upto v.sb (q :: rest) hs
              have hx : x = pre := by
                have : x ++ ((q :: rest) ++ z) = pre ++ post0 := by rw [← e0, e1, e2]; simp
                exact (byteLen_inj_prefix _ _ _ _ this (by rw [l2, l0])).1
              subst hx
              refine ⟨x, q, bodyRev.reverse, q', z, ?_, l2, ?_, hq, hq', hqn, ?_, hl, hc⟩
              · rw [e1, e2, hrest]; simp
              · have : byteLen upto = v.eb := l1
                rw [← this, e2, hrest]
                simp only [byteLen_append, byteLen, hq, hq']; omega
              · intro c hc'
                exact hb c (by simpa using hc')
          · cases hs

end Vlsp.C05
