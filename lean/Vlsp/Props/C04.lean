/-
  C04 — exactly the registry dependencies a manifest declares are checked.
  Models: Vlsp.Parsers (src/parser/*.rs) over the syntax tree tree-sitter produces (Vlsp.Cst); the tie to the
  code is the parser-models stream (same tree, same output).  The theorems say what the walks do with ANY tree
  and ANY text; the comparison with the declared set of rendered manifests is the stream of tools/props/C04.py.
-/
import Vlsp.Model.Parsers
import Vlsp.Props.C06

namespace Vlsp.C04
open Vlsp Vlsp.Text Vlsp.Slice Vlsp.Cst Vlsp.Parsers

/-! ### helpers -/

theorem stripPrefix_append (a b : Text) : stripPrefix a (a ++ b) = some b := by
  induction a with
  | nil => simp [stripPrefix]
  | cons x xs ih => simp [stripPrefix, ih]

/-- `find(char)` on a text whose first match is known -/
theorem findChar_first (p : Char → Bool) (pre : Text) (c : Char) (post : Text)
    (hpre : ∀ x ∈ pre, p x = false) (hc : p c = true) : findChar? p (pre ++ c :: post) = some (byteLen pre) := by
  induction pre with
  | nil => simp [findChar?, hc, byteLen]
  | cons x xs ih =>
    have hx : p x = false := hpre x (by simp)
    have := ih (fun y hy => hpre y (by simp [hy]))
    simp only [List.cons_append, findChar?, hx, Bool.false_eq_true, if_false, this, Option.map_some, byteLen]
    congr 1; omega

theorem findChar_none (p : Char → Bool) (t : Text) (h : ∀ x ∈ t, p x = false) : findChar? p t = none := by
  induction t with
  | nil => rfl
  | cons x xs ih =>
    have hx : p x = false := h x (by simp)
    simp [findChar?, hx, ih (fun y hy => h y (by simp [hy]))]

/-- **the `@scope/name@spec` split is exact**: for a scope without `/` and a name without `@`, the text
    `scope/name@spec` yields package `scope/name` and version `spec` — whatever `spec` contains -/
theorem c04_scoped_split_exact (scope name spec : Text)
    (h1 : ∀ x ∈ scope, (x == '/') = false) (h2 : ∀ x ∈ name, (x == '@') = false) :
    Sites.scopedSplit (scope ++ '/' :: (name ++ '@' :: spec)) = some (some (scope ++ '/' :: name, spec)) := by
  unfold Sites.scopedSplit
  have f1 := findChar_first (· == '/') scope '/' (name ++ '@' :: spec) h1 (by decide)
  simp only [f1]
  have s1 := C06.sliceFrom_after_ascii scope '/' (name ++ '@' :: spec) (by decide)
  simp only [s1]
  have f2 := findChar_first (· == '@') name '@' spec h2 (by decide)
  simp only [f2]
  have s2 : sliceTo (scope ++ '/' :: (name ++ '@' :: spec)) (byteLen scope + 1 + byteLen name) = some (scope ++ '/' :: name) := by
    have e : scope ++ '/' :: (name ++ '@' :: spec) = (scope ++ '/' :: name) ++ ('@' :: spec) := by simp
    have l : byteLen (scope ++ '/' :: name) = byteLen scope + 1 + byteLen name := by
      simp only [byteLen_append, byteLen]; have : utf8Len '/' = 1 := by decide
      omega
    rw [e, ← l]; exact sliceTo_append _ _
  have s3 := C06.sliceFrom_after_ascii name '@' spec (by decide)
  simp only [s2, s3]

/-- no `@` after the slash: the whole text is the package and the version is `latest` -/
theorem c04_scoped_split_no_version (scope name : Text)
    (h1 : ∀ x ∈ scope, (x == '/') = false) (h2 : ∀ x ∈ name, (x == '@') = false) :
    Sites.scopedSplit (scope ++ '/' :: name) = some (some (scope ++ '/' :: name, Sites.latestTag)) := by
  unfold Sites.scopedSplit
  have f1 := findChar_first (· == '/') scope '/' name h1 (by decide)
  simp only [f1]
  have s1 := C06.sliceFrom_after_ascii scope '/' name (by decide)
  simp only [s1, findChar_none _ name h2]

/-! ### package.json -/

/-- **only dependency sections**: every package the package.json parser reports comes from a `pair` that sits
    directly inside an object which is the value of a ROOT-object pair whose key is one of the dependency
    fields (regenerated from the source) — keys outside dependency sections are never checked -/
theorem c04_npm_only_sections (content : Text) (tree : Node) (p : PkgInfo) (h : p ∈ packageJson content tree) :
    ∃ doc secPair k sec entry, tree.child0 = some doc ∧ doc.kind = "object" ∧ secPair ∈ doc.children ∧ secPair.kind = "pair" ∧
      secPair.childByField "key" = some k ∧ strIn Generated.dependencyFields (jsonStr (nodeText content k)) = true ∧
      secPair.childByField "value" = some sec ∧ sec.kind = "object" ∧ entry ∈ sec.children ∧ npmEntry content entry = some p := by
  unfold packageJson at h
  cases hd : tree.child0 with
  | none => simp [hd] at h
  | some doc =>
    simp only [hd] at h
    by_cases hk : doc.kind = "object"
    · simp only [hk, beq_self_eq_true, if_true, List.mem_flatMap] at h
      obtain ⟨sec, hsec, hp⟩ := h
      unfold npmSections at hsec
      simp only [List.mem_filterMap] at hsec
      obtain ⟨secPair, hsp, hv⟩ := hsec
      unfold npmSectionOf at hv
      by_cases hpk : secPair.kind = "pair"
      · simp only [hpk, bne_self_eq_false, Bool.false_eq_true, if_false] at hv
        cases hkey : secPair.childByField "key" with
        | none => simp [hkey] at hv
        | some k =>
          simp only [hkey] at hv
          by_cases hin : strIn Generated.dependencyFields (jsonStr (nodeText content k)) = true
          · simp only [hin, Bool.not_true, Bool.false_eq_true, if_false] at hv
            cases hval : secPair.childByField "value" with
            | none => simp [hval] at hv
            | some v =>
              simp only [hval] at hv
              by_cases hvo : v.kind = "object"
              · simp only [hvo, beq_self_eq_true, if_true, Option.some.injEq] at hv
                subst hv
                unfold npmPackagesOfObject at hp
                simp only [List.mem_filterMap] at hp
                obtain ⟨entry, he, hentry⟩ := hp
                exact ⟨doc, secPair, k, v, entry, rfl, hk, hsp, hpk, hkey, hin, hval, hvo, he, hentry⟩
              · have : (v.kind == "object") = false := by simpa using hvo
                simp [this] at hv
          · have : strIn Generated.dependencyFields (jsonStr (nodeText content k)) = false := by simpa using hin
            simp [this] at hv
      · have : (secPair.kind != "pair") = true := by simpa using hpk
        simp [this] at hv
    · have : (doc.kind == "object") = false := by simpa using hk
      simp [this] at h

/-- the documented sections are exactly these four -/
theorem c04_npm_sections :
    Generated.dependencyFields = ["dependencies", "devDependencies", "peerDependencies", "optionalDependencies", "overrides"] := rfl

/-- **non-registry specifiers are never checked**: a value that starts with one of the prefixes
    `catalog:` `workspace:` `file:` `link:` `git+` `git:` `git@` `github:` `http:` `https:` yields nothing -/
theorem c04_npm_nonregistry_never (content : Text) (child v : Node) (hv : child.childByField "value" = some v)
    (hc : nonRegistry (jsonStr (nodeText content v)) = true) : npmEntry content child = none := by
  unfold npmEntry
  split
  · rfl
  · cases child.childByField "key" with
    | none => rfl
    | some k =>
      simp only [hv]
      split
      · rfl
      · split
        · rfl
        · simp [hc]

/-- **what an entry yields**: a `"key": "value"` pair yields exactly one package — named by the alias target for
    `npm:` specifiers and by the key otherwise — with the value as its spec; anything that is not a string value yields nothing -/
theorem c04_npm_entry (content : Text) (child k v : Node) (hk : child.kind = "pair")
    (hkey : child.childByField "key" = some k) (hv : child.childByField "value" = some v) (hs : v.kind = "string")
    (hcl : closedString (nodeText content v) = true)
    (hc : nonRegistry (jsonStr (nodeText content v)) = false) :
    (npmEntry content child).map (fun p => (p.name, p.version, p.commitHash)) =
      some ((npmNameVersion (jsonStr (nodeText content k)) (jsonStr (nodeText content v))).1,
            (npmNameVersion (jsonStr (nodeText content k)) (jsonStr (nodeText content v))).2, none) := by
  have hk' : (child.kind != "pair") = false := by simp [hk]
  have hs' : (v.kind != "string") = false := by simp [hs]
  simp only [npmEntry, hk', hkey, hv, hs', hcl, hc, Bool.not_true, Bool.false_eq_true, if_false, Option.map_some]

/-- a value whose closing quote is missing (the document is being typed) is not a dependency yet (F-C05-4, fixed) -/
theorem c04_npm_unclosed_never (content : Text) (child v : Node) (hv : child.childByField "value" = some v)
    (hc : closedString (nodeText content v) = false) : npmEntry content child = none := by
  unfold npmEntry
  split
  · rfl
  · cases child.childByField "key" with
    | none => rfl
    | some k =>
      simp only [hv]
      split
      · rfl
      · simp [hc]

theorem c04_closedString_examples :
    closedString "\"1.0\"".toList = true ∧ closedString "'1.0'".toList = true ∧ closedString "\"".toList = false ∧
    closedString "\"1.0".toList = false ∧ closedString "\"1.0'".toList = false ∧ closedString [] = false := by decide

theorem c04_npm_nonstring_never (content : Text) (child v : Node) (hv : child.childByField "value" = some v)
    (hs : v.kind ≠ "string") : npmEntry content child = none := by
  unfold npmEntry
  split
  · rfl
  · cases child.childByField "key" with
    | none => rfl
    | some k =>
      have : (v.kind != "string") = true := by simpa using hs
      simp [hv, this]

/-- **alias targets**: `"k": "npm:@scope/name@spec"` is checked as package `@scope/name` with spec `spec` -/
theorem c04_npm_alias_scoped (key scope name spec : Text)
    (h1 : ∀ x ∈ scope, (x == '/') = false) (h2 : ∀ x ∈ name, (x == '@') = false) :
    npmNameVersion key (Sites.npmPrefix ++ ('@' :: scope ++ '/' :: (name ++ '@' :: spec))) = ('@' :: scope ++ '/' :: name, spec) := by
  unfold npmNameVersion Sites.npmAlias
  rw [stripPrefix_append]
  have hstart : startsWith ('@' :: scope ++ '/' :: (name ++ '@' :: spec)) ['@'] = true := by simp [startsWith, stripPrefix]
  simp only [hstart, if_true]
  have := c04_scoped_split_exact ('@' :: scope) name spec (by
    intro x hx; rcases List.mem_cons.mp hx with rfl | hx
    · decide
    · exact h1 x hx) h2
  simp only [List.cons_append] at this ⊢
  rw [this]

/-- `"k": "npm:name@spec"` (unscoped) is checked as package `name` with spec `spec` -/
theorem c04_npm_alias_plain (key name spec : Text) (c : Char) (hc : c ≠ '@')
    (h2 : ∀ x ∈ c :: name, (x == '@') = false) :
    npmNameVersion key (Sites.npmPrefix ++ (c :: name ++ '@' :: spec)) = (c :: name, spec) := by
  unfold npmNameVersion Sites.npmAlias
  rw [stripPrefix_append]
  have hstart : startsWith (c :: name ++ '@' :: spec) ['@'] = false := by
    have : ('@' == c) = false := by simp; exact fun h => hc h.symm
    simp [startsWith, stripPrefix, this]
  simp only [hstart, Bool.false_eq_true, if_false]
  have f := findChar_first (· == '@') (c :: name) '@' spec h2 (by decide)
  simp only [f]
  have s1 : sliceTo (c :: name ++ '@' :: spec) (byteLen (c :: name)) = some (c :: name) := sliceTo_append _ _
  have s2 := C06.sliceFrom_after_ascii (c :: name) '@' spec (by decide)
  simp only [s1, s2]

/-- a value that is no alias is checked under its key, verbatim -/
theorem c04_npm_plain (key raw : Text) (h : stripPrefix Sites.npmPrefix raw = none) : npmNameVersion key raw = (key, raw) := by
  unfold npmNameVersion Sites.npmAlias; rw [h]

/-- the prefixes, as the code lists them now -/
theorem c04_npm_nonregistry_list : Generated.nonRegistryPrefixes =
    ["catalog:", "workspace:", "file:", "link:", "git+", "git:", "git@", "github:", "gitlab:", "bitbucket:", "gist:", "http:", "https:"] := rfl

/-- **a specifier with a slash is never checked unless it is an `npm:` alias** (`user/repo`, `./x.tgz`, `../dir`, `~/dir`,
    `/abs`, `user/repo#semver:^1`): for every text around the slash -/
theorem c04_npm_slash_never (a b : Text) (h : startsWith (a ++ '/' :: b) "npm:".toList = false) :
    nonRegistry (a ++ '/' :: b) = true := by
  unfold nonRegistry
  have h1 : (a ++ '/' :: b).any (· == '/') = true := by simp
  rw [h1, h]
  simp

/-- every kind of non-registry specifier the property lists is recognised (F-C04-1, fixed) -/
theorem c04_npm_nonregistry_examples :
    nonRegistry "workspace:*".toList = true ∧ nonRegistry "file:../local".toList = true ∧ nonRegistry "link:../x".toList = true ∧
    nonRegistry "git+https://github.com/a/b.git#v1".toList = true ∧ nonRegistry "github:user/repo".toList = true ∧
    nonRegistry "https://example.com/x.tgz".toList = true ∧ nonRegistry "catalog:".toList = true ∧
    nonRegistry "user/repo".toList = true ∧ nonRegistry "./local.tgz".toList = true ∧ nonRegistry "gist:abc".toList = true ∧
    nonRegistry "^1.2.3".toList = false ∧ nonRegistry "npm:real@1.0.0".toList = false ∧ nonRegistry "npm:@scope/real@1.0.0".toList = false ∧
    nonRegistry "latest".toList = false := by
  decide

/-! ### deno.json -/

/-- **only `jsr:` specifiers**: an import that does not start with `jsr:` (npm:, https:, relative paths) is never checked -/
theorem c04_jsr_only_jsr (content : Text) (child v : Node) (hv : child.childByField "value" = some v)
    (h : stripPrefix Sites.jsrPrefix (jsonStr (nodeText content v)) = none) : denoEntry content child = none := by
  unfold denoEntry
  split
  · rfl
  · simp only [hv]
    split
    · rfl
    · split
      · rfl
      · unfold Sites.jsrSpecifier; rw [h]

/-- `jsr:@scope/name@spec` is checked as `@scope/name` with spec `spec` -/
theorem c04_jsr_exact (scope name spec : Text)
    (h1 : ∀ x ∈ scope, (x == '/') = false) (h2 : ∀ x ∈ name, (x == '@') = false) :
    Sites.jsrSpecifier (Sites.jsrPrefix ++ (scope ++ '/' :: (name ++ '@' :: spec))) =
      some (some (scope ++ '/' :: name, spec.takeWhile (· != '/'))) := by
  unfold Sites.jsrSpecifier
  rw [stripPrefix_append]
  simp only [c04_scoped_split_exact scope name spec h1 h2, Option.map_some]

theorem c04_jsr_no_version (scope name : Text)
    (h1 : ∀ x ∈ scope, (x == '/') = false) (h2 : ∀ x ∈ name, (x == '@') = false) :
    Sites.jsrSpecifier (Sites.jsrPrefix ++ (scope ++ '/' :: name)) = some (some (scope ++ '/' :: name, Sites.latestTag)) := by
  unfold Sites.jsrSpecifier
  rw [stripPrefix_append]
  simp only [c04_scoped_split_no_version scope name h1 h2, Option.map_some]
  have : List.takeWhile (fun x => x != '/') Sites.latestTag = Sites.latestTag := by decide
  rw [this]

/-- a sub-path after the version is not part of the version (F-C04-2, fixed) -/
theorem c04_jsr_subpath_dropped :
    Sites.jsrSpecifier "jsr:@luca/flag@^1.0.1/sub/mod.ts".toList = some (some ("@luca/flag".toList, "^1.0.1".toList)) :=
  c04_jsr_exact "@luca".toList "flag".toList "^1.0.1/sub/mod.ts".toList (by decide) (by decide)

/-! ### Cargo.toml -/

/-- **path / workspace / registry crates are never checked**: an inline table with one of the skip keys
    (regenerated from the source) yields no version, whatever else it contains -/
theorem c04_cargo_skip_keys (content : Text) (tbl : Node) (h : cargoSkipInline content tbl = true) :
    cargoInlineVersion content tbl = none := by
  simp [cargoInlineVersion, h]

theorem c04_cargo_skip_list : Generated.skipKeys = ["path", "workspace", "registry"] := rfl

/-- **only dependency tables**: every crate reported comes from a `pair` of a top-level `table` whose header text is
    one of the dependency tables, or from a top-level `table` `[<dependency table>.<name>]` read like an inline table
    (F-C04-8, repaired) -/
theorem c04_cargo_only_tables (content : Text) (tree : Node) (p : PkgInfo) (h : p ∈ cargoToml content tree) :
    ∃ table name, table ∈ tree.children ∧ table.kind = "table" ∧ tableName content table = some name ∧
      ((cargoIsDepTable name = true ∧ ∃ pair, pair ∈ table.children ∧ pair.kind = "pair" ∧ cargoPair content pair = some p) ∨
       (cargoIsDepTable name = false ∧ ∃ parent dep, rsplitOnceChar '.' name = some (parent, dep) ∧
          cargoIsDepTable parent = true ∧ p ∈ cargoSubtable content dep table)) := by
  unfold cargoToml at h
  simp only [List.mem_flatMap, List.mem_filter] at h
  obtain ⟨table, ⟨ht, hk⟩, hp⟩ := h
  unfold cargoTable at hp
  cases hn : tableName content table with
  | none => simp [hn] at hp
  | some name =>
    simp only [hn] at hp
    refine ⟨table, name, ht, by simpa using hk, hn, ?_⟩
    cases hin : cargoIsDepTable name with
    | true =>
      simp only [hin, if_true, List.mem_filterMap, List.mem_filter] at hp
      obtain ⟨pair, ⟨hpm, hpk⟩, hpp⟩ := hp
      exact Or.inl ⟨rfl, pair, hpm, by simpa using hpk, hpp⟩
    | false =>
      simp only [hin, Bool.false_eq_true, if_false] at hp
      cases hr : rsplitOnceChar '.' name with
      | none => simp [hr] at hp
      | some pd =>
        obtain ⟨parent, dep⟩ := pd
        simp only [hr] at hp
        cases hpar : cargoIsDepTable parent with
        | false => simp [hpar] at hp
        | true =>
          simp only [hpar, if_true] at hp
          exact Or.inr ⟨rfl, parent, dep, rfl, hpar, hp⟩

/-- a sub-table yields at most one crate, named by its `package` key or else by the last component of the header, with
    the version of its `version` key; none when it has a skip key (path / workspace / registry) -/
theorem c04_cargo_subtable (content : Text) (dep : Text) (table : Node) (p : PkgInfo) (h : p ∈ cargoSubtable content dep table) :
    cargoSkipInline content table = false ∧
    p.name = (match cargoInlinePackage content table with | some real => real | none => dep) ∧
    ∃ vi, cargoInlineVersion content table = some vi ∧ p.version = vi.1 := by
  unfold cargoSubtable at h
  cases hv : cargoInlineVersion content table with
  | none => simp [hv] at h
  | some vi =>
    obtain ⟨v, s, e, l, c⟩ := vi
    simp only [hv, List.mem_singleton] at h
    subst h
    refine ⟨?_, rfl, ⟨(v, s, e, l, c), rfl, rfl⟩⟩
    cases hs : cargoSkipInline content table with
    | false => rfl
    | true => rw [c04_cargo_skip_keys content table hs] at hv; cases hv

theorem c04_cargo_tables : Generated.dependencyTables = ["dependencies", "dev-dependencies", "build-dependencies", "workspace.dependencies"] := rfl

/-- both TOML string styles lose their quotes (F-C04-3, fixed) -/
theorem c04_toml_both_quotes : unquoteToml "'1.0'".toList = "1.0".toList ∧ unquoteToml "\"1.0\"".toList = "1.0".toList := by
  constructor <;> decide

/-- target-specific tables are dependency tables (F-C04-7, fixed); other tables under `target.` are not -/
theorem c04_cargo_target_tables :
    strIn Generated.dependencyTables (cargoSection "target.'cfg(unix)'.dependencies".toList) = true ∧
    strIn Generated.dependencyTables (cargoSection "target.x86_64-pc-windows-gnu.dev-dependencies".toList) = true ∧
    strIn Generated.dependencyTables (cargoSection "target.'cfg(unix)'.features".toList) = false ∧
    strIn Generated.dependencyTables (cargoSection "target.dependencies".toList) = false ∧
    strIn Generated.dependencyTables (cargoSection "workspace.dependencies".toList) = true := by
  refine ⟨?_, ?_, ?_, ?_, ?_⟩ <;> decide

/-- a renamed dependency is checked under its `package` name (F-C04-4, fixed):
    `a = { package = "b", version = "1" }` is crate `b`, version `1`, located at the `1` -/
theorem c04_cargo_renamed_example :
    let content := "a = { package = \"b\", version = \"1\" }".toList
    let nd (kind : String) (sb eb : Nat) (cs : List Node) : Node :=
      .mk { kind := kind, sb := sb, eb := eb, sr := 0, sc := sb, er := 0, ec := eb, field := none, named := true, missing := false } cs
    let pair := nd "pair" 0 36 [nd "bare_key" 0 1 [], nd "=" 2 3 [],
      nd "inline_table" 4 36 [nd "{" 4 5 [],
        nd "pair" 6 19 [nd "bare_key" 6 13 [], nd "=" 14 15 [], nd "string" 16 19 []], nd "," 19 20 [],
        nd "pair" 21 34 [nd "bare_key" 21 28 [], nd "=" 29 30 [], nd "string" 31 34 []], nd "}" 35 36 []]]
    (cargoPair content pair).map (fun p => (p.name, p.version, p.startOffset, p.endOffset)) =
      some ("b".toList, "1".toList, 32, 33) := by decide

/-- `[dependencies.<name>]` headers (F-C04-8, repaired): not a dependency table themselves, their parent is -/
theorem c04_cargo_subtable_headers :
    cargoIsDepTable "dependencies.serde".toList = false ∧
    rsplitOnceChar '.' "dependencies.serde".toList = some ("dependencies".toList, "serde".toList) ∧
    rsplitOnceChar '.' "target.'cfg(unix)'.dev-dependencies.libc".toList = some ("target.'cfg(unix)'.dev-dependencies".toList, "libc".toList) ∧
    cargoIsDepTable "target.'cfg(unix)'.dev-dependencies".toList = true ∧
    cargoIsDepTable "package.metadata.dependencies".toList = false ∧
    rsplitOnceChar '.' "dependencies".toList = none := by
  refine ⟨?_, ?_, ?_, ?_, ?_, ?_⟩ <;> decide

/-! ### go.mod -/

/-- **only `require`**: outside a require block, a line that does not start with `require` (replace, exclude,
    retract, module, go …) yields nothing -/
theorem c04_go_directive_never (line : Text) (off : Nat) (rest : List (Text × Nat)) (n : Nat)
    (h : stripPrefix Sites.requireKw (trim line) = none) :
    goLines ((line, off) :: rest) n false = goLines rest (n + 1) false := by
  have hs : goSingle (trim line) = none := by unfold goSingle; rw [h]
  have hb : goBlockStart (trim line) = false := by unfold goBlockStart; rw [h]
  conv => lhs; unfold goLines
  simp only [hs, hb, Bool.false_and, Bool.false_eq_true, if_false]
  split <;> rfl

/-- trailing white space after the version does not hide the requirement (F-C04-9, fixed) -/
theorem c04_go_trailing_ws :
    goSpec "example.com/m v1.2.3 \t".toList = some ("example.com/m".toList, "example.com/m ".toList, "v1.2.3".toList) ∧
    goSpec "example.com/m v1.2.3 // indirect".toList = some ("example.com/m".toList, "example.com/m ".toList, "v1.2.3".toList) ∧
    goSpec "example.com/m v1.2.3 x".toList = none := by
  refine ⟨?_, ?_, ?_⟩ <;> decide

/-! ### workflows -/

/-- **local and docker actions are never checked**: a `uses:` value without `@` yields nothing -/
theorem c04_gha_no_ref_never (content value : Text) (node : Node) (h : ∀ x ∈ value, (x == '@') = false) :
    ghaUses content value node = none := by
  simp [ghaUses, ghaUsesRepo, Sites.usesSplit, findChar_none _ value h]

/-- **a local action is never checked**, whatever follows the leading `.` (`./.github/actions/x@v1`: the `@` is part of a
    directory name) -/
theorem c04_gha_local_never (content rest : Text) (node : Node) : ghaUses content ('.' :: rest) node = none := by
  have : notRepository ('.' :: rest) = true := by
    unfold notRepository startsWith
    have : stripPrefix ['.'] ('.' :: rest) = some rest := stripPrefix_append ['.'] rest
    rw [this]; rfl
  unfold ghaUses
  rw [this]; rfl

/-- **a container image is never checked**, whatever follows `docker://` (`docker://alpine@sha256:…`: the `@` introduces
    the image digest) -/
theorem c04_gha_docker_never (content rest : Text) (node : Node) : ghaUses content ("docker://".toList ++ rest) node = none := by
  have : notRepository ("docker://".toList ++ rest) = true := by
    unfold notRepository startsWith
    rw [stripPrefix_append]
    simp
  unfold ghaUses
  rw [this]; rfl

/-- a value with a single path component before `@` (no owner/repo) yields nothing -/
theorem c04_gha_needs_owner_repo : Sites.usesSplit "checkout@v4".toList = some none := by decide

/-- owner/repo naming, sub-directories dropped; the ref is the text after the FIRST `@` -/
theorem c04_gha_owner_repo_example :
    Sites.usesSplit "actions/aws/ec2@v1".toList = some (some ("actions".toList, "aws".toList, "v1".toList)) := by decide

/-! ### pyproject.toml -/

/-- **PEP 508 URL requirements are never checked** (and neither is anything the PEP 508 library rejects) -/
theorem c04_py_url_never (pep : Text → Pep) (content : Text) (s : Node)
    (h : pep (pyUnquote (nodeText content s)) = .url ∨ pep (pyUnquote (nodeText content s)) = .bad) :
    pyDependency pep content s = none := by
  unfold pyDependency
  rcases h with h | h <;> simp [h]

end Vlsp.C04
