/-
  C04, layout, Cargo.toml: what the Cargo.toml parser reports depends on the syntax tree ONLY through an abstract
  reading of it — tables by their header text, pairs by the sequence of their keys and values (keys by their text,
  strings by their unquoted text and whether both quotes are there, inline tables by their pairs) — byte positions,
  white space, `=`, commas, comments and any other nodes do not enter.  Two documents whose trees read as the same
  abstract TOML therefore yield the same list of (crate, requirement), whatever their layout.
-/
import Vlsp.Props.C04Layout

namespace Vlsp.C04
open Vlsp Vlsp.Text Vlsp.Slice Vlsp.Cst Vlsp.Parsers

/-- a child of a pair inside an inline table (or of a pair of a table read like one) -/
inductive ALeaf where
  | key (t : Text)
  | str (text : Text) (closed : Bool)
  | other
deriving DecidableEq

/-- a child of a pair of a dependency table -/
inductive ATok where
  | key (t : Text)
  | dotted (t : Text)
  | str (text : Text) (closed : Bool)
  | inline (pairs : List (List ALeaf))
  | other

structure ATable where
  name : Option Text
  pairs : List (List ATok)          -- the `pair` children, read as entries of a dependency table
  leafPairs : List (List ALeaf)     -- the same pairs, read as the pairs of an inline table (a `[dependencies.x]` table)

def absLeafT (content : Text) (n : Node) : ALeaf :=
  if n.kind == "bare_key" then .key (nodeText content n)
  else if n.kind == "string" then .str (unquoteToml (nodeText content n)) (closedString (nodeText content n))
  else .other

def absPairsT (content : Text) (tbl : Node) : List (List ALeaf) :=
  (tbl.children.filter (·.kind == "pair")).map fun p => p.children.map (absLeafT content)

def absTok (content : Text) (n : Node) : ATok :=
  if n.kind == "bare_key" then .key (nodeText content n)
  else if n.kind == "dotted_key" then .dotted (nodeText content n)
  else if n.kind == "string" then .str (unquoteToml (nodeText content n)) (closedString (nodeText content n))
  else if n.kind == "inline_table" then .inline (absPairsT content n)
  else .other

def absTable (content : Text) (t : Node) : ATable :=
  ⟨tableName content t, (t.children.filter (·.kind == "pair")).map (fun p => p.children.map (absTok content)), absPairsT content t⟩

/-- the abstract reading of a Cargo.toml: its top-level tables -/
def absToml (content : Text) (tree : Node) : List ATable := (tree.children.filter (·.kind == "table")).map (absTable content)

/-! ### the declared crates, defined on the abstract reading only -/

def aSkip (pairs : List (List ALeaf)) : Bool :=
  pairs.any fun p => p.any fun l => match l with | .key t => strIn Generated.skipKeys t | _ => false

def aPairVersion : List ALeaf → Bool → Option Text
  | [], _ => none
  | .key t :: rest, _ => aPairVersion rest (t == "version".toList)
  | .str v closed :: rest, isVer => if isVer && closed then some v else aPairVersion rest isVer
  | .other :: rest, isVer => aPairVersion rest isVer

def aInlineVersion (pairs : List (List ALeaf)) : Option Text :=
  if aSkip pairs then none else pairs.findSome? fun p => aPairVersion p false

def aPairPackage : List ALeaf → Bool → Option Text
  | [], _ => none
  | .key t :: rest, _ => aPairPackage rest (t == "package".toList)
  | .str v closed :: rest, isPkg => if isPkg && closed then some v else aPairPackage rest isPkg
  | .other :: rest, isPkg => aPairPackage rest isPkg

def aInlinePackage (pairs : List (List ALeaf)) : Option Text := pairs.findSome? fun p => aPairPackage p false

structure AState where
  name : Option Text := none
  ver : Option Text := none
  dotted : Bool := false
  suffix : Option Text := none

def aStep (st : AState) : ATok → AState
  | .key t => { st with name := some t }
  | .dotted t =>
    match splitOnceChar '.' t with
    | some (pkg, suf) => { st with dotted := true, name := some pkg, suffix := some suf }
    | none => { st with dotted := true }
  | .str v closed =>
    if !closed then st
    else if st.dotted then (if st.suffix == some "version".toList then { st with ver := some v } else st)
    else { st with ver := some v }
  | .inline pairs =>
    { st with ver := aInlineVersion pairs, name := match aInlinePackage pairs with | some real => some real | none => st.name }
  | .other => st

def aPair (toks : List ATok) : Option (Text × Text) :=
  let st := toks.foldl aStep {}
  match st.name, st.ver with
  | some n, some v => some (n, v)
  | _, _ => none

def aSubtable (dep : Text) (pairs : List (List ALeaf)) : List (Text × Text) :=
  match aInlineVersion pairs with
  | none => []
  | some v => [(match aInlinePackage pairs with | some real => real | none => dep, v)]

def aTable (t : ATable) : List (Text × Text) :=
  match t.name with
  | none => []
  | some name =>
    if cargoIsDepTable name then t.pairs.filterMap aPair
    else match rsplitOnceChar '.' name with
      | some (parent, dep) => if cargoIsDepTable parent then aSubtable dep t.leafPairs else []
      | none => []

/-- what Cargo.toml declares, as a function of its abstract reading -/
def declaredCargo (doc : List ATable) : List (Text × Text) := doc.flatMap aTable

/-! ### the parser computes exactly that -/

theorem skip_abs (content : Text) (tbl : Node) : cargoSkipInline content tbl = aSkip (absPairsT content tbl) := by
  unfold cargoSkipInline aSkip absPairsT
  induction tbl.children with
  | nil => rfl
  | cons c cs ih =>
    simp only [List.any_cons, List.filter_cons]
    by_cases hk : c.kind = "pair"
    · have hf : (c.kind == "pair") = true := by simp [hk]
      simp only [hf, Bool.true_and, if_true, List.map_cons, List.any_cons, ih]
      congr 1
      induction c.children with
      | nil => rfl
      | cons pc ps ihp =>
        simp only [List.any_cons, List.map_cons, ihp]
        congr 1
        unfold absLeafT
        by_cases hb : pc.kind = "bare_key"
        · simp [hb]
        · have hb' : (pc.kind == "bare_key") = false := by simpa using hb
          simp only [hb', Bool.false_and, Bool.false_eq_true, if_false]
          by_cases hs : pc.kind = "string"
          · simp [hs]
          · have hs' : (pc.kind == "string") = false := by simpa using hs
            simp [hs']
    · have hf : (c.kind == "pair") = false := by simpa using hk
      simp only [hf, Bool.false_and, Bool.false_or, Bool.false_eq_true, if_false, ih]

theorem pairVersion_abs (content : Text) (cs : List Node) (isVer : Bool) :
    (inlinePairVersion content cs isVer).map (·.1) = aPairVersion (cs.map (absLeafT content)) isVer := by
  induction cs generalizing isVer with
  | nil => rfl
  | cons pc rest ih =>
    unfold inlinePairVersion
    simp only [List.map_cons]
    unfold absLeafT
    by_cases hb : pc.kind = "bare_key"
    · simp only [hb, beq_self_eq_true, if_true, aPairVersion]; exact ih _
    · have hb' : (pc.kind == "bare_key") = false := by simpa using hb
      simp only [hb', Bool.false_eq_true, if_false]
      by_cases hs : pc.kind = "string"
      · have hs' : (pc.kind == "string") = true := by simp [hs]
        simp only [hs', Bool.true_and, if_true, aPairVersion]
        cases hc : (isVer && closedString (nodeText content pc)) with
        | true => simp [stringVer]
        | false => simp only [Bool.false_eq_true, if_false]; exact ih _
      · have hs' : (pc.kind == "string") = false := by simpa using hs
        simp only [hs', Bool.false_and, Bool.false_eq_true, if_false, aPairVersion]; exact ih _

theorem pairPackage_abs (content : Text) (cs : List Node) (isPkg : Bool) :
    inlinePairPackage content cs isPkg = aPairPackage (cs.map (absLeafT content)) isPkg := by
  induction cs generalizing isPkg with
  | nil => rfl
  | cons pc rest ih =>
    unfold inlinePairPackage
    simp only [List.map_cons]
    unfold absLeafT
    by_cases hb : pc.kind = "bare_key"
    · simp only [hb, beq_self_eq_true, if_true, aPairPackage]; exact ih _
    · have hb' : (pc.kind == "bare_key") = false := by simpa using hb
      simp only [hb', Bool.false_eq_true, if_false]
      by_cases hs : pc.kind = "string"
      · have hs' : (pc.kind == "string") = true := by simp [hs]
        simp only [hs', Bool.true_and, if_true, aPairPackage]
        cases hc : (isPkg && closedString (nodeText content pc)) with
        | true => simp
        | false => simp only [Bool.false_eq_true, if_false]; exact ih _
      · have hs' : (pc.kind == "string") = false := by simpa using hs
        simp only [hs', Bool.false_and, Bool.false_eq_true, if_false, aPairPackage]; exact ih _

theorem findSome_map_congr {α β γ} (l : List α) (f : α → Option β) (g : α → Option γ) (h : β → γ)
    (hfg : ∀ a, (f a).map h = g a) : (l.findSome? f).map h = l.findSome? g := by
  induction l with
  | nil => rfl
  | cons a as ih =>
    simp only [List.findSome?_cons]
    have := hfg a
    cases hf : f a with
    | none => rw [hf] at this; simp only [Option.map_none] at this; rw [← this]; exact ih
    | some b => rw [hf] at this; simp only [Option.map_some] at this; rw [← this]; rfl

theorem inlineVersion_abs (content : Text) (tbl : Node) :
    (cargoInlineVersion content tbl).map (·.1) = aInlineVersion (absPairsT content tbl) := by
  unfold cargoInlineVersion aInlineVersion
  rw [skip_abs]
  split
  · rfl
  · unfold absPairsT
    rw [List.findSome?_map]
    exact findSome_map_congr _ _ _ _ (fun child => pairVersion_abs content child.children false)

theorem inlinePackage_abs (content : Text) (tbl : Node) :
    cargoInlinePackage content tbl = aInlinePackage (absPairsT content tbl) := by
  unfold cargoInlinePackage aInlinePackage absPairsT
  rw [List.findSome?_map]
  congr 1
  funext child
  exact pairPackage_abs content child.children false

/-- the two loop states agree up to the positions of the version -/
def SameState (s : PairState) (a : AState) : Prop :=
  s.name = a.name ∧ s.ver.map (·.1) = a.ver ∧ s.dotted = a.dotted ∧ s.suffix = a.suffix

theorem step_abs (content : Text) (s : PairState) (a : AState) (child : Node) (h : SameState s a) :
    SameState (cargoPairStep content s child) (aStep a (absTok content child)) := by
  obtain ⟨hn, hv, hd, hs⟩ := h
  unfold cargoPairStep absTok
  by_cases h1 : child.kind = "bare_key"
  · simp only [h1, beq_self_eq_true, if_true, aStep]; exact ⟨rfl, hv, hd, hs⟩
  · have h1' : (child.kind == "bare_key") = false := by simpa using h1
    simp only [h1', Bool.false_eq_true, if_false]
    by_cases h2 : child.kind = "dotted_key"
    · simp only [h2, beq_self_eq_true, if_true, aStep]
      cases splitOnceChar '.' (nodeText content child) with
      | none => exact ⟨hn, hv, rfl, hs⟩
      | some ps => obtain ⟨pkg, suf⟩ := ps; exact ⟨rfl, hv, rfl, rfl⟩
    · have h2' : (child.kind == "dotted_key") = false := by simpa using h2
      simp only [h2', Bool.false_eq_true, if_false]
      by_cases h3 : child.kind = "string"
      · simp only [h3, beq_self_eq_true, if_true, aStep]
        cases hc : closedString (nodeText content child) with
        | false => simp only [Bool.not_false, if_true]; exact ⟨hn, hv, hd, hs⟩
        | true =>
          simp only [Bool.not_true, Bool.false_eq_true, if_false]
          cases hdv : s.dotted with
          | false =>
            have ha : a.dotted = false := by rw [← hd, hdv]
            simp only [ha, Bool.false_eq_true, if_false]
            exact ⟨hn, rfl, by simp [hdv, ha], hs⟩
          | true =>
            have ha : a.dotted = true := by rw [← hd, hdv]
            simp only [ha, if_true, ← hs]
            split
            · exact ⟨hn, rfl, by simp [hdv, ha], rfl⟩
            · exact ⟨hn, hv, by simp [hdv, ha], hs⟩
      · have h3' : (child.kind == "string") = false := by simpa using h3
        simp only [h3', Bool.false_eq_true, if_false]
        by_cases h4 : child.kind = "inline_table"
        · simp only [h4, beq_self_eq_true, if_true, aStep]
          refine ⟨?_, inlineVersion_abs content child, hd, hs⟩
          show (match cargoInlinePackage content child with | some real => some real | none => s.name) =
               (match aInlinePackage (absPairsT content child) with | some real => some real | none => a.name)
          rw [inlinePackage_abs, hn]
        · have h4' : (child.kind == "inline_table") = false := by simpa using h4
          simp only [h4', Bool.false_eq_true, if_false, aStep]
          exact ⟨hn, hv, hd, hs⟩

theorem foldl_abs (content : Text) (cs : List Node) (s : PairState) (a : AState) (h : SameState s a) :
    SameState (cs.foldl (cargoPairStep content) s) ((cs.map (absTok content)).foldl aStep a) := by
  induction cs generalizing s a with
  | nil => exact h
  | cons c rest ih => simp only [List.foldl_cons, List.map_cons]; exact ih _ _ (step_abs content s a c h)

theorem cargoPair_abs (content : Text) (pair : Node) :
    (cargoPair content pair).map triple = aPair (pair.children.map (absTok content)) := by
  unfold cargoPair aPair
  have h := foldl_abs content pair.children {} {} ⟨rfl, rfl, rfl, rfl⟩
  obtain ⟨hn, hv, _, _⟩ := h
  simp only
  rw [← hn, ← hv]
  cases (List.foldl (cargoPairStep content) {} pair.children).name with
  | none => rfl
  | some n =>
    cases (List.foldl (cargoPairStep content) {} pair.children).ver with
    | none => rfl
    | some vi => obtain ⟨v, s, e, l, c⟩ := vi; rfl

theorem subtable_abs (content : Text) (dep : Text) (table : Node) :
    (cargoSubtable content dep table).map triple = aSubtable dep (absPairsT content table) := by
  unfold cargoSubtable aSubtable
  rw [← inlineVersion_abs, ← inlinePackage_abs]
  cases cargoInlineVersion content table with
  | none => rfl
  | some vi => obtain ⟨v, s, e, l, c⟩ := vi; rfl

theorem filterMap_map_triple (content : Text) (ps : List Node) :
    (ps.filterMap (cargoPair content)).map triple = (ps.map fun p => p.children.map (absTok content)).filterMap aPair := by
  induction ps with
  | nil => rfl
  | cons p rest ih =>
    simp only [List.filterMap_cons, List.map_cons]
    have := cargoPair_abs content p
    cases hp : cargoPair content p with
    | none => rw [hp] at this; simp only [Option.map_none] at this; rw [← this]; exact ih
    | some q => rw [hp] at this; simp only [Option.map_some] at this; rw [← this]; simp only [List.map_cons, ih]

theorem cargoTable_abs (content : Text) (table : Node) :
    (cargoTable content table).map triple = aTable (absTable content table) := by
  unfold cargoTable aTable absTable
  simp only
  cases tableName content table with
  | none => rfl
  | some name =>
    simp only
    split
    · exact filterMap_map_triple content _
    · cases rsplitOnceChar '.' name with
      | none => rfl
      | some pd =>
        obtain ⟨parent, dep⟩ := pd
        simp only
        split
        · exact subtable_abs content dep table
        · rfl

/-- **the Cargo.toml parser computes the declared crates of the abstract reading** -/
theorem c04_cargo_abstract (content : Text) (tree : Node) :
    (cargoToml content tree).map triple = declaredCargo (absToml content tree) := by
  unfold cargoToml declaredCargo absToml
  induction tree.children.filter (·.kind == "table") with
  | nil => rfl
  | cons t rest ih =>
    simp only [List.flatMap_cons, List.map_append, List.map_cons, cargoTable_abs, ih]

/-! ### nodes that are neither keys nor values (`=`, commas, comments) do not matter either -/

def ALeaf.isOther : ALeaf → Bool
  | .other => true
  | _ => false

def ATok.isOther : ATok → Bool
  | .other => true
  | _ => false

def normLeafs (l : List ALeaf) : List ALeaf := l.filter (!·.isOther)

def normTok : ATok → ATok
  | .inline ps => .inline (ps.map normLeafs)
  | t => t

def normToks (l : List ATok) : List ATok := (l.filter (!·.isOther)).map normTok

def normTable (t : ATable) : ATable := ⟨t.name, t.pairs.map normToks, t.leafPairs.map normLeafs⟩

/-- the abstract reading with everything but keys and values dropped -/
def normToml (doc : List ATable) : List ATable := doc.map normTable

theorem pairVersion_norm (l : List ALeaf) (b : Bool) : aPairVersion (normLeafs l) b = aPairVersion l b := by
  induction l generalizing b with
  | nil => rfl
  | cons x xs ih =>
    cases x with
    | key t => simp only [normLeafs, List.filter_cons, ALeaf.isOther, Bool.not_false, if_true, aPairVersion]; exact ih _
    | str v c =>
      simp only [normLeafs, List.filter_cons, ALeaf.isOther, Bool.not_false, if_true, aPairVersion]
      split
      · rfl
      · exact ih _
    | other => simp only [normLeafs, List.filter_cons, ALeaf.isOther, Bool.not_true, Bool.false_eq_true, if_false, aPairVersion]; exact ih _

theorem pairPackage_norm (l : List ALeaf) (b : Bool) : aPairPackage (normLeafs l) b = aPairPackage l b := by
  induction l generalizing b with
  | nil => rfl
  | cons x xs ih =>
    cases x with
    | key t => simp only [normLeafs, List.filter_cons, ALeaf.isOther, Bool.not_false, if_true, aPairPackage]; exact ih _
    | str v c =>
      simp only [normLeafs, List.filter_cons, ALeaf.isOther, Bool.not_false, if_true, aPairPackage]
      split
      · rfl
      · exact ih _
    | other => simp only [normLeafs, List.filter_cons, ALeaf.isOther, Bool.not_true, Bool.false_eq_true, if_false, aPairPackage]; exact ih _

theorem skipLeaf_norm (l : List ALeaf) :
    ((normLeafs l).any fun x => match x with | .key t => strIn Generated.skipKeys t | _ => false) =
    (l.any fun x => match x with | .key t => strIn Generated.skipKeys t | _ => false) := by
  induction l with
  | nil => rfl
  | cons x xs ih =>
    cases x with
    | key t => simp only [normLeafs, List.filter_cons, ALeaf.isOther, Bool.not_false, if_true, List.any_cons]; rw [← ih]; rfl
    | str v c => simp only [normLeafs, List.filter_cons, ALeaf.isOther, Bool.not_false, if_true, List.any_cons]; rw [← ih]; rfl
    | other => simp only [normLeafs, List.filter_cons, ALeaf.isOther, Bool.not_true, Bool.false_eq_true, if_false, List.any_cons, Bool.false_or]; exact ih

theorem skip_norm (ps : List (List ALeaf)) : aSkip (ps.map normLeafs) = aSkip ps := by
  unfold aSkip
  induction ps with
  | nil => rfl
  | cons p rest ih => simp only [List.map_cons, List.any_cons, skipLeaf_norm, ih]

theorem inlineVersion_norm (ps : List (List ALeaf)) : aInlineVersion (ps.map normLeafs) = aInlineVersion ps := by
  unfold aInlineVersion
  rw [skip_norm, List.findSome?_map]
  congr 2
  funext p
  exact pairVersion_norm p false

theorem inlinePackage_norm (ps : List (List ALeaf)) : aInlinePackage (ps.map normLeafs) = aInlinePackage ps := by
  unfold aInlinePackage
  rw [List.findSome?_map]
  congr 1
  funext p
  exact pairPackage_norm p false

theorem step_norm (st : AState) (t : ATok) : aStep st (normTok t) = aStep st t := by
  cases t <;> simp only [normTok, aStep, inlineVersion_norm, inlinePackage_norm]

theorem foldl_norm (l : List ATok) (st : AState) : (normToks l).foldl aStep st = l.foldl aStep st := by
  induction l generalizing st with
  | nil => rfl
  | cons t ts ih =>
    cases ho : t.isOther with
    | true =>
      have : t = .other := by cases t <;> simp_all [ATok.isOther]
      subst this
      simp only [normToks, List.filter_cons, ATok.isOther, Bool.not_true, Bool.false_eq_true, if_false, List.foldl_cons, aStep]
      exact ih st
    | false =>
      simp only [normToks, List.filter_cons, ho, Bool.not_false, if_true, List.map_cons, List.foldl_cons, step_norm]
      exact ih _

theorem pair_norm (l : List ATok) : aPair (normToks l) = aPair l := by
  unfold aPair; rw [foldl_norm]

theorem table_norm (t : ATable) : aTable (normTable t) = aTable t := by
  unfold aTable normTable
  simp only
  cases t.name with
  | none => rfl
  | some name =>
    simp only
    split
    · rw [List.filterMap_map]
      congr 1
      funext p
      exact pair_norm p
    · cases rsplitOnceChar '.' name with
      | none => rfl
      | some pd =>
        obtain ⟨parent, dep⟩ := pd
        simp only
        split
        · unfold aSubtable; rw [inlineVersion_norm, inlinePackage_norm]
        · rfl

theorem declared_norm (doc : List ATable) : declaredCargo (normToml doc) = declaredCargo doc := by
  unfold declaredCargo normToml
  induction doc with
  | nil => rfl
  | cons t rest ih => simp only [List.map_cons, List.flatMap_cons, table_norm, ih]

/-- **layout invariance for Cargo.toml**: two documents (any texts, any trees) whose abstract readings agree on keys
    and values — whatever white space, `=` spacing, commas, comments and line endings they have — declare the same
    crates with the same requirements, in the same order -/
theorem c04_cargo_layout_invariant_norm (c1 c2 : Text) (t1 t2 : Node)
    (h : normToml (absToml c1 t1) = normToml (absToml c2 t2)) :
    (cargoToml c1 t1).map triple = (cargoToml c2 t2).map triple := by
  rw [c04_cargo_abstract, c04_cargo_abstract, ← declared_norm, h, declared_norm]

/-- **layout invariance for Cargo.toml** (same abstract reading, every node kept): two documents (any texts, any trees) with the same abstract reading declare
    the same crates with the same requirements, in the same order -/
theorem c04_cargo_layout_invariant (c1 c2 : Text) (t1 t2 : Node) (h : absToml c1 t1 = absToml c2 t2) :
    (cargoToml c1 t1).map triple = (cargoToml c2 t2).map triple := by
  rw [c04_cargo_abstract, c04_cargo_abstract, h]

end Vlsp.C04
