/-
  C18 — an unusable cache disables checking; it never crashes or misinforms.
  Models: Vlsp.Server (store = false branch, failing reads), Vlsp.DataDir (src/config.rs), Vlsp.Migrate (C12).
-/
import Vlsp.Model.Server
import Vlsp.Model.DataDir
import Vlsp.Props.C13

namespace Vlsp.C18
open Vlsp Vlsp.Text Vlsp.Server Vlsp.Checker

/-- every request a client can send, for the no-store run -/
inductive Req
  | edit (uri : Text) (pkgs : List PkgInfo)
  | close (uri : Text)
  | action (uri : Text) (line ch : Nat)
  | reply (reg name : Text) (o : Fetch.Outcome)
  | refresh (reg : Text)

/-- what one request makes the server send: notifications and, for codeAction, the reply -/
def step (s : Srv) : Req → Srv × List Msg × Option (Option (List Action))
  | .edit uri pkgs => let r := Server.edit s uri pkgs; (r.1, r.2, none)
  | .close uri => (Server.close s uri, [], none)
  | .action uri l c => (s, [], some (Server.codeAction s uri l c))
  | .reply reg name o => let r := Server.reply s reg name o; (r.1, r.2, none)
  | .refresh reg => (Server.startRefresh s reg, [], none)

def run (s : Srv) : List Req → Srv × List Msg × List (Option (List Action))
  | [] => (s, [], [])
  | r :: rs =>
    let (s1, m1, a1) := step s r
    let (s2, m2, a2) := run s1 rs
    (s2, m1 ++ m2, a1.toList ++ a2)

def isPub : Msg → Bool | .pub _ _ => true | _ => false

def warning : Msg := .show "warning" "Cache not available, version checking disabled".toList

/-- the no-store invariant: no store, no task, no cache content touched -/
def NoStore (s : Srv) : Prop := s.store = false ∧ s.tasks = []

theorem edit_no_store (s : Srv) (uri : Text) (pkgs : List PkgInfo) (h : NoStore s) :
    NoStore (Server.edit s uri pkgs).1 ∧ (Server.edit s uri pkgs).1.db = s.db ∧
    (∀ m ∈ (Server.edit s uri pkgs).2, m = warning) := by
  obtain ⟨hs, ht⟩ := h
  have hns : (!s.store) = true := by rw [hs]; rfl
  unfold Server.edit checkAndPublish cacheDocument NoStore
  cases hd : Detect.detect uri with
  | none => exact ⟨⟨hs, ht⟩, by first | rfl | trivial, by simp⟩
  | some reg =>
    cases hdis : s.cfg.disabled.contains reg.toList with
    | true => simp only [hdis, if_true]; exact ⟨⟨hs, ht⟩, by first | rfl | trivial, by simp⟩
    | false =>
      simp only [hdis, hns, Bool.false_eq_true, if_false, if_true]
      exact ⟨⟨hs, ht⟩, by first | rfl | trivial, by simp [warning]⟩

/-- **the user is told**: editing a supported, enabled document when there is no cache shows the warning
    (and nothing else) -/
theorem c18_tells_user (s : Srv) (uri : Text) (pkgs : List PkgInfo) (reg : String) (hs : s.store = false)
    (hd : Detect.detect uri = some reg) (he : s.cfg.disabled.contains reg.toList = false) :
    (Server.edit s uri pkgs).2 = [warning] := by
  have hns : (!s.store) = true := by rw [hs]; rfl
  simp only [Server.edit, checkAndPublish, cacheDocument, hd, he, hns, Bool.false_eq_true, if_false, if_true, warning]

theorem step_no_store (s : Srv) (r : Req) (h : NoStore s) :
    NoStore (step s r).1 ∧ (step s r).1.db = s.db ∧ (∀ m ∈ (step s r).2.1, m = warning) ∧
    (∀ a ∈ (step s r).2.2, a = none) := by
  cases r with
  | edit uri pkgs =>
    have := edit_no_store s uri pkgs h
    simp only [step]; exact ⟨this.1, this.2.1, this.2.2, by simp⟩
  | close uri => exact ⟨⟨h.1, h.2⟩, rfl, by simp [step], by simp [step]⟩
  | action uri l c =>
    refine ⟨h, rfl, by simp [step], ?_⟩
    intro a ha
    simp only [step, Option.mem_def, Option.some.injEq] at ha
    subst ha
    unfold Server.codeAction
    cases hd : Detect.detect uri with
    | none => rfl
    | some reg =>
      have hns : (!s.store) = true := by rw [h.1]; rfl
      cases hdis : s.cfg.disabled.contains reg.toList with
      | true => simp only [hdis, if_true]
      | false => simp only [hdis, hns, Bool.false_eq_true, if_false, if_true]
  | reply reg name o =>
    have : Server.reply s reg name o = (s, []) := by simp [Server.reply, h.2]
    simp only [step, this]; exact ⟨h, trivial, by simp, by simp⟩
  | refresh reg =>
    have : Server.startRefresh s reg = s := by simp [Server.startRefresh, h.1]
    simp only [step, this]; exact ⟨h, trivial, by simp, by simp⟩

/-- **no cache ⇒ checking is off, for the whole session**: whatever requests arrive, in whatever order, a
    server without a store publishes no diagnostics at all (only the warning), answers every codeAction with
    `null`, starts no fetch, and never touches cache content -/
theorem c18_no_store (s : Srv) (rs : List Req) (h : NoStore s) :
    NoStore (run s rs).1 ∧ (run s rs).1.db = s.db ∧ (∀ m ∈ (run s rs).2.1, m = warning) ∧
    (∀ a ∈ (run s rs).2.2, a = none) := by
  induction rs generalizing s with
  | nil => exact ⟨h, rfl, by simp [run], by simp [run]⟩
  | cons r rs ih =>
    obtain ⟨h1, hdb, hm, ha⟩ := step_no_store s r h
    obtain ⟨h2, hdb2, hm2, ha2⟩ := ih (step s r).1 h1
    simp only [run]
    refine ⟨h2, hdb2.trans hdb, ?_, ?_⟩
    · intro m hmem
      rcases List.mem_append.mp hmem with h' | h'
      · exact hm m h'
      · exact hm2 m h'
    · intro a hmem
      rcases List.mem_append.mp hmem with h' | h'
      · exact ha a (by simpa using h')
      · exact ha2 a h'

theorem c18_no_store_never_publishes (s : Srv) (rs : List Req) (h : NoStore s) :
    ∀ m ∈ (run s rs).2.1, isPub m = false := by
  intro m hm
  rw [(c18_no_store s rs h).2.2.1 m hm]; rfl

/-- the number of answers equals the number of codeAction requests: every request is answered (the model is
    total; the absence of panics in the real handlers is C06) -/
theorem c18_every_action_answered (s : Srv) (rs : List Req) :
    (run s rs).2.2.length = (rs.filter fun r => match r with | .action .. => true | _ => false).length := by
  induction rs generalizing s with
  | nil => rfl
  | cons r rs ih =>
    cases r <;> simp [run, step, ih]

/-! ### a store that starts failing after start-up: diagnostics are backed by data actually read -/

/-- reads `r` are those of `r0` except that some of them failed -/
def Degraded (r r0 : Reads) : Prop :=
  (r.latest = none ∨ r.latest = r0.latest) ∧ (∀ t, r.tag t = none ∨ r.tag t = r0.tag t) ∧
  (r.versions = none ∨ r.versions = r0.versions)

/-- **failing reads never misinform**: whatever diagnostic is computed when some reads fail is exactly the
    diagnostic the same dependency gets when every read succeeds — a failure can only remove diagnostics -/
theorem c18_failures_only_drop (m : Matcher) (r r0 : Reads) (cur : Text) (h : Degraded r r0)
    (d : Severity × Text) (hd : diagFor m r cur = some d) : diagFor m r0 cur = some d := by
  obtain ⟨hl, ht, hv⟩ := h
  unfold diagFor compareVersion at hd ⊢
  rcases hl with hl | hl
  · simp [hl] at hd
  · rw [← hl]
    cases hlat : r.latest with
    | none => simp [hlat] at hd
    | some lo =>
      cases lo with
      | none => simpa [hlat] using hd
      | some L =>
        rcases ht cur with ht | ht
        · simp [hlat, ht] at hd
        · rw [← ht]
          cases htag : r.tag cur with
          | none => simp [hlat, htag] at hd
          | some tagRes =>
            rcases hv with hv | hv
            · -- versions failed: a diagnostic can only come from the branch that does not read them
              cases tagRes with
              | some rv => simp [hlat, htag, hv] at hd
              | none =>
                by_cases hk : isPotentialDistTag cur = true
                · simpa [hlat, htag, hk] using hd
                · have hk' : isPotentialDistTag cur = false := by simpa using hk
                  simp [hlat, htag, hv, hk'] at hd
            · rw [← hv]; simpa [hlat, htag] using hd

theorem healthy_never_fails (s : Srv) (n : Text) (c : Char) : failing { s with faults := [] } n c = false := by
  simp [failing]

theorem readsOf_degraded (s : Srv) (k : Key) : Degraded (readsOf s k) (readsOf { s with faults := [] } k) := by
  refine ⟨?_, ?_, ?_⟩
  · cases h : failing s k.name 'L' with
    | true => left; simp only [readsOf, h, if_true]
    | false => right; simp only [readsOf, h, healthy_never_fails, Bool.false_eq_true, if_false]
  · intro t
    cases h : failing s k.name 'T' with
    | true => left; simp only [readsOf, h, if_true]
    | false => right; simp only [readsOf, h, healthy_never_fails, Bool.false_eq_true, if_false]
  · cases h : failing s k.name 'V' with
    | true => left; simp only [readsOf, h, if_true]
    | false => right; simp only [readsOf, h, healthy_never_fails, Bool.false_eq_true, if_false]

/-- **every published diagnostic is backed by the cache**: with any set of failing reads, each diagnostic
    the server computes for a document is one the healthy server computes from the same cache content -/
theorem c18_backed_by_reads (s : Srv) (reg : String) (pkgs : List PkgInfo) (d : Diag)
    (h : d ∈ diagnose s reg pkgs) : d ∈ diagnose { s with faults := [] } reg pkgs := by
  unfold diagnose at h ⊢
  cases hm : matcherOf reg with
  | none => simp [hm] at h
  | some m =>
    simp only [hm, List.mem_filterMap] at h ⊢
    obtain ⟨p, hp, hd⟩ := h
    refine ⟨p, hp, ?_⟩
    cases hdf : diagFor m (readsOf s ⟨reg.toList, p.name⟩) p.version with
    | none => simp [hdf] at hd
    | some sm =>
      have := c18_failures_only_drop m _ _ p.version (readsOf_degraded s ⟨reg.toList, p.name⟩) sm hdf
      rw [this]; rw [hdf] at hd; exact hd

/-- a dependency whose "latest" read fails gets no diagnostic at all -/
theorem c18_failed_latest_is_silent (s : Srv) (reg : String) (p : PkgInfo) (m : Matcher)
    (hf : failing s p.name 'L' = true) : diagFor m (readsOf s ⟨reg.toList, p.name⟩) p.version = none := by
  simp [diagFor, compareVersion, readsOf, hf]

/-- failing `get_versions` means no code action is offered -/
theorem c18_failed_versions_no_action (s : Srv) (uri : Text) (l c : Nat)
    (hf : failing s ['*'] 'V' = true) : Server.codeAction s uri l c = none := by
  have hall : ∀ n, failing s n 'V' = true := by
    intro n; simp only [failing, Bool.or_eq_true] at hf ⊢; right; rcases hf with h | h <;> exact h
  unfold Server.codeAction
  cases Detect.detect uri with
  | none => rfl
  | some reg =>
    simp only
    split
    · rfl
    · split
      · rfl
      · split
        · rfl
        · split
          · rfl
          · split
            · rfl
            · simp [readsOf, hall, Bump.bumpActions]

/-! ### the data-directory rule -/
open DataDir

/-- `$XDG_DATA_HOME` wins, whatever the home directory is -/
theorem c18_datadir_xdg (x : Text) (home : Option Text) : dataDir (some x) home = join x "version-lsp".toList := rfl

/-- otherwise `~/.local/share/version-lsp` -/
theorem c18_datadir_home (h : Text) :
    dataDir none (some h) = join (join h ".local/share".toList) "version-lsp".toList := rfl

/-- otherwise `./version-lsp` -/
theorem c18_datadir_cwd : dataDir none none = "./version-lsp".toList := by decide

/-- for an absolute, slash-free-ended `$XDG_DATA_HOME` the database is `<xdg>/version-lsp/versions.db` -/
theorem c18_db_path (x : Text) (hne : x ≠ []) (hs : x.getLast? ≠ some '/') (home : Option Text) :
    dbPath (some x) home = x ++ "/version-lsp/versions.db".toList := by
  have hx : x.isEmpty = false := by cases x <;> simp_all
  have h1 : dataDir (some x) home = x ++ "/version-lsp".toList := by
    simp [dataDir, join, hx, hs]
  have h2 : (x ++ "/version-lsp".toList).isEmpty = false := by cases x <;> simp_all
  have h3 : (x ++ "/version-lsp".toList).getLast? = some 'p' := by
    have : "/version-lsp".toList = "/version-ls".toList ++ ['p'] := by decide
    rw [this, ← List.append_assoc, List.getLast?_append]; simp
  simp only [dbPath, h1, join, h2, h3]
  have : "/version-lsp/versions.db".toList = "/version-lsp".toList ++ '/' :: "versions.db".toList := by decide
  rw [this]; simp

/-- an empty `$XDG_DATA_HOME` is taken literally: the data directory becomes the RELATIVE path `version-lsp`
    (the XDG specification says an empty value means "unset"; the documented rule does not say) -/
theorem c18_datadir_empty_xdg (home : Option Text) : dataDir (some []) home = "version-lsp".toList := by
  simp [dataDir, join]

/-- non-vacuity: a no-store server that sees an edit of a package.json warns, publishes nothing and offers nothing -/
example :
    let s : Srv := { store := false }
    let r := run s [.edit C13.uriA [C13.lodash "4.17.20"], .action C13.uriA 2 16, .refresh "npm".toList]
    r.2.1 = [warning] ∧ r.2.2 = [none] := by decide

end Vlsp.C18
