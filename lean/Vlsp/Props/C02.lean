/-
  C02 — a declared range admits a version iff the ecosystem's own semantics say so.
  Part 1: the ecosystem facts (`Eco`) of each matcher model and the `MatcherLaws`
  that C01's decision theorem needs, instantiated per ecosystem; "latest is inside"
  uses the same relation as "some version is inside" (`*_same_relation`).
-/
import Vlsp.Spec.Decision
import Vlsp.Model.Npm
import Vlsp.Model.Crates
import Vlsp.Model.Gha
import Vlsp.Model.Go
import Vlsp.Props.C01
import Vlsp.Spec.Ranges

namespace Vlsp.C02
open Vlsp Vlsp.Text Vlsp.Semver

/-! ### npm / pnpm catalog / JSR -/

def npmEco : Eco where
  wf s := (Npm.parseSpec s).isSome
  wfV l := (parseStrict l).isSome
  inside s v :=
    match Npm.parseSpec s, parseStrict v with
    | some sp, some ver => Npm.satisfies sp ver
    | _, _ => false
  alwaysPresent _ := false
  unanchored s :=
    match Npm.parseSpec s with
    | some sp => (Npm.baseVersion sp).isNone
    | none => false
  anchorBelow s l :=
    match Npm.parseSpec s, parseStrict l with
    | some sp, some lv => (match Npm.baseVersion sp with | some b => plt b lv | none => false)
    | _, _ => false

theorem npm_laws : MatcherLaws Npm.matcher npmEco where
  invalid_iff s l := by
    simp only [Npm.matcher, Npm.compareToLatest, npmEco]
    cases Npm.parseSpec s with
    | none => simp
    | some sp =>
      cases parseStrict l with
      | none => simp
      | some lv =>
        simp only [Option.isSome_some]
        split
        · simp
        · cases Npm.baseVersion sp with
          | none => simp
          | some b => simp only; split <;> simp
  latest_iff s l := by
    simp only [Npm.matcher, Npm.compareToLatest, npmEco]
    cases Npm.parseSpec s with
    | none => simp
    | some sp =>
      cases parseStrict l with
      | none => simp
      | some lv =>
        simp only [Option.isSome_some]
        by_cases hs : Npm.satisfies sp lv = true
        · simp [hs]
        · have hs' : Npm.satisfies sp lv = false := by simpa using hs
          simp only [hs', Bool.false_eq_true, if_false]
          cases Npm.baseVersion sp with
          | none => simp
          | some b => simp only; split <;> simp
  outdated_iff s l := by
    simp only [Npm.matcher, Npm.compareToLatest, npmEco]
    cases Npm.parseSpec s with
    | none => simp
    | some sp =>
      cases parseStrict l with
      | none => simp
      | some lv =>
        simp only [Option.isSome_some]
        by_cases hs : Npm.satisfies sp lv = true
        · simp [hs]
        · have hs' : Npm.satisfies sp lv = false := by simpa using hs
          simp only [hs', Bool.false_eq_true, if_false]
          cases Npm.baseVersion sp with
          | none => simp
          | some b => simp only; split <;> simp_all
  exists_iff s vs hwf := by
    simp only [Npm.matcher, Npm.versionExists, npmEco] at *
    cases hp : Npm.parseSpec s with
    | none => simp [hp] at hwf
    | some sp =>
      simp only [List.any_eq_true, Bool.false_eq_true, false_or]
      constructor
      · rintro ⟨v, hv, h⟩
        refine ⟨v, hv, ?_⟩
        cases hpv : parseStrict v with
        | none => simp [hpv] at h
        | some ver => simpa [hpv] using h
      · rintro ⟨v, hv, h⟩
        refine ⟨v, hv, ?_⟩
        cases hpv : parseStrict v with
        | none => simp [hpv] at h
        | some ver => simpa [hpv] using h

/-- "latest is inside the range" uses the same relation as "some version is inside the range" -/
theorem npm_same_relation (s l : Text) (hu : npmEco.unanchored s = false) :
    Npm.compareToLatest s l = .latest ↔ (npmEco.wf s = true ∧ Npm.versionExists s [l] = true) := by
  have h1 := npm_laws.latest_iff s l
  simp only [Npm.matcher] at h1
  rw [h1]
  constructor
  · rintro ⟨w1, w2, w3 | w3⟩
    · refine ⟨w1, ?_⟩
      have := (npm_laws.exists_iff s [l] w1).mpr (Or.inr ⟨l, List.mem_singleton.mpr rfl, w3⟩)
      simpa [Npm.matcher] using this
    · rw [hu] at w3; cases w3
  · rintro ⟨w1, w2⟩
    have := (npm_laws.exists_iff s [l] w1).mp (by simpa [Npm.matcher] using w2)
    rcases this with a | ⟨v, hv, hin⟩
    · simp [npmEco] at a
    · have : v = l := List.mem_singleton.mp hv
      subst this
      refine ⟨w1, ?_, Or.inl hin⟩
      simp only [npmEco] at hin ⊢
      cases hp : parseStrict v with
      | none => simp [hp] at hin
      | some _ => rfl

/-! ### crates.io -/

def cratesEco : Eco where
  wf s := (Crates.parseSpec s).isSome
  wfV l := (parseStrict l).isSome
  inside s v :=
    match Crates.parseSpec s, parseStrict v with
    | some sp, some ver => Crates.satisfies sp ver
    | _, _ => false
  alwaysPresent _ := false
  unanchored s :=
    match Crates.parseSpec s with
    | some sp => (Crates.baseVersion sp).isNone
    | none => false
  anchorBelow s l :=
    match Crates.parseSpec s, parseStrict l with
    | some sp, some lv => (match Crates.baseVersion sp with | some b => plt b lv | none => false)
    | _, _ => false

theorem crates_laws : MatcherLaws Crates.matcher cratesEco where
  invalid_iff s l := by
    simp only [Crates.matcher, Crates.compareToLatest, cratesEco]
    cases Crates.parseSpec s with
    | none => simp
    | some sp =>
      cases parseStrict l with
      | none => simp
      | some lv =>
        simp only [Option.isSome_some]
        split
        · simp
        · cases Crates.baseVersion sp with
          | none => simp
          | some b => simp only; split <;> simp
  latest_iff s l := by
    simp only [Crates.matcher, Crates.compareToLatest, cratesEco]
    cases Crates.parseSpec s with
    | none => simp
    | some sp =>
      cases parseStrict l with
      | none => simp
      | some lv =>
        simp only [Option.isSome_some]
        by_cases hs : Crates.satisfies sp lv = true
        · simp [hs]
        · have hs' : Crates.satisfies sp lv = false := by simpa using hs
          simp only [hs', Bool.false_eq_true, if_false]
          cases Crates.baseVersion sp with
          | none => simp
          | some b => simp only; split <;> simp
  outdated_iff s l := by
    simp only [Crates.matcher, Crates.compareToLatest, cratesEco]
    cases Crates.parseSpec s with
    | none => simp
    | some sp =>
      cases parseStrict l with
      | none => simp
      | some lv =>
        simp only [Option.isSome_some]
        by_cases hs : Crates.satisfies sp lv = true
        · simp [hs]
        · have hs' : Crates.satisfies sp lv = false := by simpa using hs
          simp only [hs', Bool.false_eq_true, if_false]
          cases Crates.baseVersion sp with
          | none => simp
          | some b => simp only; split <;> simp_all
  exists_iff s vs hwf := by
    simp only [Crates.matcher, Crates.versionExists, cratesEco] at *
    cases hp : Crates.parseSpec s with
    | none => simp [hp] at hwf
    | some sp =>
      simp only [List.any_eq_true, Bool.false_eq_true, false_or]
      constructor
      · rintro ⟨v, hv, h⟩
        refine ⟨v, hv, ?_⟩
        cases hpv : parseStrict v with
        | none => simp [hpv] at h
        | some ver => simpa [hpv] using h
      · rintro ⟨v, hv, h⟩
        refine ⟨v, hv, ?_⟩
        cases hpv : parseStrict v with
        | none => simp [hpv] at h
        | some ver => simpa [hpv] using h

/-- C01 instantiated: npm, pnpm catalog, JSR (one matcher) and crates.io -/
theorem c01_npm (latest tagRes : Option Text) (versions : List Text) (cur : Text) :
    Checker.diagFor Npm.matcher (C01.okReads latest tagRes versions) cur =
      Spec.Decision.specDiag npmEco latest tagRes versions cur :=
  C01.c01_decision Npm.matcher npmEco npm_laws latest tagRes versions cur
theorem c01_crates (latest tagRes : Option Text) (versions : List Text) (cur : Text) :
    Checker.diagFor Crates.matcher (C01.okReads latest tagRes versions) cur =
      Spec.Decision.specDiag cratesEco latest tagRes versions cur :=
  C01.c01_decision Crates.matcher cratesEco crates_laws latest tagRes versions cur

end Vlsp.C02

/-! ### Part 2: reference semantics, fragment, and the confirmed deviations (closed witnesses) -/

namespace Vlsp.C02
open Vlsp Vlsp.Text Vlsp.Semver Vlsp.Spec

/-- model verdict in the vocabulary of the reference: `none` = malformed -/
def npmVerdict (spec v : Text) : Option Bool :=
  if (Npm.parseSpec spec).isSome then some (Npm.versionExists spec [v]) else none

def refNpm (spec v : Text) : Option Bool :=
  match Spec.NodeSemver.parse spec, parseStrict v with
  | some r, some x => some (Spec.NodeSemver.sat r x)
  | _, _ => none

def cratesVerdict (spec v : Text) : Option Bool :=
  if (Crates.parseSpec spec).isSome then some (Crates.versionExists spec [v]) else none

def refCrates (spec v : Text) : Option Bool :=
  match Spec.CargoReq.parse spec, parseStrict v with
  | some r, some x => some (Spec.CargoReq.sat r x)
  | _, _ => none

/-- the full statement of C02 for npm (kept visible; it is FALSE on the pinned tree,
    see the `c02_npm_deviation_*` witnesses): on every spec and every strict version,
    the model agrees with the reference semantics -/
def c02_npm_full : Prop := ∀ spec v, (parseStrict v).isSome → npmVerdict spec v = refNpm spec v
def c02_crates_full : Prop := ∀ spec v, (parseStrict v).isSome → cratesVerdict spec v = refCrates spec v

/-! F-C02-2: partial operands. After an operator they are ranges now (repaired); WITHOUT an operator (and after `=`) a
    partial version is still the version padded with zeros — the project's own unit tests pin that (`"1"` admits 1.0.0
    only), so it stays a recorded deviation -/
theorem c02_npm_partial_after_operator :
    npmVerdict "~1".toList "1.5.0".toList = some true ∧ refNpm "~1".toList "1.5.0".toList = some true ∧
    npmVerdict "<=1".toList "1.5.0".toList = some true ∧ refNpm "<=1".toList "1.5.0".toList = some true ∧
    npmVerdict ">1".toList "1.0.1".toList = some false ∧ refNpm ">1".toList "1.0.1".toList = some false ∧
    npmVerdict "^0".toList "0.5.0".toList = some true ∧ refNpm "^0".toList "0.5.0".toList = some true ∧
    npmVerdict ">=1.2".toList "1.2.0-rc.1".toList = some true ∧ refNpm ">=1.2".toList "1.2.0-rc.1".toList = some true := by decide
theorem c02_npm_deviation_bare_zero :
    npmVerdict "0".toList "0.5.0".toList = some false ∧ refNpm "0".toList "0.5.0".toList = some true := by decide
theorem c02_npm_deviation_eq_partial :
    npmVerdict "=1.2".toList "1.2.5".toList = some false ∧ refNpm "=1.2".toList "1.2.5".toList = some true := by decide
theorem c02_npm_deviation_hyphen_partial :
    npmVerdict "1.2.3 - 2".toList "2.5.0".toList = some false ∧ refNpm "1.2.3 - 2".toList "2.5.0".toList = some true := by decide
/-! F-C02-3: grammar deviations -/
/-- (repaired, part of F-C02-3) a blank between an operator and its version is read as node-semver reads it -/
theorem c02_npm_space_after_op :
    npmVerdict ">= 16.0.0".toList "16.0.0".toList = some true ∧ refNpm ">= 16.0.0".toList "16.0.0".toList = some true ∧
    npmVerdict ">= 1.0.0 < 2.0.0".toList "1.5.0".toList = some true ∧ refNpm ">= 1.0.0 < 2.0.0".toList "1.5.0".toList = some true := by decide
/-- (repaired, part of F-C02-3) every wildcard spelling of node-semver is read: `1.*`, `1.2.*`, `x`, `X` -/
theorem c02_npm_wildcards :
    npmVerdict "1.*".toList "1.2.3".toList = some true ∧ refNpm "1.*".toList "1.2.3".toList = some true ∧
    npmVerdict "x".toList "1.2.3".toList = some true ∧ refNpm "x".toList "1.2.3".toList = some true ∧
    npmVerdict "1.2.*".toList "1.3.0".toList = some false ∧ refNpm "1.2.*".toList "1.3.0".toList = some false := by decide
theorem c02_npm_deviation_empty :
    npmVerdict [] "1.2.3".toList = none ∧ refNpm [] "1.2.3".toList = some true := by decide
theorem c02_npm_deviation_stacked_caret :
    npmVerdict "^^1.2.3".toList "1.2.3".toList = some true ∧ refNpm "^^1.2.3".toList "1.2.3".toList = none := by decide
theorem c02_npm_deviation_stacked_v :
    npmVerdict "vv1.2.3".toList "1.2.3".toList = some true ∧ refNpm "vv1.2.3".toList "1.2.3".toList = none := by decide
/-! F-C02-6 (repaired): build metadata takes no part in comparisons — the general statement is `c02_npm_ast` /
    `c02_crates_ast` (Props/C02Ast*.lean), which no longer carry a build-metadata hypothesis -/
theorem c02_npm_build_ignored :
    npmVerdict "1.2.3".toList "1.2.3+b".toList = some true ∧ refNpm "1.2.3".toList "1.2.3+b".toList = some true ∧
    npmVerdict "<=1.2.3".toList "1.2.3+b".toList = some true ∧ cratesVerdict "=1.2.3".toList "1.2.3+b".toList = some true := by decide
/-! F-C02-4 (repaired for partial versions, F-C02-11): Cargo reads a partial version as the versions that start with
    these numbers; what is left of F-C02-4 are spellings the code accepts although Cargo rejects them -/
theorem c02_crates_partial :
    cratesVerdict "~1".toList "1.5.0".toList = some true ∧ refCrates "~1".toList "1.5.0".toList = some true ∧
    cratesVerdict "=1.2".toList "1.2.5".toList = some true ∧ refCrates "=1.2".toList "1.2.5".toList = some true ∧
    cratesVerdict ">1".toList "1.0.1".toList = some false ∧ refCrates ">1".toList "1.0.1".toList = some false ∧
    cratesVerdict "^0".toList "0.5.0".toList = some true ∧ refCrates "^0".toList "0.5.0".toList = some true ∧
    cratesVerdict "0.0".toList "0.0.5".toList = some true ∧ refCrates "0.0".toList "0.0.5".toList = some true := by decide
theorem c02_crates_deviation_stacked :
    cratesVerdict "^^1.2.3".toList "1.2.3".toList = some true ∧ refCrates "^^1.2.3".toList "1.2.3".toList = none := by decide

/-- hence the full statements are false on the pinned tree -/
theorem c02_npm_full_false : ¬ c02_npm_full := fun h => by
  have := h "0".toList "0.5.0".toList (by decide)
  rw [c02_npm_deviation_bare_zero.1, c02_npm_deviation_bare_zero.2] at this
  cases this
theorem c02_crates_full_false : ¬ c02_crates_full := fun h => by
  have := h "^^1.2.3".toList "1.2.3".toList (by decide)
  rw [c02_crates_deviation_stacked.1, c02_crates_deviation_stacked.2] at this
  cases this

/-! the fragment is inhabited and the code is right on these members (non-vacuity) -/
example : Spec.NodeSemver.inFrag "^1.2.3".toList = true ∧ npmVerdict "^1.2.3".toList "1.9.0".toList = refNpm "^1.2.3".toList "1.9.0".toList := by decide
example : Spec.NodeSemver.inFrag ">=1.0.0 <2.0.0 || 3.1.x".toList = true ∧
    npmVerdict ">=1.0.0 <2.0.0 || 3.1.x".toList "3.1.7".toList = refNpm ">=1.0.0 <2.0.0 || 3.1.x".toList "3.1.7".toList := by decide
example : Spec.NodeSemver.inFrag "~1".toList = true ∧ Spec.NodeSemver.inFrag "1".toList = false := by decide
example : Spec.CargoReq.inFrag ">=1.2.3, <2.0.0".toList = true ∧
    cratesVerdict ">=1.2.3, <2.0.0".toList "1.9.0-rc.1".toList = refCrates ">=1.2.3, <2.0.0".toList "1.9.0-rc.1".toList := by decide

end Vlsp.C02
