/-
  C09 — at most one fetcher at a time owns a package; a dead owner's claim expires.
  Model: Vlsp.Claim (statement-level interleavings of any number of claimants).
-/
import Vlsp.Model.Claim
import Vlsp.Lemmas.DbLemmas
import Vlsp.Props.C08

namespace Vlsp.C09
open Vlsp Vlsp.Text Vlsp.Db Vlsp.Claim

/-- the claim column of `k`: `none` = no row, `some none` = NULL, `some (some s)` = claimed at `s` -/
def fsOf (db : Db) (k : Key) : Option (Option Int) := (db.findPkg k).map (·.fetchingSince)

def claimableFs (fs : Option Int) (thr : Int) : Bool :=
  match fs with | none => true | some s => s < thr

theorem c09_timeout_is_30s : Claim.timeout = 30000 := by decide

/-! ### effect of the three statements on the claim column -/

def claimF (now thr : Int) (p : Pkg) : Pkg :=
  if claimable p thr then { p with fetchingSince := some now } else p

theorem claimF_key (now thr : Int) (p : Pkg) : (claimF now thr p).key = p.key ∧ (claimF now thr p).id = p.id := by
  unfold claimF; split <;> exact ⟨rfl, rfl⟩

theorem fsOf_claimUpdate (db : Db) (k k' : Key) (now thr : Int) :
    fsOf (db.stmtClaimUpdate k now thr).1 k' =
      (fsOf db k').map fun fs => if k' = k ∧ claimableFs fs thr = true then some now else fs := by
  unfold fsOf stmtClaimUpdate
  simp only
  rw [findPkg_updatePkgs db k k' _ (fun p => by split <;> rfl)]
  cases hq : db.findPkg k' with
  | none => rfl
  | some q =>
    have hk := (findPkg_some_mem hq).2
    simp only [Option.map_some, Option.some.injEq]
    by_cases hkk : k' = k
    · subst hkk
      simp only [hk, beq_self_eq_true, if_true, true_and]
      unfold claimable claimableFs
      cases hfs : q.fetchingSince with
      | none => simp
      | some s => by_cases h : s < thr <;> simp [h, hfs]
    · have : (q.key == k) = false := by rw [hk]; simpa using hkk
      simp [this, hkk]

theorem claimUpdate_count_pos {db : Db} (hi : Inv db) (k : Key) (now thr : Int) :
    (db.stmtClaimUpdate k now thr).2 > 0 ↔ ∃ fs, fsOf db k = some fs ∧ claimableFs fs thr = true := by
  unfold stmtClaimUpdate fsOf
  simp only [gt_iff_lt, List.length_pos_iff_exists_mem, List.mem_filter, Bool.and_eq_true, beq_iff_eq]
  constructor
  · rintro ⟨p, hp, hk, hc⟩
    refine ⟨p.fetchingSince, ?_, ?_⟩
    · rw [← hk, findPkg_of_mem hi hp]; rfl
    · unfold claimable at hc; unfold claimableFs; exact hc
  · rintro ⟨fs, hf, hc⟩
    cases hq : db.findPkg k with
    | none => simp [hq] at hf
    | some q =>
      have hm := findPkg_some_mem hq
      refine ⟨q, hm.1, hm.2, ?_⟩
      have : q.fetchingSince = fs := by simpa [hq] using hf
      unfold claimable; unfold claimableFs at hc; rw [this]; exact hc

theorem fsOf_claimInsert (db : Db) (k k' : Key) (now : Int) :
    fsOf (db.stmtClaimInsert k now).1 k' =
      match fsOf db k' with
      | some fs => some fs
      | none => if k' = k ∧ fsOf db k = none then some (some now) else none := by
  unfold stmtClaimInsert fsOf
  cases hk : db.findPkg k with
  | some p =>
    simp only [Option.isSome_some, if_true, Option.map_some]
    cases db.findPkg k' <;> simp
  | none =>
    simp only [Option.isSome_none, Bool.false_eq_true, if_false]
    rw [findPkg_insertPkg]
    cases hq : db.findPkg k' with
    | some q => simp
    | none =>
      simp only [Option.map_none]
      by_cases hkk : k = k'
      · subst hkk; simp
      · have : ¬ k' = k := fun h => hkk h.symm
        simp [hkk, this]

theorem claimInsert_count_pos (db : Db) (k : Key) (now : Int) :
    (db.stmtClaimInsert k now).2 > 0 ↔ fsOf db k = none := by
  unfold stmtClaimInsert fsOf
  cases db.findPkg k <;> simp

theorem fsOf_finish (db : Db) (k k' : Key) :
    fsOf (db.stmtFinish k) k' = (fsOf db k').map fun fs => if k' = k then none else fs := by
  unfold fsOf stmtFinish
  rw [findPkg_updatePkgs db k k' (fun p => { p with fetchingSince := none }) (fun _ => rfl)]
  cases hq : db.findPkg k' with
  | none => rfl
  | some q =>
    have hk := (findPkg_some_mem hq).2
    simp only [Option.map_some, Option.some.injEq]
    by_cases hkk : k' = k
    · subst hkk; simp [hk]
    · have : (q.key == k) = false := by rw [hk]; simpa using hkk
      simp [this, hkk]

theorem inv_claimUpdate {db : Db} (hi : Inv db) (k : Key) (now thr : Int) : Inv (db.stmtClaimUpdate k now thr).1 :=
  inv_updatePkgs hi k _ (claimF_key now thr)

theorem inv_claimInsert {db : Db} (hi : Inv db) (k : Key) (now : Int) : Inv (db.stmtClaimInsert k now).1 := by
  unfold stmtClaimInsert
  split
  · exact hi
  · rename_i h; exact inv_insertPkg hi k now (some now) false (by simpa using h)

/-! ### the invariant -/

structure J (σ : Sys) : Prop where
  inv : Inv σ.db
  winRow : ∀ w ∈ σ.wins, ∃ s, fsOf σ.db w.key = some (some s) ∧ (w.since = s ∨ w.since + timeout < s)
  uniq : ∀ w₁ ∈ σ.wins, ∀ w₂ ∈ σ.wins, w₁.key = w₂.key → w₁.since = w₂.since → w₁.who = w₂.who
  past : ∀ k s, fsOf σ.db k = some (some s) → s ≤ σ.now
  pendPast : ∀ p ∈ σ.pending, p.2.2 ≤ σ.now
  entPast : ∀ p ∈ σ.entered, p.2.2 ≤ σ.now

theorem timeout_pos : (0 : Int) < timeout := by decide

theorem j_init {db : Db} (hi : Inv db) (now : Int) (hp : ∀ k s, fsOf db k = some (some s) → s ≤ now) :
    J (Claim.init db now) :=
  ⟨hi, by simp [Claim.init], by simp [Claim.init], hp, by simp [Claim.init], by simp [Claim.init]⟩

/-- one UPDATE statement that changed a row (issued with the clock value `t0 ≤ now` read at entry):
    the new win is consistent, older wins on the key are expired -/
theorem j_win_update {σ : Sys} (hj : J σ) (c : Claimant) (k : Key) (t0 : Int) (ht : t0 ≤ σ.now)
    (ent : List (Claimant × Key × Int)) (he : ∀ p ∈ ent, p.2.2 ≤ σ.now)
    (hn : (σ.db.stmtClaimUpdate k t0 (t0 - timeout)).2 > 0) :
    J { σ with db := (σ.db.stmtClaimUpdate k t0 (t0 - timeout)).1, entered := ent, wins := ⟨c, k, t0⟩ :: σ.wins } := by
  obtain ⟨fs, hfs, hcl⟩ := (claimUpdate_count_pos hj.inv k t0 _).mp hn
  have hnew : fsOf (σ.db.stmtClaimUpdate k t0 (t0 - timeout)).1 k = some (some t0) := by
    rw [fsOf_claimUpdate, hfs]; simp [hcl]
  have hother : ∀ k', k' ≠ k → fsOf (σ.db.stmtClaimUpdate k t0 (t0 - timeout)).1 k' = fsOf σ.db k' := by
    intro k' hk'
    rw [fsOf_claimUpdate]
    cases fsOf σ.db k' <;> simp [hk']
  -- every old win on k is older than t0 - timeout
  have hold : ∀ w ∈ σ.wins, w.key = k → w.since + timeout < t0 := by
    intro w hw hk
    obtain ⟨s, hs, hd⟩ := hj.winRow w hw
    rw [hk, hfs] at hs
    have : fs = some s := Option.some.inj hs
    subst this
    have hlt : s < t0 - timeout := by simpa [claimableFs] using hcl
    have tp := timeout_pos
    rcases hd with h | h <;> omega
  constructor
  · exact inv_claimUpdate hj.inv k _ _
  · intro w hw
    simp only [List.mem_cons] at hw
    rcases hw with rfl | hw
    · exact ⟨t0, hnew, Or.inl rfl⟩
    · by_cases hk : w.key = k
      · exact ⟨t0, by rw [hk]; exact hnew, Or.inr (hold w hw hk)⟩
      · obtain ⟨s, hs, hd⟩ := hj.winRow w hw
        exact ⟨s, by rw [hother _ hk]; exact hs, hd⟩
  · intro w₁ h₁ w₂ h₂ hk hs
    simp only [List.mem_cons] at h₁ h₂
    rcases h₁ with rfl | h₁ <;> rcases h₂ with rfl | h₂
    · rfl
    · have := hold w₂ h₂ hk.symm
      simp only at hs; have tp := timeout_pos; omega
    · have := hold w₁ h₁ hk
      simp only at hs; have tp := timeout_pos; omega
    · exact hj.uniq w₁ h₁ w₂ h₂ hk hs
  · intro k' s hs
    by_cases hk' : k' = k
    · subst hk'; rw [hnew] at hs
      have : t0 = s := by simpa using hs
      show s ≤ σ.now
      omega
    · rw [hother _ hk'] at hs; exact hj.past k' s hs
  · exact hj.pendPast
  · exact he

/-- an UPDATE that matched no row leaves the claim columns as they were -/
theorem fsOf_claimUpdate_zero {db : Db} (hi : Inv db) (k : Key) (now thr : Int)
    (hz : ¬ (db.stmtClaimUpdate k now thr).2 > 0) (k' : Key) :
    fsOf (db.stmtClaimUpdate k now thr).1 k' = fsOf db k' := by
  rw [fsOf_claimUpdate]
  cases hq : fsOf db k' with
  | none => rfl
  | some fs =>
    simp only [Option.map_some, Option.some.injEq]
    by_cases hkk : k' = k
    · subst hkk
      have : claimableFs fs thr = false := by
        cases hc : claimableFs fs thr with
        | false => rfl
        | true => exact absurd ((claimUpdate_count_pos hi k' now thr).mpr ⟨fs, hq, hc⟩) hz
      simp [this]
    · simp [hkk]

theorem j_same_fs {σ : Sys} (hj : J σ) (db' : Db) (hi' : Inv db') (hfs : ∀ k, fsOf db' k = fsOf σ.db k)
    (pend : List (Claimant × Key × Int)) (hp : ∀ p ∈ pend, p.2.2 ≤ σ.now) (lost : List (Claimant × Key))
    (ent : List (Claimant × Key × Int) := σ.entered) (he : ∀ p ∈ ent, p.2.2 ≤ σ.now := by exact hj.entPast) :
    J { σ with db := db', pending := pend, lost := lost, entered := ent } :=
  ⟨hi', fun w hw => by obtain ⟨s, hs, hd⟩ := hj.winRow w hw; exact ⟨s, by rw [hfs]; exact hs, hd⟩,
   hj.uniq, fun k s hs => hj.past k s (by rw [← hfs]; exact hs), hp, he⟩

/-! ### data writes leave every claim as it is -/

/-- "claimed since `s`" is neither created nor destroyed -/
def SameClaims (db' db : Db) : Prop := ∀ k s, fsOf db' k = some (some s) ↔ fsOf db k = some (some s)

theorem sameClaims_upsertTouch (db : Db) (k : Key) (now : Int) : SameClaims (db.stmtUpsertTouch k now) db := by
  intro k' s
  unfold Db.stmtUpsertTouch fsOf
  split
  · rw [findPkg_updatePkgs db k k' (fun p => { p with updatedAt := now }) (fun _ => rfl)]
    cases db.findPkg k' with
    | none => simp
    | some p => simp only [Option.map_some]; split <;> simp
  · rename_i hno
    rw [findPkg_insertPkg]
    cases hf : db.findPkg k' with
    | some p => simp
    | none =>
      simp only [Option.map_none]
      by_cases hk : k = k'
      · simp [hk]
      · simp [hk]

theorem sameClaims_mark (db : Db) (k : Key) (now : Int) : SameClaims (db.stmtMark k now) db := by
  intro k' s
  unfold Db.stmtMark fsOf
  split
  · rw [findPkg_updatePkgs db k k' (fun p => { p with notFound := true }) (fun _ => rfl)]
    cases db.findPkg k' with
    | none => simp
    | some p => simp only [Option.map_some]; split <;> simp
  · rw [findPkg_insertPkg]
    cases hf : db.findPkg k' with
    | some p => simp
    | none =>
      simp only [Option.map_none]
      by_cases hk : k = k'
      · simp [hk]
      · simp [hk]

theorem findPkg_insertVersions (db : Db) (pid : Nat) (vs : List Text) (k : Key) :
    (vs.foldl (fun d v => d.stmtInsertVersionIgnore pid v) db).findPkg k = db.findPkg k := by
  induction vs generalizing db with
  | nil => rfl
  | cons v rest ih =>
    simp only [List.foldl_cons]
    rw [ih]
    unfold Db.stmtInsertVersionIgnore Db.findPkg
    split <;> rfl

theorem sameClaims_replaceVersions (db : Db) (k : Key) (vs : List Text) (now : Int) :
    SameClaims (Cache.replaceVersions db k vs now) db := by
  intro k' s
  unfold Cache.replaceVersions
  simp only
  split
  · exact Iff.rfl
  · unfold fsOf
    rw [findPkg_insertVersions]
    exact sameClaims_upsertTouch db k now k' s

/-- the invariant survives any change of the database that keeps it well formed and leaves the claims as they are -/
theorem j_frame {σ : Sys} (hj : J σ) (db' : Db) (hi' : Inv db') (hc : SameClaims db' σ.db) : J { σ with db := db' } :=
  ⟨hi', fun w hw => by obtain ⟨s, hs, hd⟩ := hj.winRow w hw; exact ⟨s, (hc _ _).mpr hs, hd⟩,
   hj.uniq, fun k s hs => hj.past k s ((hc _ _).mp hs), hj.pendPast, hj.entPast⟩

/-- an INSERT OR IGNORE that created the row -/
theorem j_win_insert {σ : Sys} (hj : J σ) (c : Claimant) (k : Key) (t0 : Int) (ht : t0 ≤ σ.now)
    (pend : List (Claimant × Key × Int)) (hp : ∀ p ∈ pend, p.2.2 ≤ σ.now)
    (hm : (σ.db.stmtClaimInsert k t0).2 > 0) :
    J { σ with db := (σ.db.stmtClaimInsert k t0).1, pending := pend, wins := ⟨c, k, t0⟩ :: σ.wins } := by
  have hnone := (claimInsert_count_pos σ.db k t0).mp hm
  have hnew : fsOf (σ.db.stmtClaimInsert k t0).1 k = some (some t0) := by
    rw [fsOf_claimInsert, hnone]; simp [hnone]
  have hother : ∀ k', k' ≠ k → fsOf (σ.db.stmtClaimInsert k t0).1 k' = fsOf σ.db k' := by
    intro k' hk'
    rw [fsOf_claimInsert]
    cases fsOf σ.db k' <;> simp [hk']
  have hnowin : ∀ w ∈ σ.wins, w.key ≠ k := by
    intro w hw hk
    obtain ⟨s, hs, _⟩ := hj.winRow w hw
    rw [hk, hnone] at hs; cases hs
  constructor
  · exact inv_claimInsert hj.inv k t0
  · intro w hw
    simp only [List.mem_cons] at hw
    rcases hw with rfl | hw
    · exact ⟨t0, hnew, Or.inl rfl⟩
    · obtain ⟨s, hs, hd⟩ := hj.winRow w hw
      exact ⟨s, by rw [hother _ (hnowin w hw)]; exact hs, hd⟩
  · intro w₁ h₁ w₂ h₂ hk hs
    simp only [List.mem_cons] at h₁ h₂
    rcases h₁ with rfl | h₁ <;> rcases h₂ with rfl | h₂
    · rfl
    · exact absurd hk.symm (hnowin w₂ h₂)
    · exact absurd hk (hnowin w₁ h₁)
    · exact hj.uniq w₁ h₁ w₂ h₂ hk hs
  · intro k' s hs
    by_cases hk' : k' = k
    · subst hk'; rw [hnew] at hs
      have : t0 = s := by simpa using hs
      show s ≤ σ.now
      omega
    · rw [hother _ hk'] at hs; exact hj.past k' s hs
  · exact hp
  · exact hj.entPast

theorem fsOf_claimInsert_zero (db : Db) (k : Key) (t0 : Int) (hz : ¬ (db.stmtClaimInsert k t0).2 > 0) (k' : Key) :
    fsOf (db.stmtClaimInsert k t0).1 k' = fsOf db k' := by
  have : fsOf db k ≠ none := fun h => hz ((claimInsert_count_pos db k t0).mpr h)
  rw [fsOf_claimInsert]
  cases hq : fsOf db k' with
  | some fs => rfl
  | none =>
    simp only
    by_cases hkk : k' = k
    · subst hkk; exact absurd hq this
    · simp [hkk]

theorem filter_pend {σ : Sys} (hj : J σ) (c : Claimant) :
    ∀ p ∈ σ.pending.filter (·.1 != c), p.2.2 ≤ σ.now :=
  fun p hp => hj.pendPast p (List.mem_filter.mp hp).1

theorem filter_ent {σ : Sys} (hj : J σ) (c : Claimant) :
    ∀ p ∈ σ.entered.filter (·.1 != c), p.2.2 ≤ σ.now :=
  fun p hp => hj.entPast p (List.mem_filter.mp hp).1

/-- **the invariant is preserved by every event** -/
theorem j_step {σ : Sys} (hj : J σ) (ev : Ev) : J (step σ ev) := by
  cases ev with
  | enter c k =>
    simp only [step]
    exact j_same_fs hj σ.db hj.inv (fun _ => rfl) σ.pending hj.pendPast σ.lost ((c, k, σ.now) :: σ.entered)
      (by intro p hp; rcases List.mem_cons.mp hp with rfl | hp
          · exact Int.le_refl _
          · exact hj.entPast p hp)
  | update c =>
    simp only [step]
    cases hf : σ.entered.find? (·.1 == c) with
    | none => exact hj
    | some p =>
      obtain ⟨c', k, t0⟩ := p
      have ht : t0 ≤ σ.now := hj.entPast _ (List.mem_of_find?_eq_some hf)
      simp only
      split
      · rename_i hn; exact j_win_update hj c k t0 ht _ (filter_ent hj c) hn
      · rename_i hn
        exact j_same_fs hj _ (inv_claimUpdate hj.inv k _ _) (fsOf_claimUpdate_zero hj.inv k _ _ hn)
          ((c, k, t0) :: σ.pending)
          (by intro p hp; rcases List.mem_cons.mp hp with rfl | hp
              · exact ht
              · exact hj.pendPast p hp) σ.lost _ (filter_ent hj c)
  | insert c =>
    simp only [step]
    cases hf : σ.pending.find? (·.1 == c) with
    | none => exact hj
    | some p =>
      obtain ⟨c', k, t0⟩ := p
      have ht : t0 ≤ σ.now := hj.pendPast _ (List.mem_of_find?_eq_some hf)
      simp only
      split
      · rename_i hm; exact j_win_insert hj c k t0 ht _ (filter_pend hj c) hm
      · rename_i hm
        exact j_same_fs hj _ (inv_claimInsert hj.inv k t0) (fsOf_claimInsert_zero σ.db k t0 hm) _ (filter_pend hj c) _
  | startAtomic c k =>
    simp only [step, Cache.tryStartFetch]
    by_cases hn : (σ.db.stmtClaimUpdate k σ.now (σ.now - Generated.fetchTimeoutMs)).2 > 0
    · simp only [hn, if_true]
      exact j_win_update hj c k σ.now (Int.le_refl _) σ.entered hj.entPast hn
    · simp only [hn, if_false]
      -- UPDATE matched nothing; then the INSERT, at the same `now`, on the unchanged claim columns
      have h1 := j_same_fs hj _ (inv_claimUpdate hj.inv k σ.now (σ.now - timeout))
        (fsOf_claimUpdate_zero hj.inv k _ _ hn) σ.pending hj.pendPast σ.lost
      by_cases hm : ((σ.db.stmtClaimUpdate k σ.now (σ.now - Generated.fetchTimeoutMs)).1.stmtClaimInsert k σ.now).2 > 0
      · simp only [hm, decide_true, if_true]
        exact j_win_insert h1 c k σ.now (Int.le_refl _) σ.pending hj.pendPast hm
      · simp only [hm, decide_false, Bool.false_eq_true, if_false]
        exact j_same_fs h1 _ (inv_claimInsert h1.inv k σ.now) (fsOf_claimInsert_zero _ k σ.now hm) σ.pending
          hj.pendPast _
  | busy c =>
    simp only [step]
    cases hf : σ.pending.find? (·.1 == c) with
    | none => exact hj
    | some p =>
      obtain ⟨c', k, t0⟩ := p
      exact j_same_fs hj σ.db hj.inv (fun _ => rfl) _ (filter_pend hj c) _
  | release k =>
    simp only [step]
    constructor
    · exact inv_updatePkgs hj.inv k _ (fun _ => ⟨rfl, rfl⟩)
    · intro w hw
      have hm := List.mem_filter.mp hw
      have hk : w.key ≠ k := by simpa using hm.2
      obtain ⟨s, hs, hd⟩ := hj.winRow w hm.1
      refine ⟨s, ?_, hd⟩
      rw [fsOf_finish, hs]; simp [hk]
    · intro w₁ h₁ w₂ h₂
      exact hj.uniq w₁ (List.mem_filter.mp h₁).1 w₂ (List.mem_filter.mp h₂).1
    · intro k' s hs
      rw [fsOf_finish] at hs
      cases hq : fsOf σ.db k' with
      | none => rw [hq] at hs; cases hs
      | some fs =>
        rw [hq] at hs
        by_cases hk' : k' = k
        · simp [hk'] at hs
        · simp only [Option.map_some, hk', if_false, Option.some.injEq] at hs
          exact hj.past k' s (by rw [hq, hs])
    · exact hj.pendPast
    · exact hj.entPast
  | die c =>
    simp only [step]
    exact j_same_fs hj σ.db hj.inv (fun _ => rfl) _ (filter_pend hj c) σ.lost _ (filter_ent hj c)
  | store k vs =>
    simp only [step]
    exact j_frame hj _ (C08.inv_replaceVersions hj.inv k vs σ.now) (sameClaims_replaceVersions σ.db k vs σ.now)
  | mark k =>
    simp only [step]
    exact j_frame hj _ (C08.inv_markNotFound hj.inv k σ.now) (sameClaims_mark σ.db k σ.now)
  | tick d =>
    simp only [step]
    have hd : (0 : Int) ≤ d := Int.natCast_nonneg d
    exact ⟨hj.inv, hj.winRow, hj.uniq, fun k s hs => by have := hj.past k s hs; show s ≤ σ.now + d; omega,
      fun p hp => by have := hj.pendPast p hp; show p.2.2 ≤ σ.now + d; omega,
      fun p hp => by have := hj.entPast p hp; show p.2.2 ≤ σ.now + d; omega⟩

theorem j_run {σ : Sys} (hj : J σ) (evs : List Ev) : J (runEvs σ evs) := by
  induction evs generalizing σ with
  | nil => exact hj
  | cons e es ih => exact ih (j_step hj e)

/-- **C09, mutual exclusion.**  In every state reachable by ANY interleaving of any number of
    claimants (same handle or different handles, statement by statement), with failures, releases,
    deaths and clock advances anywhere: at most one claimant holds a given package. -/
theorem c09_mutex {σ : Sys} (hj : J σ) (evs : List Ev) (k : Key) (c₁ c₂ : Claimant)
    (h₁ : Held (runEvs σ evs) c₁ k) (h₂ : Held (runEvs σ evs) c₂ k) : c₁ = c₂ := by
  have hj' := j_run hj evs
  generalize runEvs σ evs = τ at *
  obtain ⟨w₁, m₁, rfl, hk₁, hl₁⟩ := h₁
  obtain ⟨w₂, m₂, rfl, hk₂, hl₂⟩ := h₂
  obtain ⟨s₁, hs₁, hd₁⟩ := hj'.winRow w₁ m₁
  obtain ⟨s₂, hs₂, hd₂⟩ := hj'.winRow w₂ m₂
  rw [hk₁] at hs₁; rw [hk₂, hs₁] at hs₂
  have : s₁ = s₂ := by simpa using hs₂
  subst this
  have hp := hj'.past k s₁ hs₁
  rcases hd₁ with e₁ | e₁
  · rcases hd₂ with e₂ | e₂
    · exact hj'.uniq w₁ m₁ w₂ m₂ (hk₁.trans hk₂.symm) (e₁.trans e₂.symm)
    · omega
  · omega

/-- from a fresh database, any schedule -/
theorem c09_mutex_fresh (now : Int) (evs : List Ev) (k : Key) (c₁ c₂ : Claimant)
    (h₁ : Held (runEvs (Claim.init Db.empty now) evs) c₁ k)
    (h₂ : Held (runEvs (Claim.init Db.empty now) evs) c₂ k) : c₁ = c₂ :=
  c09_mutex (j_init inv_empty now (by intro k s h; simp [fsOf, findPkg, Db.empty] at h)) evs k c₁ c₂ h₁ h₂

/-- a claim attempt that fails has no side effect on any claim column -/
theorem c09_failed_claim_no_effect {db : Db} (hi : Inv db) (k : Key) (now : Int)
    (hf : (Cache.tryStartFetch db k now).2 = false) (k' : Key) :
    fsOf (Cache.tryStartFetch db k now).1 k' = fsOf db k' := by
  unfold Cache.tryStartFetch at hf ⊢
  by_cases hn : (db.stmtClaimUpdate k now (now - Generated.fetchTimeoutMs)).2 > 0
  · simp [hn] at hf
  · simp only [hn, if_false] at hf ⊢
    have hm : ¬ ((db.stmtClaimUpdate k now (now - Generated.fetchTimeoutMs)).1.stmtClaimInsert k now).2 > 0 := by
      simpa using hf
    rw [fsOf_claimInsert_zero _ k now hm, fsOf_claimUpdate_zero hi k _ _ hn]

/-- progress: a free or expired package is won by the next (uncontended) attempt;
    a live claim refuses it -/
theorem c09_attempt_iff {db : Db} (hi : Inv db) (k : Key) (now : Int) :
    (Cache.tryStartFetch db k now).2 = true ↔
      (fsOf db k = none ∨ fsOf db k = some none ∨ ∃ s, fsOf db k = some (some s) ∧ s + timeout < now) := by
  unfold Cache.tryStartFetch
  by_cases hn : (db.stmtClaimUpdate k now (now - Generated.fetchTimeoutMs)).2 > 0
  · simp only [hn, if_true, true_iff]
    obtain ⟨fs, hfs, hc⟩ := (claimUpdate_count_pos hi k now _).mp hn
    cases fs with
    | none => exact Or.inr (Or.inl hfs)
    | some s =>
      refine Or.inr (Or.inr ⟨s, hfs, ?_⟩)
      have : s < now - Generated.fetchTimeoutMs := by simpa [claimableFs] using hc
      show s + Generated.fetchTimeoutMs < now
      omega
  · simp only [hn, if_false, decide_eq_true_eq]
    rw [claimInsert_count_pos, fsOf_claimUpdate_zero hi k _ _ hn]
    constructor
    · exact Or.inl
    · rintro (h | h | ⟨s, hs, hlt⟩)
      · exact h
      · exact absurd ((claimUpdate_count_pos hi k now _).mpr ⟨none, h, rfl⟩) hn
      · refine absurd ((claimUpdate_count_pos hi k now _).mpr ⟨some s, hs, ?_⟩) hn
        have : s < now - Generated.fetchTimeoutMs := by
          have : s + Generated.fetchTimeoutMs < now := hlt
          omega
        simpa [claimableFs] using this

/-- claims on different packages — or on the same name in different registries — never interact -/
theorem c09_independent {db : Db} (k k' : Key) (now : Int) (hkk : k' ≠ k) :
    fsOf (Cache.tryStartFetch db k now).1 k' = fsOf db k' := by
  unfold Cache.tryStartFetch
  have h1 : fsOf (db.stmtClaimUpdate k now (now - Generated.fetchTimeoutMs)).1 k' = fsOf db k' := by
    rw [fsOf_claimUpdate]; cases fsOf db k' <;> simp [hkk]
  by_cases hn : (db.stmtClaimUpdate k now (now - Generated.fetchTimeoutMs)).2 > 0
  · simp only [hn, if_true]; exact h1
  · simp only [hn, if_false]
    rw [fsOf_claimInsert, h1]
    cases fsOf db k' <;> simp [hkk]

/-- the 30 s boundary, exactly: a claim taken at t blocks at t+29999 and t+30000, and no longer at t+30001 -/
theorem c09_boundary :
    let k : Key := ⟨"npm".toList, "p".toList⟩
    let db := (Cache.tryStartFetch Db.empty k 1000).1
    (Cache.tryStartFetch db k (1000 + 29999)).2 = false ∧
    (Cache.tryStartFetch db k (1000 + 30000)).2 = false ∧
    (Cache.tryStartFetch db k (1000 + 30001)).2 = true := by decide

/-- two handles racing on a NEW package: exactly one INSERT wins -/
example :
    let k : Key := ⟨"npm".toList, "p".toList⟩
    let σ := runEvs (Claim.init Db.empty 5) [.enter 1 k, .enter 2 k, .update 1, .update 2, .insert 2, .insert 1]
    σ.wins.map (·.who) = [2] ∧ σ.lost = [(1, k)] := by decide

/-- dead owner: the claim expires and exactly one of the next contenders gets it -/
example :
    let k : Key := ⟨"npm".toList, "p".toList⟩
    let σ := runEvs (Claim.init Db.empty 0) [.startAtomic 1 k, .die 1, .tick 30000, .startAtomic 2 k, .tick 1,
                                             .enter 3 k, .enter 4 k, .update 3, .update 4]
    σ.lost = [(2, k)] ∧ σ.wins.map (·.who) = [3, 1] ∧ σ.pending.map (·.1) = [4] := by decide

end Vlsp.C09
