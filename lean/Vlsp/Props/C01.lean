/-
  C01 — each dependency gets exactly the diagnostic its spec, cache and tags imply.

  Model : Vlsp.Checker.{compareVersion, createDiagnostic, diagFor}
  Spec  : Vlsp.Spec.Decision.specDiag (decision table over ecosystem-level facts)
  The theorem is generic in the matcher: `MatcherLaws m E` is proved for each
  ecosystem in Props/C02.lean and instantiated at the end of that file.
-/
import Vlsp.Spec.Decision

namespace Vlsp.C01
open Vlsp Vlsp.Text Vlsp.Checker Vlsp.Spec.Decision

/-- reads that all succeed -/
def okReads (latest : Option Text) (tagRes : Option Text) (versions : List Text) : Reads :=
  ⟨some latest, fun _ => some tagRes, some versions⟩

def statusOf (m : Matcher) (rv L : Text) (versions : List Text) : Status :=
  match m.cmp rv L with
  | .invalid => .invalid
  | .latest => if m.exists_ rv versions then .latest else .notFound
  | .outdated => if m.exists_ rv versions then .outdated else .notFound
  | .newer => if m.exists_ rv versions then .newer else .notFound

/-- the resolved spec `rv` against the cached latest `L`, message quoting the unresolved `cur` -/
def specTail (E : Eco) (rv L : Text) (versions : List Text) (cur : Text) : Option (Severity × Text) :=
  if !(E.wf rv) || !(E.wfV L) then
    some (.error, "Invalid version format: ".toList ++ cur)
  else if !(E.alwaysPresent rv || versions.any (E.inside rv)) then
    some (.error, "Version ".toList ++ cur ++ " not found in registry".toList)
  else if E.inside rv L || E.unanchored rv then none
  else if E.anchorBelow rv L then
    some (.warning, "Update available: ".toList ++ cur ++ " -> ".toList ++ L)
  else none

theorem core_at (m : Matcher) (E : Eco) (rv : Text) (h : MatcherLawsAt m E rv) (L : Text) (versions : List Text) (cur : Text) :
    createDiagnostic (statusOf m rv L versions) cur (some L) = specTail E rv L versions cur := by
  unfold statusOf specTail
  generalize hc : m.cmp rv L = c
  have hi := h.invalid_iff L
  have hl := h.latest_iff L
  have ho := h.outdated_iff L
  have he := h.exists_iff versions
  rw [hc] at hi hl ho
  cases c with
  | invalid =>
    have := hi.mp rfl
    rcases this with hw | hw <;> simp [hw, createDiagnostic]
  | latest =>
    obtain ⟨w1, w2, w3'⟩ := hl.mp rfl
    have w3 : (E.inside rv L || E.unanchored rv) = true := by
      rcases w3' with a | a <;> simp [a]
    have he' := he w1
    by_cases hex : m.exists_ rv versions = true
    · have := he'.mp hex
      have hany : (E.alwaysPresent rv || versions.any (E.inside rv)) = true := by
        rcases this with a | ⟨v, hv, hin⟩
        · simp [a]
        · simp only [Bool.or_eq_true, List.any_eq_true]; right; exact ⟨v, hv, hin⟩
      simp [hex, w1, w2, w3, hany, createDiagnostic]
    · have hex' : m.exists_ rv versions = false := by simpa using hex
      have hany : (E.alwaysPresent rv || versions.any (E.inside rv)) = false := by
        cases hh : (E.alwaysPresent rv || versions.any (E.inside rv)) with
        | false => rfl
        | true =>
          exfalso; apply hex; apply he'.mpr
          simp only [Bool.or_eq_true, List.any_eq_true] at hh
          rcases hh with a | ⟨v, hv, hin⟩
          · exact Or.inl a
          · exact Or.inr ⟨v, hv, hin⟩
      simp [hex', w1, w2, hany, createDiagnostic]
  | outdated =>
    obtain ⟨w1, w2, w3, w5, w4⟩ := ho.mp rfl
    have he' := he w1
    by_cases hex : m.exists_ rv versions = true
    · have := he'.mp hex
      have hany : (E.alwaysPresent rv || versions.any (E.inside rv)) = true := by
        rcases this with a | ⟨v, hv, hin⟩
        · simp [a]
        · simp only [Bool.or_eq_true, List.any_eq_true]; right; exact ⟨v, hv, hin⟩
      simp [hex, w1, w2, w3, w4, w5, hany, createDiagnostic]
    · have hex' : m.exists_ rv versions = false := by simpa using hex
      have hany : (E.alwaysPresent rv || versions.any (E.inside rv)) = false := by
        cases hh : (E.alwaysPresent rv || versions.any (E.inside rv)) with
        | false => rfl
        | true =>
          exfalso; apply hex; apply he'.mpr
          simp only [Bool.or_eq_true, List.any_eq_true] at hh
          rcases hh with a | ⟨v, hv, hin⟩
          · exact Or.inl a
          · exact Or.inr ⟨v, hv, hin⟩
      simp [hex', w1, w2, hany, createDiagnostic]
  | newer =>
    have w1 : E.wf rv = true := by
      cases hw : E.wf rv with
      | true => rfl
      | false => exact absurd (hi.mpr (Or.inl hw)) (by simp)
    have w2 : E.wfV L = true := by
      cases hw : E.wfV L with
      | true => rfl
      | false => exact absurd (hi.mpr (Or.inr hw)) (by simp)
    have w3 : E.inside rv L = false := by
      cases hw : E.inside rv L with
      | false => rfl
      | true => exact absurd (hl.mpr ⟨w1, w2, Or.inl hw⟩) (by simp)
    have w5 : E.unanchored rv = false := by
      cases hw : E.unanchored rv with
      | false => rfl
      | true => exact absurd (hl.mpr ⟨w1, w2, Or.inr hw⟩) (by simp)
    have w4 : E.anchorBelow rv L = false := by
      cases hw : E.anchorBelow rv L with
      | false => rfl
      | true => exact absurd (ho.mpr ⟨w1, w2, w3, w5, hw⟩) (by simp)
    have he' := he w1
    by_cases hex : m.exists_ rv versions = true
    · have := he'.mp hex
      have hany : (E.alwaysPresent rv || versions.any (E.inside rv)) = true := by
        rcases this with a | ⟨v, hv, hin⟩
        · simp [a]
        · simp only [Bool.or_eq_true, List.any_eq_true]; right; exact ⟨v, hv, hin⟩
      simp [hex, w1, w2, w3, w4, w5, hany, createDiagnostic]
    · have hex' : m.exists_ rv versions = false := by simpa using hex
      have hany : (E.alwaysPresent rv || versions.any (E.inside rv)) = false := by
        cases hh : (E.alwaysPresent rv || versions.any (E.inside rv)) with
        | false => rfl
        | true =>
          exfalso; apply hex; apply he'.mpr
          simp only [Bool.or_eq_true, List.any_eq_true] at hh
          rcases hh with a | ⟨v, hv, hin⟩
          · exact Or.inl a
          · exact Or.inr ⟨v, hv, hin⟩
      simp [hex', w1, w2, hany, createDiagnostic]

theorem core (m : Matcher) (E : Eco) (h : MatcherLaws m E) (rv L : Text) (versions : List Text) (cur : Text) :
    createDiagnostic (statusOf m rv L versions) cur (some L) = specTail E rv L versions cur :=
  core_at m E rv (h.at rv) L versions cur

/-- the decision theorem for ONE dependency, needing the matcher's laws only at the spec that is actually
    judged (the dist-tag target if the spec resolves as a tag, the spec itself otherwise) -/
theorem c01_decision_at (m : Matcher) (E : Eco)
    (latest : Option Text) (tagRes : Option Text) (versions : List Text) (cur : Text)
    (h : MatcherLawsAt m E (tagRes.getD cur)) :
    diagFor m (okReads latest tagRes versions) cur = specDiag E latest tagRes versions cur := by
  unfold diagFor compareVersion specDiag okReads
  cases latest with
  | none => rfl
  | some L =>
    simp only
    cases tagRes with
    | none =>
      by_cases hk : isPotentialDistTag cur = true
      · simp [hk, knownTag, createDiagnostic]
      · have hk' : isPotentialDistTag cur = false := by simpa using hk
        simp only [hk', knownTag, Option.isNone_none, Bool.and_false, Bool.false_eq_true, if_false,
          Option.getD_none]
        exact core_at m E cur (by simpa using h) L versions cur
    | some rv =>
      simp only [Option.isNone_some, Bool.false_and, Bool.false_eq_true, if_false, Option.getD_some]
      exact core_at m E rv (by simpa using h) L versions cur

/-- **C01, decision table.**  For every matcher that satisfies its ecosystem's laws,
    every cache content and every spec string, the diagnostic produced by the code's
    decision procedure is the one the table prescribes — same severity, same message
    bytes, or none. -/
theorem c01_decision (m : Matcher) (E : Eco) (h : MatcherLaws m E)
    (latest : Option Text) (tagRes : Option Text) (versions : List Text) (cur : Text) :
    diagFor m (okReads latest tagRes versions) cur = specDiag E latest tagRes versions cur := by
  unfold diagFor compareVersion specDiag okReads
  cases latest with
  | none => rfl
  | some L =>
    simp only
    cases tagRes with
    | none =>
      by_cases hk : isPotentialDistTag cur = true
      · simp [hk, knownTag, createDiagnostic]
      · have hk' : isPotentialDistTag cur = false := by simpa using hk
        simp only [hk', knownTag, Option.isNone_none, Bool.and_false, Bool.false_eq_true, if_false,
          Option.getD_none]
        exact core m E h cur L versions cur
    | some rv =>
      simp only [Option.isNone_some, Bool.false_and, Bool.false_eq_true, if_false, Option.getD_some]
      exact core m E h rv L versions cur

/-- not cached (or marked nonexistent: no versions, hence no latest): nothing is shown -/
theorem c01_no_diag_when_uncached (m : Matcher) (tagRes : Option Text) (versions : List Text) (cur : Text) :
    diagFor m (okReads none tagRes versions) cur = none := rfl

/-- an unresolved well-known tag (`latest`, `NEXT`, …) is silent, whatever the cache holds -/
theorem c01_unresolved_known_tag_silent (m : Matcher) (L : Text) (versions : List Text) (cur : Text)
    (hk : isPotentialDistTag cur = true) :
    diagFor m (okReads (some L) none versions) cur = none := by
  simp [diagFor, compareVersion, okReads, hk, createDiagnostic]

/-- a failing cache read can only remove the diagnostic (never invent one) -/
theorem c01_read_failure_drops (m : Matcher) (r : Reads) (cur : Text)
    (hf : r.latest = none ∨ r.tag cur = none ∨ r.versions = none) (hd : (diagFor m r cur).isSome) :
    ∃ L tagRes, r.latest = some (some L) ∧ r.tag cur = some tagRes ∧
      (r.versions = none → tagRes = none ∧ isPotentialDistTag cur = true) := by
  unfold diagFor compareVersion at hd
  cases hl : r.latest with
  | none => simp [hl] at hd
  | some lo =>
    cases lo with
    | none => simp [hl, createDiagnostic] at hd
    | some L =>
      cases ht : r.tag cur with
      | none => simp [hl, ht] at hd
      | some tagRes =>
        refine ⟨L, tagRes, rfl, rfl, ?_⟩
        intro hv
        cases tagRes with
        | some rv => simp [hl, ht, hv] at hd
        | none =>
          by_cases hk : isPotentialDistTag cur = true
          · exact ⟨rfl, hk⟩
          · have hk' : isPotentialDistTag cur = false := by simpa using hk
            simp [hl, ht, hv, hk'] at hd

/-- Invalid is decided before NotFound: a malformed (resolved) spec is reported as
    invalid even when no cached version could possibly match it -/
theorem c01_invalid_beats_notfound (m : Matcher) (E : Eco) (h : MatcherLaws m E)
    (L : Text) (tagRes : Option Text) (versions : List Text) (cur : Text)
    (hk : (tagRes.isNone && knownTag cur) = false)
    (hbad : E.wf (tagRes.getD cur) = false ∨ E.wfV L = false) :
    diagFor m (okReads (some L) tagRes versions) cur =
      some (.error, "Invalid version format: ".toList ++ cur) := by
  rw [c01_decision m E h]
  unfold specDiag
  simp only [hk, Bool.false_eq_true, if_false]
  rcases hbad with hb | hb <;> simp [hb]

/-- **a dist-tag is resolved before anything is judged**: when the spec resolves as a
    dist-tag to `rv`, the verdict is exactly the verdict of the plain spec `rv` — validity,
    membership and comparison all look at the tag's target — while the message keeps quoting
    the tag as written (`c01_message_verbatim`) -/
theorem c01_tag_resolved_before_validity (m : Matcher) (L rv : Text) (versions : List Text) (cur : Text)
    (hnk : isPotentialDistTag rv = false) :
    (compareVersion m (okReads (some L) (some rv) versions) cur).map (·.1) =
    (compareVersion m (okReads (some L) none versions) rv).map (·.1) := by
  simp [compareVersion, okReads, hnk]

/-- **a spec above the latest that no cached version satisfies is "not found"**, never silent:
    whatever the matcher says about spec vs latest (latest / outdated / newer), a spec nothing
    in the cache satisfies is reported as missing -/
theorem c01_newer_and_missing_is_notfound (m : Matcher) (L : Text) (tagRes : Option Text)
    (versions : List Text) (cur : Text)
    (hk : (tagRes.isNone && isPotentialDistTag cur) = false)
    (hvalid : m.cmp (tagRes.getD cur) L ≠ .invalid)
    (hmiss : m.exists_ (tagRes.getD cur) versions = false) :
    diagFor m (okReads (some L) tagRes versions) cur =
      some (.error, "Version ".toList ++ cur ++ " not found in registry".toList) := by
  cases tagRes with
  | some rv =>
    simp only [Option.getD_some] at hvalid hmiss
    cases hc : m.cmp rv L <;>
      simp_all [diagFor, compareVersion, okReads, createDiagnostic]
  | none =>
    simp only [Option.getD_none, Option.isNone_none, Bool.true_and] at hvalid hmiss hk
    cases hc : m.cmp cur L <;>
      simp_all [diagFor, compareVersion, okReads, createDiagnostic]

/-- the message always quotes the checked (unresolved) spec and the cached latest verbatim -/
theorem c01_message_verbatim (m : Matcher) (L : Text) (tagRes : Option Text) (versions : List Text)
    (cur : Text) (sev : Severity) (msg : Text)
    (hd : diagFor m (okReads (some L) tagRes versions) cur = some (sev, msg)) :
    (sev = .warning ∧ msg = "Update available: ".toList ++ cur ++ " -> ".toList ++ L) ∨
    (sev = .error ∧ msg = "Version ".toList ++ cur ++ " not found in registry".toList) ∨
    (sev = .error ∧ msg = "Invalid version format: ".toList ++ cur) := by
  unfold diagFor at hd
  cases hc : compareVersion m (okReads (some L) tagRes versions) cur with
  | none => simp [hc] at hd
  | some x =>
    obtain ⟨st, lo⟩ := x
    have hlo : lo = some L := by
      unfold compareVersion okReads at hc
      simp only at hc
      cases tagRes with
      | none =>
        simp only at hc
        split at hc <;> (try (simp at hc; exact hc.2.symm))
      | some rv => simp at hc; exact hc.2.symm
    subst hlo
    simp only [hc] at hd
    cases st <;> simp only [createDiagnostic, Option.some.injEq, Prod.mk.injEq, Option.getD_some,
      reduceCtorEq] at hd
    · exact Or.inl ⟨hd.1.symm, hd.2.symm⟩
    · exact Or.inr (Or.inr ⟨hd.1.symm, hd.2.symm⟩)
    · exact Or.inr (Or.inl ⟨hd.1.symm, hd.2.symm⟩)

/-- **fill-order independence**: the diagnostic depends on the cached versions only
    through their set (together with C03's `c03_set_invariant` for the latest and the
    C08 refinement for what the reads return, this is "all orders in which the cache was filled") -/
theorem c01_order_independent (m : Matcher) (E : Eco) (h : MatcherLaws m E)
    (latest tagRes : Option Text) (vs₁ vs₂ : List Text) (cur : Text) (hset : ∀ v, v ∈ vs₁ ↔ v ∈ vs₂) :
    diagFor m (okReads latest tagRes vs₁) cur = diagFor m (okReads latest tagRes vs₂) cur := by
  rw [c01_decision m E h, c01_decision m E h]
  have hany : ∀ s, vs₁.any (E.inside s) = vs₂.any (E.inside s) := by
    intro s
    rw [Bool.eq_iff_iff]
    simp only [List.any_eq_true]
    constructor
    · rintro ⟨v, hv, hi⟩; exact ⟨v, (hset v).mp hv, hi⟩
    · rintro ⟨v, hv, hi⟩; exact ⟨v, (hset v).mpr hv, hi⟩
  unfold specDiag
  cases latest with
  | none => rfl
  | some L => simp only [hany]

end Vlsp.C01
