/-
  C16 at the server level — what the backend does with a document, as a function of
  the classification proved correct in Props/C16 (`c16_iff`, `c16_none_iff`).

  Model : Vlsp.Server.{edit, codeAction}  (src/lsp/backend.rs: did_open/did_change →
          cache_document + check_and_publish_diagnostics; code_action)
-/
import Vlsp.Model.Server
import Vlsp.Props.C16

namespace Vlsp.C16
open Vlsp Vlsp.Text Vlsp.Detect Vlsp.Spec.Supported Vlsp.Server

/-- **Unsupported documents are never checked.**  For a URI that names no supported
    manifest — whatever text it holds, whatever the parser would have extracted from
    it, in whatever server state — an edit publishes nothing, shows nothing, starts no
    fetch, touches no cache row and remembers no package; and no code action is ever
    offered in it. -/
theorem c16_unsupported_silent (s : Srv) (uri : Text) (pkgs : List PkgInfo) (content : Text)
    (hu : ¬ Supported uri) :
    (edit s uri pkgs content).2 = [] ∧
    (edit s uri pkgs content).1.db = s.db ∧
    (edit s uri pkgs content).1.tasks = s.tasks ∧
    (edit s uri pkgs content).1.docs.find? (·.1 == uri) = some (uri, []) ∧
    ∀ line ch, codeAction (edit s uri pkgs content).1 uri line ch = none := by
  have hd : detect uri = none := (c16_none_iff uri).mpr hu
  refine ⟨?_, ?_, ?_, ?_, ?_⟩
  · unfold edit checkAndPublish; simp only [hd]
  · unfold edit checkAndPublish cacheDocument; simp only [hd]
  · unfold edit checkAndPublish cacheDocument; simp only [hd]
  · unfold edit checkAndPublish cacheDocument setDoc
    simp [hd]
  · intro line ch
    unfold codeAction; simp only [hd]

/-- **Each by its own ecosystem's rules.**  A supported document of ecosystem `k`
    (declaratively: `Kind uri k`) with a usable cache and `k` enabled is published
    exactly once per edit, with the diagnosis computed by `k`'s registry, matcher and
    cache rows — no other ecosystem's. -/
theorem c16_own_rules (s : Srv) (uri : Text) (k : String) (pkgs : List PkgInfo) (content : Text)
    (hk : Kind uri k) (hen : s.cfg.disabled.contains k.toList = false) (hst : s.store = true) :
    (edit s uri pkgs content).2 = [Msg.pub uri (diagnose (cacheDocument s uri pkgs content) k pkgs)] := by
  have hd : detect uri = some k := (c16_iff uri k).mpr hk
  unfold edit checkAndPublish
  have h1 : (cacheDocument s uri pkgs content).cfg = s.cfg := rfl
  have h2 : (cacheDocument s uri pkgs content).store = s.store := rfl
  simp only [hd, h1, h2, hen, hst]
  simp only [Bool.not_true, Bool.false_eq_true, if_false]
  cases pkgs.isEmpty <;> rfl

/-- a published message is always about the edited document itself -/
theorem c16_publishes_only_own_uri (s : Srv) (uri : Text) (pkgs : List PkgInfo) (content : Text) (m : Msg)
    (hm : m ∈ (edit s uri pkgs content).2) :
    (∃ ds, m = .pub uri ds) ∨ (∃ lvl t, m = .show lvl t) := by
  unfold edit checkAndPublish at hm
  split at hm
  · simp at hm
  · split at hm
    · simp at hm
    · split at hm
      · simp at hm; exact Or.inr ⟨_, _, hm⟩
      · split at hm <;> (simp at hm; exact Or.inl ⟨_, hm⟩)

/-! ### the regenerated tables agree with each other (re-checked against the source on every run) -/

/-- every ecosystem a document can be classified as is a registry type the cache, the
    resolvers and the configuration know by the same string: `RegistryType::as_str` and
    `from_str` are inverse tables, every detectable kind is in them, and every kind has exactly
    one documented `registries.<key>.enabled` switch (and no switch is for an unknown kind) -/
theorem c16_tables_consistent :
    Generated.registryTypes.map (fun p => (p.2, p.1)) = Generated.registryFromStr ∧
    (∀ e ∈ Generated.detectSuffixTable, e.2 ∈ Generated.registryFromStr.map (·.1)) ∧
    Generated.ghaRegistry ∈ Generated.registryFromStr.map (·.1) ∧
    (∀ r ∈ Generated.registryFromStr.map (·.1),
        (Generated.configRegistryKeys.filter (·.2 == r)).length = 1) ∧
    (∀ c ∈ Generated.configRegistryKeys, c.2 ∈ Generated.registryFromStr.map (·.1)) ∧
    (∀ r ∈ Generated.registryFromStr.map (·.1),
        r = Generated.ghaRegistry ∨ r ∈ Generated.detectSuffixTable.map (·.2)) := by
  decide

/-- hence a classified document always belongs to a registry with its own switch -/
theorem c16_detected_has_switch (uri : Text) (k : String) (h : detect uri = some k) :
    (Generated.configRegistryKeys.filter (·.2 == k)).length = 1 := by
  have hmem : k ∈ Generated.registryFromStr.map (·.1) := by
    unfold detect at h
    split at h
    · cases h; exact c16_tables_consistent.2.2.1
    · obtain ⟨sfx, hm, _⟩ := firstSuffix_some h
      exact c16_tables_consistent.2.1 (sfx, k) hm
  exact c16_tables_consistent.2.2.2.1 k hmem

/-! ### non-vacuity -/
example : ¬ Supported "file:///p/mypackage.json".toList := (c16_none_iff _).mp (by decide)
example : Kind "file:///p/Cargo.toml".toList "crates_io" := (c16_iff _ _).mp (by decide)

end Vlsp.C16
