/-
  C04, layout, pyproject.toml: what the pyproject.toml parser reports depends on the syntax tree ONLY through an
  abstract reading of it — tables by their header text, pairs by the sequence of their bare keys (by text) and arrays
  (by the unquoted texts of their string members) — byte positions, white space, `=`, commas, comments, line breaks
  inside arrays and any other nodes do not enter.  Two documents whose trees read as the same abstract TOML therefore
  yield the same list of (distribution, specifier), whatever their layout.  The PEP 508 library is a parameter: the
  statement holds for whatever it makes of a requirement string.
-/
import Vlsp.Props.C04LayoutToml

namespace Vlsp.C04
open Vlsp Vlsp.Text Vlsp.Slice Vlsp.Cst Vlsp.Parsers

/-- a child of a pair of a pyproject table -/
inductive PTok where
  | key (t : Text)
  | array (strs : List Text)     -- the requirement strings of the array, unquoted
  | other
deriving DecidableEq

structure PTable where
  name : Option Text
  pairs : List (List PTok)
deriving DecidableEq

def absArr (content : Text) (arr : Node) : List Text :=
  (arr.children.filter (·.kind == "string")).map fun s => pyUnquote (nodeText content s)

def absPTok (content : Text) (n : Node) : PTok :=
  if n.kind == "bare_key" then .key (nodeText content n)
  else if n.kind == "array" then .array (absArr content n)
  else .other

def absPTable (content : Text) (t : Node) : PTable :=
  ⟨tableName content t, (t.children.filter (·.kind == "pair")).map fun p => p.children.map (absPTok content)⟩

/-- the abstract reading of a pyproject.toml: its top-level tables -/
def absPy (content : Text) (tree : Node) : List PTable := (tree.children.filter (·.kind == "table")).map (absPTable content)

/-! ### the declared requirements, defined on the abstract reading only -/

def aReq (pep : Text → Pep) (s : Text) : Option (Text × Text) :=
  match pep s with
  | .ok name spec => some (name, spec)
  | _ => none

def aArr (pep : Text → Pep) (strs : List Text) : List (Text × Text) := strs.filterMap (aReq pep)

/-- arrays that follow a key equal to `key` -/
def aKeyArray (pep : Text → Pep) (key : Text) : List PTok → Bool → List (Text × Text)
  | [], _ => []
  | .key t :: rest, _ => aKeyArray pep key rest (t == key)
  | .array strs :: rest, isTarget => (if isTarget then aArr pep strs else []) ++ aKeyArray pep key rest isTarget
  | .other :: rest, isTarget => aKeyArray pep key rest isTarget

def aAllArrays (pep : Text → Pep) : List PTok → List (Text × Text)
  | [] => []
  | .array strs :: rest => aArr pep strs ++ aAllArrays pep rest
  | _ :: rest => aAllArrays pep rest

def aPyTable (pep : Text → Pep) (t : PTable) : List (Text × Text) :=
  match t.name with
  | none => []
  | some name =>
    if name == "project".toList then t.pairs.flatMap fun p => aKeyArray pep "dependencies".toList p false
    else if name == "build-system".toList then t.pairs.flatMap fun p => aKeyArray pep "requires".toList p false
    else if name == "project.optional-dependencies".toList then t.pairs.flatMap (aAllArrays pep)
    else []

/-- what pyproject.toml declares, as a function of its abstract reading -/
def declaredPy (pep : Text → Pep) (doc : List PTable) : List (Text × Text) := doc.flatMap (aPyTable pep)

/-! ### the parser computes exactly that -/

theorem pyDependency_abs (pep : Text → Pep) (content : Text) (s : Node) :
    (pyDependency pep content s).map triple = aReq pep (pyUnquote (nodeText content s)) := by
  unfold pyDependency aReq
  simp only
  cases h : pep (pyUnquote (nodeText content s)) with
  | bad => rfl
  | url => rfl
  | ok name spec =>
    simp only
    first | rfl | (split <;> rfl)

theorem pyArray_abs (pep : Text → Pep) (content : Text) (arr : Node) :
    (pyArray pep content arr).map triple = aArr pep (absArr content arr) := by
  unfold pyArray aArr absArr
  induction arr.children.filter (·.kind == "string") with
  | nil => rfl
  | cons s rest ih =>
    simp only [List.filterMap_cons, List.map_cons]
    have := pyDependency_abs pep content s
    cases hp : pyDependency pep content s with
    | none => rw [hp] at this; simp only [Option.map_none] at this; rw [← this]; exact ih
    | some q => rw [hp] at this; simp only [Option.map_some] at this; rw [← this]; simp only [List.map_cons, ih]

theorem absPTok_key (content : Text) (n : Node) (h : n.kind = "bare_key") : absPTok content n = .key (nodeText content n) := by
  simp [absPTok, h]
theorem absPTok_array (content : Text) (n : Node) (h : n.kind = "array") : absPTok content n = .array (absArr content n) := by
  simp [absPTok, h]
theorem absPTok_other (content : Text) (n : Node) (h1 : ¬ n.kind = "bare_key") (h2 : ¬ n.kind = "array") : absPTok content n = .other := by
  simp [absPTok, h1, h2]

theorem keyArray_abs (pep : Text → Pep) (content : Text) (key : Text) (cs : List Node) (isTarget : Bool) :
    (pyKeyArrayPair pep content key cs isTarget).map triple = aKeyArray pep key (cs.map (absPTok content)) isTarget := by
  induction cs generalizing isTarget with
  | nil => rfl
  | cons pc rest ih =>
    unfold pyKeyArrayPair
    simp only [List.map_cons]
    by_cases hb : pc.kind = "bare_key"
    · rw [absPTok_key content pc hb]
      simp only [hb, beq_self_eq_true, if_true, aKeyArray]; exact ih _
    · have hb' : (pc.kind == "bare_key") = false := by simpa using hb
      simp only [hb', Bool.false_eq_true, if_false]
      by_cases ha : pc.kind = "array"
      · have ha' : (pc.kind == "array") = true := by simp [ha]
        rw [absPTok_array content pc ha]
        simp only [ha', Bool.true_and, aKeyArray]
        cases isTarget with
        | true => simp only [if_true, List.map_append, pyArray_abs, ih]
        | false => simp only [Bool.false_eq_true, if_false, List.nil_append]; exact ih _
      · have ha' : (pc.kind == "array") = false := by simpa using ha
        rw [absPTok_other content pc hb ha]
        simp only [ha', Bool.false_and, Bool.false_eq_true, if_false, aKeyArray]; exact ih _

theorem allArrays_abs (pep : Text → Pep) (content : Text) (cs : List Node) :
    ((cs.filter (·.kind == "array")).flatMap (pyArray pep content)).map triple = aAllArrays pep (cs.map (absPTok content)) := by
  induction cs with
  | nil => rfl
  | cons pc rest ih =>
    simp only [List.filter_cons, List.map_cons]
    by_cases ha : pc.kind = "array"
    · have ha' : (pc.kind == "array") = true := by simp [ha]
      rw [absPTok_array content pc ha]
      simp only [ha', if_true, List.flatMap_cons, List.map_append, pyArray_abs, aAllArrays, ih]
    · have ha' : (pc.kind == "array") = false := by simpa using ha
      simp only [ha', Bool.false_eq_true, if_false]
      by_cases hb : pc.kind = "bare_key"
      · rw [absPTok_key content pc hb]; simp only [aAllArrays]; exact ih
      · rw [absPTok_other content pc hb ha]; simp only [aAllArrays]; exact ih

theorem flatMap_map_congr {α β γ δ} (l : List α) (f : α → List β) (h : β → γ) (a : α → δ) (g : δ → List γ)
    (hfg : ∀ x, (f x).map h = g (a x)) : (l.flatMap f).map h = (l.map a).flatMap g := by
  induction l with
  | nil => rfl
  | cons x xs ih => simp only [List.flatMap_cons, List.map_append, List.map_cons, hfg, ih]

theorem pyTable_abs (pep : Text → Pep) (content : Text) (table : Node) :
    (pyTable pep content table).map triple = aPyTable pep (absPTable content table) := by
  unfold pyTable aPyTable absPTable
  simp only
  cases tableName content table with
  | none => rfl
  | some name =>
    simp only
    split
    · exact flatMap_map_congr _ _ _ _ _ (fun p => keyArray_abs pep content _ p.children false)
    · split
      · exact flatMap_map_congr _ _ _ _ _ (fun p => keyArray_abs pep content _ p.children false)
      · split
        · exact flatMap_map_congr _ _ _ _ _ (fun p => allArrays_abs pep content p.children)
        · rfl

/-- **the pyproject.toml parser computes the declared requirements of the abstract reading** -/
theorem c04_py_abstract (pep : Text → Pep) (content : Text) (tree : Node) :
    (pyproject pep content tree).map triple = declaredPy pep (absPy content tree) := by
  unfold pyproject declaredPy absPy
  exact flatMap_map_congr _ _ _ _ _ (fun t => pyTable_abs pep content t)

/-! ### nodes that are neither keys nor arrays (`=`, comments, other value kinds) do not matter either -/

def PTok.isOther : PTok → Bool
  | .other => true
  | _ => false

def normPToks (l : List PTok) : List PTok := l.filter (!·.isOther)

def normPTable (t : PTable) : PTable := ⟨t.name, t.pairs.map normPToks⟩

/-- the abstract reading with everything but keys and arrays dropped -/
def normPy (doc : List PTable) : List PTable := doc.map normPTable

theorem keyArray_norm (pep : Text → Pep) (key : Text) (l : List PTok) (b : Bool) :
    aKeyArray pep key (normPToks l) b = aKeyArray pep key l b := by
  induction l generalizing b with
  | nil => rfl
  | cons x xs ih =>
    cases x with
    | key t => simp only [normPToks, List.filter_cons, PTok.isOther, Bool.not_false, if_true, aKeyArray]; exact ih _
    | array s => simp only [normPToks, List.filter_cons, PTok.isOther, Bool.not_false, if_true, aKeyArray]; rw [← ih]; rfl
    | other => simp only [normPToks, List.filter_cons, PTok.isOther, Bool.not_true, Bool.false_eq_true, if_false, aKeyArray]; exact ih _

theorem allArrays_norm (pep : Text → Pep) (l : List PTok) : aAllArrays pep (normPToks l) = aAllArrays pep l := by
  induction l with
  | nil => rfl
  | cons x xs ih =>
    cases x with
    | key t => simp only [normPToks, List.filter_cons, PTok.isOther, Bool.not_false, if_true, aAllArrays]; exact ih
    | array s => simp only [normPToks, List.filter_cons, PTok.isOther, Bool.not_false, if_true, aAllArrays]; rw [← ih]; rfl
    | other => simp only [normPToks, List.filter_cons, PTok.isOther, Bool.not_true, Bool.false_eq_true, if_false, aAllArrays]; exact ih

theorem pyTable_norm (pep : Text → Pep) (t : PTable) : aPyTable pep (normPTable t) = aPyTable pep t := by
  unfold aPyTable normPTable
  simp only
  cases t.name with
  | none => rfl
  | some name =>
    simp only
    split
    · rw [List.flatMap_map]; congr 1; funext p; exact keyArray_norm pep _ p false
    · split
      · rw [List.flatMap_map]; congr 1; funext p; exact keyArray_norm pep _ p false
      · split
        · rw [List.flatMap_map]; congr 1; funext p; exact allArrays_norm pep p
        · rfl

theorem declaredPy_norm (pep : Text → Pep) (doc : List PTable) : declaredPy pep (normPy doc) = declaredPy pep doc := by
  unfold declaredPy normPy
  induction doc with
  | nil => rfl
  | cons t rest ih => simp only [List.map_cons, List.flatMap_cons, pyTable_norm, ih]

/-- **layout invariance for pyproject.toml**: two documents (any texts, any trees) whose abstract readings agree on
    table headers, keys and the requirement strings of arrays — whatever white space, `=` spacing, commas, comments,
    line breaks inside arrays, quote characters and line endings they have — declare the same requirements, in the
    same order, whatever the PEP 508 library makes of each string -/
theorem c04_py_layout_invariant_norm (pep : Text → Pep) (c1 c2 : Text) (t1 t2 : Node)
    (h : normPy (absPy c1 t1) = normPy (absPy c2 t2)) :
    (pyproject pep c1 t1).map triple = (pyproject pep c2 t2).map triple := by
  rw [c04_py_abstract, c04_py_abstract, ← declaredPy_norm, h, declaredPy_norm]

/-- non-vacuity: an abstract reading that declares something -/
example : declaredPy (fun s => if s == "requests>=2".toList then .ok "requests".toList ">=2".toList else .bad)
    [⟨some "project".toList, [[.key "dependencies".toList, .other, .array ["requests>=2".toList, "junk".toList]]]⟩]
    = [("requests".toList, ">=2".toList)] := by decide

end Vlsp.C04
