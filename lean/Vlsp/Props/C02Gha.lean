/-
  C02 / C01 — the GitHub Actions and Go matchers satisfy the `MatcherLaws` that C01's decision theorem needs:
  "the latest is inside the ref" and "some cached version is inside the ref" are the SAME relation.
-/
import Vlsp.Props.C02
import Vlsp.Lemmas.SemverEq

namespace Vlsp.C02
open Vlsp Vlsp.Text Vlsp.Semver

/-! ### GitHub Actions refs (`v4`, `v4.1`, `v4.1.2`: precision = number of components written) -/

/-- a ref read as a version -/
def ghaParse (s : Text) : Option Version := (Gha.normalizeVersion s).bind parseStrict

/-- `v` is inside ref `s` at the precision `s` is written with -/
def ghaInside (parts : Nat) (cur av : Version) : Bool :=
  if parts == 1 then cur.major == av.major
  else if parts == 2 then cur.major == av.major && cur.minor == av.minor
  else cur == av

/-- the ref is below `l` at its precision -/
def ghaBelow (parts : Nat) (cur lat : Version) : Bool :=
  if parts == 1 then cmpNat cur.major lat.major == .lt
  else if parts == 2 then ordThen (cmpNat cur.major lat.major) (cmpNat cur.minor lat.minor) == .lt
  else cmp cur lat == .lt

def ghaEco : Eco where
  wf s := (ghaParse s).isSome
  wfV l := (ghaParse l).isSome
  inside s v :=
    match ghaParse s, ghaParse v with
    | some cur, some av => ghaInside (Gha.countVersionParts s) cur av
    | _, _ => false
  alwaysPresent _ := false
  unanchored _ := false
  anchorBelow s l :=
    match ghaParse s, ghaParse l with
    | some cur, some lat => ghaBelow (Gha.countVersionParts s) cur lat
    | _, _ => false

theorem cmpNat_eq_iff (a b : Nat) : cmpNat a b = .eq ↔ a = b := by
  unfold cmpNat; exact Nat.compare_eq_eq

theorem ordToResult_latest (o : Ordering) : Gha.ordToResult o = .latest ↔ o = .eq := by cases o <;> simp [Gha.ordToResult]
theorem ordToResult_outdated (o : Ordering) : Gha.ordToResult o = .outdated ↔ o = .lt := by cases o <;> simp [Gha.ordToResult]
theorem ordToResult_not_invalid (o : Ordering) : Gha.ordToResult o ≠ .invalid := by cases o <;> simp [Gha.ordToResult]

/-- at every precision: "compares equal" is "is inside" -/
theorem gha_latest_inside (parts : Nat) (cur lat : Version) :
    (if parts == 1 then Gha.ordToResult (cmpNat cur.major lat.major)
     else if parts == 2 then Gha.ordToResult (ordThen (cmpNat cur.major lat.major) (cmpNat cur.minor lat.minor))
     else Gha.ordToResult (cmp cur lat)) = .latest ↔ ghaInside parts cur lat = true := by
  unfold ghaInside
  split
  · rw [ordToResult_latest, cmpNat_eq_iff]; simp
  · split
    · rw [ordToResult_latest]; unfold ordThen; rw [Ordering.then_eq_eq, cmpNat_eq_iff, cmpNat_eq_iff]; simp
    · rw [ordToResult_latest, cmp_eq_iff_eq]; simp

theorem gha_outdated_below (parts : Nat) (cur lat : Version) :
    (if parts == 1 then Gha.ordToResult (cmpNat cur.major lat.major)
     else if parts == 2 then Gha.ordToResult (ordThen (cmpNat cur.major lat.major) (cmpNat cur.minor lat.minor))
     else Gha.ordToResult (cmp cur lat)) = .outdated ↔ ghaBelow parts cur lat = true := by
  unfold ghaBelow
  split
  · rw [ordToResult_outdated]; simp
  · split
    · rw [ordToResult_outdated]; simp
    · rw [ordToResult_outdated]; simp

/-- the two ways the matcher reads a ref agree: `compare_versions` parses exactly what `ghaParse` parses -/
theorem gha_cmp_unfold (s l : Text) :
    Gha.compareVersions s l =
      match ghaParse s, ghaParse l with
      | some cur, some lat =>
        (if Gha.countVersionParts s == 1 then Gha.ordToResult (cmpNat cur.major lat.major)
         else if Gha.countVersionParts s == 2 then Gha.ordToResult (ordThen (cmpNat cur.major lat.major) (cmpNat cur.minor lat.minor))
         else Gha.ordToResult (cmp cur lat))
      | _, _ => .invalid := by
  unfold Gha.compareVersions ghaParse
  cases hs : Gha.normalizeVersion s with
  | none => simp
  | some cn =>
    cases hl : Gha.normalizeVersion l with
    | none =>
      simp only [Option.bind_some, Option.bind_none]
      cases parseStrict cn <;> rfl
    | some ln =>
      simp only [Option.bind_some]
      cases parseStrict cn with
      | none => rfl
      | some cur =>
        cases parseStrict ln with
        | none => rfl
        | some lat => rfl

theorem gha_laws : MatcherLaws Gha.matcher ghaEco where
  invalid_iff s l := by
    simp only [Gha.matcher, gha_cmp_unfold, ghaEco]
    cases ghaParse s with
    | none => simp
    | some cur =>
      cases ghaParse l with
      | none => simp
      | some lat =>
        simp only [Option.isSome_some, Bool.true_eq_false, or_self, iff_false]
        split
        · exact ordToResult_not_invalid _
        · split <;> exact ordToResult_not_invalid _
  latest_iff s l := by
    simp only [Gha.matcher, gha_cmp_unfold, ghaEco]
    cases ghaParse s with
    | none => simp
    | some cur =>
      cases ghaParse l with
      | none => simp
      | some lat =>
        simp only [Option.isSome_some, true_and, Bool.false_eq_true, or_false]
        exact gha_latest_inside _ cur lat
  outdated_iff s l := by
    simp only [Gha.matcher, gha_cmp_unfold, ghaEco]
    cases ghaParse s with
    | none => simp
    | some cur =>
      cases ghaParse l with
      | none => simp
      | some lat =>
        simp only [Option.isSome_some, true_and, and_true]
        rw [gha_outdated_below]
        constructor
        · intro hb
          refine ⟨?_, hb⟩
          -- below ⇒ not inside
          cases hi : ghaInside (Gha.countVersionParts s) cur lat with
          | false => rfl
          | true =>
            exfalso
            have h1 := (gha_latest_inside (Gha.countVersionParts s) cur lat).mpr hi
            have h2 := (gha_outdated_below (Gha.countVersionParts s) cur lat).mpr hb
            rw [h1] at h2; cases h2
        · exact fun h => h.2
  exists_iff s vs hwf := by
    simp only [Gha.matcher, Gha.versionMatchesAny, ghaEco, Bool.false_eq_true, false_or] at hwf ⊢
    unfold ghaParse at hwf ⊢
    cases hs : Gha.normalizeVersion s with
    | none => simp [hs] at hwf
    | some cn =>
      simp only [hs, Option.bind_some] at hwf ⊢
      cases hc : parseStrict cn with
      | none => simp [hc] at hwf
      | some cur =>
        simp only [List.any_eq_true]
        constructor
        · rintro ⟨a, ha, hm⟩
          refine ⟨a, ha, ?_⟩
          cases hn : Gha.normalizeVersion a with
          | none => simp [hn] at hm
          | some an =>
            simp only [hn, Option.bind_some] at hm ⊢
            cases hp : parseStrict an with
            | none => simp [hp] at hm
            | some av => simpa [hp, ghaInside] using hm
        · rintro ⟨a, ha, hm⟩
          refine ⟨a, ha, ?_⟩
          cases hn : Gha.normalizeVersion a with
          | none => simp [hn] at hm
          | some an =>
            simp only [hn, Option.bind_some] at hm ⊢
            cases hp : parseStrict an with
            | none => simp [hp] at hm
            | some av => simpa [hp, ghaInside] using hm

/-- C01's decision theorem therefore holds verbatim for GitHub Actions refs -/
theorem c01_gha (latest tagRes : Option Text) (versions : List Text) (cur : Text) :
    Checker.diagFor Gha.matcher (C01.okReads latest tagRes versions) cur = Spec.Decision.specDiag ghaEco latest tagRes versions cur :=
  C01.c01_decision Gha.matcher ghaEco gha_laws latest tagRes versions cur

end Vlsp.C02
