/-
  C13 — last published diagnostics match the document's latest text and the cache.
  Model: Vlsp.Server (src/lsp/backend.rs check_and_publish_diagnostics + the spawned fetch task).
-/
import Vlsp.Model.Server

namespace Vlsp.C13
open Vlsp Vlsp.Text Vlsp.Server

inductive Ev
  | edit (uri : Text) (pkgs : List PkgInfo)                 -- didOpen / didChange (packages of the new text)
  | reply (reg name : Text) (o : Fetch.Outcome)             -- a registry answer arrives
  | close (uri : Text)                                       -- didClose

def step (s : Srv) : Ev → Srv × List Msg
  | .edit uri pkgs => Server.edit s uri pkgs
  | .reply reg name o => Server.reply s reg name o
  | .close uri => (Server.close s uri, [])

/-- run a schedule, collecting everything published (oldest first) -/
def run (s : Srv) : List Ev → Srv × List Msg
  | [] => (s, [])
  | e :: es =>
    let (s1, m1) := step s e
    let (s2, m2) := run s1 es
    (s2, m1 ++ m2)

def lastPub (uri : Text) (log : List Msg) : Option (List Diag) :=
  log.foldl (fun acc m => match m with | .pub u ds => if u == uri then some ds else acc | _ => acc) none

/-- what the property demands at quiescence: the diagnostics of the latest text against the cache -/
def wanted (s : Srv) (uri : Text) (reg : String) : Option (List Diag) :=
  (s.docs.find? (·.1 == uri)).map fun (_, pkgs) => diagnose s reg pkgs

def Quiescent (s : Srv) : Prop := s.tasks.isEmpty = true

/-- **an edit publishes its own revision, immediately**: right after didOpen/didChange of a supported,
    enabled document with a usable cache, what was published last for it is the diagnosis of THAT text
    against the cache as it is — never an older revision -/
theorem c13_immediate (s : Srv) (uri : Text) (pkgs : List PkgInfo) (reg : String)
    (hd : Detect.detect uri = some reg) (he : s.cfg.disabled.contains reg.toList = false) (hs : s.store = true) :
    lastPub uri (Server.edit s uri pkgs).2 = some (diagnose s reg pkgs) := by
  unfold Server.edit checkAndPublish cacheDocument
  have hns : (!s.store) = false := by rw [hs]; rfl
  simp only [hd, he, hns, Bool.false_eq_true, if_false, Option.isSome_some, if_true]
  have hdg : diagnose { s with docs := setDoc s.docs uri pkgs } reg pkgs = diagnose s reg pkgs := rfl
  split
  · show lastPub uri [Msg.pub uri (diagnose { s with docs := setDoc s.docs uri pkgs } reg pkgs)] = _
    rw [hdg]; simp [lastPub]
  · show lastPub uri [Msg.pub uri (diagnose { s with docs := setDoc s.docs uri pkgs } reg pkgs)] = _
    rw [hdg]; simp [lastPub]

/-- finishing a task only removes it: cache, documents and configuration are untouched -/
theorem finishTask_state (s : Srv) (i : Nat) (t : Task) : (finishTask s i t).1 = { s with tasks := s.tasks.eraseIdx i } := by
  unfold finishTask
  cases t.uri with
  | none => rfl
  | some uri => simp only; split <;> rfl

/-- **the completion of a fetch task publishes only diagnoses of CURRENT texts**: every message is, for some open
    document (the task's own, or another one of the same registry), the diagnosis of the text that document has
    now against the cache at that moment -/
theorem c13_task_publishes_current (s : Srv) (i : Nat) (t : Task) (m : Msg) (h : m ∈ (finishTask s i t).2) :
    ∃ uri d, t.uri = some uri ∧ d ∈ s.docs ∧ (d.1 = uri ∨ (Detect.detect d.1).map String.toList = some t.reg) ∧
      m = .pub d.1 (diagnose (finishTask s i t).1 (String.ofList t.reg) d.2) := by
  rw [finishTask_state]
  unfold finishTask at h
  cases hu : t.uri with
  | none => simp [hu] at h
  | some uri =>
    simp only [hu] at h
    split at h
    · cases h
    · simp only [List.mem_map, affected, List.mem_filter] at h
      obtain ⟨d, ⟨hd, hcond⟩, hm⟩ := h
      refine ⟨uri, d, rfl, hd, ?_, hm.symm⟩
      simp only [Bool.or_eq_true, beq_iff_eq, Bool.and_eq_true] at hcond
      rcases hcond with h1 | ⟨h2, _⟩
      · exact Or.inl h1
      · exact Or.inr h2

/-- **every other open document that uses a fetched package is re-checked too** (this was missing on the pinned
    tree: F-C13-2, repaired) -/
theorem c13_task_republishes_users (s : Srv) (i : Nat) (t : Task) (uri : Text) (d : Text × List PkgInfo)
    (hu : t.uri = some uri) (hf : t.fetched.isEmpty = false) (hd : d ∈ s.docs)
    (hreg : (Detect.detect d.1).map String.toList = some t.reg) (p : PkgInfo) (hp : p ∈ d.2) (hn : p.name ∈ t.fetched) :
    Msg.pub d.1 (diagnose (finishTask s i t).1 (String.ofList t.reg) d.2) ∈ (finishTask s i t).2 := by
  rw [finishTask_state]
  unfold finishTask
  simp only [hu, hf, Bool.false_eq_true, if_false, List.mem_map, affected, List.mem_filter]
  refine ⟨d, ⟨hd, ?_⟩, rfl⟩
  simp only [Bool.or_eq_true, beq_iff_eq, Bool.and_eq_true, List.any_eq_true]
  right
  exact ⟨hreg, p, hp, by simpa using hn⟩

theorem reply_docs (s : Srv) (reg name : Text) (o : Fetch.Outcome) : (Server.reply s reg name o).1.docs = s.docs := by
  unfold Server.reply
  cases hi : s.tasks.findIdx? (holds reg name) with
  | none => rfl
  | some i =>
    simp only
    cases ht : s.tasks[i]? with
    | none => rfl
    | some t =>
      simp only
      split
      · rw [finishTask_state]
      · rfl

/-- documents are keyed by URI -/
def UniqueDocs (s : Srv) : Prop := (s.docs.map (·.1)).Nodup

theorem find_of_mem_unique (docs : List (Text × List PkgInfo)) (h : (docs.map (·.1)).Nodup) (d : Text × List PkgInfo)
    (hd : d ∈ docs) : docs.find? (·.1 == d.1) = some d := by
  induction docs with
  | nil => cases hd
  | cons x xs ih =>
    simp only [List.map_cons, List.nodup_cons, List.mem_map, not_exists, not_and] at h
    rcases List.mem_cons.mp hd with rfl | hmem
    · simp
    · have hne : (x.1 == d.1) = false := by
        have := h.1 d hmem
        simp only [beq_eq_false_iff_ne, ne_eq]
        exact fun e => this e.symm
      simp only [List.find?_cons, hne]
      exact ih h.2 hmem

theorem edit_unique (s : Srv) (uri : Text) (pkgs : List PkgInfo) (h : UniqueDocs s) : UniqueDocs (Server.edit s uri pkgs).1 := by
  have hdocs : (Server.edit s uri pkgs).1.docs = setDoc s.docs uri (if (Detect.detect uri).isSome then pkgs else []) := by
    unfold Server.edit checkAndPublish cacheDocument
    simp only
    cases Detect.detect uri with
    | none => rfl
    | some reg =>
      simp only
      split
      · rfl
      · split
        · rfl
        · split
          · rfl
          · unfold spawnTask; simp only; split <;> rfl
  unfold UniqueDocs at h ⊢
  rw [hdocs]
  unfold setDoc
  simp only [List.map_cons, List.nodup_cons, List.mem_map, List.mem_filter, not_exists, not_and]
  refine ⟨?_, ?_⟩
  · rintro ⟨u, p⟩ ⟨_, hne⟩ heq
    simp only [bne_iff_ne, ne_eq] at hne
    exact hne heq
  · exact (List.Sublist.map _ List.filter_sublist).nodup h

/-- everything a registry reply makes the server publish comes from the completion of the task that held the
    claim and is the diagnosis of some open document's CURRENT text -/
theorem c13_reply_publishes_only_current (s : Srv) (reg name : Text) (o : Fetch.Outcome) (m : Msg)
    (h : m ∈ (Server.reply s reg name o).2) :
    ∃ d ∈ s.docs, m = .pub d.1 (diagnose (Server.reply s reg name o).1 (String.ofList reg) d.2) := by
  cases hi : s.tasks.findIdx? (holds reg name) with
  | none => unfold Server.reply at h; rw [hi] at h; cases h
  | some i =>
    cases ht : s.tasks[i]? with
    | none => unfold Server.reply at h; rw [hi] at h; simp only [ht] at h; cases h
    | some t =>
      have hreg : t.reg = reg := by
        obtain ⟨hlt, hp, _⟩ := List.findIdx?_eq_some_iff_getElem.mp hi
        have hti : s.tasks[i] = t := by
          have := List.getElem?_eq_getElem hlt
          rw [this] at ht; exact Option.some.inj ht
        rw [hti] at hp
        unfold holds at hp
        simp only [Bool.and_eq_true, beq_iff_eq] at hp
        exact hp.1
      by_cases hw : (removeFirst name t.waiting).isEmpty = true
      · have heq : Server.reply s reg name o =
            finishTask { s with db := (applyOutcome s.db ⟨reg, name⟩ s.now o).1 } i
              { t with waiting := removeFirst name t.waiting,
                       fetched := if (applyOutcome s.db ⟨reg, name⟩ s.now o).2 then t.fetched ++ [name] else t.fetched } := by
          unfold Server.reply; rw [hi]; simp only [ht]; rw [if_pos hw]
        rw [heq] at h ⊢
        obtain ⟨uri, d, _, hd, _, hm⟩ := c13_task_publishes_current _ i _ m h
        refine ⟨d, hd, ?_⟩
        rw [hm]
        show Msg.pub d.1 (diagnose _ (String.ofList t.reg) d.2) = Msg.pub d.1 (diagnose _ (String.ofList reg) d.2)
        rw [hreg]
      · have heq : (Server.reply s reg name o).2 = [] := by
          unfold Server.reply; rw [hi]; simp only [ht]; rw [if_neg hw]
        rw [heq] at h; cases h

/-- **no stale republication, on EVERY schedule**: whatever a completed fetch publishes for a document is exactly
    the diagnosis of that document's latest text against the cache at that moment — edits made while the fetch was
    running included (false on the pinned tree: F-C13-1, repaired) -/
theorem c13_republication_is_current (s : Srv) (hu : UniqueDocs s) (reg name : Text) (o : Fetch.Outcome) (uri : Text) (ds : List Diag)
    (h : Msg.pub uri ds ∈ (Server.reply s reg name o).2) :
    some ds = wanted (Server.reply s reg name o).1 uri (String.ofList reg) := by
  obtain ⟨d, hd, hm⟩ := c13_reply_publishes_only_current s reg name o _ h
  simp only [Msg.pub.injEq] at hm
  obtain ⟨rfl, rfl⟩ := hm
  unfold wanted
  rw [reply_docs, find_of_mem_unique s.docs hu d hd]
  rfl

/-! ### the full statement, and the schedule on which it still fails -/

/-- full C13 (kept visible as first written; PROVED in Props/C13Full.lean as `c13_full_holds`, for schedules whose registry
    replies carry dist-tag maps with distinct names — what the code can receive, the map is a `HashMap`): for every schedule that ends quiescent, every document's last
    publication is the diagnosis of its latest text against the final cache (schedules of edits, replies and didClose; the
    documents in question are those open at the end) -/
def c13_full : Prop :=
  ∀ (evs : List Ev) (uri : Text) (reg : String), Detect.detect uri = some reg →
    let r := run {} evs
    Quiescent r.1 → (∃ d ∈ r.1.docs, d.1 = uri) → lastPub uri r.2 = wanted r.1 uri reg

def lodash (spec : String) : PkgInfo := ⟨"lodash".toList, spec.toList, none, 30, 30 + spec.length, 2, 15, none⟩
def uriA : Text := "file:///w/a/package.json".toList
def uriB : Text := "file:///w/b/package.json".toList
def okReply : Fetch.Outcome := .ok ["4.17.20".toList, "4.17.21".toList, "4.18.0".toList] []

/-- the schedule of F-C13-1 (open, edit, the first fetch completes), after the repair: the task re-reads the
    document, so the last publication is the diagnosis of the LATEST text -/
theorem c13_edit_during_fetch_example :
    let evs := [Ev.edit uriA [lodash "4.17.20"], Ev.edit uriA [lodash "4.18.0"], Ev.reply "npm".toList "lodash".toList okReply]
    let r := run {} evs
    r.1.tasks.isEmpty = true ∧ wanted r.1 uriA "npm" = some [] ∧ lastPub uriA r.2 = some [] := by
  decide

/-- the schedule of F-C13-2 (two documents need the same uncached package; the second task's claim is refused),
    after the repair: the task that fetched the package re-checks the other document too -/
theorem c13_shared_package_example :
    let evs := [Ev.edit uriA [lodash "4.17.20"], Ev.edit uriB [lodash "4.17.21"], Ev.reply "npm".toList "lodash".toList okReply]
    let r := run {} evs
    r.1.tasks.isEmpty = true ∧ lastPub uriB r.2 = wanted r.1 uriB "npm" ∧ lastPub uriA r.2 = wanted r.1 uriA "npm" ∧
    (lastPub uriB r.2).map (fun ds => ds.map (·.msg)) = some ["Update available: 4.17.21 -> 4.18.0".toList] := by
  decide

/-- **convergence of a plain open** (the property's last sentence, for one document): opening a document
    whose package is not cached and receiving its versions ends quiescent with exactly the diagnostics
    of opening it with the cache already populated -/
theorem c13_open_converges_example :
    let r := run {} [Ev.edit uriA [lodash "4.17.20"], Ev.reply "npm".toList "lodash".toList okReply]
    r.1.tasks.isEmpty = true ∧ lastPub uriA r.2 = wanted r.1 uriA "npm" ∧
    lastPub uriA (Server.edit { (run {} [Ev.edit uriA [lodash "4.17.20"], Ev.reply "npm".toList "lodash".toList okReply]).1 with tasks := [] }
      uriA [lodash "4.17.20"]).2 = lastPub uriA r.2 := by
  decide

end Vlsp.C13
