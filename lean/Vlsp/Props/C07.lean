/-
  C07 — applying an offered version bump rewrites only that version, to a real newer one.
  Model: Vlsp.Bump (src/lsp/code_action.rs) over Vlsp.Semver.calcLatest* (src/version/semver.rs).
-/
import Vlsp.Model.Bump
import Vlsp.Lemmas.MaxBy
import Vlsp.Spec.BumpSpec

namespace Vlsp.C07
open Vlsp Vlsp.Text Vlsp.Semver Vlsp.Bump Std

/-- what a bump line (patch / minor / major) is: which cached versions compete -/
def inLine (keep : Version → Version → Bool) (cur : Version) (v : Version) : Bool := keep cur v

/-- **target soundness** for one line: the advertised text is the canonical spelling of a cached
    version that parses, lies on the line, is STRICTLY newer than the current one and is not below any
    other cached version on the line -/
theorem calcLatest_sound (keep : Version → Version → Bool) (current : Text) (vs : List Text) (t : Text)
    (h : calcLatest keep current vs = some t) :
    ∃ cur best, parseVersion current = some cur ∧
      (∃ v ∈ vs, parseVersion v = some best) ∧ keep cur best = true ∧ t = toText best ∧
      cmp best cur = .gt ∧
      ∀ v ∈ vs, ∀ pv, parseVersion v = some pv → keep cur pv = true → cmp pv best ≠ .gt := by
  unfold calcLatest at h
  cases hc : parseVersion current with
  | none => simp [hc] at h
  | some cur =>
    simp only [hc] at h
    cases hm : lastMaxBy cmp ((vs.filterMap parseVersion).filter (keep cur)) with
    | none => simp [hm] at h
    | some best =>
      simp only [hm] at h
      split at h
      · rename_i hg
        obtain ⟨hmem, hmax⟩ := lastMaxBy_spec cmp hm
        have hf := List.mem_filter.mp hmem
        obtain ⟨v, hv, hpv⟩ := List.mem_filterMap.mp hf.1
        refine ⟨cur, best, rfl, ⟨v, hv, hpv⟩, hf.2, (Option.some.inj h).symm, ?_, ?_⟩
        · simpa [gt] using hg
        · intro w hw pw hpw hk
          exact hmax pw (List.mem_filter.mpr ⟨List.mem_filterMap.mpr ⟨w, hw, hpw⟩, hk⟩)
      · cases h

/-- completeness for one line: if some cached version on the line is strictly newer, a target is offered -/
theorem calcLatest_complete (keep : Version → Version → Bool) (current : Text) (vs : List Text)
    (cur : Version) (hc : parseVersion current = some cur)
    (w : Text) (hw : w ∈ vs) (pw : Version) (hpw : parseVersion w = some pw) (hk : keep cur pw = true)
    (hnew : cmp pw cur = .gt) : (calcLatest keep current vs).isSome = true := by
  unfold calcLatest
  simp only [hc]
  have hmem : pw ∈ (vs.filterMap parseVersion).filter (keep cur) :=
    List.mem_filter.mpr ⟨List.mem_filterMap.mpr ⟨w, hw, hpw⟩, hk⟩
  cases hm : lastMaxBy cmp ((vs.filterMap parseVersion).filter (keep cur)) with
  | none =>
    have := (lastMaxBy_none_iff cmp).mp hm
    rw [this] at hmem; cases hmem
  | some best =>
    simp only
    obtain ⟨_, hmax⟩ := lastMaxBy_spec cmp hm
    have h1 : cmp pw best ≠ .gt := hmax pw hmem
    -- best ≥ pw > cur
    have : gt best cur = true := by
      unfold Semver.gt
      have hb : cmp best pw ≠ .lt := by
        rw [cmp_swap best pw]; cases hh : cmp pw best <;> simp_all [Ordering.swap]
      have hc' : cmp cur pw = .lt := (cmp_gt_iff_lt pw cur).mp hnew
      -- cur < pw ≤ best
      have hle : cmp cur best ≠ .gt :=
        le_trans' (by rw [hc']; decide) (by rw [cmp_swap pw best]; cases hh : cmp best pw <;> simp_all [Ordering.swap])
      cases hcb : cmp cur best with
      | gt => exact absurd hcb hle
      | lt => rw [(cmp_gt_iff_lt best cur).mpr hcb]; rfl
      | eq =>
        -- cur = best in precedence, but pw > cur and pw ≤ best: contradiction
        exfalso
        have : cmp pw best = .gt := by
          have e1 : cmp best cur = .eq := cmp_eq_symm hcb
          -- pw > cur and cur ~ best  ⇒  pw > best
          have hle2 : cmp best pw ≠ .gt := le_trans' (by rw [e1]; decide) (by rw [hc']; decide)
          have hne : cmp best pw ≠ .eq := by
            intro he
            have := eq_trans' (cmp_eq_symm he) e1
            rw [this] at hnew; cases hnew
          cases hbp : cmp best pw with
          | gt => exact absurd hbp hle2
          | eq => exact absurd hbp hne
          | lt => exact (cmp_gt_iff_lt pw best).mpr hbp
        exact h1 this
    simp [this]

/-- every offered action comes from one of the three lines and carries the preserved prefix -/
theorem mem_dedup {ts : List (Option Text × String)} {seen : List Text} {v : Text} {l : String}
    (h : (v, l) ∈ dedupTargets ts seen) : (some v, l) ∈ ts ∧ v ∉ seen := by
  induction ts generalizing seen with
  | nil => cases h
  | cons t rest ih =>
    obtain ⟨o, l'⟩ := t
    cases o with
    | none =>
      simp only [dedupTargets] at h
      obtain ⟨a, b⟩ := ih h
      exact ⟨List.mem_cons_of_mem _ a, b⟩
    | some w =>
      simp only [dedupTargets] at h
      split at h
      · obtain ⟨a, b⟩ := ih h
        exact ⟨List.mem_cons_of_mem _ a, b⟩
      · rename_i hs
        rcases List.mem_cons.mp h with he | h'
        · cases he
          exact ⟨List.mem_cons_self, by simpa using hs⟩
        · obtain ⟨a, b⟩ := ih h'
          exact ⟨List.mem_cons_of_mem _ a, fun hm => b (List.mem_cons_of_mem _ hm)⟩

/-- each distinct target is offered exactly once -/
theorem dedup_nodup (ts : List (Option Text × String)) (seen : List Text) :
    ((dedupTargets ts seen).map (·.1)).Nodup ∧ ∀ x ∈ (dedupTargets ts seen).map (·.1), x ∉ seen := by
  induction ts generalizing seen with
  | nil => simp [dedupTargets]
  | cons t rest ih =>
    obtain ⟨o, l⟩ := t
    cases o with
    | none => simpa [dedupTargets] using ih seen
    | some w =>
      simp only [dedupTargets]
      split
      · exact ih seen
      · rename_i hs
        obtain ⟨h1, h2⟩ := ih (w :: seen)
        refine ⟨?_, ?_⟩
        · simp only [List.map_cons, List.nodup_cons]
          exact ⟨fun hm => (h2 w hm) List.mem_cons_self, h1⟩
        · intro x hx
          simp only [List.map_cons, List.mem_cons] at hx
          rcases hx with rfl | hx
          · simpa using hs
          · exact fun hm => (h2 x hx) (List.mem_cons_of_mem _ hm)

/-- **C07, the offered actions**: every action offered for a package is one of the three targets,
    its new text is the preserved range operator followed by the target, its title names it, its edit
    covers exactly `[column, column + |version|)` on the package's line — and the target is sound -/
theorem c07_action_sound (vs : List Text) (p : PkgInfo) (a : Action) (h : a ∈ bumpActions (some vs) p) :
    ∃ t label keep, (label, keep) ∈ [("patch", fun (c v : Version) => v.major == c.major && v.minor == c.minor),
                                     ("minor", fun c v => v.major == c.major), ("major", fun _ _ => true)] ∧
      calcLatest keep p.version vs = some t ∧
      a.newText = extractPrefix p.version ++ t ∧
      a.title = titleFor label (extractPrefix p.version ++ t) ∧
      a.line = p.line ∧ a.startCol = p.column ∧ a.endCol = p.column + byteLen p.version := by
  unfold bumpActions at h
  simp only at h
  split at h
  · cases h
  · obtain ⟨⟨t, label⟩, hm, rfl⟩ := List.mem_map.mp h
    obtain ⟨hmem, _⟩ := mem_dedup hm
    simp only [targets, List.mem_cons, List.not_mem_nil, or_false, Prod.mk.injEq] at hmem
    rcases hmem with ⟨h1, rfl⟩ | ⟨h1, rfl⟩ | ⟨h1, rfl⟩
    · exact ⟨t, "patch", _, by simp, h1.symm, rfl, rfl, rfl, rfl, rfl⟩
    · exact ⟨t, "minor", _, by simp, h1.symm, rfl, rfl, rfl, rfl, rfl⟩
    · exact ⟨t, "major", _, by simp, h1.symm, rfl, rfl, rfl, rfl, rfl⟩

/-- no action when the package is not cached, the cache read failed, or the current spec has no
    version to start from -/
theorem c07_none (p : PkgInfo) :
    bumpActions none p = [] ∧ bumpActions (some []) p = [] ∧
    (parseVersion p.version = none → ∀ vs, bumpActions (some vs) p = []) := by
  refine ⟨rfl, rfl, ?_⟩
  intro hp vs
  unfold bumpActions
  simp only
  split
  · rfl
  · simp [targets, calcLatestPatch, calcLatestMinor, calcLatestMajor, calcLatest, hp, dedupTargets]

/-- offered targets are pairwise different (each target once) -/
theorem c07_each_once (vs : List Text) (p : PkgInfo) : ((bumpActions (some vs) p).map (·.newText)).Nodup := by
  unfold bumpActions
  simp only
  split
  · simp
  · have h := (dedup_nodup (targets p.version vs) []).1
    rw [List.map_map]
    have : ((fun a : Action => a.newText) ∘ fun (x : Text × String) =>
        bumpAction (titleFor x.2 (extractPrefix p.version ++ x.1)) (extractPrefix p.version ++ x.1) p)
        = fun x => extractPrefix p.version ++ x.1 := by funext x; rfl
    rw [this]
    have : (List.map (fun x : Text × String => extractPrefix p.version ++ x.1) (dedupTargets (targets p.version vs) []))
        = ((dedupTargets (targets p.version vs) []).map (·.1)).map (extractPrefix p.version ++ ·) := by
      rw [List.map_map]; rfl
    rw [this]
    generalize (dedupTargets (targets p.version vs) []).map (·.1) = l at h
    induction l with
    | nil => simp
    | cons x xs ih =>
      simp only [List.nodup_cons] at h
      simp only [List.map_cons, List.nodup_cons, List.mem_map, List.append_cancel_left_eq, exists_eq_right]
      exact ⟨h.1, ih h.2⟩

/-- the cursor test: a package is found only if the cursor is on its line inside
    `[column, column + |version|)`, and it is the first such package of the document -/
theorem c07_find_sound (pkgs : List PkgInfo) (line ch : Nat) (p : PkgInfo)
    (h : findAtPosition pkgs line ch = some p) :
    p ∈ pkgs ∧ p.line = line ∧ p.column ≤ ch ∧ ch < p.column + byteLen p.version := by
  unfold findAtPosition at h
  have hm := List.mem_of_find?_eq_some h
  have hp := List.find?_some h
  have hf := List.mem_filter.mp hm
  simp only [Bool.and_eq_true, decide_eq_true_eq] at hp
  exact ⟨hf.1, by simpa using hf.2, hp.1, hp.2⟩

theorem c07_find_none (pkgs : List PkgInfo) (line ch : Nat)
    (h : ∀ p ∈ pkgs, p.line = line → ¬ (p.column ≤ ch ∧ ch < p.column + byteLen p.version)) :
    findAtPosition pkgs line ch = none := by
  unfold findAtPosition
  rw [List.find?_eq_none]
  intro p hp
  have hf := List.mem_filter.mp hp
  have := h p hf.1 (by simpa using hf.2)
  simp only [Bool.and_eq_true, decide_eq_true_eq]
  exact this

/-- **the edit rewrites only the version text** (one line, ASCII before the spec, token = version):
    replacing `[column, column+|version|)` of a line `pre ++ version ++ post` with `|pre| = column`
    yields `pre ++ newText ++ post` — nothing else on the line or in the document moves -/
def applyOnLine (lineText : Text) (startCol endCol : Nat) (newText : Text) : Text :=
  lineText.take startCol ++ newText ++ lineText.drop endCol

theorem c07_edit_replaces_only_version (pre version post newText : Text) :
    applyOnLine (pre ++ version ++ post) pre.length (pre.length + version.length) newText =
      pre ++ newText ++ post := by
  unfold applyOnLine
  simp [List.take_append, List.drop_append]

/-- the executable acceptance test used to judge the real code accepts every target the model
    computes (so it demands no more than `calcLatest_sound` states) -/
theorem c07_spec_accepts_model (keep : Version → Version → Bool) (current : Text) (vs : List Text) (t : Text)
    (h : calcLatest keep current vs = some t) : Spec.BumpSpec.acceptableOn keep current t vs = true := by
  obtain ⟨cur, best, hc, ⟨v, hv, hpv⟩, hk, ht, hg, hmax⟩ := calcLatest_sound keep current vs t h
  unfold Spec.BumpSpec.acceptableOn
  simp only [hc, List.any_eq_true]
  refine ⟨v, hv, ?_⟩
  simp only [hpv, Bool.and_eq_true, beq_iff_eq, List.all_eq_true]
  refine ⟨⟨⟨ht.symm, hk⟩, hg⟩, ?_⟩
  intro w hw
  cases hpw : parseVersion w with
  | none => rfl
  | some pw =>
    simp only [Bool.or_eq_true, Bool.not_eq_true', bne_iff_ne, ne_eq]
    by_cases hkw : keep cur pw = true
    · right; exact hmax w hw pw hpw hkw
    · left; simpa using hkw

/-! ### non-vacuity and the known deviation -/
example : (bumpActions (some ["4.17.20".toList, "4.17.21".toList, "4.18.0".toList, "5.0.0".toList])
            ⟨"lodash".toList, "^4.17.20".toList, none, 30, 38, 3, 14, none⟩).map (·.newText)
          = ["^4.17.21".toList, "^4.18.0".toList, "^5.0.0".toList] := by decide
/-- F-C07-2: the advertised text is the canonical spelling, not the cached string: a cached tag `v5`
    is advertised as `v5.0.0` -/
example : (bumpActions (some ["v4".toList, "v5".toList]) ⟨"a/b".toList, "v4".toList, none, 0, 2, 0, 0, none⟩).map (·.newText)
          = ["v5.0.0".toList] := by decide

end Vlsp.C07
