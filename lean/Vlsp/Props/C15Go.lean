/-
  C15 — the Go proxy request path: `encode_module_path`
  (src/version/registries/go_proxy.rs) is the module-path escaping of the Go
  proxy protocol, and it loses nothing: the requested path determines the module.
-/
import Vlsp.Model.Registry

namespace Vlsp.C15
open Vlsp Vlsp.Text Vlsp.Registry

def isUpper (c : Char) : Bool := 'A' ≤ c && c ≤ 'Z'

/-- the inverse escaping (what the proxy does with the path it receives) -/
def asciiUpperOfLower (c : Char) : Char := Char.ofNat (c.toNat - 32)

def goDecode : Text → Text
  | '!' :: c :: rest => asciiUpperOfLower c :: goDecode rest
  | c :: rest => c :: goDecode rest
  | [] => []

theorem upper_mem (c : Char) (h : isUpper c = true) : c ∈ ['A','B','C','D','E','F','G','H','I','J','K','L','M','N','O','P','Q','R','S','T','U','V','W','X','Y','Z'] := by
  unfold isUpper at h
  simp only [Bool.and_eq_true, decide_eq_true_eq] at h
  have h1 : 65 ≤ c.toNat := h.1
  have h2 : c.toNat ≤ 90 := h.2
  have hc : c = Char.ofNat c.toNat := (Char.ofNat_toNat c).symm
  rw [hc]
  generalize c.toNat = n at h1 h2
  have : n = 65 ∨ n = 66 ∨ n = 67 ∨ n = 68 ∨ n = 69 ∨ n = 70 ∨ n = 71 ∨ n = 72 ∨ n = 73 ∨ n = 74 ∨ n = 75 ∨
      n = 76 ∨ n = 77 ∨ n = 78 ∨ n = 79 ∨ n = 80 ∨ n = 81 ∨ n = 82 ∨ n = 83 ∨ n = 84 ∨ n = 85 ∨ n = 86 ∨
      n = 87 ∨ n = 88 ∨ n = 89 ∨ n = 90 := by omega
  rcases this with rfl | rfl | rfl | rfl | rfl | rfl | rfl | rfl | rfl | rfl | rfl | rfl | rfl | rfl | rfl | rfl |
    rfl | rfl | rfl | rfl | rfl | rfl | rfl | rfl | rfl | rfl <;> decide

/-- facts about one escaped letter, by exhaustion over the 26 letters -/
theorem lower_facts (c : Char) (h : isUpper c = true) :
    isUpper (asciiLower c) = false ∧ asciiLower c ≠ '!' ∧ asciiUpperOfLower (asciiLower c) = c := by
  have hm := upper_mem c h
  simp only [List.mem_cons, List.mem_nil_iff, or_false] at hm
  rcases hm with rfl | rfl | rfl | rfl | rfl | rfl | rfl | rfl | rfl | rfl | rfl | rfl | rfl | rfl | rfl | rfl |
    rfl | rfl | rfl | rfl | rfl | rfl | rfl | rfl | rfl | rfl <;> decide

/-- every character of the requested path is free of upper-case ASCII letters
    (case-insensitive file systems and proxies cannot confuse two modules) -/
theorem c15_go_no_upper (p : Text) : ∀ c ∈ goEncode p, isUpper c = false := by
  intro c hc
  unfold goEncode at hc
  rw [List.mem_flatMap] at hc
  obtain ⟨a, _, ha⟩ := hc
  by_cases hu : isUpper a = true
  · have hu' : ('A' ≤ a && a ≤ 'Z') = true := hu
    simp only [hu', if_true, List.mem_cons, List.mem_nil_iff, or_false] at ha
    rcases ha with rfl | rfl
    · decide
    · exact (lower_facts a hu).1
  · have hu' : ('A' ≤ a && a ≤ 'Z') = false := by simpa [isUpper] using hu
    simp only [hu', Bool.false_eq_true, if_false, List.mem_singleton] at ha
    subst ha; simpa using hu

/-- a path without upper-case letters is requested unchanged -/
theorem c15_go_lower_unchanged (p : Text) (h : ∀ c ∈ p, isUpper c = false) : goEncode p = p := by
  unfold goEncode
  induction p with
  | nil => rfl
  | cons a t ih =>
    have ha : ('A' ≤ a && a ≤ 'Z') = false := h a List.mem_cons_self
    simp only [List.flatMap_cons, ha, Bool.false_eq_true, if_false, List.singleton_append]
    rw [ih (fun c hc => h c (List.mem_cons_of_mem _ hc))]

/-- **Round trip.**  For every module path without `!` (Go forbids it in module paths)
    the escaping is undone exactly by the proxy's unescaping … -/
theorem c15_go_roundtrip (p : Text) (h : '!' ∉ p) : goDecode (goEncode p) = p := by
  unfold goEncode
  induction p with
  | nil => rfl
  | cons a t ih =>
    have ht : '!' ∉ t := fun hm => h (List.mem_cons_of_mem _ hm)
    have hne : a ≠ '!' := fun he => h (he ▸ List.mem_cons_self)
    have ih' := ih ht
    by_cases hu : isUpper a = true
    · have hu' : ('A' ≤ a && a ≤ 'Z') = true := hu
      simp only [List.flatMap_cons, hu', if_true, List.cons_append, List.nil_append]
      rw [goDecode, ih', (lower_facts a hu).2.2]
    · have hu' : ('A' ≤ a && a ≤ 'Z') = false := by simpa [isUpper] using hu
      simp only [List.flatMap_cons, hu', Bool.false_eq_true, if_false, List.singleton_append]
      rw [goDecode, ih']
      intro c rest he _
      exact hne he

/-- … hence two different modules are never requested under the same path -/
theorem c15_go_encoding (p q : Text) (hp : '!' ∉ p) (hq : '!' ∉ q)
    (h : requestPath .go p = requestPath .go q) : p = q := by
  unfold requestPath at h
  simp only [List.cons.injEq, true_and] at h
  have h2 := (List.cons.inj (List.append_cancel_right h)).2
  rw [← c15_go_roundtrip p hp, ← c15_go_roundtrip q hq, h2]

example : goEncode "github.com/Azure/Go-X".toList = "github.com/!azure/!go-!x".toList ∧
    goDecode "github.com/!azure/!go-!x".toList = "github.com/Azure/Go-X".toList := by decide

end Vlsp.C15
