/-
  C05 for go.mod, with no assumption at all (the parser reads raw text): for EVERY document, every location the
  go.mod parser reports is in bounds, on character boundaries, on one line, its (line, column) denotes its offset,
  and the range is EXACTLY the version text.
-/
import Vlsp.Props.C05

namespace Vlsp.C05
open Vlsp Vlsp.Text Vlsp.Slice Vlsp.Parsers Vlsp.Pos

/-! ### the regular-expression models return pieces of their input -/

theorem goBackoff_take (run : Text) (k : Nat) (v : Text) (h : goBackoff run k = some v) : ∃ j, v = run.take j := by
  induction k with
  | zero => simp [goBackoff] at h
  | succ k ih =>
    unfold goBackoff at h
    split at h
    · simp only [Option.some.injEq] at h; exact ⟨k + 1, h.symm⟩
    · exact ih h

theorem goVersionTail_prefix (t v : Text) (h : goVersionTail t = some v) : ∃ tail, t = v ++ tail := by
  unfold goVersionTail at h
  have hsplit : t = t.takeWhile (fun c => !isWhite c) ++ t.dropWhile (fun c => !isWhite c) :=
    (List.takeWhile_append_dropWhile).symm
  simp only at h
  split at h
  · split at h
    · simp only [Option.some.injEq] at h
      exact ⟨t.dropWhile (fun c => !isWhite c), by rw [← h]; exact hsplit⟩
    · obtain ⟨j, hj⟩ := goBackoff_take _ _ _ h
      refine ⟨(t.takeWhile (fun c => !isWhite c)).drop j ++ t.dropWhile (fun c => !isWhite c), ?_⟩
      rw [hj, ← List.append_assoc, List.take_append_drop]; exact hsplit
  · cases h

theorem goSpec_split (t path before v : Text) (h : goSpec t = some (path, before, v)) : ∃ tail, t = before ++ v ++ tail := by
  unfold goSpec at h
  simp only at h
  split at h
  · cases h
  · cases hv : goVersionTail ((t.dropWhile (fun c => !isWhite c)).dropWhile isWhite) with
    | none => simp [hv] at h
    | some w =>
      simp only [hv, Option.map_some, Option.some.injEq, Prod.mk.injEq] at h
      obtain ⟨_, hb, hw⟩ := h
      obtain ⟨tail, ht⟩ := goVersionTail_prefix _ _ hv
      refine ⟨tail, ?_⟩
      rw [← hb, ← hw]
      have e1 : t = t.takeWhile (fun c => !isWhite c) ++ t.dropWhile (fun c => !isWhite c) := (List.takeWhile_append_dropWhile).symm
      have e2 : t.dropWhile (fun c => !isWhite c) =
          (t.dropWhile (fun c => !isWhite c)).takeWhile isWhite ++ (t.dropWhile (fun c => !isWhite c)).dropWhile isWhite :=
        (List.takeWhile_append_dropWhile).symm
      conv => lhs; rw [e1, e2, ht]
      simp

/-! ### white space around the trimmed line -/

theorem trimStart_eq_dropWhile (t : Text) : trimStart t = t.dropWhile isWhite := by
  induction t with
  | nil => rfl
  | cons c cs ih => unfold trimStart; by_cases h : isWhite c = true <;> simp [h, ih]

theorem trimEnd_split (t : Text) : ∃ suf, t = trimEnd t ++ suf := by
  unfold trimEnd
  refine ⟨(t.reverse.takeWhile isWhite).reverse, ?_⟩
  have : t.reverse = t.reverse.takeWhile isWhite ++ trimStart t.reverse := by
    rw [trimStart_eq_dropWhile]; exact (List.takeWhile_append_dropWhile).symm
  have h2 := congrArg List.reverse this
  simpa using h2

/-- a line is its leading white space, its trimmed text, and trailing white space -/
theorem line_split (line : Text) : ∃ suf, line = line.takeWhile isWhite ++ trim line ++ suf := by
  obtain ⟨suf, hs⟩ := trimEnd_split (trimStart line)
  refine ⟨suf, ?_⟩
  unfold trim
  rw [List.append_assoc, ← hs, trimStart_eq_dropWhile]
  exact (List.takeWhile_append_dropWhile).symm

theorem goSingle_split (trimmed path v : Text) (pos : Nat) (h : goSingle trimmed = some (path, v, pos)) :
    ∃ front tail, trimmed = front ++ v ++ tail ∧ byteLen front = pos := by
  unfold goSingle at h
  cases hp : stripPrefix Sites.requireKw trimmed with
  | none => simp [hp] at h
  | some r =>
    simp only [hp] at h
    split at h
    · cases h
    · cases hs : goSpec (r.dropWhile isWhite) with
      | none => simp [hs] at h
      | some x =>
        obtain ⟨p, before, w⟩ := x
        simp only [hs, Option.map_some, Option.some.injEq, Prod.mk.injEq] at h
        obtain ⟨_, hw, hpos⟩ := h
        obtain ⟨tail, ht⟩ := goSpec_split _ _ _ _ hs
        have e1 := stripPrefix_eq _ _ _ hp
        have e2 : r = r.takeWhile isWhite ++ r.dropWhile isWhite := (List.takeWhile_append_dropWhile).symm
        refine ⟨Sites.requireKw ++ r.takeWhile isWhite ++ before, tail, ?_, ?_⟩
        · rw [← hw]; conv => lhs; rw [e1, e2, ht]
          simp
        · rw [← hpos]; simp only [byteLen_append]

/-! ### one located line -/

/-- what `linesWithOffsets` guarantees about each line it yields -/
def LineAt (content line : Text) (off n : Nat) : Prop :=
  ∃ pre post, content = pre ++ line ++ post ∧ byteLen pre = off ∧ lineOf pre = n ∧ colOf pre 0 = 0 ∧ (∀ c ∈ line, c ≠ '\n')

/-- a piece `front ++ v ++ tail` of a located line gives a correct location for `v` -/
theorem locOk_in_line (content line : Text) (off n : Nat) (h : LineAt content line off n) (front v tail : Text)
    (hl : line = front ++ v ++ tail) (name : Text) :
    LocOk content ⟨name, v, none, off + byteLen front, off + byteLen front + byteLen v, n, byteLen front, none⟩ ∧
    slice content (off + byteLen front) (off + byteLen front + byteLen v) = some v := by
  obtain ⟨pre, post, hc, hoff, hline, hcol, hnl⟩ := h
  have hfront : ∀ c ∈ front, c ≠ '\n' := fun c hc' => hnl c (by rw [hl]; simp [hc'])
  have hv : ∀ c ∈ v, c ≠ '\n' := fun c hc' => hnl c (by rw [hl]; simp [hc'])
  have e : content = (pre ++ front) ++ v ++ (tail ++ post) := by rw [hc, hl]; simp
  have l1 : byteLen (pre ++ front) = off + byteLen front := by rw [byteLen_append, hoff]
  refine ⟨⟨pre ++ front, v, tail ++ post, e, l1, ?_, hv, ?_, ?_⟩, ?_⟩
  · rw [byteLen_append, l1]
  · rw [lineOf_append, lineOf_noNl front hfront, hline]; rfl
  · rw [colOf_append_noNl pre front 0 hfront, hcol]; simp
  · rw [← l1]; conv => lhs; arg 1; rw [e]
    exact slice_append _ _ _

/-- **a requirement inside a `require ( … )` block** -/
theorem c05_go_block_entry (content line : Text) (off n : Nat) (h : LineAt content line off n)
    (path before v : Text) (hs : goSpec (line.dropWhile isWhite) = some (path, before, v)) :
    let col := byteLen (line.takeWhile isWhite) + byteLen before
    LocOk content ⟨path, v, none, off + col, off + col + byteLen v, n, col, none⟩ ∧
    slice content (off + col) (off + col + byteLen v) = some v := by
  obtain ⟨tail, ht⟩ := goSpec_split _ _ _ _ hs
  have hl : line = (line.takeWhile isWhite ++ before) ++ v ++ tail := by
    have e : line = line.takeWhile isWhite ++ line.dropWhile isWhite := (List.takeWhile_append_dropWhile).symm
    conv => lhs; rw [e, ht]
    simp
  have := locOk_in_line content line off n h _ v tail hl path
  simpa [byteLen_append] using this

/-- **a single-line `require`** (however it is indented) -/
theorem c05_go_single_entry (content line : Text) (off n : Nat) (h : LineAt content line off n)
    (path v : Text) (p : Nat) (hs : goSingle (trim line) = some (path, v, p)) :
    let col := byteLen (line.takeWhile isWhite) + p
    LocOk content ⟨path, v, none, off + col, off + col + byteLen v, n, col, none⟩ ∧
    slice content (off + col) (off + col + byteLen v) = some v := by
  obtain ⟨front, tail, ht, hp⟩ := goSingle_split _ _ _ _ hs
  obtain ⟨suf, hsuf⟩ := line_split line
  have hl : line = (line.takeWhile isWhite ++ front) ++ v ++ (tail ++ suf) := by
    conv => lhs; rw [hsuf, ht]
    simp
  have := locOk_in_line content line off n h _ v (tail ++ suf) hl path
  simpa [byteLen_append, hp] using this

end Vlsp.C05

namespace Vlsp.C05
open Vlsp Vlsp.Text Vlsp.Slice Vlsp.Parsers Vlsp.Pos

/-! ### every line `linesWithOffsets` yields is located -/

theorem byteLen_reverse (t : Text) : byteLen t.reverse = byteLen t := by
  induction t with
  | nil => rfl
  | cons c cs ih => simp [byteLen_append, byteLen, ih]; omega

theorem colOf_after_newline (t : Text) (acc : Nat) : colOf (t ++ ['\n']) acc = 0 := by
  induction t generalizing acc with
  | nil => simp [colOf]
  | cons c cs ih => simp only [List.cons_append, colOf]; split <;> exact ih _

theorem lines_located (content : Text) : ∀ (rest acc done : Text) (start cur : Nat),
    content = done ++ acc.reverse ++ rest → byteLen done = start → cur = start + byteLen acc → colOf done 0 = 0 →
    (∀ c ∈ acc, c ≠ '\n') →
    ∀ (i : Nat) (line : Text) (off : Nat), (linesWithOffsets rest acc start cur)[i]? = some (line, off) →
      LineAt content line off (lineOf done + i) := by
  intro rest
  induction rest with
  | nil =>
    intro acc done start cur hc hs _ hcol hacc i line off hget
    unfold linesWithOffsets at hget
    split at hget
    · simp at hget
    · cases i with
      | zero =>
        simp only [List.getElem?_cons_zero, Option.some.injEq, Prod.mk.injEq] at hget
        obtain ⟨h1, h2⟩ := hget
        subst h1; subst h2
        exact ⟨done, [], by simpa using hc, hs, by simp, hcol, fun c hc' => hacc c (by simpa using hc')⟩
      | succ j => simp at hget
  | cons c cs ih =>
    intro acc done start cur hc hs hcur hcol hacc i line off hget
    unfold linesWithOffsets at hget
    by_cases hnl : (c == '\n') = true
    · have hcn : c = '\n' := by simpa using hnl
      simp only [hnl, if_true] at hget
      cases i with
      | zero =>
        simp only [List.getElem?_cons_zero, Option.some.injEq, Prod.mk.injEq] at hget
        obtain ⟨h1, h2⟩ := hget
        subst h2
        -- the yielded line is `acc.reverse` possibly without a trailing '\r'
        have hpre : ∃ suf, acc.reverse = line ++ suf := by
          rw [← h1]
          split
          · rename_i r; exact ⟨['\r'], by simp⟩
          · exact ⟨[], by simp⟩
        obtain ⟨suf, hsuf⟩ := hpre
        refine ⟨done, suf ++ c :: cs, ?_, hs, by simp, hcol, ?_⟩
        · rw [hc, hsuf]; simp
        · intro x hx
          have : x ∈ acc.reverse := by rw [hsuf]; simp [hx]
          exact hacc x (by simpa using this)
      | succ j =>
        simp only [List.getElem?_cons_succ] at hget
        have hdone' : content = (done ++ acc.reverse ++ ['\n']) ++ ([] : Text).reverse ++ cs := by
          rw [hc, hcn]; simp
        have hstart' : byteLen (done ++ acc.reverse ++ ['\n']) = cur + 1 := by
          simp only [byteLen_append, byteLen_reverse, byteLen, hs, hcur]
          have : utf8Len '\n' = 1 := by decide
          omega
        have := ih [] (done ++ acc.reverse ++ ['\n']) (cur + 1) (cur + 1) hdone' hstart' (by simp [byteLen])
          (colOf_after_newline _ 0) (by simp) j line off hget
        have hl : lineOf (done ++ acc.reverse ++ ['\n']) = lineOf done + 1 := by
          rw [lineOf_append, lineOf_append, lineOf_noNl acc.reverse (fun x hx => hacc x (by simpa using hx))]
          simp [lineOf]
        rw [hl] at this
        have e : lineOf done + 1 + j = lineOf done + (j + 1) := by omega
        rw [e] at this; exact this
    · have hnl' : (c == '\n') = false := by simpa using hnl
      simp only [hnl', Bool.false_eq_true, if_false] at hget
      refine ih (c :: acc) done start (cur + utf8Len c) ?_ hs ?_ hcol ?_ i line off hget
      · rw [hc]; simp
      · simp only [byteLen, hcur]; omega
      · intro x hx
        rcases List.mem_cons.mp hx with rfl | hx
        · simpa using hnl'
        · exact hacc x hx

/-! ### the loop reports only entries of located lines -/

/-- what one reported package is: a block entry or a single-line entry of the `i`-th line -/
def GoEntry (L : List (Text × Nat)) (n : Nat) (p : PkgInfo) : Prop :=
  ∃ i line off, L[i]? = some (line, off) ∧
    ((∃ path before v, goSpec (line.dropWhile isWhite) = some (path, before, v) ∧
        p = ⟨path, v, none, off + (byteLen (line.takeWhile isWhite) + byteLen before),
             off + (byteLen (line.takeWhile isWhite) + byteLen before) + byteLen v, n + i,
             byteLen (line.takeWhile isWhite) + byteLen before, none⟩) ∨
     (∃ path v q, goSingle (trim line) = some (path, v, q) ∧
        p = ⟨path, v, none, off + (byteLen (line.takeWhile isWhite) + q),
             off + (byteLen (line.takeWhile isWhite) + q) + byteLen v, n + i,
             byteLen (line.takeWhile isWhite) + q, none⟩))

theorem goEntry_shift (x : Text × Nat) (L : List (Text × Nat)) (n : Nat) (p : PkgInfo) (h : GoEntry L (n + 1) p) :
    GoEntry (x :: L) n p := by
  obtain ⟨i, line, off, hget, hform⟩ := h
  refine ⟨i + 1, line, off, by simpa using hget, ?_⟩
  have e : n + 1 + i = n + (i + 1) := by omega
  rw [e] at hform; exact hform

theorem goLines_entries (L : List (Text × Nat)) (n : Nat) (b : Bool) (p : PkgInfo) (h : p ∈ goLines L n b) : GoEntry L n p := by
  induction L generalizing n b with
  | nil => simp [goLines] at h
  | cons x rest ih =>
    obtain ⟨line, off⟩ := x
    unfold goLines at h
    simp only at h
    split at h
    · exact goEntry_shift _ _ _ _ (ih _ _ h)
    · split at h
      · exact goEntry_shift _ _ _ _ (ih _ _ h)
      · split at h
        · exact goEntry_shift _ _ _ _ (ih _ _ h)
        · split at h
          · -- inside a block
            cases hs : goSpec (line.dropWhile isWhite) with
            | none => simp only [hs] at h; exact goEntry_shift _ _ _ _ (ih _ _ h)
            | some r =>
              obtain ⟨path, before, v⟩ := r
              simp only [hs, List.mem_cons] at h
              rcases h with h | h
              · exact ⟨0, line, off, rfl, Or.inl ⟨path, before, v, hs, by simpa [Nat.add_assoc] using h⟩⟩
              · exact goEntry_shift _ _ _ _ (ih _ _ h)
          · cases hs : goSingle (trim line) with
            | none => simp only [hs] at h; exact goEntry_shift _ _ _ _ (ih _ _ h)
            | some r =>
              obtain ⟨path, v, q⟩ := r
              simp only [hs, List.mem_cons] at h
              rcases h with h | h
              · exact ⟨0, line, off, rfl, Or.inr ⟨path, v, q, hs, by simpa [Nat.add_assoc] using h⟩⟩
              · exact goEntry_shift _ _ _ _ (ih _ _ h)

/-- **C05 for go.mod, for any document whatsoever**: every location the parser reports is in bounds, on character
    boundaries, on one existing line, its (line, column) denotes the same place as its offset, and the range is
    exactly the version text — CRLF files, indentation, tabs and non-ASCII text included -/
theorem c05_go_all (content : Text) (p : PkgInfo) (h : p ∈ goMod content) :
    LocOk content p ∧ slice content p.startOffset p.endOffset = some p.version := by
  unfold goMod at h
  obtain ⟨i, line, off, hget, hform⟩ := goLines_entries _ 0 false p h
  have hat : LineAt content line off i := by
    have := lines_located content content [] [] 0 0 (by simp) rfl (by simp [byteLen]) rfl (by simp) i line off hget
    simpa [lineOf] using this
  rcases hform with ⟨path, before, v, hs, hp⟩ | ⟨path, v, q, hs, hp⟩
  · subst hp
    have := c05_go_block_entry content line off i hat path before v hs
    simpa using this
  · subst hp
    have := c05_go_single_entry content line off i hat path v q hs
    simpa using this

end Vlsp.C05
