/-
  C05 for workflow files: a `uses:` value written as a one-line PLAIN scalar is located exactly — the range is the
  ref (the version, or the 40-hex hash of a pinned action), in bounds, on its line.  (For a QUOTED value the parser's own
  range is the whole token; what is reported is narrowed to the ref at the reporting boundary: Props/C05Wire.lean,
  c05_wire_covers_spec - the repair of F-C05-1.)
-/
import Vlsp.Props.C05

namespace Vlsp.C05
open Vlsp Vlsp.Text Vlsp.Slice Vlsp.Cst Vlsp.Parsers Vlsp.Pos

/-- what is reported is what the repository branch reports -/
theorem ghaUses_some {content value : Text} {node : Node} {p : PkgInfo} (h : ghaUses content value node = some p) :
    ghaUsesRepo content value node = some p := by
  unfold ghaUses at h
  split at h
  · cases h
  · exact h

/-- where `parse_uses_value` puts the range, whatever branch (tag, hash, hash with comment) it takes -/
theorem ghaUses_location (content value : Text) (node : Node) (p : PkgInfo) (h : ghaUses content value node = some p) :
    p.startOffset = node.sb + ghaVStart content node ∧ p.endOffset = node.eb ∧ p.line = node.info.sr ∧
    p.column = node.info.sc + ghaVStart content node := by
  replace h := ghaUses_some h
  unfold ghaUsesRepo at h
  cases hs : Sites.usesSplit value with
  | none => simp [hs] at h
  | some r =>
    cases r with
    | none => simp [hs] at h
    | some x =>
      obtain ⟨owner, repo, version⟩ := x
      simp only [hs] at h
      split at h
      · -- hash-pinned
        cases hc : Sites.hashComment content node.sb with
        | none => simp only [hc, Option.some.injEq] at h; subst h; exact ⟨rfl, rfl, rfl, rfl⟩
        | some c =>
          cases c with
          | none => simp only [hc, Option.some.injEq] at h; subst h; exact ⟨rfl, rfl, rfl, rfl⟩
          | some ah =>
            obtain ⟨after, hashOff⟩ := ah
            simp only [hc] at h
            split at h
            · simp only [Option.some.injEq] at h; subst h; exact ⟨rfl, rfl, rfl, rfl⟩
            · simp only [Option.some.injEq] at h; subst h; exact ⟨rfl, rfl, rfl, rfl⟩
      · simp only [Option.some.injEq] at h; subst h; exact ⟨rfl, rfl, rfl, rfl⟩

/-- the text of a plain node is the piece of the document it spans -/
theorem nodeText_plain (content : Text) (v : Node) (pre body post : Text) (hc : content = pre ++ body ++ post)
    (hsb : byteLen pre = v.sb) (heb : v.eb = byteLen pre + byteLen body) : nodeText content v = body := by
  unfold nodeText
  rw [← hsb, heb, hc, slice_append]; rfl

/-- **a plain one-line `uses:` value**: the reported range is exactly the text after the first `@` -/
theorem c05_gha_plain (content : Text) (v : Node) (p : PkgInfo) (hp : PlainNode content v)
    (hunq : unquoteBoth (nodeText content v) = nodeText content v)
    (h : ghaUses content (nodeText content v) v = some p) :
    LocOk content p ∧ ∃ front ref, nodeText content v = front ++ '@' :: ref ∧ (∀ c ∈ front, c ≠ '@') ∧
      slice content p.startOffset p.endOffset = some ref := by
  obtain ⟨hso, heo, hln, hcol⟩ := ghaUses_location content _ v p h
  obtain ⟨pre, body, post, hc, hsb, heb, hbody, hl, hcl⟩ := hp
  have hnt := nodeText_plain content v pre body post hc hsb heb
  -- the value contains an `@` (otherwise nothing is reported)
  have hat : ∃ q, findChar? (· == '@') body = some q := by
    have h := ghaUses_some h
    unfold ghaUsesRepo Sites.usesSplit at h
    rw [hnt] at h
    cases hf : findChar? (· == '@') body with
    | none => simp [hf] at h
    | some q => exact ⟨q, rfl⟩
  obtain ⟨q, hq⟩ := hat
  obtain ⟨front, c, ref, hbody_split, hfl, hcat, hfront⟩ := findChar_split _ body q hq
  have hc' : c = '@' := C06.eq_of_beq_char hcat
  subst hc'
  have hvs : ghaVStart content v = q + 1 := by unfold ghaVStart; rw [hunq, hnt, hq]
  rw [hvs] at hso hcol
  have e : content = (pre ++ front ++ ['@']) ++ ref ++ post := by rw [hc, hbody_split]; simp
  have l1 : byteLen (pre ++ front ++ ['@']) = v.sb + (q + 1) := by
    simp only [byteLen_append, byteLen, hsb, hfl]
    have : utf8Len '@' = 1 := by decide
    omega
  have l2 : byteLen (pre ++ front ++ ['@'] ++ ref) = v.eb := by
    rw [byteLen_append, l1, heb, hbody_split]
    simp only [byteLen_append, byteLen, hfl]
    have : utf8Len '@' = 1 := by decide
    omega
  have href : ∀ x ∈ ref, x ≠ '\n' := fun x hx => hbody x (by rw [hbody_split]; simp [hx])
  have hfr : ∀ x ∈ front ++ ['@'], x ≠ '\n' := by
    intro x hx
    rcases List.mem_append.mp hx with h1 | h1
    · exact hbody x (by rw [hbody_split]; simp [h1])
    · have : x = '@' := by simpa using h1
      rw [this]; decide
  refine ⟨⟨pre ++ front ++ ['@'], ref, post, e, by rw [hso]; exact l1, by rw [heo]; exact l2, href, ?_, ?_⟩,
          front, ref, by rw [hnt]; exact hbody_split, ?_, ?_⟩
  · rw [hln, List.append_assoc, lineOf_append, lineOf_noNl _ hfr, hl]; rfl
  · rw [hcol, List.append_assoc, colOf_append_noNl pre _ 0 hfr, hcl]
    simp only [byteLen_append, byteLen, hfl]
    have : utf8Len '@' = 1 := by decide
    omega
  · intro x hx; simpa using hfront x hx
  · rw [hso, heo, ← l1, ← l2]
    have : byteLen (pre ++ front ++ ['@'] ++ ref) = byteLen (pre ++ front ++ ['@']) + byteLen ref := byteLen_append _ _
    rw [this]; conv => lhs; arg 1; rw [e]
    exact slice_append _ _ _

end Vlsp.C05
