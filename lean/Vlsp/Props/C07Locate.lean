/-
  C07 — the range a bump edit replaces holds exactly the version text (F-C07-1, repaired): `locate_version_in_token`
  points every package at the version inside its value token before the cursor test and the edit.
-/
import Vlsp.Model.Locate
import Vlsp.Props.C07
import Vlsp.Lemmas.Utf16Span
namespace Vlsp
open Text Slice
namespace Slice

theorem rfind_split (pat t : Text) (n : Nat) (h : rfind? pat t = some n) :
    ∃ pre post, t = pre ++ pat ++ post ∧ byteLen pre = n := by
  induction t generalizing n with
  | nil =>
    unfold rfind? at h
    cases pat with
    | nil => simp at h; exact ⟨[], [], rfl, by simp [byteLen, h]⟩
    | cons _ _ => simp at h
  | cons c cs ih =>
    unfold rfind? at h
    cases hr : rfind? pat cs with
    | some m =>
      simp only [hr, Option.some.injEq] at h
      obtain ⟨pre, post, ht, hl⟩ := ih m hr
      exact ⟨c :: pre, post, by simp [ht], by simp [byteLen, hl]; omega⟩
    | none =>
      simp only [hr] at h
      by_cases hs : startsWith (c :: cs) pat = true
      · simp only [hs, if_true, Option.some.injEq] at h
        unfold startsWith at hs
        cases hp : stripPrefix pat (c :: cs) with
        | none => simp [hp] at hs
        | some r =>
          have := stripPrefix_eq pat (c :: cs) r hp
          exact ⟨[], r, by simpa using this, by simp [byteLen, h]⟩
      · simp [hs] at h

theorem sliceTo_split (t : Text) (n : Nat) (pre : Text) (h : sliceTo t n = some pre) :
    ∃ post, t = pre ++ post ∧ byteLen pre = n := by
  induction t generalizing n pre with
  | nil =>
    cases n with
    | zero => simp [sliceTo] at h; subst h; exact ⟨[], rfl, rfl⟩
    | succ k => simp [sliceTo] at h
  | cons c cs ih =>
    cases n with
    | zero => simp [sliceTo] at h; subst h; exact ⟨c :: cs, rfl, rfl⟩
    | succ k =>
      simp only [sliceTo] at h
      split at h
      · rename_i hle
        cases hq : sliceTo cs (k + 1 - utf8Len c) with
        | none => simp [hq] at h
        | some q =>
          simp only [hq, Option.map_some, Option.some.injEq] at h
          obtain ⟨post, ht, hl⟩ := ih _ q hq
          exact ⟨post, by rw [← h, ht]; simp, by rw [← h]; simp [byteLen, hl]; omega⟩
      · cases h

theorem sliceFrom_split (t : Text) (n : Nat) (post : Text) (h : sliceFrom t n = some post) :
    ∃ pre, t = pre ++ post ∧ byteLen pre = n := by
  induction t generalizing n with
  | nil =>
    cases n with
    | zero => simp [sliceFrom] at h; exact ⟨[], by simp [← h], by simp [byteLen]⟩
    | succ k => simp [sliceFrom] at h
  | cons c cs ih =>
    cases n with
    | zero => simp [sliceFrom] at h; exact ⟨[], by simp [← h], by simp [byteLen]⟩
    | succ k =>
      simp only [sliceFrom] at h
      split at h
      · rename_i hle
        obtain ⟨pre, ht, hl⟩ := ih _ h
        exact ⟨c :: pre, by rw [ht]; simp, by simp [byteLen, hl]; omega⟩
      · cases h

theorem slice_split (t : Text) (a b : Nat) (y : Text) (h : slice t a b = some y) :
    ∃ x z, t = x ++ y ++ z ∧ byteLen x = a ∧ byteLen x + byteLen y = b := by
  unfold slice at h
  split at h
  · cases hp : sliceTo t b with
    | none => simp [hp] at h
    | some pre =>
      simp only [hp, Option.bind_some] at h
      obtain ⟨z, ht, hl⟩ := sliceTo_split t b pre hp
      obtain ⟨x, hx, hxl⟩ := sliceFrom_split pre a y h
      refine ⟨x, z, by rw [ht, hx], hxl, ?_⟩
      rw [← hl, hx, byteLen_append]
  · cases h

end Slice

namespace Bump

/-- **the narrowed range holds exactly the text it is meant to hold** (the version; the hash of a hash-pinned action):
    the slice of the document over the located range IS that text, it lies inside the original token, and offset and
    column moved by the same amount -/
theorem locate_covers (content : Text) (p q : PkgInfo) (h : locateBytes content p = some q) :
    slice content q.startOffset (q.startOffset + byteLen (rangeText p)) = some (rangeText p) ∧
    p.startOffset ≤ q.startOffset ∧ q.startOffset + byteLen (rangeText p) ≤ p.endOffset ∧
    q.column - p.column = q.startOffset - p.startOffset ∧
    q.version = p.version ∧ q.name = p.name ∧ q.line = p.line ∧ q.endOffset = q.startOffset + byteLen (rangeText p) ∧
    q.commitHash = p.commitHash ∧ q.extra = p.extra := by
  unfold locateBytes at h
  cases hone : Pos.onOneLine content p.column p.startOffset p.endOffset with
  | false => simp [hone] at h
  | true =>
  simp only [hone, Bool.not_true, Bool.false_eq_true, if_false] at h
  cases hs : slice content p.startOffset p.endOffset with
  | none => simp [hs] at h
  | some token =>
    simp only [hs] at h
    cases hr : rfind? (rangeText p) token with
    | none => simp [hr] at h
    | some k =>
      simp only [hr, Option.some.injEq] at h
      subst h
      obtain ⟨x, z, hc, hxa, hxb⟩ := slice_split content _ _ token hs
      obtain ⟨pre, post, ht, hk⟩ := rfind_split (rangeText p) token k hr
      have hcc : content = (x ++ pre) ++ rangeText p ++ (post ++ z) := by rw [hc, ht]; simp
      have hl : byteLen (x ++ pre) = p.startOffset + k := by rw [byteLen_append, hxa, hk]
      have htl : byteLen token = byteLen pre + byteLen (rangeText p) + byteLen post := by
        rw [ht, byteLen_append, byteLen_append]
      refine ⟨?_, ?_, ?_, ?_, rfl, rfl, rfl, rfl, rfl, rfl⟩
      · show slice content (p.startOffset + k) (p.startOffset + k + byteLen (rangeText p)) = some (rangeText p)
        rw [← hl, hcc]; exact slice_append _ _ _
      · show p.startOffset ≤ p.startOffset + k; omega
      · show p.startOffset + k + byteLen (rangeText p) ≤ p.endOffset; omega
      · show p.column + k - p.column = p.startOffset + k - p.startOffset; omega

/-- a value written over several lines is never located: no code action, and no diagnostic (`Server.wire` drops it) -/
theorem locate_one_line (content : Text) (p q : PkgInfo) (h : locateBytes content p = some q) :
    Pos.onOneLine content p.column p.startOffset p.endOffset = true := by
  unfold locateBytes at h
  cases hone : Pos.onOneLine content p.column p.startOffset p.endOffset with
  | false => simp [hone] at h
  | true => rfl

theorem rangeText_version (p : PkgInfo) (hh : p.commitHash = none) : rangeText p = p.version := by simp [rangeText, hh]

/-- the second step changes the column only -/
theorem toClientColumn_fields (content : Text) (q : PkgInfo) :
    (toClientColumn content q).startOffset = q.startOffset ∧ (toClientColumn content q).endOffset = q.endOffset ∧
    (toClientColumn content q).version = q.version ∧ (toClientColumn content q).line = q.line ∧
    (toClientColumn content q).name = q.name ∧ (toClientColumn content q).commitHash = q.commitHash := by
  unfold toClientColumn
  split <;> exact ⟨rfl, rfl, rfl, rfl, rfl, rfl⟩

/-- **the column the cursor test and the edit use is counted in the client's units**: when the document splits at the
    located package (`lp` = the text of its line before it), the column becomes the UTF-16 length of `lp` -/
theorem c07_client_column (before lp mid post : Text) (q : PkgInfo)
    (hcol : q.column = byteLen lp) (hso : q.startOffset = byteLen before + byteLen lp)
    (heo : q.endOffset = q.startOffset + byteLen mid) (hnl : ∀ c ∈ lp, c ≠ '\n') :
    (toClientColumn (before ++ lp ++ mid ++ post) q).column = utf16Length lp := by
  unfold toClientColumn
  rw [Pos.utf16Span_spec before lp mid post q.column q.startOffset q.endOffset hcol hso heo hnl]

/-- what `locate` returns, in terms of its two steps -/
theorem locate_some (content : Text) (p q : PkgInfo) (h : locate content p = some q) :
    ∃ qb, locateBytes content p = some qb ∧ commentGapOk content qb = true ∧ q = toClientColumn content qb := by
  unfold locate at h
  cases hb : locateBytes content p with
  | none => simp [hb] at h
  | some qb =>
    simp only [hb] at h
    split at h
    · rename_i hg
      exact ⟨qb, rfl, hg, by simpa using h.symm⟩
    · cases h

/-- non-vacuity: a JSR import and an npm alias are pointed at their version (after a non-ASCII key the column is counted
    in UTF-16 units); a normalised PEP 440 spec is dropped; a quoted hash is pointed at the hash; a quoted hash followed
    by a version comment gets no action (the closing quote would be swallowed) -/
example : (locate "\"jsr:@std/path@^1.0.0\"".toList ⟨"@std/path".toList, "^1.0.0".toList, none, 1, 21, 0, 1, none⟩).map
    (fun q => (q.startOffset, q.column)) = some (15, 15) := by decide
example : (locate "\"é\": \"npm:r@^1.0.0\"".toList ⟨"r".toList, "^1.0.0".toList, none, 7, 19, 0, 7, none⟩).map
    (fun q => (q.startOffset, q.column)) = some (13, 12) := by decide
example : locate "\">= 1.0\"".toList ⟨"r".toList, ">=1.0".toList, none, 1, 7, 0, 1, none⟩ = none := by decide
example : (locate "uses: \"a/b@abc\"".toList ⟨"a/b".toList, "abc".toList, some "abc".toList, 10, 15, 0, 10, none⟩).map
    (fun q => (q.startOffset, q.endOffset)) = some (11, 14) := by decide
example : locate "uses: \"a/b@abc\" # v1".toList ⟨"a/b".toList, "v1".toList, some "abc".toList, 10, 15, 0, 10, some ("v1".toList, 16, 20)⟩ = none := by decide

/-- **every offered edit replaces exactly the current version text**: an action computed for a located package that is
    not hash-pinned covers, on the package's line, as many units as the version has bytes, starting where the document
    reads the version -/
theorem c07_located_edit (content : Text) (p q : PkgInfo) (vs : List Text) (a : Action) (hh : p.commitHash = none)
    (hl : locate content p = some q) (ha : a ∈ bumpActions (some vs) q) :
    a.line = p.line ∧ a.endCol - a.startCol = byteLen p.version ∧ a.startCol = q.column ∧
    slice content q.startOffset (q.startOffset + (a.endCol - a.startCol)) = some p.version ∧
    p.startOffset ≤ q.startOffset ∧ q.startOffset + byteLen p.version ≤ p.endOffset := by
  obtain ⟨qb, hb, _, hq⟩ := locate_some content p q hl
  obtain ⟨hs, h1, h2, _, hv, _, hline, _, _, _⟩ := locate_covers content p qb hb
  rw [rangeText_version p hh] at hs h2
  obtain ⟨fso, _, fv, fl, _, _⟩ := toClientColumn_fields content qb
  rw [← hq] at fso fv fl
  obtain ⟨t, label, keep, _, _, _, _, hal, hsc, hec⟩ := C07.c07_action_sound vs q a ha
  have hw : a.endCol - a.startCol = byteLen p.version := by rw [hec, hsc, fv, hv]; omega
  refine ⟨by rw [hal, fl, hline], hw, hsc, ?_, by rw [fso]; exact h1, by rw [fso]; exact h2⟩
  rw [hw, fso]; exact hs

/-- for a hash-pinned action the located range holds exactly the hash -/
theorem c07_located_hash (content : Text) (p q : PkgInfo) (h : Text) (hh : p.commitHash = some h)
    (hl : locate content p = some q) :
    slice content q.startOffset q.endOffset = some h ∧ p.startOffset ≤ q.startOffset ∧ q.endOffset ≤ p.endOffset := by
  obtain ⟨qb, hb, _, hq⟩ := locate_some content p q hl
  obtain ⟨hs, h1, h2, _, _, _, _, he, _, _⟩ := locate_covers content p qb hb
  have hr : rangeText p = h := by simp [rangeText, hh]
  rw [hr] at hs h2 he
  obtain ⟨fso, feo, _, _, _, _⟩ := toClientColumn_fields content qb
  rw [← hq] at fso feo
  exact ⟨by rw [fso, feo, he]; exact hs, by rw [fso]; exact h1, by rw [feo, he]; exact h2⟩

end Bump
end Vlsp
