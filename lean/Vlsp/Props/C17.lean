/-
  C17 — a hash-pinned action is bumped to the commit its new tag really points to.
  Model: Vlsp.Bump.bumpActionsWithSha / hashBumpAction (src/lsp/code_action.rs); the tag → commit
  lookup is a parameter `tagSha repo tag` (none = the lookup failed for any reason).
-/
import Vlsp.Props.C07

namespace Vlsp.C17
open Vlsp Vlsp.Text Vlsp.Semver Vlsp.Bump

/-- **the commit is the one reported for exactly the advertised tag of the same repository**, and hash
    and comment are rewritten by one edit.  For a pin with a version comment: -/
theorem c17_sha_of_advertised_tag (tagSha : Text → Text → Option Text) (vs : List Text)
    (latest : Option (Option Text)) (p : PkgInfo) (h0 : p.commitHash.isSome = true)
    (c : Text × Nat × Nat) (hx : p.extra = some c) (a : Action)
    (h : a ∈ bumpActionsWithSha tagSha (some vs) latest p) :
    ∃ tag sha label, tagSha p.name tag = some sha ∧
      a.newText = sha ++ " # ".toList ++ tag ∧ a.title = titleFor label tag ∧
      a.line = p.line ∧ a.startCol = p.column ∧ a.endCol = p.column + (c.2.2 - p.startOffset) := by
  unfold bumpActionsWithSha at h
  simp only [hx, h0, Option.isNone_some, Bool.and_false, Bool.false_eq_true, if_false] at h
  split at h
  · cases h
  · obtain ⟨⟨v, label⟩, _, hf⟩ := List.mem_filterMap.mp h
    simp only [if_true] at hf
    cases hs : tagSha p.name (extractPrefix p.version ++ v) with
    | none => simp [hs] at hf
    | some sha =>
      simp only [hs, Option.some.injEq] at hf
      subst hf
      refine ⟨extractPrefix p.version ++ v, sha, label, hs, ?_, ?_, ?_, ?_, ?_⟩ <;> simp [hashBumpAction, hx]

/-- for a pin without a comment the only offer is the move to the cached latest release, with the
    commit reported for exactly that tag; the edit replaces exactly the hash -/
theorem c17_hash_only (tagSha : Text → Text → Option Text) (vs : List Text)
    (latest : Option (Option Text)) (p : PkgInfo) (hh : Text) (h0 : p.commitHash = some hh)
    (hx : p.extra = none) (a : Action) (h : a ∈ bumpActionsWithSha tagSha (some vs) latest p) :
    ∃ l sha, latest = some (some l) ∧ tagSha p.name l = some sha ∧ a.newText = sha ∧
      a.title = "Bump to latest: ".toList ++ l ∧ a.startCol = p.column ∧ a.endCol = p.column + byteLen hh := by
  unfold bumpActionsWithSha at h
  simp only [hx, h0, Option.isSome_some, Option.isNone_none, Bool.and_self, if_true] at h
  split at h
  · cases h
  · cases latest with
    | none => cases h
    | some lo =>
      cases lo with
      | none => cases h
      | some l =>
        simp only at h
        cases hs : tagSha p.name l with
        | none => simp [hs] at h
        | some sha =>
          simp only [hs, List.mem_singleton] at h
          subst h
          exact ⟨l, sha, rfl, hs, by simp [hashBumpAction, hx], by simp [hashBumpAction, hx],
            by simp [hashBumpAction, hx], by simp [hashBumpAction, hx, h0]⟩

/-- **if the commit cannot be obtained the bump is not offered at all**: when every lookup fails
    (unknown tag, registry error, rate limit) there is no action; and no action is ever built from a
    failed lookup (previous two theorems: every action carries a successful lookup of its own tag) -/
theorem c17_failure_suppresses (tagSha : Text → Text → Option Text) (hfail : ∀ r t, tagSha r t = none)
    (vs : Option (List Text)) (latest : Option (Option Text)) (p : PkgInfo) (h0 : p.commitHash.isSome = true) :
    bumpActionsWithSha tagSha vs latest p = [] := by
  unfold bumpActionsWithSha
  cases vs with
  | none => rfl
  | some vs =>
    simp only
    split
    · rfl
    · split
      · cases latest with
        | none => rfl
        | some lo => cases lo <;> simp [hfail]
      · simp [h0, hfail]

/-- the verdict is passed on the version written in the comment: that is what the parser model puts
    into `version` (Model/GhaYaml), and the targets are computed from it -/
theorem c17_targets_from_comment (tagSha : Text → Text → Option Text) (vs : List Text)
    (latest : Option (Option Text)) (p : PkgInfo) (h0 : p.commitHash.isSome = true)
    (c : Text × Nat × Nat) (hx : p.extra = some c) (a : Action)
    (h : a ∈ bumpActionsWithSha tagSha (some vs) latest p) :
    ∃ v label, (v, label) ∈ dedupTargets (targets p.version vs) [] ∧
      a.title = titleFor label (extractPrefix p.version ++ v) := by
  unfold bumpActionsWithSha at h
  simp only [hx, h0, Option.isNone_some, Bool.and_false, Bool.false_eq_true, if_false] at h
  split at h
  · cases h
  · obtain ⟨⟨v, label⟩, hm, hf⟩ := List.mem_filterMap.mp h
    simp only [if_true] at hf
    cases hs : tagSha p.name (extractPrefix p.version ++ v) with
    | none => simp [hs] at hf
    | some sha =>
      simp only [hs, Option.some.injEq] at hf
      subst hf
      exact ⟨v, label, hm, by simp [hashBumpAction, hx]⟩

/-- **nothing is lost when the lookups succeed**: if the registry answers for every tag, a commented
    hash pin is offered exactly the bumps a plain version tag would be offered (same targets, same
    titles, same order) — C07's soundness and completeness of the targets carry over -/
theorem c17_complete_when_lookups_succeed (tagSha : Text → Text → Option Text) (f : Text → Text)
    (vs : List Text) (latest : Option (Option Text)) (p : PkgInfo) (h0 : p.commitHash.isSome = true)
    (c : Text × Nat × Nat) (hx : p.extra = some c) (hok : ∀ t, tagSha p.name t = some (f t)) :
    (bumpActionsWithSha tagSha (some vs) latest p).map (·.title) = (bumpActions (some vs) p).map (·.title) := by
  unfold bumpActionsWithSha bumpActions
  simp only [hx, h0, Option.isNone_some, Bool.and_false, Bool.false_eq_true, if_false, if_true, hok]
  split
  · rfl
  · generalize dedupTargets (targets p.version vs) [] = ts
    induction ts with
    | nil => rfl
    | cons t ts ih =>
      obtain ⟨v, label⟩ := t
      simp only [List.filterMap_cons, List.map_cons, ih]
      simp [hashBumpAction, bumpAction, hx]

/-! ### non-vacuity: tags that are prefixes of each other are not confused (the lookup is by equality) -/
example :
    let tagSha : Text → Text → Option Text := fun _ t =>
      if t == "v4.2.0".toList then some "b".toList else if t == "v4.2.0-rc.1".toList then some "a".toList else none
    let p : PkgInfo := ⟨"actions/checkout".toList, "v4.1.6".toList,
      some "8e5e7e5ab8b370d6c329ec480221332ada57f0ab".toList, 30, 70, 3, 20, some ("v4.1.6".toList, 71, 79)⟩
    (bumpActionsWithSha tagSha (some ["v4.1.6".toList, "v4.2.0".toList]) (some (some "v4.2.0".toList)) p).map
      (fun a => (a.newText, a.startCol, a.endCol)) = [("b # v4.2.0".toList, 20, 69)] := by decide

end Vlsp.C17
