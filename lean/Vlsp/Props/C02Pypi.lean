/-
  C02 / C01 — the PyPI matcher, for ANY PEP 440 engine: at every NON-EMPTY spec it satisfies the matcher laws
  ("latest inside" and "some cached version inside" are the same `contains`), so C01's decision theorem applies;
  the empty spec (a requirement without a version) deviates in one corner, kept as a theorem.
-/
import Vlsp.Model.Pypi
import Vlsp.Props.C01

namespace Vlsp.C02
open Vlsp Vlsp.Text

def pypiEco (P : Pep440) : Eco where
  wf s := s.isEmpty || P.specOk s
  wfV l := P.verOk l
  inside s v := if s.isEmpty then true else P.verOk v && P.contains s v
  alwaysPresent _ := false
  unanchored _ := false
  anchorBelow s l :=
    let base := Pypi.extractBase (trim s)
    if P.verOk base then P.le base l else true       -- no readable base: "assume outdated"

theorem pypi_laws_at (P : Pep440) (s : Text) (hs : s ≠ []) : MatcherLawsAt (Pypi.matcher P) (pypiEco P) s := by
  have he : s.isEmpty = false := by cases s <;> simp_all
  refine ⟨?_, ?_, ?_, ?_⟩
  · intro l
    simp only [Pypi.matcher, Pypi.compareToLatest, pypiEco, he, Bool.false_eq_true, if_false, Bool.false_or]
    cases hv : P.verOk l <;> cases hsp : P.specOk s <;> simp
    split
    · simp
    · split
      · split <;> simp
      · simp
  · intro l
    simp only [Pypi.matcher, Pypi.compareToLatest, pypiEco, he, Bool.false_eq_true, if_false, Bool.false_or, or_false]
    cases hv : P.verOk l <;> cases hsp : P.specOk s <;> simp
    cases hc : P.contains s l
    · simp only [Bool.false_eq_true, if_false]
      split
      · split <;> simp
      · simp
    · simp
  · intro l
    simp only [Pypi.matcher, Pypi.compareToLatest, pypiEco, he, Bool.false_eq_true, if_false, Bool.false_or, and_true]
    cases hv : P.verOk l <;> cases hsp : P.specOk s <;> simp
    cases hc : P.contains s l
    · simp only [Bool.false_eq_true, if_false, true_and]
      cases hb : P.verOk (Pypi.extractBase (trim s))
      · simp
      · simp only [if_true]
        cases hle : P.le (Pypi.extractBase (trim s)) l <;> simp
    · simp
  · intro vs hwf
    simp only [Pypi.matcher, Pypi.versionExists, pypiEco, he, Bool.false_eq_true, if_false, Bool.false_or, false_or] at hwf ⊢
    simp only [hwf, Bool.not_true, Bool.false_eq_true, if_false, List.any_eq_true]

/-- **C01's decision theorem holds for PyPI requirements with a non-empty specifier set, for any PEP 440 engine** -/
theorem c01_pypi (P : Pep440) (latest tagRes : Option Text) (versions : List Text) (cur : Text)
    (hne : tagRes.getD cur ≠ []) :
    Checker.diagFor (Pypi.matcher P) (C01.okReads latest tagRes versions) cur =
      Spec.Decision.specDiag (pypiEco P) latest tagRes versions cur :=
  C01.c01_decision_at (Pypi.matcher P) (pypiEco P) latest tagRes versions cur (pypi_laws_at P _ hne)

/-- **deviation, kept**: a requirement without a version (empty spec) is reported "latest" even when the cached
    latest is not a readable PEP 440 version — the table says `Invalid version format` there -/
theorem c02_deviation_pypi_empty (P : Pep440) (l : Text) (h : P.verOk l = false) :
    (Pypi.matcher P).cmp [] l = .latest ∧ (pypiEco P).wfV l = false := by
  simp [Pypi.matcher, Pypi.compareToLatest, pypiEco, h]

/-- an empty spec exists as soon as anything is cached -/
theorem c02_pypi_empty_exists (P : Pep440) (vs : List Text) : (Pypi.matcher P).exists_ [] vs = !vs.isEmpty := by
  simp [Pypi.matcher, Pypi.versionExists]

end Vlsp.C02
