/-
  C05, last clause — "with character positions counted in the units the LSP client expects" (F-C05-3, repaired):
  the range of a diagnostic as it goes on the wire is the UTF-16 position of the spec on its line.
-/
import Vlsp.Model.Server
import Vlsp.Lemmas.Utf16Span
import Vlsp.Props.C07Locate

namespace Vlsp.C05
open Vlsp Vlsp.Text Vlsp.Slice Vlsp.Pos Vlsp.Server

theorem utf16Length_append (a b : Text) : utf16Length (a ++ b) = utf16Length a + utf16Length b := by
  induction a with
  | nil => simp [utf16Length]
  | cons c cs ih => simp [utf16Length, ih]; omega

/-- **the diagnostic range on the wire, in the client's units**: let `q` be the package narrowed to its version text
    (`version_text_range`, or the package itself when the version does not occur in its token). For ANY document that
    splits at `q` as `before ++ lp ++ mid ++ post` (`lp` = the text of the line before the range, `mid` = the text of the
    range), the diagnostic goes out with start character = UTF-16 length of `lp` and end character = UTF-16 length of
    `lp ++ mid`, on the same line, same severity and message -/
theorem c05_wire_units (before lp mid post : Text) (d : Diag) (q : PkgInfo)
    (hq : q = (Bump.locateBytes (before ++ lp ++ mid ++ post) d.pkg).getD d.pkg)
    (hcol : q.column = byteLen lp) (hso : q.startOffset = byteLen before + byteLen lp) (heo : q.endOffset = q.startOffset + byteLen mid)
    (hnl : ∀ c ∈ lp, c ≠ '\n') :
    wireDiag (before ++ lp ++ mid ++ post) d =
      { d with c1 := utf16Length lp, c2 := utf16Length (lp ++ mid) } := by
  unfold wireDiag
  simp only [← hq]
  rw [utf16Span_spec before lp mid post q.column q.startOffset q.endOffset hcol hso heo hnl, utf16Length_append]

/-- **and `mid` IS the spec text** (the version; the hash of a hash-pinned action) whenever it occurs in the token: the
    reported range is exactly the spec (quoted `uses:` values, npm aliases and JSR specifiers included) -/
theorem c05_wire_covers_spec (content : Text) (p q : PkgInfo) (h : Bump.locateBytes content p = some q) :
    slice content q.startOffset q.endOffset = some (Bump.rangeText p) ∧ p.startOffset ≤ q.startOffset ∧ q.endOffset ≤ p.endOffset := by
  obtain ⟨hs, h1, h2, _, _, _, _, he, _, _⟩ := Bump.locate_covers content p q h
  exact ⟨by rw [he]; exact hs, h1, by rw [he]; exact h2⟩

/-- a publication changes on the wire in two ways only: diagnostics of values written over several lines are dropped, and
    every remaining range is converted with the text the server holds for THAT document -/
theorem c05_wire_pub (s : Srv) (uri : Text) (ds : List Diag) :
    wire s (.pub uri ds) =
      .pub uri ((ds.filter fun d => onOneLine (textOf0 s.texts uri) d.pkg.column d.pkg.startOffset d.pkg.endOffset).map
        (wireDiag (textOf0 s.texts uri))) := rfl

/-- **every range on the wire lies on one line** (F-C05-5, repaired): a diagnostic that goes out belongs to a package
    whose range contains no line break and starts on the reported line -/
theorem c05_wire_one_line (s : Srv) (uri : Text) (ds out : List Diag) (h : wire s (.pub uri ds) = .pub uri out)
    (d' : Diag) (hd : d' ∈ out) :
    ∃ d ∈ ds, d' = wireDiag (textOf0 s.texts uri) d ∧
      onOneLine (textOf0 s.texts uri) d.pkg.column d.pkg.startOffset d.pkg.endOffset = true := by
  rw [c05_wire_pub] at h
  injection h with _ hout
  rw [← hout] at hd
  obtain ⟨d, hdm, rfl⟩ := List.mem_map.mp hd
  obtain ⟨hin, hone⟩ := List.mem_filter.mp hdm
  exact ⟨d, hin, rfl, hone⟩

/-- what "on one line" means on a document that splits at the range: no line break in the line prefix, none in the range -/
theorem onOneLine_spec (before lp mid post : Text) (column so eo : Nat)
    (hcol : column = byteLen lp) (hso : so = byteLen before + byteLen lp) (heo : eo = so + byteLen mid) :
    onOneLine (before ++ lp ++ mid ++ post) column so eo = (!(mid.any (· == '\n')) && !(lp.any (· == '\n'))) := by
  unfold onOneLine
  have hle : column ≤ so := by omega
  have h1 : slice (before ++ lp ++ mid ++ post) (so - column) so = some lp := by
    have e : before ++ lp ++ mid ++ post = before ++ lp ++ (mid ++ post) := by simp
    have ea : so - column = byteLen before := by omega
    rw [e, ea, hso]; exact slice_append before lp (mid ++ post)
  have h2 : slice (before ++ lp ++ mid ++ post) so eo = some mid := by
    have ea : so = byteLen (before ++ lp) := by rw [byteLen_append]; exact hso
    have eb : eo = byteLen (before ++ lp) + byteLen mid := by rw [← ea]; exact heo
    rw [ea, eb]; exact slice_append (before ++ lp) mid post
  simp only [h1, h2, hle, if_true]

/-- when the offsets do not fit the text (a stale or foreign package), the byte columns go out unchanged -/
theorem c05_wire_fallback (content : Text) (d : Diag)
    (h : let q := (Bump.locateBytes content d.pkg).getD d.pkg; utf16Span content q.column q.startOffset q.endOffset = none) :
    wireDiag content d = d := by
  unfold wireDiag; simp only at h ⊢; rw [h]

/-- non-vacuity: after the two-byte `é` the spec `1.0.0` is at UTF-16 characters 6..11, not at bytes 7..12; the quoted
    `uses:` value whose parser range is `@v4"` goes out as exactly `v4` -/
example : (wireDiag "\"é\": \"1.0.0\"".toList ⟨.warning, [], 0, 7, 12, ⟨"é".toList, "1.0.0".toList, none, 7, 12, 0, 7, none⟩⟩).c1 = 6 ∧
    (wireDiag "\"é\": \"1.0.0\"".toList ⟨.warning, [], 0, 7, 12, ⟨"é".toList, "1.0.0".toList, none, 7, 12, 0, 7, none⟩⟩).c2 = 11 := by decide
example : (wireDiag "- uses: \"a/b@v4\"".toList ⟨.warning, [], 0, 12, 16, ⟨"a/b".toList, "v4".toList, none, 12, 16, 0, 12, none⟩⟩).c1 = 13 ∧
    (wireDiag "- uses: \"a/b@v4\"".toList ⟨.warning, [], 0, 12, 16, ⟨"a/b".toList, "v4".toList, none, 12, 16, 0, 12, none⟩⟩).c2 = 15 := by decide

end Vlsp.C05
