/-
  C05, last clause — "with character positions counted in the units the LSP client expects" (F-C05-3, repaired):
  the range of a diagnostic as it goes on the wire is the UTF-16 position of the spec on its line.
-/
import Vlsp.Model.Server
import Vlsp.Lemmas.Utf16Span

namespace Vlsp.C05
open Vlsp Vlsp.Text Vlsp.Slice Vlsp.Pos Vlsp.Server

theorem utf16Length_append (a b : Text) : utf16Length (a ++ b) = utf16Length a + utf16Length b := by
  induction a with
  | nil => simp [utf16Length]
  | cons c cs ih => simp [utf16Length, ih]; omega

/-- **the diagnostic range on the wire, in the client's units**: for ANY document that splits at the reported place as
    `before ++ lp ++ mid ++ post` (`lp` = the text of the line before the spec, `mid` = the spec's text), a diagnostic
    whose byte column is `|lp|` and whose byte range delimits `mid` goes out with start character = UTF-16 length of `lp`
    and end character = UTF-16 length of `lp ++ mid`, on the same line, same severity and message -/
theorem c05_wire_units (before lp mid post : Text) (d : Diag)
    (hcol : d.c1 = byteLen lp) (hso : d.so = byteLen before + byteLen lp) (heo : d.eo = d.so + byteLen mid)
    (hnl : ∀ c ∈ lp, c ≠ '\n') :
    wireDiag (before ++ lp ++ mid ++ post) d =
      { d with c1 := utf16Length lp, c2 := utf16Length (lp ++ mid) } := by
  unfold wireDiag
  rw [utf16Span_spec before lp mid post d.c1 d.so d.eo hcol hso heo hnl, utf16Length_append]

/-- a publication changes on the wire in its ranges only, and every range is converted with the text the server holds
    for THAT document -/
theorem c05_wire_pub (s : Srv) (uri : Text) (ds : List Diag) :
    wire s (.pub uri ds) = .pub uri (ds.map (wireDiag (textOf0 s.texts uri))) := rfl

/-- when the offsets do not fit the text (a stale or foreign package), the byte columns go out unchanged -/
theorem c05_wire_fallback (content : Text) (d : Diag) (h : utf16Span content d.c1 d.so d.eo = none) :
    wireDiag content d = d := by
  unfold wireDiag; rw [h]

/-- non-vacuity: after the two-byte `é` the spec `1.0.0` is at UTF-16 characters 6..11, not at bytes 7..12 -/
example : wireDiag "\"é\": \"1.0.0\"".toList ⟨.warning, [], 0, 7, 12, 7, 12⟩ = ⟨.warning, [], 0, 6, 11, 7, 12⟩ := by decide

end Vlsp.C05
