/-
  C02 at the level of parsed ranges: for EVERY range the npm matcher can hold and EVERY strictly parsed candidate,
  `VersionRange::satisfies` (model: `Npm.satisfiesRange`) is exactly satisfaction of the node-semver comparator it
  denotes (`Spec.NodeSemver.satComp` over `boundsOf`, the desugaring with `-0` floors).  Build metadata takes no part
  on either side (the code compares by SemVer precedence since the repair of F-C02-6); partial operands do not occur
  at this level (the code pads them with zeros while parsing: F-C02-2).
-/
import Vlsp.Spec.NpmDenote
import Vlsp.Lemmas.PreFloor
import Vlsp.Lemmas.SemverEq

namespace Vlsp.C02Ast
open Vlsp Vlsp.Text Vlsp.Semver Vlsp.Spec Vlsp.Spec.NodeSemver

/-! ### the two orders, componentwise -/

/-- lexicographic comparison of the three numbers, then `o` -/
def cmp4 (a b : Version) (o : Ordering) : Ordering :=
  (compare a.major b.major).then ((compare a.minor b.minor).then ((compare a.patch b.patch).then o))

theorem cmpPrec_eq (a b : Version) : cmpPrec a b = cmp4 a b (cmpPre a.pre b.pre) := rfl

theorem cmpBuild_nil : cmpBuild [] [] = .eq := by decide

theorem then_eq_right (o : Ordering) : o.then .eq = o := by cases o <;> rfl

/-- without build metadata the code's order is SemVer precedence -/
theorem cmp_eq_prec (a b : Version) (ha : a.build = []) (hb : b.build = []) : Semver.cmp a b = cmpPrec a b := by
  show (compare a.major b.major).then ((compare a.minor b.minor).then ((compare a.patch b.patch).then
      ((cmpPre a.pre b.pre).then (cmpBuild a.build b.build)))) = cmp4 a b (cmpPre a.pre b.pre)
  rw [ha, hb, cmpBuild_nil, then_eq_right]
  rfl

/-- an `Ordering` as a number, so that `omega` can reason about it next to the version components -/
def ordNum : Ordering → Nat
  | .lt => 0 | .eq => 1 | .gt => 2

theorem ordNum_le (o : Ordering) : ordNum o ≤ 2 := by cases o <;> simp [ordNum]
theorem ord_lt_iff (o : Ordering) : o = .lt ↔ ordNum o = 0 := by cases o <;> simp [ordNum]
theorem ord_gt_iff (o : Ordering) : o = .gt ↔ ordNum o = 2 := by cases o <;> simp [ordNum]
theorem ord_eq_iff (o : Ordering) : o = .eq ↔ ordNum o = 1 := by cases o <;> simp [ordNum]

theorem then_lt_iff (m n : Nat) (o : Ordering) : (compare m n).then o = .lt ↔ m < n ∨ (m = n ∧ ordNum o = 0) := by
  rcases Nat.lt_trichotomy m n with h | h | h
  · rw [Nat.compare_eq_lt.mpr h]
    exact ⟨fun _ => Or.inl h, fun _ => rfl⟩
  · rw [Nat.compare_eq_eq.mpr h]
    show o = .lt ↔ _
    rw [ord_lt_iff]; omega
  · rw [Nat.compare_eq_gt.mpr h]
    exact ⟨(fun hh => by cases hh), (fun hh => by omega)⟩

theorem then_gt_iff (m n : Nat) (o : Ordering) : (compare m n).then o = .gt ↔ n < m ∨ (m = n ∧ ordNum o = 2) := by
  rcases Nat.lt_trichotomy m n with h | h | h
  · rw [Nat.compare_eq_lt.mpr h]
    exact ⟨(fun hh => by cases hh), (fun hh => by omega)⟩
  · rw [Nat.compare_eq_eq.mpr h]
    show o = .gt ↔ _
    rw [ord_gt_iff]; omega
  · rw [Nat.compare_eq_gt.mpr h]
    exact ⟨fun _ => Or.inl h, fun _ => rfl⟩

theorem then_num (m n : Nat) (o : Ordering) :
    ordNum ((compare m n).then o) = if m < n then 0 else if m = n then ordNum o else 2 := by
  rcases Nat.lt_trichotomy m n with h | h | h
  · rw [Nat.compare_eq_lt.mpr h, if_pos h]; rfl
  · rw [Nat.compare_eq_eq.mpr h, if_neg (by omega), if_pos h]; rfl
  · rw [Nat.compare_eq_gt.mpr h, if_neg (by omega), if_neg (by omega)]; rfl

theorem cmp4_lt (a b : Version) (o : Ordering) : cmp4 a b o = .lt ↔
    a.major < b.major ∨ (a.major = b.major ∧ (a.minor < b.minor ∨ (a.minor = b.minor ∧
      (a.patch < b.patch ∨ (a.patch = b.patch ∧ ordNum o = 0))))) := by
  unfold cmp4
  rw [then_lt_iff, ← ord_lt_iff, then_lt_iff, ← ord_lt_iff, then_lt_iff]

theorem cmp4_gt (a b : Version) (o : Ordering) : cmp4 a b o = .gt ↔
    b.major < a.major ∨ (a.major = b.major ∧ (b.minor < a.minor ∨ (a.minor = b.minor ∧
      (b.patch < a.patch ∨ (a.patch = b.patch ∧ ordNum o = 2))))) := by
  unfold cmp4
  rw [then_gt_iff, ← ord_gt_iff, then_gt_iff, ← ord_gt_iff, then_gt_iff]

theorem then_eq_iff (m n : Nat) (o : Ordering) : (compare m n).then o = .eq ↔ m = n ∧ ordNum o = 1 := by
  rcases Nat.lt_trichotomy m n with h | h | h
  · rw [Nat.compare_eq_lt.mpr h]
    exact ⟨(fun hh => by cases hh), (fun hh => by omega)⟩
  · rw [Nat.compare_eq_eq.mpr h]
    show o = .eq ↔ _
    rw [ord_eq_iff]; omega
  · rw [Nat.compare_eq_gt.mpr h]
    exact ⟨(fun hh => by cases hh), (fun hh => by omega)⟩

theorem cmp4_eq (a b : Version) (o : Ordering) : cmp4 a b o = .eq ↔
    a.major = b.major ∧ a.minor = b.minor ∧ a.patch = b.patch ∧ ordNum o = 1 := by
  unfold cmp4
  rw [then_eq_iff, ← ord_eq_iff, then_eq_iff, ← ord_eq_iff, then_eq_iff]

/-- the code's precedence comparison is the reference's -/
theorem cmpPrecedence_eq (a b : Version) : cmpPrecedence a b = cmp4 a b (cmpPre a.pre b.pre) := rfl

/-! ### the floor "0" -/

theorem cmpPre_nil_zero : cmpPre [] ['0'] = .gt := by decide

/-- swapping the arguments of the prerelease order mirrors the result -/
theorem swap_sum (a b : Text) : ordNum (cmpPre a b) + ordNum (cmpPre b a) = 2 := by
  have hs : cmpPre a b = (cmpPre b a).swap := Std.OrientedCmp.eq_swap
  rw [hs]; cases cmpPre b a <;> simp [Ordering.swap, ordNum]

theorem floor_not_lt (p : Text) (h : PreFloor p) : ordNum (cmpPre p ['0']) ≠ 0 := by
  rcases h with rfl | h
  · rw [cmpPre_nil_zero]; simp [ordNum]
  · rw [Ne, ← ord_lt_iff]; exact h

/-! ### what a model range denotes: `toRef`, `specRef` (Spec/NpmDenote.lean) -/

/-! ### the comparisons as arithmetic -/

theorem plt_iff (a b : Version) : plt a b = true ↔ cmp4 a b (cmpPre a.pre b.pre) = .lt := by
  unfold plt; rw [cmpPrecedence_eq]; simp
theorem pgt_iff (a b : Version) : pgt a b = true ↔ cmp4 a b (cmpPre a.pre b.pre) = .gt := by
  unfold pgt; rw [cmpPrecedence_eq]; simp
theorem pge_iff (a b : Version) : pge a b = true ↔ ¬ cmp4 a b (cmpPre a.pre b.pre) = .lt := by
  unfold pge; rw [cmpPrecedence_eq]; simp
theorem ple_iff (a b : Version) : ple a b = true ↔ ¬ cmp4 a b (cmpPre a.pre b.pre) = .gt := by
  unfold ple; rw [cmpPrecedence_eq]; simp
theorem peq_iff (a b : Version) : peq a b = true ↔ cmp4 a b (cmpPre a.pre b.pre) = .eq := by
  unfold peq; rw [cmpPrecedence_eq]; simp

theorem precLt_iff (a b : Version) : precLt a b = true ↔ cmp4 a b (cmpPre a.pre b.pre) = .lt := by
  unfold precLt; rw [cmpPrec_eq]; simp

theorem precLe_iff (a b : Version) : precLe a b = true ↔ ¬ cmp4 a b (cmpPre a.pre b.pre) = .gt := by
  unfold precLe; rw [cmpPrec_eq]; simp

/-- `x < floor A B C` for a candidate whose prerelease is not below "0": purely numeric -/
theorem precLt_floor (x : Version) (hx : PreFloor x.pre) (A B C : Nat) :
    precLt x (floorV A B C) = true ↔
      x.major < A ∨ (x.major = A ∧ (x.minor < B ∨ (x.minor = B ∧ x.patch < C))) := by
  rw [precLt_iff, cmp4_lt]
  have := floor_not_lt x.pre hx
  simp only [floorV]
  omega

/-- `floor A B C ≤ x`: purely numeric as well -/
theorem precLe_floor (x : Version) (hx : PreFloor x.pre) (A B C : Nat) :
    precLe (floorV A B C) x = true ↔
      A < x.major ∨ (x.major = A ∧ (B < x.minor ∨ (x.minor = B ∧ C ≤ x.patch))) := by
  rw [precLe_iff, cmp4_gt]
  have := floor_not_lt x.pre hx
  have := swap_sum x.pre ['0']
  simp only [floorV]
  omega

/-! ### the theorem -/

/-- **for every parsed range and every candidate whose prerelease is well formed, the code's `satisfies` is
    node-semver's** (each side becomes a formula over the three numbers and the prerelease comparison; `omega`
    decides the equivalence) -/
theorem c02_npm_ast (r : Npm.VersionRange) (x : Version) (hx : PreFloor x.pre) :
    Npm.satisfiesRange r x = satComp (toRef r) x := by
  induction r with
  | anchored r a ih => simp only [Npm.satisfiesRange, toRef]; exact ih
  | exact v =>
    simp only [Npm.satisfiesRange, toRef, satComp, boundsOf, fullP, Bounds.sat, Bool.not_false, Bool.true_and, Bool.and_true]
    rw [Bool.eq_iff_iff, peq_iff, beq_iff_eq, cmpPrec_eq]
    simp only [cmp4_eq]
  | caret v =>
    simp only [Npm.satisfiesRange, toRef, satComp, boundsOf, fullP]
    rw [Bool.eq_iff_iff]
    have hsw := swap_sum x.pre v.pre
    have hl := plt_iff x v
    rw [cmp4_lt] at hl
    by_cases hM : v.major > 0
    · have hM0 : (v.major == 0) = false := by simp; omega
      simp only [hM, if_true, hM0, Bool.false_eq_true, if_false, Bounds.sat, Bool.not_false, Bool.true_and, Bool.and_true,
        Bool.and_eq_true, precLe_iff, cmp4_gt, precLt_floor x hx]
      cases hlt : plt x v with
      | true => have hl' := hl.mp hlt; simp only [if_true, Bool.false_eq_true, false_iff]; omega
      | false =>
        have hl' : ¬ _ := fun h => by rw [hl.mpr h] at hlt; cases hlt
        simp only [Bool.false_eq_true, if_false, Bool.and_eq_true, beq_iff_eq]; omega
    · have hM0 : v.major = 0 := by omega
      have hM0b : (v.major == 0) = true := by simp [hM0]
      by_cases hm : v.minor > 0
      · have hm0 : (v.minor == 0) = false := by simp; omega
        simp only [hM, if_false, hm, if_true, hM0b, hm0, Bool.false_eq_true, Bounds.sat, Bool.not_false, Bool.true_and,
          Bool.and_true, Bool.and_eq_true, precLe_iff, cmp4_gt, precLt_floor x hx]
        cases hlt : plt x v with
        | true => have hl' := hl.mp hlt; simp only [if_true, Bool.false_eq_true, false_iff]; omega
        | false =>
          have hl' : ¬ _ := fun h => by rw [hl.mpr h] at hlt; cases hlt
          simp only [Bool.false_eq_true, if_false, Bool.and_eq_true, beq_iff_eq]; omega
      · have hm0 : v.minor = 0 := by omega
        have hm0b : (v.minor == 0) = true := by simp [hm0]
        simp only [hM, if_false, hm, hM0b, hm0b, if_true, Bounds.sat, Bool.not_false, Bool.true_and,
          Bool.and_true, Bool.and_eq_true, precLe_iff, cmp4_gt, precLt_floor x hx]
        cases hlt : plt x v with
        | true => have hl' := hl.mp hlt; simp only [if_true, Bool.false_eq_true, false_iff]; omega
        | false =>
          have hl' : ¬ _ := fun h => by rw [hl.mpr h] at hlt; cases hlt
          simp only [Bool.false_eq_true, if_false, Bool.and_eq_true, beq_iff_eq]; omega
  | tilde v =>
    simp only [Npm.satisfiesRange, toRef, satComp, boundsOf, fullP, Bounds.sat, Bool.not_false, Bool.true_and, Bool.and_true]
    rw [Bool.eq_iff_iff]
    have hsw := swap_sum x.pre v.pre
    simp only [Bool.and_eq_true, beq_iff_eq, pge_iff, precLe_iff, cmp4_lt, cmp4_gt, precLt_floor x hx]
    omega
  | gte v =>
    simp only [Npm.satisfiesRange, toRef, satComp, boundsOf, fullP, Bounds.sat, Bool.not_false, Bool.true_and, Bool.and_true]
    have hsw := swap_sum x.pre v.pre
    rw [Bool.eq_iff_iff, pge_iff, precLe_iff, cmp4_lt, cmp4_gt]
    simp only
    omega
  | gt v =>
    simp only [Npm.satisfiesRange, toRef, satComp, fullP, Partial.isFull, Option.isSome_some, Bool.and_self, if_true]
    have hsw := swap_sum x.pre v.pre
    rw [Bool.eq_iff_iff, pgt_iff, precLt_iff, cmp4_gt, cmp4_lt]
    simp only
    omega
  | lte v =>
    simp only [Npm.satisfiesRange, toRef, satComp, boundsOf, fullP, Bounds.sat, Bool.not_false, Bool.true_and, Bool.and_true]
    rw [Bool.eq_iff_iff, ple_iff, precLe_iff]; exact Iff.rfl
  | lt v =>
    simp only [Npm.satisfiesRange, toRef, satComp, boundsOf, fullP, Bounds.sat, Bool.not_false, Bool.true_and, Bool.and_true]
    rw [Bool.eq_iff_iff, plt_iff, precLt_iff]; exact Iff.rfl
  | any =>
    simp [Npm.satisfiesRange, toRef, satComp, boundsOf, Bounds.sat]
  | wildcardMajor m =>
    simp only [Npm.satisfiesRange, toRef, satComp, boundsOf, Bounds.sat, Bool.not_false, Bool.true_and, Bool.and_true]
    rw [Bool.eq_iff_iff]
    simp only [Bool.and_eq_true, beq_iff_eq, precLe_floor x hx, precLt_floor x hx]
    omega
  | wildcardMinor m n =>
    simp only [Npm.satisfiesRange, toRef, satComp, boundsOf, Bounds.sat, Bool.not_false, Bool.true_and, Bool.and_true]
    rw [Bool.eq_iff_iff]
    simp only [Bool.and_eq_true, beq_iff_eq, precLe_floor x hx, precLt_floor x hx]
    omega
  | hyphen f t =>
    simp only [Npm.satisfiesRange, toRef, satComp, boundsOf, fullP, Bounds.sat, Bool.not_false, Bool.true_and, Bool.and_true]
    rw [Bool.eq_iff_iff]
    have hsw := swap_sum x.pre f.pre
    simp only [Bool.and_eq_true, pge_iff, ple_iff, precLe_iff, cmp4_lt, cmp4_gt]
    omega

/-! ### whole specs (`And`, `Or`) -/

theorem all_map_congr (rs : List Npm.VersionRange) (x : Version) (hx : PreFloor x.pre) :
    rs.all (Npm.satisfiesRange · x) = (rs.map toRef).all (satComp · x) := by
  induction rs with
  | nil => rfl
  | cons r rest ih =>
    simp only [List.all_cons, List.map_cons]
    rw [c02_npm_ast r x hx, ih]

theorem flat_sat (s : Npm.VersionSpec) (x : Version) (hx : PreFloor x.pre) (hno : isOr s = false) :
    Npm.satisfiesFlat s x = (flatRef s).all (satComp · x) := by
  cases s with
  | single r => simp only [Npm.satisfiesFlat, flatRef, List.all_cons, List.all_nil, Bool.and_true]; exact c02_npm_ast r x hx
  | and rs => simp only [Npm.satisfiesFlat, flatRef]; exact all_map_congr rs x hx
  | or _ => cases hno

/-- **`VersionSpec::satisfies` is node-semver's `sat` of the denoted range** -/
theorem c02_npm_spec_ast (s : Npm.VersionSpec) (x : Version) (hx : PreFloor x.pre) :
    Npm.satisfies s x = NodeSemver.sat (specRef s) x := by
  cases s with
  | single r =>
    simp only [Npm.satisfies, specRef, NodeSemver.sat, List.any_cons, List.any_nil, Bool.or_false]
    exact flat_sat (.single r) x hx rfl
  | and rs =>
    simp only [Npm.satisfies, specRef, NodeSemver.sat, List.any_cons, List.any_nil, Bool.or_false]
    exact flat_sat (.and rs) x hx rfl
  | or ss =>
    simp only [Npm.satisfies, specRef, NodeSemver.sat]
    induction ss with
    | nil => rfl
    | cons s rest ih =>
      cases hor : isOr s with
      | true =>
        cases s with
        | or inner =>
          simp only [List.any_cons, Npm.satisfiesFlat, Bool.false_or, List.filter_cons, hor, Bool.not_true, Bool.false_eq_true, if_false]
          exact ih
        | single _ => cases hor
        | and _ => cases hor
      | false =>
        simp only [List.any_cons, List.filter_cons, hor, Bool.not_false, if_true, List.map_cons]
        rw [flat_sat s x hx hor, ih]

/-- `=v` and `v` denote the same comparator: normalising the reference's reading changes nothing -/
theorem satComp_norm (c : Comp) (x : Version) : satComp (normComp c) x = satComp c x := by
  cases c with
  | hyphen a b => rfl
  | cmp op p =>
    obtain ⟨maj, min, pat, pre⟩ := p
    cases op <;> cases maj <;> cases min <;> cases pat <;> try rfl
    -- what is left: `^M.m`, whose spelling depends on `M > 0`
    rename_i M m
    simp only [normComp]
    by_cases hM : M > 0
    · have hne : (M == 0) = false := by simp; omega
      simp [hM, satComp, boundsOf, floorP, floorV, hne]
    · have h0 : M = 0 := by omega
      subst h0
      simp [satComp, boundsOf]

theorem sat_norm (r : Range) (x : Version) : NodeSemver.sat (normRange r) x = NodeSemver.sat r x := by
  unfold NodeSemver.sat normRange
  induction r with
  | nil => rfl
  | cons c rest ih =>
    simp only [List.map_cons, List.any_cons, ih]
    congr 1
    induction c with
    | nil => rfl
    | cons k ks ihk => simp only [List.map_cons, List.all_cons, satComp_norm, ihk]

/-- **from one evaluation to all candidates**: when the code's parser and the reference parser read a spec text as
    the same range (`sameReading spec = "same"`, evaluated by the driver on every generated spec), the code's verdict
    equals the reference verdict for EVERY strictly parsed candidate, build metadata or not -/
theorem c02_npm_same_reading (spec : Text) (h : sameReading spec = "same") (v : Text) (x : Version)
    (hv : parseStrict v = some x) :
    ∃ s r, Npm.parseSpec spec = some s ∧ NodeSemver.parse spec = some r ∧ Npm.satisfies s x = NodeSemver.sat r x := by
  unfold sameReading at h
  cases hs : Npm.parseSpec spec with
  | none => rw [hs] at h; cases hr : NodeSemver.parse spec <;> rw [hr] at h <;> simp at h
  | some s =>
    cases hr : NodeSemver.parse spec with
    | none => rw [hs, hr] at h; simp at h
    | some r =>
      rw [hs, hr] at h
      simp only at h
      have heq : specRef s = normRange r := by
        by_cases hq : (specRef s == normRange r) = true
        · exact eq_of_beq hq
        · rw [if_neg hq] at h; simp at h
      refine ⟨s, r, rfl, rfl, ?_⟩
      rw [c02_npm_spec_ast s x (parseStrict_floor v x hv), heq, sat_norm]

/-- a strictly parsed candidate meets the two hypotheses as soon as it has no `+build` part -/
theorem candidate_ok (t : Text) (x : Version) (h : parseStrict t = some x) : PreFloor x.pre :=
  parseStrict_floor t x h

/-! non-vacuity: concrete ranges and candidates, evaluated on both sides -/
example : Npm.satisfiesRange (.caret ⟨0, 2, 3, [], []⟩) ⟨0, 2, 9, "rc.1".toList, []⟩ = true ∧
    satComp (toRef (.caret ⟨0, 2, 3, [], []⟩)) ⟨0, 2, 9, "rc.1".toList, []⟩ = true := by decide
example : Npm.satisfiesRange (.tilde ⟨1, 2, 3, [], []⟩) ⟨1, 3, 0, [], []⟩ = false ∧
    satComp (toRef (.tilde ⟨1, 2, 3, [], []⟩)) ⟨1, 3, 0, [], []⟩ = false := by decide
example : PreFloor "rc.1".toList := Or.inr (by decide)

end Vlsp.C02Ast
