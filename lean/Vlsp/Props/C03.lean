/-
  C03 — "latest" is the registry's latest tag, else the highest stable cached version.

  Model : Vlsp.Latest.getLatest (src/version/cache.rs get_latest_version) over
          Vlsp.Semver.{parseVersion, cmp} (src/version/semver.rs + semver crate Ord).
  The cache-history part (isolation between packages/registries, reopen) is the
  corollary `c03_history` in Props/C08 (refinement of the SQL model to a map).
-/
import Vlsp.Model.Latest
import Vlsp.Lemmas.MaxBy
import Vlsp.Spec.LatestSpec

namespace Vlsp.C03
open Vlsp Vlsp.Text Vlsp.Semver Vlsp.Latest Std

instance : TransCmp cmpSnd := by unfold cmpSnd; infer_instance

/-- a cached `latest` tag always wins, whatever the version list holds -/
theorem c03_tag_wins (ip : Bool) (t : Text) (vs : List Text) : getLatest ip (some t) vs = some t := rfl

theorem keepParsed_some {ip : Bool} {v : Text} {x : Text × Version} (h : keepParsed ip v = some x) :
    x.1 = v ∧ parseVersion v = some x.2 ∧ (ip = true → x.2.pre = []) := by
  unfold keepParsed at h
  cases hp : parseVersion v with
  | none => simp [hp] at h
  | some p =>
    simp only [hp] at h
    split at h
    · cases h
    · rename_i hc
      cases h
      refine ⟨rfl, rfl, ?_⟩
      intro hip
      simp only [hip, Bool.true_and, Bool.not_eq_true', List.isEmpty_eq_false_iff] at hc
      simpa using hc

/-- what `getLatest` returns without a tag: the spelling of a maximal kept member -/
theorem getLatest_spec {ip : Bool} {vs : List Text} {l : Text} (h : getLatest ip none vs = some l) :
    l ∈ vs ∧ ∃ pl, keepParsed ip l = some (l, pl) ∧
      ∀ v ∈ vs, ∀ pv, keepParsed ip v = some (v, pv) → cmp pv pl ≠ .gt := by
  unfold getLatest at h
  simp only at h
  split at h
  · cases h
  · rw [Option.map_eq_some_iff] at h
    obtain ⟨⟨l', pl⟩, hm, hl⟩ := h
    simp only at hl; subst hl
    obtain ⟨hmem, hmax⟩ := lastMaxBy_spec cmpSnd hm
    rw [List.mem_filterMap] at hmem
    obtain ⟨v, hv, hk⟩ := hmem
    have hk' := keepParsed_some hk
    simp only at hk'
    obtain ⟨rfl, _, _⟩ := hk'
    refine ⟨hv, pl, hk, ?_⟩
    intro w hw pw hkw
    have : (w, pw) ∈ vs.filterMap (keepParsed ip) := List.mem_filterMap.mpr ⟨w, hw, hkw⟩
    exact hmax _ this

/-- the latest is always a member of what the registry reported -/
theorem c03_member (ip : Bool) (vs : List Text) (l : Text) (h : getLatest ip none vs = some l) : l ∈ vs :=
  (getLatest_spec h).1

/-- with any tag setting: a member of the reported versions, or the reported `latest` tag -/
theorem c03_member_or_tag (ip : Bool) (tag : Option Text) (vs : List Text) (l : Text)
    (h : getLatest ip tag vs = some l) : l ∈ vs ∨ tag = some l := by
  cases tag with
  | none => exact Or.inl (c03_member ip vs l h)
  | some t => right; simpa [getLatest] using h

/-- never a prerelease when prereleases are ignored and no tag is cached -/
theorem c03_not_prerelease (vs : List Text) (l : Text) (h : getLatest true none vs = some l) :
    isPrerelease l = false := by
  obtain ⟨_, pl, hk, _⟩ := getLatest_spec h
  obtain ⟨_, hp, hpre⟩ := keepParsed_some hk
  simp only at hp hpre
  unfold isPrerelease
  rw [hp]; simp [hpre trivial]

/-- it is SemVer-highest among the cached versions that survive the filter -/
theorem c03_is_max (ip : Bool) (vs : List Text) (l : Text) (h : getLatest ip none vs = some l) :
    ∃ pl, parseVersion l = some pl ∧
      ∀ v ∈ vs, ∀ pv, keepParsed ip v = some (v, pv) → cmp pv pl ≠ .gt := by
  obtain ⟨_, pl, hk, hmax⟩ := getLatest_spec h
  exact ⟨pl, (keepParsed_some hk).2.1, hmax⟩

/-- no latest exactly when no cached version survives the filter -/
theorem c03_none_iff (ip : Bool) (vs : List Text) :
    getLatest ip none vs = none ↔ ∀ v ∈ vs, keepParsed ip v = none := by
  unfold getLatest
  simp only
  split
  · rename_i he
    have : vs = [] := by simpa using he
    subst this; simp
  · rw [Option.map_eq_none_iff, lastMaxBy_none_iff, List.filterMap_eq_nil_iff]

/-- **Order, batching and repetition independence.**  Two fill histories that
    leave the same *set* of version strings in the cache (any order, any
    duplicates, any batching) give the same latest up to spelling: the two
    answers parse to versions of equal precedence (and `none` iff `none`). -/
theorem c03_set_invariant (ip : Bool) (vs₁ vs₂ : List Text) (hset : ∀ v, v ∈ vs₁ ↔ v ∈ vs₂) :
    match getLatest ip none vs₁, getLatest ip none vs₂ with
    | none, none => True
    | some l₁, some l₂ => ∃ p₁ p₂, parseVersion l₁ = some p₁ ∧ parseVersion l₂ = some p₂ ∧ cmp p₁ p₂ = .eq
    | _, _ => False := by
  cases h1 : getLatest ip none vs₁ with
  | none =>
    have n1 := (c03_none_iff ip vs₁).mp h1
    have : getLatest ip none vs₂ = none :=
      (c03_none_iff ip vs₂).mpr fun v hv => n1 v ((hset v).mpr hv)
    rw [this]; trivial
  | some l₁ =>
    cases h2 : getLatest ip none vs₂ with
    | none =>
      have n2 := (c03_none_iff ip vs₂).mp h2
      have : getLatest ip none vs₁ = none :=
        (c03_none_iff ip vs₁).mpr fun v hv => n2 v ((hset v).mp hv)
      rw [this] at h1; cases h1
    | some l₂ =>
      obtain ⟨m1, p1, k1, max1⟩ := getLatest_spec h1
      obtain ⟨m2, p2, k2, max2⟩ := getLatest_spec h2
      refine ⟨p1, p2, (keepParsed_some k1).2.1, (keepParsed_some k2).2.1, ?_⟩
      have a : cmp p2 p1 ≠ .gt := max1 l₂ ((hset l₂).mpr m2) p2 k2
      have b : cmp p1 p2 ≠ .gt := max2 l₁ ((hset l₁).mp m1) p1 k1
      rw [Ne, cmp_gt_iff_lt] at a
      cases h : cmp p1 p2 with
      | eq => rfl
      | lt => exact absurd h a
      | gt => exact absurd h b

/-- permutations are a special case -/
theorem c03_perm_invariant (ip : Bool) (vs₁ vs₂ : List Text) (hp : vs₁.Perm vs₂) :
    match getLatest ip none vs₁, getLatest ip none vs₂ with
    | none, none => True
    | some l₁, some l₂ => ∃ p₁ p₂, parseVersion l₁ = some p₁ ∧ parseVersion l₂ = some p₂ ∧ cmp p₁ p₂ = .eq
    | _, _ => False :=
  c03_set_invariant ip vs₁ vs₂ fun _ => hp.mem_iff

/-- storing a batch twice / re-fetching changes nothing -/
theorem c03_repetition (ip : Bool) (vs : List Text) :
    match getLatest ip none vs, getLatest ip none (vs ++ vs) with
    | none, none => True
    | some l₁, some l₂ => ∃ p₁ p₂, parseVersion l₁ = some p₁ ∧ parseVersion l₂ = some p₂ ∧ cmp p₁ p₂ = .eq
    | _, _ => False :=
  c03_set_invariant ip vs (vs ++ vs) fun v => by simp

theorem kept_eq (ip : Bool) (v : Text) : Spec.LatestSpec.kept ip v = (keepParsed ip v).map Prod.snd := by
  unfold Spec.LatestSpec.kept keepParsed
  cases parseVersion v with
  | none => rfl
  | some p => simp only; split <;> rfl

/-- the model's answer always passes the executable acceptance test the search uses
    (so that test accepts every behaviour the theorems above allow, and nothing else
    is needed to judge the implementation's answer on the rows it read) -/
theorem c03_acceptable (ip : Bool) (tag : Option Text) (vs : List Text) :
    Spec.LatestSpec.acceptable ip tag vs (getLatest ip tag vs) = true := by
  cases tag with
  | some t => simp [Spec.LatestSpec.acceptable, getLatest]
  | none =>
    unfold Spec.LatestSpec.acceptable
    simp only
    cases h : getLatest ip none vs with
    | none =>
      have := (c03_none_iff ip vs).mp h
      simp only [List.all_eq_true]
      intro v hv
      rw [kept_eq, this v hv]; rfl
    | some l =>
      obtain ⟨hm, pl, hk, hmax⟩ := getLatest_spec h
      have hkl : Spec.LatestSpec.kept ip l = some pl := by rw [kept_eq, hk]; rfl
      simp only [hkl, Bool.and_eq_true, List.contains_iff_mem, List.all_eq_true]
      refine ⟨hm, ?_⟩
      intro v hv
      cases hkv : Spec.LatestSpec.kept ip v with
      | none => rfl
      | some pv =>
        simp only
        have : keepParsed ip v = some (v, pv) := by
          rw [kept_eq] at hkv
          cases hq : keepParsed ip v with
          | none => rw [hq] at hkv; cases hkv
          | some x =>
            rw [hq] at hkv
            have := keepParsed_some hq
            obtain ⟨x1, x2⟩ := x
            simp only [Option.map_some, Option.some.injEq] at hkv
            simp only at this
            rw [← this.1, hkv]
        have := hmax v hv pv this
        cases hc : cmp pv pl <;> simp_all

/-- when no two *distinct* cached strings denote versions of equal precedence (the
    usual case: a registry lists each version once), even the returned **string** does
    not depend on order, batching or repetition -/
theorem c03_same_spelling_when_unique (ip : Bool) (vs₁ vs₂ : List Text) (hset : ∀ v, v ∈ vs₁ ↔ v ∈ vs₂)
    (huniq : ∀ a ∈ vs₁, ∀ b ∈ vs₁, ∀ pa pb, parseVersion a = some pa → parseVersion b = some pb →
      cmp pa pb = .eq → a = b) :
    getLatest ip none vs₁ = getLatest ip none vs₂ := by
  have h := c03_set_invariant ip vs₁ vs₂ hset
  cases h1 : getLatest ip none vs₁ with
  | none =>
    cases h2 : getLatest ip none vs₂ with
    | none => rfl
    | some l₂ => rw [h1, h2] at h; exact h.elim
  | some l₁ =>
    cases h2 : getLatest ip none vs₂ with
    | none => rw [h1, h2] at h; exact h.elim
    | some l₂ =>
      rw [h1, h2] at h
      obtain ⟨p₁, p₂, hp1, hp2, he⟩ := h
      have m1 := c03_member ip vs₁ l₁ h1
      have m2 := (hset l₂).mpr (c03_member ip vs₂ l₂ h2)
      rw [huniq l₁ m1 l₂ m2 p₁ p₂ hp1 hp2 he]

/-! ### monotone in the history: a later fetch that only adds versions never lowers
    the latest, and switching prereleases off never raises it -/

/-- **Growth.**  If a later fetch leaves a superset of the version strings in the
    cache, the new latest exists and is not SemVer-below the old one. -/
theorem c03_grow_mono (ip : Bool) (vs ws : List Text) (hsub : ∀ v ∈ vs, v ∈ ws) (l : Text)
    (h : getLatest ip none vs = some l) :
    ∃ l' pl pl', getLatest ip none ws = some l' ∧ parseVersion l = some pl ∧
      parseVersion l' = some pl' ∧ cmp pl pl' ≠ .gt := by
  obtain ⟨hm, pl, hk, _⟩ := getLatest_spec h
  cases h' : getLatest ip none ws with
  | none =>
    have := (c03_none_iff ip ws).mp h' l (hsub l hm)
    rw [hk] at this; cases this
  | some l' =>
    obtain ⟨_, pl', hk', hmax'⟩ := getLatest_spec h'
    exact ⟨l', pl, pl', rfl, (keepParsed_some hk).2.1, (keepParsed_some hk').2.1,
      hmax' l (hsub l hm) pl hk⟩

/-- appending a batch is the special case the refresh loop produces -/
theorem c03_append_mono (ip : Bool) (vs extra : List Text) (l : Text)
    (h : getLatest ip none vs = some l) :
    ∃ l' pl pl', getLatest ip none (vs ++ extra) = some l' ∧ parseVersion l = some pl ∧
      parseVersion l' = some pl' ∧ cmp pl pl' ≠ .gt :=
  c03_grow_mono ip vs (vs ++ extra) (fun _ hv => List.mem_append_left _ hv) l h

theorem keepParsed_true_imp {v : Text} {x : Text × Version} (h : keepParsed true v = some x) :
    keepParsed false v = some x := by
  unfold keepParsed at h ⊢
  cases hp : parseVersion v with
  | none => simp [hp] at h
  | some p =>
    simp only [hp] at h ⊢
    split at h
    · cases h
    · simpa using h

/-- **Setting.**  Ignoring prereleases can only lower (or keep) the answer: the
    stable latest is never SemVer-above the latest computed with prereleases allowed. -/
theorem c03_ignore_le (vs : List Text) (l : Text) (h : getLatest true none vs = some l) :
    ∃ l' pl pl', getLatest false none vs = some l' ∧ parseVersion l = some pl ∧
      parseVersion l' = some pl' ∧ cmp pl pl' ≠ .gt := by
  obtain ⟨hm, pl, hk, _⟩ := getLatest_spec h
  have hk0 := keepParsed_true_imp hk
  cases h' : getLatest false none vs with
  | none =>
    have := (c03_none_iff false vs).mp h' l hm
    rw [hk0] at this; cases this
  | some l' =>
    obtain ⟨_, pl', hk', hmax'⟩ := getLatest_spec h'
    exact ⟨l', pl, pl', rfl, (keepParsed_some hk).2.1, (keepParsed_some hk').2.1,
      hmax' l hm pl hk0⟩

theorem filterMap_congr_mem {α β : Type} (f g : α → Option β) :
    ∀ (l : List α), (∀ a ∈ l, f a = g a) → l.filterMap f = l.filterMap g
  | [], _ => rfl
  | a :: t, h => by
    have ha : f a = g a := h a List.mem_cons_self
    have ht := filterMap_congr_mem f g t (fun b hb => h b (List.mem_cons_of_mem _ hb))
    simp only [List.filterMap_cons, ha, ht]

/-- when the cache holds no prerelease at all, the setting makes no difference -/
theorem c03_setting_irrelevant_on_stable (vs : List Text)
    (hst : ∀ v ∈ vs, isPrerelease v = false) :
    getLatest true none vs = getLatest false none vs := by
  have hk : ∀ v ∈ vs, keepParsed true v = keepParsed false v := by
    intro v hv
    have := hst v hv
    unfold isPrerelease at this
    unfold keepParsed
    cases hp : parseVersion v with
    | none => rfl
    | some p =>
      rw [hp] at this
      simp only at this ⊢
      simp_all
  have hf := filterMap_congr_mem (keepParsed true) (keepParsed false) vs hk
  unfold getLatest
  simp only
  rw [hf]

/-! ### non-vacuity: concrete caches -/
example : getLatest true none ["1.0.0".toList, "1.2.0".toList, "junk".toList] =
          getLatest true none ["junk".toList, "1.2.0".toList, "1.0.0".toList, "1.2.0".toList] := by decide
example : ∃ l', getLatest true none (["1.0.0".toList] ++ ["0.9.0".toList, "1.2.0".toList]) = some l' ∧
    l' = "1.2.0".toList := ⟨_, by decide, rfl⟩
example : getLatest true none ["1.0.0".toList, "2.0.0-rc.1".toList] = some "1.0.0".toList ∧
    getLatest false none ["1.0.0".toList, "2.0.0-rc.1".toList] = some "2.0.0-rc.1".toList := by decide
example : getLatest true none ["1.0.0".toList, "2.0.0-beta.1".toList, "v1.5".toList] = some "v1.5".toList := by decide
example : getLatest false none ["1.0.0".toList, "2.0.0-beta.1".toList, "v1.5".toList] = some "2.0.0-beta.1".toList := by decide
example : getLatest true (some "0.9.0".toList) ["1.0.0".toList] = some "0.9.0".toList := by decide
example : getLatest true none ["junk".toList, "2.0.0-rc.1".toList] = none := by decide
/-- different spellings of one version: which string is returned depends on order
    (the property allows exactly this: "up to different spellings") -/
example : getLatest true none ["1.0".toList, "1.0.0".toList] = some "1.0.0".toList ∧
          getLatest true none ["1.0.0".toList, "1.0".toList] = some "1.0".toList := by decide

end Vlsp.C03
