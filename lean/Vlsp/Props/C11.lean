/-
  C11 — a crash or error during a cache write never leaves a half-written package.
-/
import Vlsp.Model.Txn
import Vlsp.Props.C08
import Vlsp.Props.C09

namespace Vlsp.C11
open Vlsp Vlsp.Text Vlsp.Db Vlsp.Txn Vlsp.C08

/-- the two multi-statement writers are bracketed by a transaction in the source
    (regenerated on every run: dropping `conn.transaction()`/`tx.commit()` from either
    function changes `Generated.transactionalFns` and this theorem stops checking) -/
theorem c11_writers_transactional (k : Key) (vs : List Text) (tags : List (Text × Text)) (now : Int) :
    (replaceProg k vs now).tx = true ∧ (tagsProg k tags now).tx = true := by
  constructor
  · show Generated.transactionalFns.contains "replace_versions" = true; decide
  · show Generated.transactionalFns.contains "save_dist_tags" = true; decide

/-! the statement programs compute the operations of the cache model -/

theorem foldl_insertVersion (db : Db) (k : Key) (pid : Nat) (vs : List Text) (h : db.selectId k = some pid) :
    runStmts db (vs.map (Stmt.insertVersion k)) = vs.foldl (fun d v => d.stmtInsertVersionIgnore pid v) db := by
  induction vs generalizing db with
  | nil => rfl
  | cons v vs ih =>
    simp only [List.map_cons, runStmts, List.foldl_cons, Stmt.exec, h]
    have hs : (db.stmtInsertVersionIgnore pid v).selectId k = some pid := by
      unfold stmtInsertVersionIgnore; split <;> exact h
    exact ih _ hs

theorem replaceProg_full {db : Db} (hi : Inv db) (k : Key) (vs : List Text) (now : Int) :
    (replaceProg k vs now).full db = Cache.replaceVersions db k vs now := by
  obtain ⟨pid, hs, _, _⟩ := selectId_upsertTouch hi k now
  simp only [Prog.full, replaceProg, runStmts, List.foldl_cons, Stmt.exec, Cache.replaceVersions, hs]
  exact foldl_insertVersion _ k pid vs hs

/-- **never a partial version list**: whatever the crash / error point inside `replace_versions`,
    the whole database is either exactly as before or exactly as after -/
theorem c11_versions_never_partial {db : Db} (hi : Inv db) (k : Key) (vs : List Text) (now : Int) (n : Nat) :
    crashAt (replaceProg k vs now) n db = db ∨
    crashAt (replaceProg k vs now) n db = Cache.replaceVersions db k vs now := by
  unfold crashAt
  rw [(c11_writers_transactional k vs [] now).1]
  simp only [if_true]
  split
  · right; exact replaceProg_full hi k vs now
  · left; rfl

theorem foldl_insertTag (db : Db) (k : Key) (pid : Nat) (tags : List (Text × Text)) (h : db.selectId k = some pid) :
    runStmts db (tags.map fun tv => Stmt.insertTag k tv.1 tv.2) =
      tags.foldl (fun d tv => d.stmtInsertTag pid tv.1 tv.2) db := by
  induction tags generalizing db with
  | nil => rfl
  | cons t ts ih =>
    simp only [List.map_cons, runStmts, List.foldl_cons, Stmt.exec, h]
    exact ih _ h

theorem tagsProg_full {db : Db} (hi : Inv db) (k : Key) (tags : List (Text × Text)) (now : Int) :
    (tagsProg k tags now).full db = Cache.saveDistTags db k tags now := by
  unfold tagsProg Cache.saveDistTags Prog.full
  split
  · rfl
  · obtain ⟨pid, hs, _⟩ := selectId_insertPkgIgnore hi k now
    simp only [runStmts, List.foldl_cons, Stmt.exec, hs]
    have hs2 : ((db.stmtInsertPkgIgnore k now).stmtDeleteTags pid).selectId k = some pid := hs
    exact foldl_insertTag _ k pid tags hs2

/-- **never an emptied or half-filled tag map** -/
theorem c11_tags_never_partial {db : Db} (hi : Inv db) (k : Key) (tags : List (Text × Text)) (now : Int) (n : Nat) :
    crashAt (tagsProg k tags now) n db = db ∨
    crashAt (tagsProg k tags now) n db = Cache.saveDistTags db k tags now := by
  unfold crashAt
  rw [(c11_writers_transactional k [] tags now).2]
  simp only [if_true]
  split
  · right; exact tagsProg_full hi k tags now
  · left; rfl

/-- the single-statement and two-statement operations: every prefix of `try_start_fetch`
    is either "nothing happened" or the completed claim -/
theorem c11_claim_prefixes {db : Db} (k : Key) (now : Int) :
    -- crash before the UPDATE: nothing; after an UPDATE that changed a row: the claim is complete;
    -- after an UPDATE that changed nothing: the database is unchanged on every claim column
    (db.stmtClaimUpdate k now (now - Generated.fetchTimeoutMs)).2 > 0 →
      (db.stmtClaimUpdate k now (now - Generated.fetchTimeoutMs)).1 = (Cache.tryStartFetch db k now).1 := by
  intro h
  unfold Cache.tryStartFetch
  simp [h]

/-- the schema constraints survive every crash point (so the C08 refinement applies after
    recovery: the database can be opened again and works) -/
theorem c11_inv_preserved {db : Db} (hi : Inv db) (k : Key) (vs : List Text) (tags : List (Text × Text))
    (htags : (tags.map (·.1)).Nodup) (now : Int) (n : Nat) :
    Inv (crashAt (replaceProg k vs now) n db) ∧ Inv (crashAt (tagsProg k tags now) n db) := by
  constructor
  · rcases c11_versions_never_partial hi k vs now n with h | h <;> rw [h]
    · exact hi
    · exact inv_replaceVersions hi k vs now
  · rcases c11_tags_never_partial hi k tags now n with h | h <;> rw [h]
    · exact hi
    · exact inv_saveDistTags hi k tags now htags

/-- **durability of what had returned**: a crash inside a later `replace_versions` loses nothing
    that an earlier, completed history had stored -/
theorem c11_durable (ops : List C08.Op) (hw : ∀ op ∈ ops, op.wf) (k k' : Key) (vs : List Text) (now : Int) (n : Nat)
    (w : Text) (h : w ∈ (C08.run ops Db.empty).versionsOf k') :
    w ∈ (crashAt (replaceProg k vs now) n (C08.run ops Db.empty)).versionsOf k' := by
  have hi := c08_inv ops hw inv_empty
  rcases c11_versions_never_partial hi k vs now n with e | e <;> rw [e]
  · exact h
  · exact (c08_replace_versions hi k k' vs now w).mpr (Or.inl h)

/-- a claim left behind by a dead process stops blocking after the 30-second expiry -/
theorem c11_dead_claim_expires {db : Db} (hi : Inv db) (k : Key) (t now : Int)
    (hc : C09.fsOf db k = some (some t)) (hexp : t + Claim.timeout < now) :
    (Cache.tryStartFetch db k now).2 = true :=
  (C09.c09_attempt_iff hi k now).mpr (Or.inr (Or.inr ⟨t, hc, hexp⟩))

/-! non-vacuity: a mid-operation crash point of a 3-version store -/
example :
    let k : Key := ⟨"npm".toList, "p".toList⟩
    let db := Cache.replaceVersions Db.empty k ["0.9.0".toList] 1
    (crashAt (replaceProg k ["1.0.0".toList, "1.1.0".toList, "1.2.0".toList] 5) 2 db).versionsOf k = ["0.9.0".toList] ∧
    (crashAt (replaceProg k ["1.0.0".toList, "1.1.0".toList, "1.2.0".toList] 5) 5 db).versionsOf k =
      ["0.9.0".toList, "1.0.0".toList, "1.1.0".toList, "1.2.0".toList] := by decide

end Vlsp.C11
