/-
  C03 over cache histories — corollaries of the C08 refinement
  (`c08_union`, `c08_tags_last_nonempty`) and of the order-independence and
  monotonicity theorems of Props/C03.

  `getLatestVersion cfg db k` is the model of `Cache::get_latest_version`
  (Model/Cache.lean): `getLatest` applied to the two reads of `k`.
-/
import Vlsp.Props.C03
import Vlsp.Props.C08

namespace Vlsp.C03
open Vlsp Vlsp.Text Vlsp.Semver Vlsp.Latest Vlsp.Db Vlsp.Cache Vlsp.C08

/-- "the same answer up to spelling" -/
def SameLatest (a b : Option Text) : Prop :=
  match a, b with
  | none, none => True
  | some l₁, some l₂ => ∃ p₁ p₂, parseVersion l₁ = some p₁ ∧ parseVersion l₂ = some p₂ ∧ cmp p₁ p₂ = .eq
  | _, _ => False

/-- the versions a history stores under `k` -/
def Stored (k : Key) (ops : List Op) (w : Text) : Prop := ∃ vs now, Op.replace k vs now ∈ ops ∧ w ∈ vs

/-- **C03 over histories.**  Two arbitrary operation histories (any order, batching,
    repetition, interleaved packages and registries, claims, marks, re-opens) that
    stored the same *set* of versions under `k` and whose last non-empty tag map for
    `k` is the same give the same latest for `k`: the same string when a `latest` tag
    is cached, and otherwise versions of equal precedence (`none` iff `none`). -/
theorem c03_history (cfg : CacheCfg) (ops₁ ops₂ : List Op)
    (hw₁ : ∀ op ∈ ops₁, op.wf) (hw₂ : ∀ op ∈ ops₂, op.wf) (k : Key)
    (hset : ∀ w, Stored k ops₁ w ↔ Stored k ops₂ w)
    (htags : lastTags k [] ops₁ = lastTags k [] ops₂) :
    (∀ t, (run ops₁ Db.empty).tagOf k "latest".toList = some t →
        getLatestVersion cfg (run ops₁ Db.empty) k = some t ∧
        getLatestVersion cfg (run ops₂ Db.empty) k = some t) ∧
    ((run ops₁ Db.empty).tagOf k "latest".toList = none →
        SameLatest (getLatestVersion cfg (run ops₁ Db.empty) k)
                   (getLatestVersion cfg (run ops₂ Db.empty) k)) := by
  have ht1 := c08_tags_last_nonempty ops₁ hw₁ inv_empty k
  have ht2 := c08_tags_last_nonempty ops₂ hw₂ inv_empty k
  have he : (Db.empty).tagsOf k = [] := by simp [tagsOf, findPkg, Db.empty]
  rw [he] at ht1 ht2
  have htag : (run ops₂ Db.empty).tagOf k "latest".toList = (run ops₁ Db.empty).tagOf k "latest".toList := by
    unfold tagOf; rw [ht1, ht2, htags]
  constructor
  · intro t h
    unfold getLatestVersion
    rw [htag, h]
    exact ⟨rfl, rfl⟩
  · intro h
    unfold getLatestVersion
    rw [htag, h]
    have := c03_set_invariant cfg.ignorePrerelease ((run ops₁ Db.empty).versionsOf k)
      ((run ops₂ Db.empty).versionsOf k) (fun v => by
        rw [c08_union_fresh ops₁ hw₁, c08_union_fresh ops₂ hw₂]; exact hset v)
    unfold SameLatest
    exact this

theorem lastTags_noop (k : Key) : ∀ (more : List Op) (init : List (Text × Text)),
    (∀ t now, Op.tags k t now ∈ more → t = []) → lastTags k init more = init
  | [], _, _ => rfl
  | op :: more, init, hn => by
    have ih := lastTags_noop k more init (fun t now h => hn t now (List.mem_cons_of_mem _ h))
    unfold lastTags at ih ⊢
    simp only [List.foldl_cons]
    cases op with
    | tags k' t now =>
      simp only
      split
      · rename_i hc
        obtain ⟨rfl, hne⟩ := hc
        exact absurd (hn t now List.mem_cons_self) hne
      · exact ih
    | replace _ _ _ => exact ih
    | mark _ _ => exact ih
    | claim _ _ => exact ih
    | finish _ => exact ih
    | reopen => exact ih

/-- **Isolation.**  Whatever is done to *other* packages or registries (same name under
    another registry included) after a history leaves the latest of `k` unchanged up to
    spelling, and unchanged as a string when it comes from the `latest` tag. -/
theorem c03_isolation (cfg : CacheCfg) (ops more : List Op)
    (hw : ∀ op ∈ ops, op.wf) (hwm : ∀ op ∈ more, op.wf) (k : Key)
    (hother : ∀ w, ¬ Stored k more w)
    (hnotags : ∀ t now, Op.tags k t now ∈ more → t = []) :
    (∀ t, (run ops Db.empty).tagOf k "latest".toList = some t →
        getLatestVersion cfg (run (ops ++ more) Db.empty) k = some t) ∧
    ((run ops Db.empty).tagOf k "latest".toList = none →
        SameLatest (getLatestVersion cfg (run ops Db.empty) k)
                   (getLatestVersion cfg (run (ops ++ more) Db.empty) k)) := by
  have hwa : ∀ op ∈ ops ++ more, op.wf := fun op h => by
    rcases List.mem_append.mp h with h | h
    · exact hw op h
    · exact hwm op h
  have hl : ∀ init, lastTags k init more = init := fun init => lastTags_noop k more init hnotags
  have hT : lastTags k [] ops = lastTags k [] (ops ++ more) := by
    unfold lastTags
    rw [List.foldl_append]
    exact (hl _).symm
  have hS : ∀ w, Stored k ops w ↔ Stored k (ops ++ more) w := by
    intro w
    constructor
    · rintro ⟨vs, now, hm, hv⟩; exact ⟨vs, now, List.mem_append_left _ hm, hv⟩
    · rintro ⟨vs, now, hm, hv⟩
      rcases List.mem_append.mp hm with h | h
      · exact ⟨vs, now, h, hv⟩
      · exact absurd ⟨vs, now, h, hv⟩ (hother w)
  have := c03_history cfg ops (ops ++ more) hw hwa k hS hT
  exact ⟨fun t h => (this.1 t h).2, this.2⟩

/-- **Monotone in the history.**  With no `latest` tag cached before or after, any
    continuation of a history (more fetches of any package, in any order) leaves a
    latest for `k` that exists and is not SemVer-below the earlier one. -/
theorem c03_history_mono (cfg : CacheCfg) (ops more : List Op)
    (hw : ∀ op ∈ ops, op.wf) (hwm : ∀ op ∈ more, op.wf) (k : Key) (l : Text)
    (ht : (run ops Db.empty).tagOf k "latest".toList = none)
    (ht' : (run (ops ++ more) Db.empty).tagOf k "latest".toList = none)
    (h : getLatestVersion cfg (run ops Db.empty) k = some l) :
    ∃ l' pl pl', getLatestVersion cfg (run (ops ++ more) Db.empty) k = some l' ∧
      parseVersion l = some pl ∧ parseVersion l' = some pl' ∧ cmp pl pl' ≠ .gt := by
  have hwa : ∀ op ∈ ops ++ more, op.wf := fun op h => by
    rcases List.mem_append.mp h with h | h
    · exact hw op h
    · exact hwm op h
  unfold getLatestVersion at h ⊢
  rw [ht] at h
  rw [ht']
  refine c03_grow_mono cfg.ignorePrerelease _ _ (fun v hv => ?_) l h
  rw [c08_union_fresh ops hw] at hv
  rw [c08_union_fresh (ops ++ more) hwa]
  obtain ⟨vs, now, hm, hvv⟩ := hv
  exact ⟨vs, now, List.mem_append_left _ hm, hvv⟩

/-! ### non-vacuity -/
private def kA : Key := ⟨"npm".toList, "left-pad".toList⟩
private def kB : Key := ⟨"jsr".toList, "left-pad".toList⟩

example :
    getLatestVersion ⟨0, true⟩ (run [.replace kA ["1.0.0".toList, "1.1.0".toList] 5,
        .replace kB ["9.0.0".toList] 6, .reopen, .replace kA ["1.1.0".toList, "0.9.0".toList] 7] Db.empty) kA
      = some "1.1.0".toList := by decide
example :
    getLatestVersion ⟨0, true⟩ (run [.replace kA ["0.9.0".toList] 1, .claim kA 2,
        .replace kA ["1.1.0".toList, "1.0.0".toList] 3, .finish kA] Db.empty) kA
      = some "1.1.0".toList := by decide

end Vlsp.C03
