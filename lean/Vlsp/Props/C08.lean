/-
  C08 — the cache returns exactly what was stored, per package, across any history.

  Model : Vlsp.Cache.* over Vlsp.Db (statement sequences of src/version/cache.rs)
  Spec  : per-key abstract record (union of version lists, last non-empty tag map,
          nonexistent mark, update time, claim) — stated as equations on the reads.
-/
import Vlsp.Lemmas.DbLemmas

namespace Vlsp.C08
open Vlsp Vlsp.Text Vlsp.Db Vlsp.Cache

/-! ### reads are unaffected by row changes that keep key and id -/

theorem versionsOf_updatePkgs (db : Db) (k k' : Key) (f : Pkg → Pkg)
    (hf : ∀ p, (f p).key = p.key ∧ (f p).id = p.id) :
    (db.updatePkgs k f).versionsOf k' = db.versionsOf k' := by
  rw [versionsOf_eq, versionsOf_eq, findPkg_updatePkgs db k k' f (fun p => (hf p).1)]
  cases db.findPkg k' with
  | none => rfl
  | some p =>
    simp only [Option.map_some]
    have : (if p.key == k then f p else p).id = p.id := by split; exact (hf p).2; rfl
    rw [this]; rfl

theorem tagsOf_updatePkgs (db : Db) (k k' : Key) (f : Pkg → Pkg)
    (hf : ∀ p, (f p).key = p.key ∧ (f p).id = p.id) :
    (db.updatePkgs k f).tagsOf k' = db.tagsOf k' := by
  rw [tagsOf_eq, tagsOf_eq, findPkg_updatePkgs db k k' f (fun p => (hf p).1)]
  cases db.findPkg k' with
  | none => rfl
  | some p =>
    simp only [Option.map_some]
    have : (if p.key == k then f p else p).id = p.id := by split; exact (hf p).2; rfl
    rw [this]; rfl

theorem versionsOf_insertPkg {db : Db} (hi : Inv db) (k k' : Key) (now : Int) (fs : Option Int) (nf : Bool) :
    (db.insertPkg k now fs nf).versionsOf k' = db.versionsOf k' := by
  rw [versionsOf_eq, versionsOf_eq, findPkg_insertPkg]
  cases db.findPkg k' with
  | some p => rfl
  | none =>
    simp only
    by_cases hk : k = k'
    · simp only [hk, if_true]
      have : (db.insertPkg k' now fs nf).versOfId db.nextId = db.versOfId db.nextId := rfl
      rw [this]; exact versOfId_fresh hi (Nat.le_refl _)
    · simp only [hk, if_false]

theorem tagsOfId_fresh {db : Db} (hi : Inv db) {id : Nat} (h : db.nextId ≤ id) : db.tagsOfId id = [] := by
  unfold tagsOfId
  rw [List.map_eq_nil_iff, List.filter_eq_nil_iff]
  intro r hr
  have := hi.tagsFresh r hr
  simp only [beq_iff_eq]
  omega

theorem tagsOf_insertPkg {db : Db} (hi : Inv db) (k k' : Key) (now : Int) (fs : Option Int) (nf : Bool) :
    (db.insertPkg k now fs nf).tagsOf k' = db.tagsOf k' := by
  rw [tagsOf_eq, tagsOf_eq, findPkg_insertPkg]
  cases db.findPkg k' with
  | some p => rfl
  | none =>
    simp only
    by_cases hk : k = k'
    · simp only [hk, if_true]
      have : (db.insertPkg k' now fs nf).tagsOfId db.nextId = db.tagsOfId db.nextId := rfl
      rw [this]; exact tagsOfId_fresh hi (Nat.le_refl _)
    · simp only [hk, if_false]

/-! ### replace_versions -/

theorem touch_pres (now : Int) (p : Pkg) :
    ({ p with updatedAt := now } : Pkg).key = p.key ∧ ({ p with updatedAt := now } : Pkg).id = p.id := ⟨rfl, rfl⟩

theorem inv_upsertTouch {db : Db} (hi : Inv db) (k : Key) (now : Int) : Inv (db.stmtUpsertTouch k now) := by
  unfold stmtUpsertTouch
  split
  · exact inv_updatePkgs hi k _ (touch_pres now)
  · rename_i h
    exact inv_insertPkg hi k now none false (by simpa using h)

theorem selectId_upsertTouch {db : Db} (hi : Inv db) (k : Key) (now : Int) :
    ∃ pid, (db.stmtUpsertTouch k now).selectId k = some pid ∧ pid < (db.stmtUpsertTouch k now).nextId ∧
      (db.stmtUpsertTouch k now).versOfId pid = db.versionsOf k := by
  unfold stmtUpsertTouch selectId
  cases hf : db.findPkg k with
  | some p =>
    simp only [Option.isSome_some, if_true]
    rw [findPkg_updatePkgs db k k _ (fun p => (touch_pres now p).1), hf]
    have hk := (findPkg_some_mem hf)
    refine ⟨p.id, ?_, hi.idsFresh p hk.1, ?_⟩
    · simp only [Option.map_some, Option.some.injEq]
      split <;> rfl
    · rw [versionsOf_eq, hf]; rfl
  | none =>
    simp only [Option.isSome_none, Bool.false_eq_true, if_false]
    rw [findPkg_insertPkg, hf]
    refine ⟨db.nextId, by simp, by simp [insertPkg], ?_⟩
    rw [versionsOf_eq, hf]
    have : (db.insertPkg k now none false).versOfId db.nextId = db.versOfId db.nextId := rfl
    rw [this]; exact versOfId_fresh hi (Nat.le_refl _)

theorem inv_replaceVersions {db : Db} (hi : Inv db) (k : Key) (vs : List Text) (now : Int) :
    Inv (replaceVersions db k vs now) := by
  unfold replaceVersions
  obtain ⟨pid, hs, hlt, _⟩ := selectId_upsertTouch hi k now
  simp only [hs]
  exact inv_foldl_insert (inv_upsertTouch hi k now) pid vs hlt

/-- **read-back = union**: after storing `vs` under `k`, `k` reads back what it had plus `vs`;
    every other key (another package, or the same name in another registry) is untouched -/
theorem c08_replace_versions {db : Db} (hi : Inv db) (k k' : Key) (vs : List Text) (now : Int) (w : Text) :
    w ∈ (replaceVersions db k vs now).versionsOf k' ↔ w ∈ db.versionsOf k' ∨ (k' = k ∧ w ∈ vs) := by
  unfold replaceVersions
  obtain ⟨pid, hs, hlt, hv⟩ := selectId_upsertTouch hi k now
  simp only [hs]
  have hi1 := inv_upsertTouch hi k now
  have hold : (db.stmtUpsertTouch k now).versionsOf k' = db.versionsOf k' := by
    unfold stmtUpsertTouch
    split
    · exact versionsOf_updatePkgs db k k' _ (touch_pres now)
    · exact versionsOf_insertPkg hi k k' now none false
  generalize db.stmtUpsertTouch k now = db1 at hs hlt hv hi1 hold ⊢
  obtain ⟨hp, _, _⟩ := foldl_insert_pkgs db1 pid vs
  -- the row of k in db1 has id pid
  have hfk : ∃ p, db1.findPkg k = some p ∧ p.id = pid := by
    unfold selectId at hs
    cases h : db1.findPkg k with
    | none => simp [h] at hs
    | some p => exact ⟨p, rfl, by simpa [h] using hs⟩
  obtain ⟨pk, hpk, hpid⟩ := hfk
  have hfind : ∀ k'', (vs.foldl (fun d v => d.stmtInsertVersionIgnore pid v) db1).findPkg k'' = db1.findPkg k'' := by
    intro k''; unfold findPkg; rw [hp]
  rw [versionsOf_eq, hfind]
  by_cases hkk : k' = k
  · subst hkk
    rw [hpk]
    simp only
    rw [mem_versOfId_foldl, hpid, hv]
    simp
  · -- another key: its row (if any) has a different id
    cases hq : db1.findPkg k' with
    | none =>
      have : db1.versionsOf k' = [] := by rw [versionsOf_eq, hq]
      rw [← hold, this]; simp [hkk]
    | some q =>
      simp only
      rw [mem_versOfId_foldl]
      have hne : q.id ≠ pid := by
        intro he
        have m1 := findPkg_some_mem hq
        have m2 := findPkg_some_mem hpk
        have : q = pk := by
          have hn := hi1.idsNodup
          -- two rows with the same id are the same row
          exact eq_of_nodup_map hn m1.1 m2.1 (by rw [he, hpid])
        rw [this] at m1
        exact hkk (m1.2.symm.trans m2.2)
      have : db1.versionsOf k' = db1.versOfId q.id := by rw [versionsOf_eq, hq]
      rw [← hold, this]
      simp [hne, hkk]

/-- no duplicates, ever -/
theorem c08_versions_nodup {db : Db} (hi : Inv db) (k : Key) : (db.versionsOf k).Nodup := by
  rw [versionsOf_eq]
  cases db.findPkg k with
  | none => simp
  | some p => exact versOfId_nodup hi p.id

/-! ### save_dist_tags -/

theorem foldl_insertTag_eq (db : Db) (pid : Nat) (tags : List (Text × Text)) :
    (tags.foldl (fun d tv => d.stmtInsertTag pid tv.1 tv.2) db) =
      { db with tags := db.tags ++ tags.map fun tv => (pid, tv.1, tv.2) } := by
  induction tags generalizing db with
  | nil => simp
  | cons t ts ih =>
    rw [List.foldl_cons, ih]
    simp only [stmtInsertTag, List.map_cons, List.append_assoc, List.singleton_append]

theorem inv_insertPkgIgnore {db : Db} (hi : Inv db) (k : Key) (now : Int) : Inv (db.stmtInsertPkgIgnore k now) := by
  unfold stmtInsertPkgIgnore
  split
  · exact hi
  · rename_i h; exact inv_insertPkg hi k now none false (by simpa using h)

theorem selectId_insertPkgIgnore {db : Db} (hi : Inv db) (k : Key) (now : Int) :
    ∃ pid, (db.stmtInsertPkgIgnore k now).selectId k = some pid ∧ pid < (db.stmtInsertPkgIgnore k now).nextId := by
  unfold stmtInsertPkgIgnore selectId
  cases hf : db.findPkg k with
  | some p =>
    simp only [Option.isSome_some, if_true, hf, Option.map_some]
    exact ⟨p.id, rfl, hi.idsFresh p (findPkg_some_mem hf).1⟩
  | none =>
    simp only [Option.isSome_none, Bool.false_eq_true, if_false]
    rw [findPkg_insertPkg, hf]
    exact ⟨db.nextId, by simp, by simp [insertPkg]⟩

/-- what `save_dist_tags` does to the database, in one equation -/
theorem saveDistTags_eq {db : Db} (hi : Inv db) (k : Key) (tags : List (Text × Text)) (now : Int)
    (hne : tags ≠ []) :
    ∃ pid, (db.stmtInsertPkgIgnore k now).selectId k = some pid ∧
      saveDistTags db k tags now =
        { db.stmtInsertPkgIgnore k now with
          tags := ((db.stmtInsertPkgIgnore k now).tags.filter fun r => r.1 != pid) ++
                  tags.map fun tv => (pid, tv.1, tv.2) } := by
  obtain ⟨pid, hs, _⟩ := selectId_insertPkgIgnore hi k now
  refine ⟨pid, hs, ?_⟩
  unfold saveDistTags
  have : tags.isEmpty = false := by cases tags <;> simp_all
  simp only [this, Bool.false_eq_true, if_false, hs]
  rw [foldl_insertTag_eq]
  rfl

theorem inv_saveDistTags {db : Db} (hi : Inv db) (k : Key) (tags : List (Text × Text)) (now : Int)
    (hk : (tags.map (·.1)).Nodup) : Inv (saveDistTags db k tags now) := by
  by_cases hne : tags = []
  · subst hne; exact hi
  · obtain ⟨pid, hs, heq⟩ := saveDistTags_eq hi k tags now hne
    obtain ⟨pid', hs', hlt⟩ := selectId_insertPkgIgnore hi k now
    have hpp : pid' = pid := by rw [hs] at hs'; exact (Option.some.inj hs').symm
    subst hpp
    have hi1 := inv_insertPkgIgnore hi k now
    rw [heq]
    generalize db.stmtInsertPkgIgnore k now = db1 at hi1 hlt
    constructor
    · exact hi1.keysNodup
    · exact hi1.idsNodup
    · exact hi1.idsFresh
    · exact hi1.versNodup
    · exact hi1.versFresh
    · intro r hr
      simp only [List.mem_append, List.mem_filter, List.mem_map] at hr
      rcases hr with ⟨hr, _⟩ | ⟨tv, _, rfl⟩
      · exact hi1.tagsFresh r hr
      · exact hlt
    · simp only [List.map_append, List.map_map]
      rw [List.nodup_append]
      refine ⟨?_, ?_, ?_⟩
      · exact (List.Nodup.sublist (List.Sublist.map _ List.filter_sublist) hi1.tagsNodup)
      · have : (List.map ((fun r : Nat × Text × Text => (r.1, r.2.1)) ∘ fun tv : Text × Text => (pid', tv.1, tv.2)) tags)
            = (tags.map (·.1)).map fun t => (pid', t) := by
          simp [List.map_map, Function.comp]
        rw [this]
        have hinj : ∀ (l : List Text), l.Nodup → (l.map fun t => (pid', t)).Nodup := by
          intro l hl
          induction l with
          | nil => simp
          | cons a as ih =>
            simp only [List.nodup_cons] at hl
            simp only [List.map_cons, List.nodup_cons, List.mem_map, Prod.mk.injEq, true_and, exists_eq_right]
            exact ⟨hl.1, ih hl.2⟩
        exact hinj _ hk
      · intro a ha b hb
        simp only [List.mem_map, List.mem_filter, Function.comp] at ha hb
        obtain ⟨r, ⟨_, hr⟩, rfl⟩ := ha
        obtain ⟨tv, _, rfl⟩ := hb
        intro he
        simp only [Prod.mk.injEq] at he
        simp only [bne_iff_ne, ne_eq] at hr
        exact hr he.1

/-- storing tags never touches any version list -/
theorem c08_tags_keep_versions {db : Db} (hi : Inv db) (k k' : Key) (tags : List (Text × Text)) (now : Int) :
    (saveDistTags db k tags now).versionsOf k' = db.versionsOf k' := by
  by_cases hne : tags = []
  · subst hne; rfl
  · obtain ⟨pid, _, heq⟩ := saveDistTags_eq hi k tags now hne
    rw [heq]
    have : ∀ (d : Db) (t : List (Nat × Text × Text)), ({ d with tags := t } : Db).versionsOf k' = d.versionsOf k' :=
      fun _ _ => rfl
    rw [this]
    unfold stmtInsertPkgIgnore
    split
    · rfl
    · exact versionsOf_insertPkg hi k k' now none false

/-- **tags = the most recent non-empty map**: after storing a non-empty map under `k`,
    `k` reads back exactly that map; an empty map changes nothing; other keys are untouched -/
theorem c08_tags_replace {db : Db} (hi : Inv db) (k : Key) (tags : List (Text × Text)) (now : Int)
    (hne : tags ≠ []) : (saveDistTags db k tags now).tagsOf k = tags := by
  obtain ⟨pid, hs, heq⟩ := saveDistTags_eq hi k tags now hne
  rw [heq, tagsOf_eq]
  have hf : ∀ (d : Db) (t : List (Nat × Text × Text)), ({ d with tags := t } : Db).findPkg k = d.findPkg k :=
    fun _ _ => rfl
  rw [hf]
  unfold selectId at hs
  cases hq : (db.stmtInsertPkgIgnore k now).findPkg k with
  | none => simp [hq] at hs
  | some p =>
    have hp : p.id = pid := by simpa [hq] using hs
    simp only
    unfold tagsOfId
    simp only [List.filter_append, List.map_append, hp]
    have h1 : (List.filter (fun r => r.1 == pid)
        (List.filter (fun r => r.1 != pid) (db.stmtInsertPkgIgnore k now).tags)) = [] := by
      rw [List.filter_eq_nil_iff]
      intro r hr
      have := (List.mem_filter.mp hr).2
      simpa using this
    have h2 : List.filter (fun r : Nat × Text × Text => r.1 == pid) (tags.map fun tv => (pid, tv.1, tv.2)) =
        tags.map fun tv => (pid, tv.1, tv.2) := by
      rw [List.filter_eq_self]
      intro r hr
      obtain ⟨tv, _, rfl⟩ := List.mem_map.mp hr
      simp
    rw [h1, h2]
    simp only [List.map_nil, List.nil_append, List.map_map]
    have : ((fun x : Nat × Text × Text => x.2) ∘ fun tv : Text × Text => (pid, tv.1, tv.2)) = id := by
      funext tv; rfl
    rw [this, List.map_id]

theorem c08_tags_empty_noop (db : Db) (k : Key) (now : Int) : saveDistTags db k [] now = db := rfl

theorem c08_tags_isolation {db : Db} (hi : Inv db) (k k' : Key) (tags : List (Text × Text)) (now : Int)
    (hkk : k' ≠ k) : (saveDistTags db k tags now).tagsOf k' = db.tagsOf k' := by
  by_cases hne : tags = []
  · subst hne; rfl
  · obtain ⟨pid, hs, heq⟩ := saveDistTags_eq hi k tags now hne
    have hi1 := inv_insertPkgIgnore hi k now
    have hold : (db.stmtInsertPkgIgnore k now).tagsOf k' = db.tagsOf k' := by
      unfold stmtInsertPkgIgnore
      split
      · rfl
      · exact tagsOf_insertPkg hi k k' now none false
    rw [heq, tagsOf_eq, ← hold, tagsOf_eq]
    have hf : ∀ (d : Db) (t : List (Nat × Text × Text)), ({ d with tags := t } : Db).findPkg k' = d.findPkg k' :=
      fun _ _ => rfl
    rw [hf]
    generalize db.stmtInsertPkgIgnore k now = db1 at hs hi1
    cases hq : db1.findPkg k' with
    | none => rfl
    | some q =>
      simp only
      have hne' : q.id ≠ pid := by
        intro he
        unfold selectId at hs
        cases hpk : db1.findPkg k with
        | none => simp [hpk] at hs
        | some pk =>
          have hpid : pk.id = pid := by simpa [hpk] using hs
          have m1 := findPkg_some_mem hq
          have m2 := findPkg_some_mem hpk
          have : q = pk := eq_of_nodup_map hi1.idsNodup m1.1 m2.1 (by rw [he, hpid])
          rw [this] at m1
          exact hkk (m1.2.symm.trans m2.2)
      unfold tagsOfId
      simp only [List.filter_append, List.map_append]
      have h2 : List.filter (fun r : Nat × Text × Text => r.1 == q.id) (tags.map fun tv => (pid, tv.1, tv.2)) = [] := by
        rw [List.filter_eq_nil_iff]
        intro r hr
        obtain ⟨tv, _, rfl⟩ := List.mem_map.mp hr
        simp only [beq_iff_eq]
        exact fun h => hne' h.symm
      rw [h2, List.map_nil, List.append_nil, List.filter_filter]
      congr 1
      apply List.filter_congr
      intro r _
      by_cases hr : r.1 = q.id
      · simp [hr, hne']
      · simp [hr]

/-! ### claim / release / mark: never touch versions or tags -/

theorem claimF_pres (now thr : Int) (p : Pkg) :
    (if claimable p thr then { p with fetchingSince := some now } else p).key = p.key ∧
    (if claimable p thr then { p with fetchingSince := some now } else p).id = p.id := by
  split <;> exact ⟨rfl, rfl⟩

theorem inv_tryStartFetch {db : Db} (hi : Inv db) (k : Key) (now : Int) : Inv (tryStartFetch db k now).1 := by
  unfold tryStartFetch stmtClaimUpdate
  simp only
  split
  · exact inv_updatePkgs hi k _ (claimF_pres now _)
  · unfold stmtClaimInsert
    have h1 := inv_updatePkgs hi k _ (claimF_pres now (now - Generated.fetchTimeoutMs))
    split
    · exact h1
    · rename_i h; exact inv_insertPkg h1 k now (some now) false (by simpa using h)

theorem inv_finishFetch {db : Db} (hi : Inv db) (k : Key) : Inv (finishFetch db k) :=
  inv_updatePkgs hi k _ (fun _ => ⟨rfl, rfl⟩)

theorem inv_markNotFound {db : Db} (hi : Inv db) (k : Key) (now : Int) : Inv (markNotFound db k now) := by
  unfold markNotFound stmtMark
  split
  · exact inv_updatePkgs hi k _ (fun _ => ⟨rfl, rfl⟩)
  · rename_i h; exact inv_insertPkg hi k now none true (by simpa using h)

theorem c08_claim_keeps_data {db : Db} (hi : Inv db) (k k' : Key) (now : Int) :
    (tryStartFetch db k now).1.versionsOf k' = db.versionsOf k' ∧
    (tryStartFetch db k now).1.tagsOf k' = db.tagsOf k' := by
  unfold tryStartFetch stmtClaimUpdate
  simp only
  have hv := versionsOf_updatePkgs db k k' _ (claimF_pres now (now - Generated.fetchTimeoutMs))
  have ht := tagsOf_updatePkgs db k k' _ (claimF_pres now (now - Generated.fetchTimeoutMs))
  have h1 := inv_updatePkgs hi k _ (claimF_pres now (now - Generated.fetchTimeoutMs))
  split
  · exact ⟨hv, ht⟩
  · unfold stmtClaimInsert
    split
    · exact ⟨hv, ht⟩
    · exact ⟨(versionsOf_insertPkg h1 k k' now (some now) false).trans hv,
             (tagsOf_insertPkg h1 k k' now (some now) false).trans ht⟩

theorem c08_finish_keeps_data (db : Db) (k k' : Key) :
    (finishFetch db k).versionsOf k' = db.versionsOf k' ∧ (finishFetch db k).tagsOf k' = db.tagsOf k' :=
  ⟨versionsOf_updatePkgs db k k' _ (fun _ => ⟨rfl, rfl⟩), tagsOf_updatePkgs db k k' _ (fun _ => ⟨rfl, rfl⟩)⟩

theorem c08_mark_keeps_data {db : Db} (hi : Inv db) (k k' : Key) (now : Int) :
    (markNotFound db k now).versionsOf k' = db.versionsOf k' ∧ (markNotFound db k now).tagsOf k' = db.tagsOf k' := by
  unfold markNotFound stmtMark
  split
  · exact ⟨versionsOf_updatePkgs db k k' _ (fun _ => ⟨rfl, rfl⟩), tagsOf_updatePkgs db k k' _ (fun _ => ⟨rfl, rfl⟩)⟩
  · exact ⟨versionsOf_insertPkg hi k k' now none true, tagsOf_insertPkg hi k k' now none true⟩

theorem c08_replace_keeps_tags {db : Db} (hi : Inv db) (k k' : Key) (vs : List Text) (now : Int) :
    (replaceVersions db k vs now).tagsOf k' = db.tagsOf k' := by
  unfold replaceVersions
  obtain ⟨pid, hs, _, _⟩ := selectId_upsertTouch hi k now
  simp only [hs]
  obtain ⟨hp, ht, _⟩ := foldl_insert_pkgs (db.stmtUpsertTouch k now) pid vs
  have : (vs.foldl (fun d v => d.stmtInsertVersionIgnore pid v) (db.stmtUpsertTouch k now)).tagsOf k' =
      (db.stmtUpsertTouch k now).tagsOf k' := by
    unfold tagsOf findPkg; rw [hp, ht]
  rw [this]
  unfold stmtUpsertTouch
  split
  · exact tagsOf_updatePkgs db k k' _ (touch_pres now)
  · exact tagsOf_insertPkg hi k k' now none false

/-! ### the nonexistent mark, staleness and "missing" -/

def notFoundOf (db : Db) (k : Key) : Bool := match db.findPkg k with | some p => p.notFound | none => false
def updatedAtOf (db : Db) (k : Key) : Option Int := (db.findPkg k).map (·.updatedAt)

/-- the mark is set by `mark_not_found` whether or not the package had a row -/
theorem c08_mark_sets (db : Db) (k : Key) (now : Int) : notFoundOf (markNotFound db k now) k = true := by
  unfold markNotFound stmtMark notFoundOf
  cases hf : db.findPkg k with
  | some p =>
    simp only [Option.isSome_some, if_true]
    rw [findPkg_updatePkgs db k k (fun p => { p with notFound := true }) (fun _ => rfl), hf]
    have := (findPkg_some_mem hf).2
    simp [this]
  | none =>
    simp only [Option.isSome_none, Bool.false_eq_true, if_false]
    rw [findPkg_insertPkg, hf]; simp

/-- `Mono a b`: every mark present in `a` is present in `b` -/
def Mono (a b : Db) : Prop := ∀ k', notFoundOf a k' = true → notFoundOf b k' = true

theorem mono_refl (a : Db) : Mono a a := fun _ h => h
theorem mono_trans {a b c : Db} (h1 : Mono a b) (h2 : Mono b c) : Mono a c := fun k h => h2 k (h1 k h)

theorem mono_pkgs {a b : Db} (h : b.pkgs = a.pkgs) : Mono a b := by
  intro k' hk; unfold notFoundOf findPkg at *; rw [h]; exact hk

theorem mono_update (db : Db) (k : Key) (f : Pkg → Pkg) (hf : ∀ p, (f p).key = p.key)
    (hn : ∀ p, p.notFound = true → (f p).notFound = true) : Mono db (db.updatePkgs k f) := by
  intro k' hk
  unfold notFoundOf at *
  rw [findPkg_updatePkgs db k k' f hf]
  cases hq : db.findPkg k' with
  | none => simp [hq] at hk
  | some q =>
    have hqn : q.notFound = true := by simpa [hq] using hk
    simp only [Option.map_some]
    split
    · exact hn q hqn
    · exact hqn

theorem mono_insert (db : Db) (k : Key) (now : Int) (fs : Option Int) (nf : Bool) :
    Mono db (db.insertPkg k now fs nf) := by
  intro k' hk
  unfold notFoundOf at *
  rw [findPkg_insertPkg]
  cases hq : db.findPkg k' with
  | none => simp [hq] at hk
  | some q => simpa [hq] using hk

/-- … and no cache operation ever clears a mark -/
theorem c08_mark_persistent (db : Db) (k : Key) (vs : List Text) (tags : List (Text × Text)) (now : Int) :
    Mono db (replaceVersions db k vs now) ∧ Mono db (saveDistTags db k tags now) ∧
    Mono db (tryStartFetch db k now).1 ∧ Mono db (finishFetch db k) ∧ Mono db (markNotFound db k now) := by
  refine ⟨?_, ?_, ?_, ?_, ?_⟩
  · unfold replaceVersions
    have h1 : Mono db (db.stmtUpsertTouch k now) := by
      unfold stmtUpsertTouch
      split
      · exact mono_update db k _ (fun _ => rfl) (fun _ h => h)
      · exact mono_insert db k now none false
    simp only
    cases hs : (db.stmtUpsertTouch k now).selectId k with
    | none => exact mono_refl db
    | some pid => exact mono_trans h1 (mono_pkgs (foldl_insert_pkgs _ pid vs).1)
  · unfold saveDistTags
    split
    · exact mono_refl db
    · have h1 : Mono db (db.stmtInsertPkgIgnore k now) := by
        unfold stmtInsertPkgIgnore
        split
        · exact mono_refl db
        · exact mono_insert db k now none false
      simp only
      cases hs : (db.stmtInsertPkgIgnore k now).selectId k with
      | none => exact mono_refl db
      | some pid =>
        simp only
        rw [foldl_insertTag_eq]
        exact mono_trans h1 (mono_pkgs rfl)
  · unfold tryStartFetch stmtClaimUpdate
    simp only
    have h1 : Mono db (db.updatePkgs k fun p =>
        if claimable p (now - Generated.fetchTimeoutMs) then { p with fetchingSince := some now } else p) :=
      mono_update db k _ (fun p => (claimF_pres now _ p).1) (fun p h => by split <;> exact h)
    split
    · exact h1
    · unfold stmtClaimInsert
      split
      · exact h1
      · exact mono_trans h1 (mono_insert _ k now (some now) false)
  · exact mono_update db k _ (fun _ => rfl) (fun _ h => h)
  · unfold markNotFound stmtMark
    split
    · exact mono_update db k _ (fun _ => rfl) (fun _ _ => rfl)
    · exact mono_insert db k now none true

/-- **offered for refresh exactly when** stale and not marked (for registry strings the server knows) -/
theorem c08_refresh_iff (cfg : CacheCfg) (db : Db) (now : Int) (k : Key) (hi : Inv db)
    (hreg : knownRegistry k.reg = true) :
    k ∈ needingRefresh cfg db now ↔
      ∃ p, db.findPkg k = some p ∧ p.updatedAt < now - cfg.refreshInterval ∧ p.notFound = false := by
  unfold needingRefresh
  simp only [List.mem_map, List.mem_filter, Bool.and_eq_true, decide_eq_true_eq, Bool.not_eq_true']
  constructor
  · rintro ⟨p, ⟨hp, ⟨h1, h2⟩, _⟩, rfl⟩
    exact ⟨p, findPkg_of_mem hi hp, h1, h2⟩
  · rintro ⟨p, hf, h1, h2⟩
    have hm := findPkg_some_mem hf
    exact ⟨p, ⟨hm.1, ⟨h1, h2⟩, by rw [hm.2]; exact hreg⟩, hm.2⟩

/-- **reported missing exactly when** it has no versions and is not marked nonexistent;
    the input order is preserved -/
theorem c08_missing_iff (db : Db) (reg : Text) (names : List Text) (n : Text) :
    n ∈ filterNotInCache db reg names ↔
      n ∈ names ∧ db.versionsOf ⟨reg, n⟩ = [] ∧ notFoundOf db ⟨reg, n⟩ = false := by
  unfold filterNotInCache isCached notFoundOf
  rw [List.mem_filter, versionsOf_eq]
  cases hq : db.findPkg ⟨reg, n⟩ with
  | none => simp
  | some p =>
    simp only [Bool.not_eq_true', Bool.or_eq_false_iff]
    have : (db.vers.any fun r => r.1 == p.id) = false ↔ db.versOfId p.id = [] := by
      unfold versOfId
      rw [List.map_eq_nil_iff, List.filter_eq_nil_iff]
      simp [List.any_eq_false]
    rw [this]

theorem c08_filter_order_preserved (db : Db) (reg : Text) (names : List Text) :
    (filterNotInCache db reg names).Sublist names := List.filter_sublist

/-! ### histories -/

inductive Op
  | replace (k : Key) (vs : List Text) (now : Int)
  | tags (k : Key) (tags : List (Text × Text)) (now : Int)
  | mark (k : Key) (now : Int)
  | claim (k : Key) (now : Int)
  | finish (k : Key)
  | reopen                                     -- close and re-open the database (any handle)

/-- tag maps are `HashMap`s: distinct keys -/
def Op.wf : Op → Prop
  | .tags _ t _ => (t.map (·.1)).Nodup
  | _ => True

def apply (db : Db) : Op → Db
  | .replace k vs now => replaceVersions db k vs now
  | .tags k t now => saveDistTags db k t now
  | .mark k now => markNotFound db k now
  | .claim k now => (tryStartFetch db k now).1
  | .finish k => finishFetch db k
  | .reopen => db        -- `CREATE … IF NOT EXISTS` + migrations on an up-to-date file change nothing (C12)

def run (ops : List Op) (db : Db) : Db := ops.foldl apply db

theorem inv_apply {db : Db} (hi : Inv db) (op : Op) (hw : op.wf) : Inv (apply db op) := by
  cases op with
  | replace k vs now => exact inv_replaceVersions hi k vs now
  | tags k t now => exact inv_saveDistTags hi k t now hw
  | mark k now => exact inv_markNotFound hi k now
  | claim k now => exact inv_tryStartFetch hi k now
  | finish k => exact inv_finishFetch hi k
  | reopen => exact hi

/-- the schema constraints hold in every reachable state -/
theorem c08_inv (ops : List Op) (hw : ∀ op ∈ ops, op.wf) {db : Db} (hi : Inv db) : Inv (run ops db) := by
  induction ops generalizing db with
  | nil => exact hi
  | cons op ops ih =>
    exact ih (fun o ho => hw o (List.mem_cons_of_mem _ ho)) (inv_apply hi op (hw op List.mem_cons_self))

theorem versions_apply {db : Db} (hi : Inv db) (op : Op) (k : Key) (w : Text) :
    w ∈ (apply db op).versionsOf k ↔
      w ∈ db.versionsOf k ∨ (∃ vs now, op = .replace k vs now ∧ w ∈ vs) := by
  cases op with
  | replace k' vs now =>
    simp only [apply]
    rw [c08_replace_versions hi]
    constructor
    · rintro (h | ⟨rfl, h⟩)
      · exact Or.inl h
      · exact Or.inr ⟨vs, now, rfl, h⟩
    · rintro (h | ⟨vs', now', he, h⟩)
      · exact Or.inl h
      · cases he; exact Or.inr ⟨rfl, h⟩
  | tags k' t now => simp only [apply]; rw [c08_tags_keep_versions hi]; simp
  | mark k' now => simp only [apply]; rw [(c08_mark_keeps_data hi k' k now).1]; simp
  | claim k' now => simp only [apply]; rw [(c08_claim_keeps_data hi k' k now).1]; simp
  | finish k' => simp only [apply]; rw [(c08_finish_keeps_data db k' k).1]; simp
  | reopen => simp [apply]

/-- **C08, versions**: after ANY history, each (registry, package) reads back exactly the union of
    all version lists ever stored for it — nothing lost, nothing from another key (with
    `c08_versions_nodup`: no duplicates) -/
theorem c08_union (ops : List Op) (hw : ∀ op ∈ ops, op.wf) {db : Db} (hi : Inv db) (k : Key) (w : Text) :
    w ∈ (run ops db).versionsOf k ↔
      w ∈ db.versionsOf k ∨ ∃ vs now, Op.replace k vs now ∈ ops ∧ w ∈ vs := by
  induction ops generalizing db with
  | nil => simp [run]
  | cons op ops ih =>
    have hi' := inv_apply hi op (hw op List.mem_cons_self)
    have := ih (fun o ho => hw o (List.mem_cons_of_mem _ ho)) hi'
    simp only [run, List.foldl_cons] at this ⊢
    rw [this, versions_apply hi]
    constructor
    · rintro ((h | ⟨vs, now, rfl, h⟩) | ⟨vs, now, hm, h⟩)
      · exact Or.inl h
      · exact Or.inr ⟨vs, now, List.mem_cons_self, h⟩
      · exact Or.inr ⟨vs, now, List.mem_cons_of_mem _ hm, h⟩
    · rintro (h | ⟨vs, now, hm, h⟩)
      · exact Or.inl (Or.inl h)
      · rcases List.mem_cons.mp hm with rfl | hm
        · exact Or.inl (Or.inr ⟨vs, now, rfl, h⟩)
        · exact Or.inr ⟨vs, now, hm, h⟩

/-- from a fresh database: exactly the union -/
theorem c08_union_fresh (ops : List Op) (hw : ∀ op ∈ ops, op.wf) (k : Key) (w : Text) :
    w ∈ (run ops Db.empty).versionsOf k ↔ ∃ vs now, Op.replace k vs now ∈ ops ∧ w ∈ vs := by
  rw [c08_union ops hw inv_empty]
  simp [versionsOf, findPkg, Db.empty]

/-- the tag map a history leaves for `k`: the last non-empty map stored under `k` -/
def lastTags (k : Key) (init : List (Text × Text)) (ops : List Op) : List (Text × Text) :=
  ops.foldl (fun acc op => match op with
    | .tags k' t _ => if k' = k ∧ t ≠ [] then t else acc
    | _ => acc) init

theorem tags_apply {db : Db} (hi : Inv db) (op : Op) (k : Key) :
    (apply db op).tagsOf k = lastTags k (db.tagsOf k) [op] := by
  cases op with
  | replace k' vs now => simp only [apply, lastTags, List.foldl]; exact c08_replace_keeps_tags hi k' k vs now
  | tags k' t now =>
    simp only [apply, lastTags, List.foldl]
    by_cases hkk : k' = k
    · subst hkk
      by_cases ht : t = []
      · subst ht; simp [c08_tags_empty_noop]
      · rw [if_pos ⟨rfl, ht⟩]; exact c08_tags_replace hi k' t now ht
    · rw [if_neg (fun h => hkk h.1)]
      exact c08_tags_isolation hi k' k t now (fun h => hkk h.symm)
  | mark k' now => simp only [apply, lastTags, List.foldl]; exact (c08_mark_keeps_data hi k' k now).2
  | claim k' now => simp only [apply, lastTags, List.foldl]; exact (c08_claim_keeps_data hi k' k now).2
  | finish k' => simp only [apply, lastTags, List.foldl]; exact (c08_finish_keeps_data db k' k).2
  | reopen => rfl

/-- **C08, tags**: after ANY history the tag map of `k` is the most recent non-empty map stored for it -/
theorem c08_tags_last_nonempty (ops : List Op) (hw : ∀ op ∈ ops, op.wf) {db : Db} (hi : Inv db) (k : Key) :
    (run ops db).tagsOf k = lastTags k (db.tagsOf k) ops := by
  induction ops generalizing db with
  | nil => rfl
  | cons op ops ih =>
    have hi' := inv_apply hi op (hw op List.mem_cons_self)
    have := ih (fun o ho => hw o (List.mem_cons_of_mem _ ho)) hi'
    simp only [run, List.foldl_cons] at this ⊢
    rw [this, tags_apply hi]
    simp [lastTags]

/-- closing and re-opening anywhere changes nothing -/
theorem c08_reopen_identity (db : Db) : apply db .reopen = db := rfl

/-- a mark, once set, survives every later history -/
theorem c08_mark_survives (ops : List Op) (db : Db) (k : Key) (h : notFoundOf db k = true) :
    notFoundOf (run ops db) k = true := by
  induction ops generalizing db with
  | nil => exact h
  | cons op ops ih =>
    simp only [run, List.foldl_cons]
    apply ih
    cases op with
    | replace k' vs now => exact (c08_mark_persistent db k' vs [] now).1 k h
    | tags k' t now => exact (c08_mark_persistent db k' [] t now).2.1 k h
    | mark k' now => exact (c08_mark_persistent db k' [] [] now).2.2.2.2 k h
    | claim k' now => exact (c08_mark_persistent db k' [] [] now).2.2.1 k h
    | finish k' => exact (c08_mark_persistent db k' [] [] 0).2.2.2.1 k h
    | reopen => exact h

/-! ### non-vacuity: a concrete history with hostile names -/
example :
    let k1 : Key := ⟨"npm".toList, "a'b%_".toList⟩
    let k2 : Key := ⟨"jsr".toList, "a'b%_".toList⟩
    let db := run [.replace k1 ["1.0.0".toList, "1.0.0".toList] 5, .claim k2 6, .replace k1 ["2.0.0".toList] 7,
                   .tags k1 [("latest".toList, "2.0.0".toList)] 8, .tags k1 [] 9, .mark k2 10] Db.empty
    db.versionsOf k1 = ["1.0.0".toList, "2.0.0".toList] ∧ db.versionsOf k2 = [] ∧
    db.tagOf k1 "latest".toList = some "2.0.0".toList ∧ notFoundOf db k2 = true ∧ notFoundOf db k1 = false := by
  decide

end Vlsp.C08
