/-
  C06 — no document, message or registry reply can crash or hang the server.
  (1) termination: every model function in this library is accepted by Lean's termination checker (no
      `partial`; the audit greps for it) — in particular `Sites.splitLoop`, the one hand-written index loop;
  (2) panic freedom of the slicing / indexing sites of the inventory `Generated.panicSites`, site by site;
  (3) the request dispatcher answers every request (Server model).
-/
import Vlsp.Model.Sites
import Vlsp.Model.Parsers
import Vlsp.GeneratedSites
import Vlsp.Props.C18

namespace Vlsp.C06
open Vlsp Vlsp.Text Vlsp.Slice Vlsp.Sites

theorem eq_of_beq_char {c d : Char} (h : (c == d) = true) : c = d := by simpa using h

/-- after a one-byte character found by `find`, `[n + 1..]` is a valid cut -/
theorem sliceFrom_after_ascii (pre : Text) (c : Char) (post : Text) (h1 : utf8Len c = 1) :
    sliceFrom (pre ++ c :: post) (byteLen pre + 1) = some post := by
  have : pre ++ c :: post = (pre ++ [c]) ++ post := by simp
  rw [this]
  have hl : byteLen (pre ++ [c]) = byteLen pre + 1 := by simp [byteLen_append, byteLen, h1]
  rw [← hl]; exact sliceFrom_append _ _

/-- **deno_json.rs `parse_jsr_specifier` / package_json.rs `parse_npm_alias` (scoped branch)**: the three
    slices never panic, and the result is exactly (text up to the `@` after the first `/`, text after it) -/
theorem c06_scoped_split (rest : Text) :
    (findChar? (· == '/') rest = none ∧ scopedSplit rest = some none) ∨
    (∃ pre post, rest = pre ++ '/' :: post ∧ findChar? (· == '@') post = none ∧
      scopedSplit rest = some (some (rest, latestTag))) ∨
    (∃ pre mid ver, rest = pre ++ '/' :: (mid ++ '@' :: ver) ∧
      scopedSplit rest = some (some (pre ++ '/' :: mid, ver))) := by
  unfold scopedSplit
  cases hs : findChar? (· == '/') rest with
  | none => left; exact ⟨rfl, rfl⟩
  | some sp =>
    right
    obtain ⟨pre, c, post, ht, hl, hc, _⟩ := findChar_split _ rest sp hs
    have hc' : c = '/' := eq_of_beq_char hc
    subst hc'
    have hfrom : sliceFrom rest (sp + 1) = some post := by
      rw [ht, ← hl]; exact sliceFrom_after_ascii pre '/' post (by decide)
    simp only [hfrom]
    cases ha : findChar? (· == '@') post with
    | none => left; exact ⟨pre, post, ht, ha, rfl⟩
    | some ap =>
      right
      obtain ⟨mid, d, ver, hp, hl2, hd, _⟩ := findChar_split _ post ap ha
      have hd' : d = '@' := eq_of_beq_char hd
      subst hd'
      have hto : sliceTo rest (sp + 1 + ap) = some (pre ++ '/' :: mid) := by
        have e : rest = (pre ++ '/' :: mid) ++ ('@' :: ver) := by rw [ht, hp]; simp
        have l : byteLen (pre ++ '/' :: mid) = sp + 1 + ap := by
          simp only [byteLen_append, byteLen, hl, hl2]; have : utf8Len '/' = 1 := by decide
          omega
        rw [e, ← l]; exact sliceTo_append _ _
      have hfrom2 : sliceFrom post (ap + 1) = some ver := by
        rw [hp, ← hl2]; exact sliceFrom_after_ascii mid '@' ver (by decide)
      simp only [hto, hfrom2]
      exact ⟨pre, mid, ver, by rw [ht, hp], rfl⟩

theorem c06_jsr_never_panics (value : Text) : (jsrSpecifier value).isSome = true := by
  unfold jsrSpecifier
  cases stripPrefix jsrPrefix value with
  | none => rfl
  | some rest =>
    rcases c06_scoped_split rest with ⟨_, h⟩ | ⟨_, _, _, _, h⟩ | ⟨_, _, _, _, h⟩ <;> simp [h]

theorem c06_npm_alias_never_panics (value : Text) : (npmAlias value).isSome = true := by
  unfold npmAlias
  cases stripPrefix npmPrefix value with
  | none => rfl
  | some rest =>
    simp only
    split
    · rcases c06_scoped_split rest with ⟨_, h⟩ | ⟨_, _, _, _, h⟩ | ⟨_, _, _, _, h⟩ <;> simp [h]
    · cases ha : findChar? (· == '@') rest with
      | none => rfl
      | some ap =>
        obtain ⟨pre, d, post, ht, hl, hd, _⟩ := findChar_split _ rest ap ha
        have hd' : d = '@' := eq_of_beq_char hd
        subst hd'
        have h1 : sliceTo rest ap = some pre := by rw [ht, ← hl]; exact sliceTo_append _ _
        have h2 : sliceFrom rest (ap + 1) = some post := by
          rw [ht, ← hl]; exact sliceFrom_after_ascii pre '@' post (by decide)
        simp [h1, h2]

theorem splitCharAux_ne_nil (sep : Char) (t cur : Text) : splitCharAux sep t cur ≠ [] := by
  induction t generalizing cur with
  | nil => simp [splitCharAux]
  | cons c cs ih => unfold splitCharAux; split <;> simp [ih]

/-- **github_actions.rs `parse_uses_value`, first part**: `split_at(at_pos)`, `&version[1..]`, `parts[0]`,
    `parts[1]` never panic -/
theorem c06_uses_split_never_panics (value : Text) : (usesSplit value).isSome = true := by
  unfold usesSplit
  cases ha : findChar? (· == '@') value with
  | none => rfl
  | some ap =>
    obtain ⟨pre, d, post, ht, hl, hd, _⟩ := findChar_split _ value ap ha
    have hd' : d = '@' := eq_of_beq_char hd
    subst hd'
    have h1 : sliceTo value ap = some pre := by rw [ht, ← hl]; exact sliceTo_append _ _
    have h2 : sliceFrom value ap = some ('@' :: post) := by rw [ht, ← hl]; exact sliceFrom_append _ _
    have h3 : sliceFrom ('@' :: post) 1 = some post := by
      have := sliceFrom_after_ascii [] '@' post (by decide); simpa [byteLen] using this
    simp only [h1, h2, h3]
    by_cases hlen : (splitChar '/' pre).length < 2
    · simp [hlen]
    · simp only [hlen, if_false]
      have h0 : ∃ o, (splitChar '/' pre)[0]? = some o := ⟨(splitChar '/' pre)[0]'(by omega), by simp⟩
      have h1' : ∃ r, (splitChar '/' pre)[1]? = some r := ⟨(splitChar '/' pre)[1]'(by omega), by simp⟩
      obtain ⟨o, ho⟩ := h0
      obtain ⟨r, hr⟩ := h1'
      simp [ho, hr]

/-- **github_actions.rs `parse_uses_value`, comment lookup**: for a node that starts on a character boundary
    (tree-sitter reports node offsets in whole characters — the one assumption), none of the four slices
    `content[..start]`, `content[start..]`, `content[line_start..line_end]`, `line_text[hash_pos + 1..]` panics -/
theorem c06_hash_comment_never_panics (a b : Text) : (hashComment (a ++ b) (byteLen a)).isSome = true := by
  unfold hashComment
  simp only [sliceTo_append, sliceFrom_append]
  -- the line: from after the last newline of `a` to the first newline of `b`
  have hline : ∃ x y z, a ++ b = x ++ y ++ z ∧
      lineStart a = byteLen x ∧ lineEnd b (byteLen a) (byteLen (a ++ b)) = byteLen x + byteLen y := by
    unfold lineStart lineEnd
    cases hr : rfindChar? (· == '\n') a with
    | none =>
      cases hf : findChar? (· == '\n') b with
      | none => exact ⟨[], a ++ b, [], by simp, by simp [byteLen], by simp [byteLen]⟩
      | some q =>
        obtain ⟨pre2, d, post2, hb, hl2, _, _⟩ := findChar_split _ b q hf
        exact ⟨[], a ++ pre2, d :: post2, by simp [hb], by simp [byteLen], by simp [byteLen, byteLen_append, hl2]⟩
    | some p =>
      obtain ⟨pre, c, post, ha, hl, hc⟩ := rfindChar_split _ a p hr
      have hc' : c = '\n' := eq_of_beq_char hc
      subst hc'
      have h1 : byteLen (pre ++ ['\n']) = p + 1 := by
        simp only [byteLen_append, byteLen, hl]; have : utf8Len '\n' = 1 := by decide
        omega
      cases hf : findChar? (· == '\n') b with
      | none =>
        refine ⟨pre ++ ['\n'], post ++ b, [], by simp [ha], h1.symm, ?_⟩
        simp only [ha, byteLen_append, byteLen]; omega
      | some q =>
        obtain ⟨pre2, d, post2, hb, hl2, _, _⟩ := findChar_split _ b q hf
        refine ⟨pre ++ ['\n'], post ++ pre2, d :: post2, by simp [ha, hb], h1.symm, ?_⟩
        simp only [ha, byteLen_append, byteLen, hl2]; omega
  obtain ⟨x, y, z, he, hls, hle⟩ := hline
  simp only [hls, hle]
  rw [he, slice_append]
  simp only
  cases hh : findChar? (· == '#') y with
  | none => rfl
  | some h =>
    obtain ⟨pre, d, post, hy, hl, hd, _⟩ := findChar_split _ y h hh
    have hd' : d = '#' := eq_of_beq_char hd
    subst hd'
    have : sliceFrom y (h + 1) = some post := by
      rw [hy, ← hl]; exact sliceFrom_after_ascii pre '#' post (by decide)
    simp [this]

/-- **matchers/go.rs `is_pseudo_version`**: `&timestamp[2..]` behind `starts_with("0.")` never panics -/
theorem c06_pseudo_tail_never_panics (ts : Text) : (pseudoTail ts).isSome = true := by
  unfold pseudoTail
  split
  · rename_i h
    simp only [Bool.and_eq_true] at h
    have hs := h.1
    unfold startsWith at hs
    cases hr : stripPrefix "0.".toList ts with
    | none => rw [hr] at hs; cases hs
    | some r =>
      have e := stripPrefix_eq _ _ _ hr
      have : sliceFrom ts 2 = some r := by
        have l : byteLen "0.".toList = 2 := by decide
        rw [e, ← l]; exact sliceFrom_append _ _
      simp [this]
  · rfl

/-- **go_mod.rs**: `line[require_pos..]` never panics -/
theorem c06_require_tail_never_panics (line : Text) : (requireTail line).isSome = true := by
  unfold requireTail
  cases hf : find? requireKw line with
  | none => simp [sliceFrom]
  | some n =>
    obtain ⟨pre, post, ht, hl⟩ := find_split _ line n hf
    have : sliceFrom line n = some (requireKw ++ post) := by
      rw [ht, ← hl, List.append_assoc]; exact sliceFrom_append _ _
    simp [this]

/-- **parser/types.rs `contains_dir`**: `uri[..i]` for every index `i` at which the pattern occurs -/
theorem c06_occurrences_are_boundaries (pat t : Text) (pre : Text) (i : Nat)
    (h : i ∈ occurrences pat t (byteLen pre)) : (sliceTo (pre ++ t) i).isSome = true := by
  induction t generalizing pre with
  | nil =>
    unfold occurrences at h
    split at h
    · simp at h; subst h; simp [sliceTo_all]
    · simp at h
  | cons c cs ih =>
    unfold occurrences at h
    rcases List.mem_append.mp h with h | h
    · split at h
      · simp at h; subst h; simp [sliceTo_append]
      · simp at h
    · have e : byteLen pre + utf8Len c = byteLen (pre ++ [c]) := by simp [byteLen_append, byteLen]
      rw [e] at h
      have := ih (pre ++ [c]) h
      simpa using this

/-! ### the hand-written index loop of `split_and_parts` -/

theorem charIndices_get (t : Text) (off i : Nat) :
    (charIndices t off)[i]? = t[i]?.map fun c => (off + byteLen (t.take i), c) := by
  induction t generalizing off i with
  | nil => simp [charIndices]
  | cons c cs ih =>
    cases i with
    | zero => simp [charIndices, byteLen]
    | succ j =>
      simp only [charIndices, List.getElem?_cons_succ, ih, List.take_succ_cons, byteLen]
      cases cs[j]? <;> simp; omega

theorem slice_take (t : Text) (k i : Nat) (hki : k ≤ i) :
    slice t (byteLen (t.take k)) (byteLen (t.take i)) = some ((t.take i).drop k) := by
  have e : t = t.take k ++ (t.take i).drop k ++ t.drop i := by
    have h1 : t.take i = t.take k ++ (t.take i).drop k := by
      have : (t.take i).take k = t.take k := by rw [List.take_take]; congr 1; omega
      rw [← this]; exact (List.take_append_drop k (t.take i)).symm
    rw [← h1]; exact (List.take_append_drop i t).symm
  have hb : byteLen (t.take i) = byteLen (t.take k) + byteLen ((t.take i).drop k) := by
    have h1 : t.take i = t.take k ++ (t.take i).drop k := by
      have : (t.take i).take k = t.take k := by rw [List.take_take]; congr 1; omega
      rw [← this]; exact (List.take_append_drop k (t.take i)).symm
    rw [← byteLen_append, ← h1]
  rw [hb]
  conv => lhs; arg 1; rw [e]
  exact slice_append _ _ _

theorem byteLen_take_succ (t : Text) (i : Nat) (c : Char) (h : t[i]? = some c) :
    byteLen (t.take (i + 1)) = byteLen (t.take i) + utf8Len c := by
  induction t generalizing i with
  | nil => simp at h
  | cons d ds ih =>
    cases i with
    | zero => simp at h; subst h; simp [byteLen]
    | succ j =>
      simp only [List.getElem?_cons_succ] at h
      simp only [List.take_succ_cons, byteLen, ih j h]; omega

/-- **matchers/npm.rs `split_and_parts`**: with `chars = spec.char_indices()`, whenever `current_start` is the
    byte offset of some character index `k ≤ i`, neither `&spec[current_start..pos]` nor `spec[current_start..]`
    panics, and the loop ends within its fuel (each iteration advances `i`) -/
theorem splitLoop_never_panics (spec : Text) (fuel i cs : Nat) (acc : List Text)
    (hf1 : 1 ≤ fuel) (hfuel : spec.length + 1 ≤ fuel + i) (hinv : ∃ k, k ≤ i ∧ cs = byteLen (spec.take k)) :
    (splitLoop spec (charIndices spec 0) fuel i cs acc).isSome = true := by
  induction fuel generalizing i cs acc with
  | zero => omega
  | succ fuel ih =>
    obtain ⟨k, hki, hcs⟩ := hinv
    unfold splitLoop
    rw [charIndices_get]
    cases hc : spec[i]? with
    | none =>
      simp only [Option.map_none]
      have : sliceFrom spec cs = some (spec.drop k) := by
        have e : spec = spec.take k ++ spec.drop k := (List.take_append_drop k spec).symm
        rw [hcs]; conv => lhs; arg 1; rw [e]
        exact sliceFrom_append _ _
      simp only [this]; split <;> rfl
    | some ch =>
      have hi : i < spec.length := by
        rcases Nat.lt_or_ge i spec.length with h | h
        · exact h
        · rw [List.getElem?_eq_none h] at hc; cases hc
      have hf' : 1 ≤ fuel := by omega
      simp only [Option.map_some, Nat.zero_add]
      by_cases hsp : (ch == ' ') = true
      · simp only [hsp, if_true]
        have hslice : slice spec cs (byteLen (spec.take i)) = some ((spec.take i).drop k) := by
          rw [hcs]; exact slice_take spec k i hki
        simp only [hslice]
        have hch : ch = ' ' := eq_of_beq_char hsp
        split
        · exact ih (i + 1) cs acc hf' (by omega) ⟨k, by omega, hcs⟩      -- an operator waiting for its version
        split
        · cases hyphenAhead (charIndices spec 0) i with
          | true => simp only [if_true]; exact ih (i + 3) cs acc hf' (by omega) ⟨k, by omega, hcs⟩
          | false =>
            simp only [Bool.false_eq_true, if_false]
            refine ih (i + 1) _ _ hf' (by omega) ⟨i + 1, Nat.le_refl _, ?_⟩
            rw [byteLen_take_succ spec i ch hc, hch]
            have : utf8Len ' ' = 1 := by decide
            omega
        · exact ih (i + 1) cs acc hf' (by omega) ⟨k, by omega, hcs⟩
      · simp only [hsp, Bool.false_eq_true, if_false]
        exact ih (i + 1) cs acc hf' (by omega) ⟨k, by omega, hcs⟩

/-- `split_and_parts` never panics and terminates, for every spec -/
theorem c06_split_and_parts_never_panics (spec : Text) : (splitAndPartsBytes spec).isSome = true :=
  splitLoop_never_panics spec _ 0 0 [] (by omega) (by omega) ⟨0, Nat.le_refl _, by simp [byteLen]⟩

/-! ### indexing behind a length guard -/

/-- `parts[0]`, `parts[1]` behind `parts.len() != 2` / `>= 2` guards (npm.rs `parse_hyphen`, go.rs, semver.rs) -/
theorem c06_guarded_index {α} (parts : List α) (n i : Nat) (hlen : n ≤ parts.length) (hi : i < n) :
    (parts[i]?).isSome = true := by
  have : i < parts.length := by omega
  simp [this]

/-- `str::split` always yields at least one piece: `parts[0]` after a `split` never panics -/
theorem c06_split_first (sep : Char) (t : Text) : ((splitChar sep t)[0]?).isSome = true := by
  have := splitCharAux_ne_nil sep t []
  unfold splitChar
  cases h : splitCharAux sep t [] with
  | nil => exact absurd h this
  | cons a _ => rfl

/-- the unquoting slice `&trimmed[1..trimmed.len() - 1]` (pnpm_workspace.rs, pyproject_toml.rs) is in range
    EXACTLY when the quoted text has at least two bytes: the code's guard `starts_with(q) && ends_with(q)` also
    holds for the one-character text `"`, where the slice is `[1..0]` and panics -/
theorem c06_unquote_needs_two (t : Text) : (slice t 1 (byteLen t - 1)).isSome = true → 2 ≤ byteLen t := by
  intro h
  unfold slice at h
  split at h
  · omega
  · cases h

theorem c06_unquote_one_char_panics : slice ['"'] 1 (byteLen ['"'] - 1) = none := by decide

/-- for a properly quoted text (opening quote, body, closing quote) the unquoting slice is the body -/
theorem c06_unquote_ok (q : Char) (body : Text) (hq : utf8Len q = 1) :
    slice (q :: (body ++ [q])) 1 (byteLen (q :: (body ++ [q])) - 1) = some body := by
  have e : q :: (body ++ [q]) = [q] ++ body ++ [q] := by simp
  have l1 : byteLen [q] = 1 := by simp [byteLen, hq]
  have l2 : byteLen (q :: (body ++ [q])) - 1 = byteLen [q] + byteLen body := by
    simp [byteLen, byteLen_append, hq]; omega
  rw [l2, e]; conv => lhs; arg 2; rw [← l1]
  exact slice_append _ _ _

theorem startsWith_singleton (t : Text) (q : Char) (h : startsWith t [q] = true) : ∃ r, t = q :: r := by
  unfold startsWith at h
  cases t with
  | nil => simp [stripPrefix] at h
  | cons c cs =>
    by_cases hc : (q == c) = true
    · exact ⟨cs, by have : q = c := by simpa using hc
                    rw [this]⟩
    · simp [stripPrefix, hc] at h

theorem endsWith_singleton (t : Text) (q : Char) (h : endsWith t [q] = true) : ∃ r, t = r ++ [q] := by
  unfold endsWith stripSuffix at h
  have : startsWith t.reverse [q] = true := by
    unfold startsWith
    simpa using h
  obtain ⟨r, hr⟩ := startsWith_singleton t.reverse q this
  exact ⟨r.reverse, by have := congrArg List.reverse hr; simpa using this⟩

/-- the unquoting guard the code has now (`len >= 2 && starts_with(q) && ends_with(q)`): the slice
    `[1..len-1]` cannot panic and is the text between the quotes — no assumption about tree-sitter is needed -/
theorem c06_unquote_guarded (t : Text) (h : Parsers.quotedText t = true) :
    ∃ q body, t = q :: (body ++ [q]) ∧ slice t 1 (byteLen t - 1) = some body := by
  unfold Parsers.quotedText at h
  simp only [Bool.and_eq_true, Bool.or_eq_true, Nat.ble_eq] at h
  obtain ⟨hlen, hq⟩ := h
  have key : ∀ q : Char, utf8Len q = 1 → startsWith t [q] = true → endsWith t [q] = true →
      ∃ body, t = q :: (body ++ [q]) ∧ slice t 1 (byteLen t - 1) = some body := by
    intro q hq1 hs he
    obtain ⟨r, hr⟩ := startsWith_singleton t q hs
    obtain ⟨r', hr'⟩ := endsWith_singleton t q he
    cases r with
    | nil => subst hr; simp [byteLen, hq1] at hlen
    | cons c cs =>
      -- the last character of `q :: c :: cs` is the last of `c :: cs`
      have hlast : (c :: cs).getLast? = some q := by
        have h1 : t.getLast? = some q := by rw [hr']; simp
        rw [hr] at h1
        simpa [List.getLast?_cons_cons] using h1
      obtain ⟨body, hb⟩ : ∃ body, c :: cs = body ++ [q] := by
        have hne : (c :: cs) ≠ [] := by simp
        have hcat := List.dropLast_concat_getLast hne
        have h2 := List.getLast?_eq_some_getLast hne
        rw [hlast] at h2
        have hq' : (c :: cs).getLast hne = q := (Option.some.inj h2).symm
        exact ⟨(c :: cs).dropLast, by rw [← hq']; exact hcat.symm⟩
      refine ⟨body, by rw [hr, hb], ?_⟩
      rw [hr, hb]
      exact c06_unquote_ok q body hq1
  rcases hq with ⟨hs, he⟩ | ⟨hs, he⟩
  · obtain ⟨body, h1, h2⟩ := key '\'' (by decide) hs he; exact ⟨_, body, h1, h2⟩
  · obtain ⟨body, h1, h2⟩ := key '"' (by decide) hs he; exact ⟨_, body, h1, h2⟩

/-! ### the dispatcher -/

/-- every request of every sequence is answered and leaves a state from which the next one is answered
    (totality of the server model; a Rust panic inside a handler is what (2) excludes) -/
theorem c06_every_request_answered (s : Srv) (rs : List C18.Req) :
    (C18.run s rs).2.2.length = (rs.filter fun r => match r with | .action .. => true | _ => false).length :=
  C18.c18_every_action_answered s rs

end Vlsp.C06
