/-
  Model of the data-directory rule (src/config.rs:81-106): `data_dir_with_env`, `db_path`, `log_path`,
  with `PathBuf::join` for the relative, slash-free components the code joins.
-/
import Vlsp.Text

namespace Vlsp
open Text

namespace DataDir

/-- `PathBuf::from(base).join(rel)` for a relative `rel`: an empty base yields `rel`, a base ending in `/`
    gets no second separator -/
def join (base rel : Text) : Text :=
  if base.isEmpty then rel
  else if base.getLast? == some '/' then base ++ rel
  else base ++ '/' :: rel

/-- `data_dir_with_env(xdg_data_home, home_dir)` -/
def dataDir (xdg home : Option Text) : Text :=
  match xdg with
  | some x => join x "version-lsp".toList
  | none =>
    match home with
    | some h => join (join h ".local/share".toList) "version-lsp".toList
    | none => join ".".toList "version-lsp".toList

def dbPath (xdg home : Option Text) : Text := join (dataDir xdg home) "versions.db".toList
def logPath (xdg home : Option Text) : Text := join (dataDir xdg home) "version-lsp.log".toList

end DataDir
end Vlsp
