/-
  The matcher interface (src/version/matcher.rs) and `CompareResult`
  (src/version/semver.rs).
-/
import Vlsp.Text
import Vlsp.Model.Semver

namespace Vlsp
open Text

inductive CompareResult | latest | outdated | newer | invalid
deriving DecidableEq, Repr, Inhabited

def CompareResult.toString : CompareResult → String
  | .latest => "latest" | .outdated => "outdated" | .newer => "newer" | .invalid => "invalid"

structure Matcher where
  exists_ : Text → List Text → Bool
  cmp     : Text → Text → CompareResult

end Vlsp
