/-
  Model of src/version/matchers/github_actions.rs.
-/
import Vlsp.Model.Matcher

namespace Vlsp
open Text Semver

namespace Gha

/-- strip one leading `v`, then one leading `V` (as the two `strip_prefix` calls do) -/
def stripV (t : Text) : Text :=
  let t := match t with | 'v' :: r => r | _ => t
  match t with | 'V' :: r => r | _ => t

/-- `normalize_version` -/
def normalizeVersion (version0 : Text) : Option Text :=
  let version := stripV version0
  if version.isEmpty then none
  else
    let (base, pre) : Text × Option Text :=
      match splitOnceChar '-' version with
      | some (b, p) => (b, some p)
      | none => (version, none)
    let nums : Option (Nat × Nat × Nat) :=
      match splitChar '.' base with
      | [a] => (parseU64 a).map fun x => (x, 0, 0)
      | [a, b] =>
        match parseU64 a, parseU64 b with
        | some x, some y => some (x, y, 0)
        | _, _ => none
      | [a, b, c] =>
        match parseU64 a, parseU64 b, parseU64 c with
        | some x, some y, some z => some (x, y, z)
        | _, _, _ => none
      | _ => none
    match nums with
    | none => none
    | some (x, y, z) =>
      let core := natToText x ++ ['.'] ++ natToText y ++ ['.'] ++ natToText z
      match pre with
      | some p => some (core ++ '-' :: p)
      | none => some core

/-- `count_version_parts` -/
def countVersionParts (version0 : Text) : Nat :=
  let version := stripV version0
  let base := match splitChar '-' version with | b :: _ => b | [] => version
  (splitChar '.' base).length

/-- `version_matches_any` -/
def versionMatchesAny (current : Text) (available : List Text) : Bool :=
  match normalizeVersion current with
  | none => false
  | some cn =>
    match parseStrict cn with
    | none => false
    | some cur =>
      let parts := countVersionParts current
      available.any fun a =>
        match normalizeVersion a with
        | none => false
        | some an =>
          match parseStrict an with
          | none => false
          | some av =>
            if parts == 1 then cur.major == av.major
            else if parts == 2 then cur.major == av.major && cur.minor == av.minor
            else cur == av

def ordToResult : Ordering → CompareResult
  | .eq => .latest | .lt => .outdated | .gt => .newer

/-- `compare_versions` -/
def compareVersions (current latest : Text) : CompareResult :=
  match normalizeVersion current with
  | none => .invalid
  | some cn =>
  match normalizeVersion latest with
  | none => .invalid
  | some ln =>
  match parseStrict cn with
  | none => .invalid
  | some cur =>
  match parseStrict ln with
  | none => .invalid
  | some lat =>
    let parts := countVersionParts current
    if parts == 1 then ordToResult (cmpNat cur.major lat.major)
    else if parts == 2 then
      ordToResult (ordThen (cmpNat cur.major lat.major) (cmpNat cur.minor lat.minor))
    else ordToResult (cmp cur lat)

def matcher : Matcher := ⟨versionMatchesAny, compareVersions⟩

end Gha
end Vlsp
