/-
  Model of `Cache::create_schema` + `apply_migrations` (src/version/cache.rs:75-175) as a
  statement-by-statement interpreter over the *shape* of a database file: which tables and
  migration columns exist and what `PRAGMA user_version` says.  Row data is untouched by every
  statement here (ALTER TABLE … ADD COLUMN gives existing rows the default), so it is not part
  of the shape; the correspondence checks that on real files.
  The migration list comes from `Generated.migrations`.
-/
import Vlsp.Text
import Vlsp.Generated

namespace Vlsp
open Text

namespace Migrate

structure Shape where
  hasPackages : Bool
  hasVersions : Bool
  hasDistTags : Bool
  hasFetchingSince : Bool       -- column packages.fetching_since
  hasNotFound : Bool            -- column packages.not_found
  userVersion : Int
deriving DecidableEq, Repr

def fresh : Shape := ⟨false, false, false, false, false, 0⟩

/-- flattened migrations: (schema version it belongs to, column it adds) -/
def migSteps : List (Int × String) :=
  (Generated.migrationColumns.zipIdx.map fun (cols, i) => cols.map fun c => ((i : Int) + 1, c)).flatten

def targetVersion : Int := Generated.migrations.length

def hasColumn (s : Shape) (c : String) : Bool :=
  if c == "fetching_since" then s.hasFetchingSince else if c == "not_found" then s.hasNotFound else false

def addColumn (s : Shape) (c : String) : Shape :=
  if c == "fetching_since" then { s with hasFetchingSince := true }
  else if c == "not_found" then { s with hasNotFound := true } else s

/-- one open attempt: program counter into
    [create packages, (index), create versions, (index), create dist_tags, (index), read user_version,
     migration statements…, set user_version], and the value of user_version it read -/
structure Attempt where
  pc : Nat := 0
  cur : Int := 0
  done : Bool := false
  failed : Bool := false
deriving DecidableEq, Repr

def nSchema : Nat := 6

/-- execute the next statement of an attempt (`busy = true`: the statement fails instead,
    the attempt returns an error and has no further effect) -/
def stepAttempt (s : Shape) (a : Attempt) (busy : Bool) : Shape × Attempt :=
  if a.done || a.failed then (s, a)
  else if busy then (s, { a with failed := true })
  else if a.pc < nSchema then
    -- CREATE TABLE / INDEX IF NOT EXISTS: a newly created `packages` has only the base columns
    let s' := match a.pc with
      | 0 => { s with hasPackages := true }
      | 2 => { s with hasVersions := true }
      | 4 => { s with hasDistTags := true }
      | _ => s
    (s', { a with pc := a.pc + 1 })
  else if a.pc == nSchema then
    (s, { a with pc := a.pc + 1, cur := s.userVersion })          -- PRAGMA user_version (read)
  else
    let i := a.pc - nSchema - 1
    match migSteps[i]? with
    | some (ver, col) =>
      if ver > a.cur then
        -- ALTER TABLE … ADD COLUMN; "duplicate column name" is tolerated
        (addColumn s col, { a with pc := a.pc + 1 })
      else (s, { a with pc := a.pc + 1 })
    | none =>
      -- after the loop: PRAGMA user_version = target, only when target > the value read
      if targetVersion > a.cur then ({ s with userVersion := targetVersion }, { a with done := true })
      else (s, { a with done := true })

def totalSteps : Nat := nSchema + 1 + migSteps.length + 1

def runAttempt : Nat → Shape → Attempt → Shape × Attempt
  | 0, s, a => (s, a)
  | n + 1, s, a => let (s', a') := stepAttempt s a false; runAttempt n s' a'

/-- `Cache::new` on a file of shape `s`, without interference -/
def openDb (s : Shape) : Shape := (runAttempt totalSteps s {}).1

/-- shapes an earlier release can have left: a recorded schema version implies its columns -/
def consistent (s : Shape) : Bool :=
  (s.userVersion < 1 || s.hasFetchingSince) && (s.userVersion < 2 || s.hasNotFound) &&
  ((s.hasFetchingSince || s.hasNotFound) → s.hasPackages : Bool) && (!s.hasNotFound || s.hasFetchingSince)

/-- a database every cache operation works on -/
def usable (s : Shape) : Bool :=
  s.hasPackages && s.hasVersions && s.hasDistTags && s.hasFetchingSince && s.hasNotFound

end Migrate
end Vlsp
