/-
  Models of the seven `Parser::parse` implementations (src/parser/*.rs): what each does with the syntax
  tree (six formats) or with the raw text (go.mod).  Each follows the Rust walk literally.
-/
import Vlsp.Model.Cst
import Vlsp.Model.Sites
import Vlsp.Generated

namespace Vlsp
open Text Slice Cst

namespace Parsers

def strIn (xs : List String) (t : Text) : Bool := xs.any fun x => x.toList == t

/-- `is_closed_string`: the source text of a string node has its opening AND its closing quote -/
def closedString (t : Text) : Bool :=
  match t with
  | q :: rest => (q == '"' || q == '\'') && rest.getLast? == some q
  | [] => false

/-- the YAML / PEP 508 unquoting test: at least two bytes, and the same quote character at both ends -/
def quotedText (tr : Text) : Bool :=
  Nat.ble 2 (byteLen tr) && ((startsWith tr ['\''] && endsWith tr ['\'']) || (startsWith tr ['"'] && endsWith tr ['"']))

/-- the value starts with one of the specifier prefixes that do not denote a registry version
    (`NON_REGISTRY_PREFIXES`, regenerated from the source) -/
def nonRegistry (raw : Text) : Bool :=
  (Generated.nonRegistryPrefixes.any fun p => startsWith raw p.toList) ||
  -- `is_path_or_repository`: a slash outside an `npm:` alias is a path or a hosted git repository
  (raw.any (· == '/') && !startsWith raw "npm:".toList)

/-- `trim_start_matches([..])` / `trim_end_matches([..])` with a set of characters -/
def trimStartChars (cs : List Char) : Text → Text
  | [] => []
  | x :: xs => if cs.contains x then trimStartChars cs xs else x :: xs

def trimEndChars (cs : List Char) (t : Text) : Text := (trimStartChars cs t.reverse).reverse

/-- cargo_toml.rs: `text.trim().trim_start_matches(['"', '\'']).trim_end_matches(['"', '\''])` -/
def unquoteToml (t : Text) : Text := trimEndChars ['"', '\''] (trimStartChars ['"', '\''] (trim t))

/-! ### package.json -/

/-- the (name, version) reported for a dependency value: alias targets for `npm:` specifiers -/
def npmNameVersion (key raw : Text) : Text × Text :=
  match Sites.npmAlias raw with
  | some (some (n, ver)) => (n, ver)
  | _ => (key, raw)

/-- one child of a dependency object (the body of the loop of `extract_packages_from_object`) -/
def npmEntry (content : Text) (child : Node) : Option PkgInfo :=
  if child.kind != "pair" then none
  else
    match child.childByField "key", child.childByField "value" with
    | some k, some v =>
      if v.kind != "string" then none
      else if !closedString (nodeText content v) then none
      else
        let raw := jsonStr (nodeText content v)
        if nonRegistry raw then none
        else
          let nv := npmNameVersion (jsonStr (nodeText content k)) raw
          some ⟨nv.1, nv.2, none, v.sb + 1, v.eb - 1, v.info.sr, v.info.sc + 1, none⟩
    | _, _ => none

/-- `extract_packages_from_object` -/
def npmPackagesOfObject (content : Text) (obj : Node) : List PkgInfo := obj.children.filterMap (npmEntry content)

/-- one child of the root object (the body of the loop of `extract_dependencies`): the dependency object it
    introduces, if its key is a dependency field and its value an object -/
def npmSectionOf (content : Text) (child : Node) : Option Node :=
  if child.kind != "pair" then none
  else
    match child.childByField "key" with
    | none => none
    | some k =>
      if !strIn Generated.dependencyFields (jsonStr (nodeText content k)) then none
      else
        match child.childByField "value" with
        | some v => if v.kind == "object" then some v else none
        | none => none

/-- `extract_dependencies`: only pairs of the ROOT object whose key is a dependency field and whose value is an object -/
def npmSections (content : Text) (root : Node) : List Node := root.children.filterMap (npmSectionOf content)

def packageJson (content : Text) (tree : Node) : List PkgInfo :=
  match tree.child0 with
  | some doc => if doc.kind == "object" then (npmSections content doc).flatMap (npmPackagesOfObject content) else []
  | none => []

/-! ### deno.json -/

/-- one child of the `imports` object -/
def denoEntry (content : Text) (child : Node) : Option PkgInfo :=
  if child.kind != "pair" then none
  else
    match child.childByField "value" with
    | none => none
    | some v =>
      if v.kind != "string" then none
      else if !closedString (nodeText content v) then none
      else
        match Sites.jsrSpecifier (jsonStr (nodeText content v)) with
        | some (some (n, ver)) => some ⟨n, ver, none, v.sb + 1, v.eb - 1, v.info.sr, v.info.sc + 1, none⟩
        | _ => none

def denoPackagesOfImports (content : Text) (obj : Node) : List PkgInfo := obj.children.filterMap (denoEntry content)

def importsKey : Text := "imports".toList

/-- one child of the root object: the `imports` object, if this is it -/
def denoSectionOf (content : Text) (child : Node) : Option Node :=
  if child.kind != "pair" then none
  else
    match child.childByField "key" with
    | none => none
    | some k =>
      if jsonStr (nodeText content k) != importsKey then none
      else
        match child.childByField "value" with
        | some v => if v.kind == "object" then some v else none
        | none => none

def denoSections (content : Text) (root : Node) : List Node := root.children.filterMap (denoSectionOf content)

def denoJson (content : Text) (tree : Node) : List PkgInfo :=
  match tree.firstValue with
  | some doc => if doc.kind == "object" then (denoSections content doc).flatMap (denoPackagesOfImports content) else []
  | none => []

/-! ### TOML helpers -/

/-- the name of a `table` node: text of its first `bare_key` / `dotted_key` child, provided the first child is `[` -/
def tableName (content : Text) (table : Node) : Option Text :=
  match table.child0 with
  | none => none
  | some h =>
    if h.kind != "[" then none
    else (table.children.find? fun c => c.kind == "bare_key" || c.kind == "dotted_key").map (nodeText content)

abbrev VerInfo := Text × Nat × Nat × Nat × Nat     -- version, start, end, line, column

def stringVer (content : Text) (s : Node) : VerInfo :=
  (unquoteToml (nodeText content s), s.sb + 1, s.eb - 1, s.info.sr, s.info.sc + 1)

/-! ### Cargo.toml -/

/-- `should_skip_inline_table` -/
def cargoSkipInline (content : Text) (tbl : Node) : Bool :=
  tbl.children.any fun child =>
    child.kind == "pair" && child.children.any fun pc =>
      pc.kind == "bare_key" && strIn Generated.skipKeys (nodeText content pc)

/-- the scan of one pair of an inline table: the first `string` child that follows a `bare_key` equal to `version` -/
def inlinePairVersion (content : Text) : List Node → Bool → Option VerInfo
  | [], _ => none
  | pc :: rest, isVer =>
    if pc.kind == "bare_key" then inlinePairVersion content rest (nodeText content pc == "version".toList)
    else if pc.kind == "string" && isVer && closedString (nodeText content pc) then some (stringVer content pc)
    else inlinePairVersion content rest isVer

/-- `extract_version_from_inline_table` -/
def cargoInlineVersion (content : Text) (tbl : Node) : Option VerInfo :=
  if cargoSkipInline content tbl then none
  else
    (tbl.children.filter (·.kind == "pair")).findSome? fun child => inlinePairVersion content child.children false

/-- the scan of one pair of an inline table for a closed `string` child that follows the `bare_key` `package` -/
def inlinePairPackage (content : Text) : List Node → Bool → Option Text
  | [], _ => none
  | pc :: rest, isPkg =>
    if pc.kind == "bare_key" then inlinePairPackage content rest (nodeText content pc == "package".toList)
    else if pc.kind == "string" && isPkg && closedString (nodeText content pc) then some (unquoteToml (nodeText content pc))
    else inlinePairPackage content rest isPkg

/-- `inline_table_package`: the real name of a renamed dependency -/
def cargoInlinePackage (content : Text) (tbl : Node) : Option Text :=
  (tbl.children.filter (·.kind == "pair")).findSome? fun child => inlinePairPackage content child.children false

structure PairState where
  name : Option Text := none
  ver : Option VerInfo := none
  dotted : Bool := false
  suffix : Option Text := none

/-- one step of the loop of `extract_package_from_pair` -/
def cargoPairStep (content : Text) (st : PairState) (child : Node) : PairState :=
  if child.kind == "bare_key" then { st with name := some (nodeText content child) }
  else if child.kind == "dotted_key" then
    match splitOnceChar '.' (nodeText content child) with
    | some (pkg, suf) => { st with dotted := true, name := some pkg, suffix := some suf }
    | none => { st with dotted := true }
  else if child.kind == "string" then
    if !closedString (nodeText content child) then st
    else if st.dotted then
      if st.suffix == some "version".toList then { st with ver := some (stringVer content child) } else st
    else { st with ver := some (stringVer content child) }
  else if child.kind == "inline_table" then
    { st with ver := cargoInlineVersion content child,
              name := match cargoInlinePackage content child with | some real => some real | none => st.name }
  else st

def cargoPair (content : Text) (pair : Node) : Option PkgInfo :=
  let st := pair.children.foldl (cargoPairStep content) {}
  match st.name, st.ver with
  | some n, some (v, s, e, l, c) => some ⟨n, v, none, s, e, l, c, none⟩
  | _, _ => none

/-- text after the LAST `sep` (`rsplit_once(sep)`), or the whole text if there is none -/
def afterLast (sep : Char) (t : Text) : Text :=
  match (splitChar sep t).getLast? with
  | some l => l
  | none => t

/-- the section a table header names: `[target.<cfg>.dependencies]` names `dependencies` -/
def cargoSection (name : Text) : Text :=
  match stripPrefix "target.".toList name with
  | some rest => if rest.any (· == '.') then afterLast '.' rest else []   -- `[target.dependencies]`: no <cfg> component, no section
  | none => name

/-- `rsplit_once(sep)`: the text before and after the LAST `sep` -/
def rsplitOnceChar (sep : Char) (t : Text) : Option (Text × Text) :=
  match (splitChar sep t).reverse with
  | last :: (p :: ps) => some (intercalate [sep] (p :: ps).reverse, last)
  | _ => none

/-- `is_dependency_table` -/
def cargoIsDepTable (name : Text) : Bool := strIn Generated.dependencyTables (cargoSection name)

/-- `extract_package_from_subtable`: `[dependencies.serde]` with `version = "…"` inside — the table's pairs are read
    like those of the inline form -/
def cargoSubtable (content : Text) (dep : Text) (table : Node) : List PkgInfo :=
  match cargoInlineVersion content table with
  | none => []
  | some (v, s, e, l, c) =>
    [⟨match cargoInlinePackage content table with | some real => real | none => dep, v, none, s, e, l, c, none⟩]

def cargoTable (content : Text) (table : Node) : List PkgInfo :=
  match tableName content table with
  | none => []
  | some name =>
    if cargoIsDepTable name then (table.children.filter (·.kind == "pair")).filterMap (cargoPair content)
    else match rsplitOnceChar '.' name with
      | some (parent, dep) => if cargoIsDepTable parent then cargoSubtable content dep table else []
      | none => []

def cargoToml (content : Text) (tree : Node) : List PkgInfo :=
  (tree.children.filter (·.kind == "table")).flatMap (cargoTable content)

/-! ### pyproject.toml — the PEP 508 library is a parameter -/

/-- what `Requirement::from_str` makes of a requirement: `none` = error / panic (caught); URL requirements are skipped -/
inductive Pep where
  | bad | url | ok (name spec : Text)
deriving Repr, DecidableEq

def pyUnquote (t : Text) : Text :=
  let tr := trim t
  if quotedText tr then (slice tr 1 (byteLen tr - 1)).getD [] else tr

def minPos (inner : Text) (ops : List String) : Nat :=
  ops.foldl (fun acc op => match find? op.toList inner with | some p => if p < acc then p else acc | none => acc) (byteLen inner)

/-- `parse_dependency_string` -/
def pyDependency (pep : Text → Pep) (content : Text) (s : Node) : Option PkgInfo :=
  let depStr := pyUnquote (nodeText content s)
  match pep depStr with
  | .bad | .url => none
  | .ok name spec =>
    let stringStart := s.sb
    let inner := trimEndChar '\'' (trimEndChar '"' (trimStartChar '\'' (trimStartChar '"' (nodeText content s))))
    let (so, eo) :=
      if spec.isEmpty then (stringStart + 1, s.eb - 1)
      else
        let vs := minPos inner [">=", "<=", "!=", "~=", "==", ">", "<"]
        if vs ≥ byteLen inner then (stringStart + 1, stringStart + 1 + byteLen name)
        else (stringStart + 1 + vs, stringStart + 1 + ((find? [';'] inner).getD (byteLen inner)))
    some ⟨name, spec, none, so, eo, s.info.sr, s.info.sc + (so - stringStart), none⟩

def pyArray (pep : Text → Pep) (content : Text) (arr : Node) : List PkgInfo :=
  (arr.children.filter (·.kind == "string")).filterMap (pyDependency pep content)

/-- `extract_key_array`: arrays that follow a `bare_key` equal to `key` inside a pair -/
def pyKeyArrayPair (pep : Text → Pep) (content : Text) (key : Text) : List Node → Bool → List PkgInfo
  | [], _ => []
  | pc :: rest, isTarget =>
    if pc.kind == "bare_key" then pyKeyArrayPair pep content key rest (nodeText content pc == key)
    else if pc.kind == "array" && isTarget then pyArray pep content pc ++ pyKeyArrayPair pep content key rest isTarget
    else pyKeyArrayPair pep content key rest isTarget

def pyTable (pep : Text → Pep) (content : Text) (table : Node) : List PkgInfo :=
  match tableName content table with
  | none => []
  | some name =>
    let pairs := table.children.filter (·.kind == "pair")
    if name == "project".toList then pairs.flatMap fun p => pyKeyArrayPair pep content "dependencies".toList p.children false
    else if name == "build-system".toList then pairs.flatMap fun p => pyKeyArrayPair pep content "requires".toList p.children false
    else if name == "project.optional-dependencies".toList then
      pairs.flatMap fun p => (p.children.filter (·.kind == "array")).flatMap (pyArray pep content)
    else []

def pyproject (pep : Text → Pep) (content : Text) (tree : Node) : List PkgInfo :=
  (tree.children.filter (·.kind == "table")).flatMap (pyTable pep content)

/-! ### pnpm-workspace.yaml -/

/-- `parse_package_entry` -/
def pnpmEntry (content : Text) (pair : Node) : Option PkgInfo :=
  match pair.childByField "key", pair.childByField "value" with
  | some k, some v =>
    let name := unquoteBoth (nodeText content k)
    let raw := nodeText content v
    let tr := trim raw
    let quoted := quotedText tr
    let version := if quoted then (slice tr 1 (byteLen tr - 1)).getD [] else tr
    -- white space the node carries before the value is not part of it
    let lead := byteLen (raw.takeWhile isWhite)
    let so := v.sb + lead
    let eo := so + byteLen tr
    let col := v.info.sc + lead
    if version.isEmpty then none
    else if quoted then some ⟨name, version, none, so + 1, eo - 1, v.info.sr, col + 1, none⟩
    else some ⟨name, version, none, so, eo, v.info.sr, col, none⟩
  | _, _ => none

mutual
/-- `extract_packages_from_mapping` -/
def pnpmMapping (content : Text) : Node → List PkgInfo
  | .mk _ cs => pnpmMappingList content cs
def pnpmMappingList (content : Text) : List Node → List PkgInfo
  | [] => []
  | c :: rest =>
    (if c.kind == "block_mapping" then pnpmMapping content c
     else if c.kind == "block_mapping_pair" then (pnpmEntry content c).toList
     else []) ++ pnpmMappingList content rest
end

/-- `extract_named_catalogs` -/
def pnpmNamed (content : Text) (n : Node) : List PkgInfo :=
  (n.children.filter (·.kind == "block_mapping")).flatMap fun bm =>
    bm.children.flatMap fun cp =>
      if cp.kind == "block_mapping_pair" then
        match cp.childByField "value" with
        | some v => pnpmMapping content v
        | none => []
      else []

mutual
/-- `find_catalog_entries` -/
def pnpmFind (content : Text) : Node → List PkgInfo
  | .mk info cs =>
    let n := Node.mk info cs
    let handled : Option (List PkgInfo) :=
      if info.kind == "block_mapping_pair" then
        match n.childByField "key" with
        | some k =>
          let key := unquoteBoth (nodeText content k)
          if key == "catalog".toList then
            some (match n.childByField "value" with | some v => pnpmMapping content v | none => [])
          else if key == "catalogs".toList then
            some (match n.childByField "value" with | some v => pnpmNamed content v | none => [])
          else none
        | none => none
      else none
    match handled with
    | some r => r
    | none => pnpmFindList content cs
def pnpmFindList (content : Text) : List Node → List PkgInfo
  | [] => []
  | c :: rest => pnpmFind content c ++ pnpmFindList content rest
end

def pnpmWorkspace (content : Text) (tree : Node) : List PkgInfo := pnpmFind content tree

/-! ### GitHub Actions workflows -/

def isHash (v : Text) : Bool := byteLen v == 40 && v.all isAsciiHexDigit

/-- `version_start_in_value`: one past the first `@` of the unquoted node text -/
def ghaVStart (content : Text) (node : Node) : Nat :=
  match findChar? (· == '@') (unquoteBoth (nodeText content node)) with | some p => p + 1 | none => 0

/-- a local action (`./path`) or a container image (`docker://image`) is not a repository: an `@` in it belongs to a
    directory name or to an image digest -/
def notRepository (value : Text) : Bool := startsWith value ['.'] || startsWith value "docker://".toList

/-- `parse_uses_value`, for a value that names a repository -/
def ghaUsesRepo (content : Text) (value : Text) (node : Node) : Option PkgInfo :=
  match Sites.usesSplit value with
  | some (some (owner, repo, version)) =>
    let name := owner ++ '/' :: repo
    let vstart := ghaVStart content node
    let so := node.sb + vstart
    let col := node.info.sc + vstart
    if isHash version then
      match Sites.hashComment content node.sb with
      | some (some (after, hashOff)) =>
        let trimmed := trim after
        if trimmed.isEmpty then some ⟨name, version, some version, so, node.eb, node.info.sr, col, none⟩
        else
          let ts := (find? trimmed after).getD 0
          let cstart := hashOff + 1 + ts
          some ⟨name, trimmed, some version, so, node.eb, node.info.sr, col, some (trimmed, hashOff, cstart + byteLen trimmed)⟩
      | _ => some ⟨name, version, some version, so, node.eb, node.info.sr, col, none⟩
    else some ⟨name, version, none, so, node.eb, node.info.sr, col, none⟩
  | _ => none

/-- `parse_uses_value` -/
def ghaUses (content : Text) (value : Text) (node : Node) : Option PkgInfo :=
  if notRepository value then none else ghaUsesRepo content value node

mutual
/-- `find_uses_in_steps` -/
def ghaInSteps (content : Text) : Node → List PkgInfo
  | .mk info cs =>
    let n := Node.mk info cs
    let here : List PkgInfo :=
      if info.kind == "block_mapping_pair" || info.kind == "flow_pair" then
        match n.childByField "key" with
        | some k =>
          if unquoteBoth (nodeText content k) == "uses".toList then
            match n.childByField "value" with
            | some v => (ghaUses content (unquoteBoth (nodeText content v)) v).toList
            | none => []
          else []
        | none => []
      else []
    here ++ ghaInStepsList content cs
def ghaInStepsList (content : Text) : List Node → List PkgInfo
  | [] => []
  | c :: rest => ghaInSteps content c ++ ghaInStepsList content rest
end

mutual
/-- `find_uses_nodes` -/
def ghaFind (content : Text) : Node → List PkgInfo
  | .mk info cs =>
    let n := Node.mk info cs
    let steps : Option Node :=
      if info.kind == "block_mapping_pair" || info.kind == "flow_pair" then
        match n.childByField "key" with
        | some k => if unquoteBoth (nodeText content k) == "steps".toList then n.childByField "value" else none
        | none => none
      else none
    match steps with
    | some v => ghaInSteps content v
    | none => ghaFindList content cs
def ghaFindList (content : Text) : List Node → List PkgInfo
  | [] => []
  | c :: rest => ghaFind content c ++ ghaFindList content rest
end

def workflow (content : Text) (tree : Node) : List PkgInfo := ghaFind content tree

/-! ### go.mod — raw text, three regular expressions -/

/-- `\s*(?://.*)?$` at the end of a line -/
def goTailOk (rest : Text) : Bool := (rest.dropWhile isWhite).isEmpty || startsWith (rest.dropWhile isWhite) "//".toList

/-- longest proper prefix `p` of `run` with `2 ≤ |p|` that is directly followed by `//` (the regex engine backs
    off the greedy `[^\s]+` one character at a time); `k` counts down from `|run| - 1` -/
def goBackoff (run : Text) : Nat → Option Text
  | 0 => none
  | k + 1 =>
    if 2 ≤ k + 1 && startsWith (run.drop (k + 1)) "//".toList then some (run.take (k + 1)) else goBackoff run k

/-- `(v[^\s]+)(?:\s*//.*)?$` : the text of group 2 -/
def goVersionTail (t : Text) : Option Text :=
  let run := t.takeWhile (fun c => !isWhite c)
  let rest := t.dropWhile (fun c => !isWhite c)
  match run with
  | 'v' :: _ :: _ => if goTailOk rest then some run else goBackoff run (run.length - 1)
  | _ => none

/-- `(\S+)\s+(v[^\s]+)(?:\s*//.*)?$` : (group 1, text before group 2 counted from the start of `t`, group 2) -/
def goSpec (t : Text) : Option (Text × Text × Text) :=
  let path := t.takeWhile (fun c => !isWhite c)
  let r1 := t.dropWhile (fun c => !isWhite c)
  let ws := r1.takeWhile isWhite
  let r2 := r1.dropWhile isWhite
  if path.isEmpty || ws.isEmpty then none
  else (goVersionTail r2).map fun v => (path, path ++ ws, v)

/-- `^require\s+(\S+)\s+(v[^\s]+)\s*(?://.*)?$` on the trimmed line: (module path, version, byte offset of the
    version in the trimmed line = `version_match.start()`) -/
def goSingle (trimmed : Text) : Option (Text × Text × Nat) :=
  match stripPrefix Sites.requireKw trimmed with
  | none => none
  | some r =>
    if (r.takeWhile isWhite).isEmpty then none
    else (goSpec (r.dropWhile isWhite)).map fun (p, before, v) =>
      (p, v, byteLen Sites.requireKw + byteLen (r.takeWhile isWhite) + byteLen before)

/-- `^require\s*\(\s*$` -/
def goBlockStart (trimmed : Text) : Bool :=
  match stripPrefix Sites.requireKw trimmed with
  | none => false
  | some r =>
    match r.dropWhile isWhite with
    | '(' :: rest => rest.all isWhite
    | _ => false

/-- `str::lines()` with the byte offset at which each line starts in the document (what
    `line.as_ptr() - content.as_ptr()` yields): pieces end at `\n`, a trailing `\r` is dropped from the piece
    but still counted in the offset of the next one -/
def linesWithOffsets : Text → Text → (start cur : Nat) → List (Text × Nat)
  | [], acc, start, _ => if acc.isEmpty then [] else [(acc.reverse, start)]
  | c :: cs, acc, start, cur =>
    if c == '\n' then
      ((match acc with | '\r' :: r => r.reverse | _ => acc.reverse), start) :: linesWithOffsets cs [] (cur + 1) (cur + 1)
    else linesWithOffsets cs (c :: acc) start (cur + utf8Len c)

/-- the loop of `GoModParser::parse` over `content.lines().enumerate()`; each line comes with `line_start` -/
def goLines : List (Text × Nat) → (lineNum : Nat) → (inBlock : Bool) → List PkgInfo
  | [], _, _ => []
  | (line, off) :: rest, n, inBlock =>
    let trimmed := trim line
    if trimmed.isEmpty || startsWith trimmed "//".toList then goLines rest (n + 1) inBlock
    else if inBlock && trimmed == [')'] then goLines rest (n + 1) false
    else if goBlockStart trimmed then goLines rest (n + 1) true
    else if inBlock then
      let lead := line.takeWhile isWhite
      match goSpec (line.dropWhile isWhite) with
      | some (path, before, v) =>
        let col := byteLen lead + byteLen before
        ⟨path, v, none, off + col, off + col + byteLen v, n, col, none⟩ :: goLines rest (n + 1) inBlock
      | none => goLines rest (n + 1) inBlock
    else
      match goSingle trimmed with
      | some (path, v, posInTrimmed) =>
        -- the match is on the trimmed line: add the width of the leading white space
        let pos := byteLen (line.takeWhile isWhite) + posInTrimmed
        ⟨path, v, none, off + pos, off + pos + byteLen v, n, pos, none⟩ :: goLines rest (n + 1) inBlock
      | none => goLines rest (n + 1) inBlock

def goMod (content : Text) : List PkgInfo := goLines (linesWithOffsets content [] 0 0) 0 false

end Parsers
end Vlsp
