/-
  Model of src/version/matchers/go.rs.
-/
import Vlsp.Model.Matcher

namespace Vlsp
open Text Semver

namespace Go

/-- `normalize_go_version` -/
def normalize (version : Text) : Text :=
  let v := match version with | 'v' :: r => r | _ => version
  match stripSuffix "+incompatible".toList v with
  | some r => r
  | none => v

/-- `is_pseudo_version`.  (`timestamp.len()` is a byte length; the sliced
    `&timestamp[2..]` is on a char boundary because the first two chars are `0.`) -/
def isPseudoVersion (version : Text) : Bool :=
  let normalized := normalize version
  match splitOnceChar '-' normalized with
  | none => false
  | some (_, rest) =>
    match splitChar '-' rest with
    | ts :: _ :: _ =>
      if byteLen ts == 14 && ts.all isAsciiDigit then true
      else if startsWith ts "0.".toList && byteLen ts == 16 then
        (ts.drop 2).all isAsciiDigit
      else false
    | _ => false

/-- `parse_go_version` -/
def parseGoVersion (version : Text) : Option (Version × Option Text) :=
  let normalized := normalize version
  match splitOnceChar '-' normalized with
  | some (base, rest) =>
    let isPseudo : Option Text :=
      match splitChar '-' rest with
      | p0 :: _ :: _ => if byteLen p0 == 14 && p0.all isAsciiDigit then some p0 else none
      | _ => none
    match isPseudo with
    | some p0 => (parseStrict base).map fun v => (v, some p0)
    | none => (parseStrict (base ++ '-' :: rest)).map fun v => (v, none)
  | none => (parseStrict normalized).map fun v => (v, none)

/-- `compare_go_versions` -/
def compareGoVersions (current latest : Text) : CompareResult :=
  match parseGoVersion current with
  | none => .invalid
  | some (cv, cts) =>
  match parseGoVersion latest with
  | none => .invalid
  | some (lv, lts) =>
    match cmp cv lv with
    | .lt => .outdated
    | .gt => .newer
    | .eq =>
      match cts, lts with
      | some ct, some lt_ =>
        match cmpText ct lt_ with
        | .eq => .latest | .lt => .outdated | .gt => .newer
      | none, some _ => .outdated
      | some _, none => .newer
      | none, none => .latest

/-- `GoVersionMatcher::version_exists` -/
def versionExists (spec : Text) (available : List Text) : Bool :=
  if isPseudoVersion spec then true
  else
    let n := normalize spec
    available.any fun v => normalize v == n

def matcher : Matcher := ⟨versionExists, compareGoVersions⟩

end Go
end Vlsp
