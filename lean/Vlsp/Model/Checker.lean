/-
  Model of `compare_version` (src/version/checker.rs:150-205) and of
  `create_diagnostic` / `generate_diagnostics` (src/lsp/diagnostics.rs).
  The three cache reads are inputs; each may fail.
-/
import Vlsp.Model.Matcher
import Vlsp.Generated

namespace Vlsp
open Text

inductive Status | latest | outdated | newer | invalid | notInCache | notFound
deriving DecidableEq, Repr, Inhabited

def Status.toString : Status → String
  | .latest => "latest" | .outdated => "outdated" | .newer => "newer" | .invalid => "invalid"
  | .notInCache => "notincache" | .notFound => "notfound"

/-- what the three `VersionStorer` reads of `compare_version` return (`none` = `Err`) -/
structure Reads where
  latest : Option (Option Text)
  tag : Text → Option (Option Text)
  versions : Option (List Text)

namespace Checker

/-- `is_potential_dist_tag`: `version.to_lowercase()` is a known tag.  (For the
    known tags, none of which contains `k`, Unicode and ASCII lower-casing agree on
    whether the result is a known tag, except for U+212A KELVIN SIGN → `k`; the
    extractor checks that no tag contains `k`.) -/
def isPotentialDistTag (v : Text) : Bool :=
  Generated.knownDistTags.any fun t => t.toList == toLowerAscii v

/-- `compare_version`; outer `none` = a cache read failed (`Err`) -/
def compareVersion (m : Matcher) (r : Reads) (cur : Text) : Option (Status × Option Text) :=
  match r.latest with
  | none => none
  | some none => some (.notInCache, none)
  | some (some latest) =>
    match r.tag cur with
    | none => none
    | some tagRes =>
      let resolved : Option Text :=
        match tagRes with
        | some v => some v
        | none => if isPotentialDistTag cur then none else some cur
      match resolved with
      | none => some (.notInCache, some latest)
      | some rv =>
        match r.versions with
        | none => none
        | some all =>
          let ex := m.exists_ rv all
          let st : Status :=
            match m.cmp rv latest with
            | .invalid => .invalid
            | .latest => if ex then .latest else .notFound
            | .outdated => if ex then .outdated else .notFound
            | .newer => if ex then .newer else .notFound
          some (st, some latest)

inductive Severity | warning | error
deriving DecidableEq, Repr

/-- `create_diagnostic` (severity and message; the range is in `Model/Pos`) -/
def createDiagnostic (st : Status) (cur : Text) (latest : Option Text) : Option (Severity × Text) :=
  match st with
  | .notInCache | .latest | .newer => none
  | .outdated =>
    some (.warning, "Update available: ".toList ++ cur ++ " -> ".toList ++ (latest.getD "unknown".toList))
  | .notFound => some (.error, "Version ".toList ++ cur ++ " not found in registry".toList)
  | .invalid => some (.error, "Invalid version format: ".toList ++ cur)

/-- one dependency of `generate_diagnostics`: a failing read drops the dependency -/
def diagFor (m : Matcher) (r : Reads) (cur : Text) : Option (Severity × Text) :=
  match compareVersion m r cur with
  | none => none
  | some (st, latest) => createDiagnostic st cur latest

end Checker
end Vlsp
