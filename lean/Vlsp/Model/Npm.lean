/-
  Model of src/version/matchers/npm.rs (used by npm, pnpm catalog and JSR).
  Follows the Rust step by step; names mirror the Rust items.
-/
import Vlsp.Model.Matcher

namespace Vlsp
open Text Semver

namespace Npm

inductive VersionRange
  | exact (v : Version) | caret (v : Version) | tilde (v : Version)
  | gte (v : Version) | gt (v : Version) | lte (v : Version) | lt (v : Version)
  | any | wildcardMajor (major : Nat) | wildcardMinor (major minor : Nat)
  | hyphen (from_ to : Version)
  | anchored (r : VersionRange) (a : Version)   -- `Partial { range, anchor }`: matches like `r`, is anchored at `a`
deriving Repr, DecidableEq

inductive VersionSpec
  | single (r : VersionRange)
  | and (rs : List VersionRange)      -- Rust: And(Vec<VersionSpec>) whose members are always Single
  | or (ss : List VersionSpec)        -- members are single/and
deriving Repr

/-- `VersionRange::parse_hyphen` -/
def parseHyphen (spec : Text) : Option VersionRange :=
  match splitOn " - ".toList spec with
  | [a, b] =>
    match parseVersion (trim a), parseVersion (trim b) with
    | some f, some t => some (.hyphen f t)
    | _, _ => none
  | _ => none

/-- `VersionRange::is_wildcard`: "*", "x" or "X" -/
def isWildcard (c : Text) : Bool := c == ['*'] || eqIgnoreAsciiCase c ['x']

/-- `VersionRange::parse_wildcard` -/
def parseWildcard (spec : Text) : Option VersionRange :=
  match splitChar '.' spec with
  | [major, x] =>
    if isWildcard x then (parseU64 major).map .wildcardMajor else none
  | [major, minor, x] =>
    if isWildcard x then
      match parseU64 major, parseU64 minor with
      | some a, some b => some (.wildcardMinor a b)
      | _, _ => none
    else none
  | _ => none

/-- the lowest version that starts with `M.m`: its prereleases count too (`M.m.0-0`) -/
def floorVer (M m : Nat) : Version := ⟨M, m, 0, ['0'], []⟩

def succU64 (n : Nat) : Option Nat := if n + 1 ≤ u64Max then some (n + 1) else none     -- `checked_add(1)`

/-- what an operator followed by a partial version (`M` or `M.m`) stands for -/
def partialRange (op : String) (M : Nat) (m : Option Nat) : Option VersionRange :=
  match op, m with
  | ">=", m => some (.gte (floorVer M (m.getD 0)))
  | ">", none => (succU64 M).map fun M' => .gte (floorVer M' 0)
  | ">", some m => (succU64 m).map fun m' => .gte (floorVer M m')
  | "<=", none => (succU64 M).map fun M' => .lt (floorVer M' 0)
  | "<=", some m => (succU64 m).map fun m' => .lt (floorVer M m')
  | "<", m => some (.lt (floorVer M (m.getD 0)))
  | "^", some m => if M > 0 then some (.caret (floorVer M m)) else some (.wildcardMinor M m)
  | _, none => some (.wildcardMajor M)
  | _, some m => some (.wildcardMinor M m)

/-- `VersionRange::parse_partial`: an operator (`<=`, `>=`, `<`, `>`, `^`, `~`, tried in this order) followed by a
    partial version; `none` for everything else (no operator, a full version, junk) -/
def parsePartial (spec : Text) : Option VersionRange :=
  match ["<=", ">=", "<", ">", "^", "~"].findSome? fun op => (stripPrefix op.toList spec).map fun r => (op, r) with
  | none => none
  | some (op, rest0) =>
    let rest1 := trim rest0
    let rest := match rest1 with | 'v' :: r => r | _ => rest1
    -- "~1.x" is "~1": a wildcard component ends the numbers
    match (splitChar '.' rest).takeWhile (fun c => !isWildcard c) with
    | [a] => match parseU64 a with | some M => (partialRange op M none).map (.anchored · ⟨M, 0, 0, [], []⟩) | none => none
    | [a, b] =>
      match parseU64 a with
      | none => none
      | some M => match parseU64 b with | some m => (partialRange op M (some m)).map (.anchored · ⟨M, m, 0, [], []⟩) | none => none
    | a :: b :: _ =>
      -- three or more pieces: a full version (or junk) — but the first two numbers are parsed before the third is looked at
      match parseU64 a with
      | none => none
      | some _ => match parseU64 b with | some _ => none | none => none
    | [] => none

/-- `VersionRange::parse` -/
def parseRange (spec0 : Text) : Option VersionRange :=
  let spec := trim spec0
  match parseHyphen spec with
  | some r => some r
  | none =>
    match parsePartial spec with
    | some r => some r
    | none =>
    match stripPrefix ">=".toList spec with
    | some rest => (parseVersion (trim rest)).map .gte
    | none =>
    match stripPrefix ">".toList spec with
    | some rest => (parseVersion (trim rest)).map .gt
    | none =>
    match stripPrefix "<=".toList spec with
    | some rest => (parseVersion (trim rest)).map .lte
    | none =>
    match stripPrefix "<".toList spec with
    | some rest => (parseVersion (trim rest)).map .lt
    | none =>
    match stripPrefix "=".toList spec with
    | some rest => (parseVersion (trim rest)).map .exact
    | none =>
    match stripPrefix "^".toList spec with
    | some rest => (parseVersion (trim rest)).map .caret
    | none =>
    match stripPrefix "~".toList spec with
    | some rest => (parseVersion (trim rest)).map .tilde
    | none =>
      if isWildcard spec then some .any
      else match parseWildcard spec with
        | some r => some r
        | none => (parseVersion spec).map .exact

/-- `before.ends_with(['<', '>', '=', '^', '~'])` -/
def endsWithOp (t : Text) : Bool :=
  match t.getLast? with
  | some c => c == '<' || c == '>' || c == '=' || c == '^' || c == '~'
  | none => false

/-- `VersionSpec::split_and_parts` (after the byte-offset fix): `cur` is the text
    since `current_start` (reversed); at a space with non-blank text before it,
    either skip a ` - ` separator or close the part. -/
def splitAndPartsAux : (rest : Text) → (cur : Text) → (skip : Nat) → List Text
  | [], cur, _ =>
    let last := trim cur.reverse
    if last.isEmpty then [] else [last]
  | c :: cs, cur, skip + 1 => splitAndPartsAux cs (c :: cur) skip
  | c :: cs, cur, 0 =>
    if c == ' ' then
      let before := trim cur.reverse
      -- an operator separated from its version (">= 1.0.0"): the space belongs to the part
      if endsWithOp before then splitAndPartsAux cs (c :: cur) 0
      else if !before.isEmpty then
        match cs with
        | '-' :: ' ' :: _ => splitAndPartsAux cs (c :: cur) 2     -- skip " - " (3 chars incl. this one)
        | _ => before :: splitAndPartsAux cs [] 0
      else splitAndPartsAux cs (c :: cur) 0
    else splitAndPartsAux cs (c :: cur) 0

def splitAndParts (spec : Text) : List Text := splitAndPartsAux spec [] 0

def allSome {α} : List (Option α) → Option (List α)
  | [] => some []
  | none :: _ => none
  | some a :: rest => (allSome rest).map (a :: ·)

/-- `VersionSpec::parse_and_or_single` -/
def parseAndOrSingle (spec0 : Text) : Option VersionSpec :=
  let spec := trim spec0
  if spec.isEmpty then none
  else if (parseHyphen spec).isSome then (parseRange spec).map .single
  else
    let parts := splitAndParts spec
    if parts.length > 1 then (allSome (parts.map parseRange)).map .and
    else (parseRange spec).map .single

/-- `VersionSpec::parse` -/
def parseSpec (spec0 : Text) : Option VersionSpec :=
  let spec := trim spec0
  if spec.isEmpty then none
  else if contains spec "||".toList then
    (allSome ((splitOn "||".toList spec).map (fun p => parseAndOrSingle (trim p)))).map .or
  else parseAndOrSingle spec

/-- `VersionRange::satisfies` -/
def satisfiesRange (r : VersionRange) (version : Version) : Bool :=
  match r with
  | .exact v => peq version v
  | .caret v =>
    if plt version v then false
    else if v.major == 0 then
      if v.minor == 0 then version.major == 0 && version.minor == 0 && version.patch == v.patch
      else version.major == 0 && version.minor == v.minor
    else version.major == v.major
  | .tilde v => pge version v && version.major == v.major && version.minor == v.minor
  | .gte v => pge version v
  | .gt v => pgt version v
  | .lte v => ple version v
  | .lt v => plt version v
  | .any => true
  | .wildcardMajor m => version.major == m
  | .wildcardMinor m n => version.major == m && version.minor == n
  | .hyphen f t => pge version f && ple version t
  | .anchored r _ => satisfiesRange r version

/-- `VersionRange::base_version` -/
def baseRange : VersionRange → Option Version
  | .exact v | .caret v | .tilde v | .gte v | .gt v | .lte v | .lt v => some v
  | .any => none
  | .wildcardMajor m => some ⟨m, 0, 0, [], []⟩
  | .wildcardMinor m n => some ⟨m, n, 0, [], []⟩
  | .hyphen f _ => some f
  | .anchored _ a => some a

def satisfiesFlat : VersionSpec → Version → Bool
  | .single r, v => satisfiesRange r v
  | .and rs, v => rs.all (satisfiesRange · v)
  | .or _, _ => false   -- an `Or` never nests inside another spec

/-- `VersionSpec::satisfies` -/
def satisfies : VersionSpec → Version → Bool
  | .or ss, v => ss.any (satisfiesFlat · v)
  | s, v => satisfiesFlat s v

def baseFlat : VersionSpec → Option Version
  | .single r => baseRange r
  | .and rs => match rs with | [] => none | r :: _ => baseRange r
  | .or _ => none

/-- `VersionSpec::base_version` -/
def baseVersion : VersionSpec → Option Version
  | .or ss => match ss with | [] => none | s :: _ => baseFlat s
  | s => baseFlat s

/-- `npm_version_exists` -/
def versionExists (spec : Text) (available : List Text) : Bool :=
  match parseSpec spec with
  | none => false
  | some s => available.any fun v =>
    match parseStrict v with
    | some ver => satisfies s ver
    | none => false

/-- `npm_compare_to_latest` -/
def compareToLatest (current latest : Text) : CompareResult :=
  match parseSpec current with
  | none => .invalid
  | some spec =>
    match parseStrict latest with
    | none => .invalid
    | some l =>
      if satisfies spec l then .latest
      else match baseVersion spec with
        | none => .latest
        | some base => if plt base l then .outdated else .newer

def matcher : Matcher := ⟨versionExists, compareToLatest⟩

end Npm
end Vlsp
