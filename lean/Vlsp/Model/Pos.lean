/-
  Positions: what `(line, column)` and an offset mean in a document (bytes, as the parsers count them), and the
  LSP range a diagnostic gets (src/lsp/diagnostics.rs:62-71).
-/
import Vlsp.Model.Cst

namespace Vlsp
open Text Slice

namespace Pos

/-- bytes since the last line break of `pre` (the byte column of the position right after `pre`) -/
def colOf : Text → Nat → Nat
  | [], acc => acc
  | c :: cs, acc => if c == '\n' then colOf cs 0 else colOf cs (acc + utf8Len c)

/-- number of line breaks in `pre` (the line of the position right after `pre`) -/
def lineOf : Text → Nat
  | [] => 0
  | c :: cs => (if c == '\n' then 1 else 0) + lineOf cs

/-- the structural part of C05 for one reported location: the document splits as `pre ++ mid ++ post` with
    `|pre| = start`, `|pre ++ mid| = end` (so: start ≤ end ≤ length, both on character boundaries), `mid`
    contains no line break, and `(line, column)` is the position of `start` -/
def LocOk (content : Text) (p : PkgInfo) : Prop :=
  ∃ pre mid post, content = pre ++ mid ++ post ∧ byteLen pre = p.startOffset ∧ byteLen (pre ++ mid) = p.endOffset ∧
    (∀ c ∈ mid, c ≠ '\n') ∧ lineOf pre = p.line ∧ colOf pre 0 = p.column

/-- a value node that is a complete one-line quoted string: `pre ++ q :: body ++ q' :: post` with one-byte quotes -/
def QuotedNode (content : Text) (v : Node) : Prop :=
  ∃ pre q body q' post, content = pre ++ q :: (body ++ q' :: post) ∧ byteLen pre = v.sb ∧
    v.eb = byteLen pre + 1 + byteLen body + 1 ∧ utf8Len q = 1 ∧ utf8Len q' = 1 ∧ q ≠ '\n' ∧ (∀ c ∈ body, c ≠ '\n') ∧
    lineOf pre = v.info.sr ∧ colOf pre 0 = v.info.sc

/-- a value node that is a one-line unquoted scalar -/
def PlainNode (content : Text) (v : Node) : Prop :=
  ∃ pre body post, content = pre ++ body ++ post ∧ byteLen pre = v.sb ∧ v.eb = byteLen pre + byteLen body ∧
    (∀ c ∈ body, c ≠ '\n') ∧ lineOf pre = v.info.sr ∧ colOf pre 0 = v.info.sc

/-- `PackageInfo::is_on_one_line`: false only when the range (where it fits the document) contains a line break, or the
    text between `start − column` and `start` does (the range starts on a later line than the reported one) -/
def onOneLine (content : Text) (column so eo : Nat) : Bool :=
  let spans := match slice content so eo with | some t => t.any (· == '\n') | none => false
  let later := if column ≤ so then (match slice content (so - column) so with | some b => b.any (· == '\n') | none => false) else false
  !spans && !later

/-- `PackageInfo::utf16_span`: column and width of the version range in UTF-16 code units, computed from the text of the
    line before the range and the text of the range; `none` when the offsets do not fit the document -/
def utf16Span (content : Text) (column so eo : Nat) : Option (Nat × Nat) :=
  if column ≤ so then
    match slice content (so - column) so with
    | none => none
    | some before =>
      match slice content so eo with
      | none => none
      | some text => if before.any (· == '\n') then none else some (utf16Length before, utf16Length text)
  else none

/-- the LSP range of a diagnostic: same line, `column .. column + (end − start)` — in BYTES -/
def diagRange (p : PkgInfo) : Nat × Nat × Nat := (p.line, p.column, p.column + p.endOffset - p.startOffset)

end Pos
end Vlsp

namespace Vlsp
open Text Slice
namespace Pos

/-- executable test of `QuotedNode` (run on the real syntax trees by the driver: the premise of the location
    theorems is checked on every well-formed manifest of the corpus) -/
def quotedNodeB (content : Text) (v : Node) : Bool :=
  match sliceTo content v.sb, slice content v.sb v.eb with
  | some pre, some (q :: rest) =>
    match rest.reverse with
    | q' :: bodyRev =>
      utf8Len q == 1 && utf8Len q' == 1 && q != '\n' && bodyRev.all (· != '\n') &&
        lineOf pre == v.info.sr && colOf pre 0 == v.info.sc
    | [] => false
  | _, _ => false

def plainNodeB (content : Text) (v : Node) : Bool :=
  match sliceTo content v.sb, slice content v.sb v.eb with
  | some pre, some body => body.all (· != '\n') && lineOf pre == v.info.sr && colOf pre 0 == v.info.sc
  | _, _ => false

end Pos
end Vlsp
