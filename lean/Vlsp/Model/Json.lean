/-
  JSON values and a strict parser on `List Char` (what serde_json accepts, for the
  bodies the generators produce).  The parser is fuel-based (fuel = input length + 1).
-/
import Vlsp.Text

namespace Vlsp
open Text

inductive Json
  | null
  | bool (b : Bool)
  | num (raw : Text)
  | str (s : Text)
  | arr (l : List Json)
  | obj (kvs : List (Text × Json))
deriving Repr, Inhabited

namespace Json

def isWs (c : Char) : Bool := c == ' ' || c == '\n' || c == '\r' || c == '\t'

def skipWs : Text → Text
  | c :: cs => if isWs c then skipWs cs else c :: cs
  | [] => []

def hexVal? (c : Char) : Option Nat :=
  if '0' ≤ c && c ≤ '9' then some (c.toNat - 48)
  else if 'a' ≤ c && c ≤ 'f' then some (c.toNat - 87)
  else if 'A' ≤ c && c ≤ 'F' then some (c.toNat - 55)
  else none

def hex4 : Text → Option (Nat × Text)
  | a :: b :: c :: d :: rest =>
    match hexVal? a, hexVal? b, hexVal? c, hexVal? d with
    | some w, some x, some y, some z => some (w * 4096 + x * 256 + y * 16 + z, rest)
    | _, _, _, _ => none
  | _ => none

/-- string body after the opening quote; returns (decoded, rest after the closing quote) -/
def parseStrBody : Nat → Text → Text → Option (Text × Text)
  | 0, _, _ => none
  | _ + 1, [], _ => none
  | fuel + 1, c :: cs, acc =>
    if c == '"' then some (acc.reverse, cs)
    else if c.toNat < 0x20 then none
    else if c == '\\' then
      match cs with
      | '"' :: r => parseStrBody fuel r ('"' :: acc)
      | '\\' :: r => parseStrBody fuel r ('\\' :: acc)
      | '/' :: r => parseStrBody fuel r ('/' :: acc)
      | 'b' :: r => parseStrBody fuel r (Char.ofNat 8 :: acc)
      | 'f' :: r => parseStrBody fuel r (Char.ofNat 12 :: acc)
      | 'n' :: r => parseStrBody fuel r ('\n' :: acc)
      | 'r' :: r => parseStrBody fuel r ('\r' :: acc)
      | 't' :: r => parseStrBody fuel r ('\t' :: acc)
      | 'u' :: r =>
        match hex4 r with
        | none => none
        | some (hi, r') =>
          if 0xD800 ≤ hi && hi ≤ 0xDBFF then
            match r' with
            | '\\' :: 'u' :: r'' =>
              match hex4 r'' with
              | some (lo, r3) =>
                if 0xDC00 ≤ lo && lo ≤ 0xDFFF then
                  parseStrBody fuel r3 (Char.ofNat (0x10000 + (hi - 0xD800) * 1024 + (lo - 0xDC00)) :: acc)
                else none
              | none => none
            | _ => none
          else if 0xDC00 ≤ hi && hi ≤ 0xDFFF then none
          else parseStrBody fuel r' (Char.ofNat hi :: acc)
      | _ => none
    else parseStrBody fuel cs (c :: acc)

def spanDigits : Text → Text × Text
  | c :: cs => if isAsciiDigit c then let (a, b) := spanDigits cs; (c :: a, b) else ([], c :: cs)
  | [] => ([], [])

/-- JSON number grammar; returns (raw text, rest) -/
def parseNum (t : Text) : Option (Text × Text) :=
  let (sign, t1) : Text × Text := match t with | '-' :: r => (['-'], r) | _ => ([], t)
  let (ip, t2) := spanDigits t1
  if ip.isEmpty then none
  else if ip.length > 1 && ip.head? == some '0' then none
  else
    let (frac, t3) : Text × Text :=
      match t2 with
      | '.' :: r => let (d, r') := spanDigits r; ('.' :: d, r')
      | _ => ([], t2)
    if frac == ['.'] then none
    else
      let (ex, t4) : Option Text × Text :=
        match t3 with
        | e :: r =>
          if e == 'e' || e == 'E' then
            let (sg, r1) : Text × Text := match r with | '+' :: x => (['+'], x) | '-' :: x => (['-'], x) | _ => ([], r)
            let (d, r2) := spanDigits r1
            if d.isEmpty then (none, t3) else (some (e :: sg ++ d), r2)
          else (some [], t3)
        | [] => (some [], t3)
      match ex with
      | none => none
      | some e => some (sign ++ ip ++ frac ++ e, t4)

mutual
/-- one value; `fuel` bounds the recursion depth × length -/
def parseValue : Nat → Text → Option (Json × Text)
  | 0, _ => none
  | fuel + 1, t =>
    match skipWs t with
    | 'n' :: 'u' :: 'l' :: 'l' :: r => some (.null, r)
    | 't' :: 'r' :: 'u' :: 'e' :: r => some (.bool true, r)
    | 'f' :: 'a' :: 'l' :: 's' :: 'e' :: r => some (.bool false, r)
    | '"' :: r => (parseStrBody (r.length + 1) r []).map fun (s, r') => (.str s, r')
    | '[' :: r =>
      match skipWs r with
      | ']' :: r' => some (.arr [], r')
      | r' => (parseElems fuel r').map fun (l, r'') => (.arr l, r'')
    | '{' :: r =>
      match skipWs r with
      | '}' :: r' => some (.obj [], r')
      | r' => (parseMembers fuel r').map fun (l, r'') => (.obj l, r'')
    | t' => (parseNum t').map fun (n, r) => (.num n, r)
def parseElems : Nat → Text → Option (List Json × Text)
  | 0, _ => none
  | fuel + 1, t =>
    match parseValue fuel t with
    | none => none
    | some (v, r) =>
      match skipWs r with
      | ',' :: r' => (parseElems fuel r').map fun (l, r'') => (v :: l, r'')
      | ']' :: r' => some ([v], r')
      | _ => none
def parseMembers : Nat → Text → Option (List (Text × Json) × Text)
  | 0, _ => none
  | fuel + 1, t =>
    match skipWs t with
    | '"' :: r =>
      match parseStrBody (r.length + 1) r [] with
      | none => none
      | some (k, r1) =>
        match skipWs r1 with
        | ':' :: r2 =>
          match parseValue fuel r2 with
          | none => none
          | some (v, r3) =>
            match skipWs r3 with
            | ',' :: r4 => (parseMembers fuel r4).map fun (l, r5) => ((k, v) :: l, r5)
            | '}' :: r4 => some ([(k, v)], r4)
            | _ => none
        | _ => none
    | _ => none
end

/-- a whole document: one value, only whitespace after it -/
def parse (t : Text) : Option Json :=
  match parseValue (t.length + 1) t with
  | some (v, r) => if (skipWs r).isEmpty then some v else none
  | none => none

def get? (kvs : List (Text × Json)) (k : String) : Option Json := (kvs.find? (·.1 == k.toList)).map (·.2)

/-- serde rejects an object in which a field the struct knows occurs twice -/
def dupField (kvs : List (Text × Json)) (fields : List String) : Bool :=
  fields.any fun f => (kvs.filter (·.1 == f.toList)).length > 1

end Json
end Vlsp
